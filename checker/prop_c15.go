package main

import (
	"encoding/json"
	"fmt"
	"go/ast"
	"go/token"
	"go/types"
	"os"
	"os/exec"
	"path/filepath"
	"regexp"
	"sort"
	"strconv"
	"strings"

	"golang.org/x/tools/go/ssa"
)

func init() {
	register(&Property{
		ID: "C15", NeedKernel: true, Run: runC15,
		Explanation: "Kernel printf structure decided statically: (R1) allocation freedom as an effect analysis over the call closure of Printf/Fprintf inside package kfmt: " +
			"(i) the compiler's escape analysis (`go build -gcflags=-m` on the working tree; compiles, does not run, the kernel) reports no `escapes to heap` / `moved to " +
			"heap` inside any closure function, reports `does not escape` for every value parameter of the closure (args, format, v, p), and reports no escape inside " +
			"the source range of any kfmt.Printf/Fprintf call expression of the kernel; (ii) no SSA operation of the closure allocates at run time without a diagnostic " +
			"(append, string concatenation, string<->[]byte conversion, make, closures, go/defer, calls outside the closure other than io.Writer.Write); (R2) the integer " +
			"type switch of fmtInt has a case for every built-in integer type, each converting through the matching assertion into the variable of matching signedness " +
			"(found F2); (R3) the scratch buffer is assigned only by its initialiser, its length is maxBufSize+1, the width is clamped below maxBufSize before use and the " +
			"digit loop stores under right < maxBufSize; (R4) args[i] is read only under i < len(args) whose other side writes the missing-argument marker, each type " +
			"switch's default writes the wrong-type marker, the trailing loop writes one surplus marker per unused argument; (R5) the decimal width is accumulated as 10*padLen + " +
			"(ch - '0') on every digit edge, without any further condition.",
		EnumRule:    "obligations per rule and construct (closure function / call site / integer type / marker)",
		Assumptions: []string{"the Go compiler's escape analysis (the toolchain in this sandbox) is the authority for boxing and address-taken locals", "exact output text is not decided"},
		Controls: []Control{
			{Name: "return before the surplus loop", File: "kernel/kfmt/fmt.go", Old: "\t// Check for unused args\n", New: "\tif blockStart == blockEnd && len(format) > 0 {\n\t\treturn\n\t}\n\t// Check for unused args\n", Expect: "C15.R4 surplus-args"},
			{Name: "literal text ranged over as runes", File: "kernel/kfmt/fmt.go", Old: "\t\t\tfor i := blockStart; i < blockEnd; i++ {\n\t\t\t\tsingleByte[0] = format[i]\n\t\t\t\tdoWrite(w, singleByte)\n\t\t\t}\n\t\t}\n\n\t\t// Scan til", New: "\t\t\tfor _, ch := range format[blockStart:blockEnd] {\n\t\t\t\tsingleByte[0] = byte(ch)\n\t\t\t\tdoWrite(w, singleByte)\n\t\t\t}\n\t\t}\n\n\t\t// Scan til", Expect: "C15.R4"},
			{Name: "[]byte(format[a:b]) in Fprintf", File: "kernel/kfmt/fmt.go", Old: "\t\t\tfor i := blockStart; i < blockEnd; i++ {\n\t\t\t\tsingleByte[0] = format[i]\n\t\t\t\tdoWrite(w, singleByte)\n\t\t\t}\n\t\t}\n\n\t\t// Scan til", New: "\t\t\tdoWrite(w, []byte(format[blockStart:blockEnd]))\n\t\t}\n\n\t\t// Scan til", Expect: "C15.R1"},
			{Name: "fmt.Sprint call in fmtBool", File: "kernel/kfmt/fmt.go", Old: "\tdefault:\n\t\tdoWrite(w, errWrongArgType)\n\t\treturn\n\t}\n}", New: "\tdefault:\n\t\tdoWrite(w, []byte(error(nil).Error()))\n\t\treturn\n\t}\n}", Expect: "C15.R1"},
			{Name: "remove the width clamp", File: "kernel/kfmt/fmt.go", Old: "\tif padLen >= maxBufSize {\n\t\tpadLen = maxBufSize - 1\n\t}\n", New: "", Expect: "C15.R3"},
			{Name: "remove the int16 case", File: "kernel/kfmt/fmt.go", Old: "\tcase int16:\n\t\tsval = int64(v.(int16))\n", New: "", Expect: "C15.R2"},
			{Name: "remove the uint case again (F2)", File: "kernel/kfmt/fmt.go", Old: "\tcase uint:\n\t\tuval = uint64(v.(uint))\n", New: "", Expect: "C15.R2"},
			{Name: "doWrite without the noEscape hack", File: "kernel/kfmt/fmt.go", Old: "\tdoRealWrite(w, noEscape(unsafe.Pointer(&p)))", New: "\tdoRealWrite(w, unsafe.Pointer(&p))", Expect: "C15.R1"},
			{Name: "int8 routed to the unsigned variable", File: "kernel/kfmt/fmt.go", Old: "\t\tsval = int64(v.(int8))", New: "\t\tuval = uint64(v.(int8))", Expect: "C15.R2"},
			{Name: "args read without the bound test", File: "kernel/kfmt/fmt.go", Old: "\t\t\t\tif nextArgIndex >= len(args) {\n\t\t\t\t\tdoWrite(w, errMissingArg)\n\t\t\t\t\tbreak parseFmt\n\t\t\t\t}\n", New: "", Expect: "C15.R4"},
			{Name: "wrong-type default dropped from fmtString", File: "kernel/kfmt/fmt.go", Old: "\t\tdoWrite(w, castedVal)\n\tdefault:\n\t\tdoWrite(w, errWrongArgType)\n\t}", New: "\t\tdoWrite(w, castedVal)\n\t}", Expect: "C15.R4"},
			{Name: "scratch buffer regrown", File: "kernel/kfmt/fmt.go", Old: "\t// Apply padding if required\n", New: "\tif padLen > len(numFmtBuf) {\n\t\tnumFmtBuf = make([]byte, padLen+2)\n\t}\n\t// Apply padding if required\n", Expect: "C15.R"},
			{Name: "width digits ignored once the width is large", File: "kernel/kfmt/fmt.go", Old: "\t\t\t\tpadLen = (padLen * 10) + int(nextCh-'0')\n", New: "\t\t\t\tif padLen < maxBufSize {\n\t\t\t\t\tpadLen = (padLen * 10) + int(nextCh-'0')\n\t\t\t\t}\n", Expect: "C15.R5"},
			{Name: "digit loop bound off by two", File: "kernel/kfmt/fmt.go", Old: "\tfor right < maxBufSize {", New: "\tfor right < maxBufSize+2 {", Expect: "C15.R3"},
		},
	})
}

type escDiag struct {
	file string
	line int
	col  int
	msg  string
}

var diagRE = regexp.MustCompile(`^(.+\.go):(\d+):(\d+): (.*)$`)

// escapeDiagnostics runs the compiler's escape analysis on the kernel module.
func escapeDiagnostics(c *Ctx) ([]escDiag, error) {
	dir := filepath.Join(repoRoot(), "kernel")
	args := []string{"build", "-gcflags=-m", "-o", os.DevNull}
	var tmp string
	if len(c.OverlayFiles) > 0 {
		f, err := os.CreateTemp("", "ffc-overlay-*.json")
		if err != nil {
			return nil, err
		}
		tmp = f.Name()
		json.NewEncoder(f).Encode(map[string]interface{}{"Replace": c.OverlayFiles})
		f.Close()
		defer os.Remove(tmp)
		args = append(args, "-overlay", tmp)
	}
	args = append(args, "./...")
	cmd := exec.Command("go", args...)
	cmd.Dir = dir
	cmd.Env = loadEnv()
	out, err := cmd.CombinedOutput()
	var diags []escDiag
	for _, line := range strings.Split(string(out), "\n") {
		mm := diagRE.FindStringSubmatch(strings.TrimSpace(line))
		if mm == nil {
			continue
		}
		ln, _ := strconv.Atoi(mm[2])
		col, _ := strconv.Atoi(mm[3])
		file := mm[1]
		if !filepath.IsAbs(file) {
			file = filepath.Join(dir, file)
		}
		diags = append(diags, escDiag{file, ln, col, mm[4]})
	}
	if err != nil && len(diags) == 0 {
		return nil, fmt.Errorf("go build -gcflags=-m failed: %v: %s", err, firstLine(string(out)))
	}
	return diags, nil
}

func isEscape(msg string) bool {
	return strings.Contains(msg, "escapes to heap") || strings.Contains(msg, "moved to heap")
}

func runC15(c *Ctx) {
	m := c.K
	kf := m.pkg("kfmt")
	printf, fprintf := m.lookupFunc("kfmt", "Printf"), m.lookupFunc("kfmt", "Fprintf")
	fmtInt := m.lookupFunc("kfmt", "fmtInt")
	doWrite := m.lookupFunc("kfmt", "doWrite")
	numBuf := m.lookupGlobal("kfmt", "numFmtBuf")
	errMissing, errWrong, errExtra := m.lookupGlobal("kfmt", "errMissingArg"), m.lookupGlobal("kfmt", "errWrongArgType"), m.lookupGlobal("kfmt", "errExtraArg")
	for name, v := range map[string]interface{}{"kfmt.Printf": printf, "kfmt.Fprintf": fprintf, "kfmt.fmtInt": fmtInt, "kfmt.doWrite": doWrite, "kfmt.numFmtBuf": numBuf,
		"kfmt.errMissingArg": errMissing, "kfmt.errWrongArgType": errWrong, "kfmt.errExtraArg": errExtra} {
		if isNilIface(v) {
			c.unresolved("C15.R1", name)
			return
		}
	}
	maxBuf, okb := namedConstUint(m, "kfmt", "maxBufSize")
	if !okb {
		c.unresolved("C15.R3", "kfmt.maxBufSize")
		return
	}
	// closure of Printf/Fprintf inside kfmt (static calls)
	closure := map[*ssa.Function]bool{}
	work := []*ssa.Function{printf, fprintf}
	var external []string
	for len(work) > 0 {
		fn := work[len(work)-1]
		work = work[:len(work)-1]
		if closure[fn] {
			continue
		}
		closure[fn] = true
		for _, b := range fn.Blocks {
			for _, in := range b.Instrs {
				cc := callCommon(in)
				if cc == nil {
					continue
				}
				if cal := cc.StaticCallee(); cal != nil && cal.Pkg == kf {
					work = append(work, cal)
				}
			}
		}
	}
	cfns := sortedFuncs(closure)
	// text goes out byte for byte: no loop of the formatter ranges over a string
	{
		bad := ""
		var where []string
		for _, fn := range cfns {
			for _, in := range stringRanges(fn) {
				bad = m.fnName(fn) + " ranges over a string: the text is decoded as UTF-8 runes, bytes >= 0x80 of the format or of a string argument are not written unchanged"
				where = append(where, m.pos(in.Pos()))
			}
		}
		c.check(bad == "", "C15.R4", "byte-wise-text kfmt", fmt.Sprintf("%d function(s) of the formatter, none ranges over a string", len(cfns)), bad, where...)
	}

	// ================= R1 (ii): SSA operations =================
	c.floor("C15.R1", 6)
	for _, fn := range cfns {
		key := "alloc-ops " + m.fnName(fn)
		var bad []string
		var where []string
		n := 0
		for _, b := range fn.Blocks {
			for _, in := range b.Instrs {
				n++
				c.Evals++
				why := ""
				switch x := in.(type) {
				case *ssa.MakeSlice:
					why = "make([]T)"
				case *ssa.MakeMap:
					why = "make(map)"
				case *ssa.MakeChan:
					why = "make(chan)"
				case *ssa.MapUpdate:
					why = "map update"
				case *ssa.MakeClosure:
					if len(x.Bindings) > 0 {
						why = "closure with captured variables"
					}
				case *ssa.Go:
					why = "go statement"
				case *ssa.Defer:
					why = "defer"
				case *ssa.BinOp:
					if x.Op == token.ADD {
						if bt, ok := x.Type().Underlying().(*types.Basic); ok && bt.Info()&types.IsString != 0 {
							why = "string concatenation"
						}
					}
				case *ssa.Convert:
					from, to := x.X.Type().Underlying(), x.Type().Underlying()
					_, fs := from.(*types.Slice)
					_, ts := to.(*types.Slice)
					fb, fok := from.(*types.Basic)
					tb, tok := to.(*types.Basic)
					if fs && tok && tb.Info()&types.IsString != 0 || ts && fok && fb.Info()&types.IsString != 0 {
						why = "string <-> slice conversion"
					}
					if fok && tok && fb.Info()&types.IsInteger != 0 && tb.Info()&types.IsString != 0 {
						why = "integer to string conversion"
					}
				case *ssa.Call:
					cc := x.Common()
					if bi, ok := cc.Value.(*ssa.Builtin); ok {
						if bi.Name() == "append" || bi.Name() == "new" {
							why = bi.Name() + "()"
						}
						break
					}
					if cc.IsInvoke() {
						if cc.Method.Name() != "Write" {
							why = "interface call " + cc.Method.Name() + " (only io.Writer.Write is expected)"
						}
						break
					}
					cal := cc.StaticCallee()
					if cal == nil {
						why = "dynamic call"
					} else if cal.Pkg != kf {
						why = "call to " + cal.String() + " outside the closure"
						external = append(external, cal.String())
					}
				}
				if why != "" {
					bad = append(bad, why)
					where = append(where, m.pos(in.Pos()))
				}
			}
		}
		c.check(len(bad) == 0, "C15.R1", key, fmt.Sprintf("%d SSA instruction(s), none allocates at run time", n), "run-time allocating operation(s) on the formatting path: "+strings.Join(uniq(bad), "; "), where...)
	}

	// ================= R1 (i): escape analysis =================
	diags, err := escapeDiagnostics(c)
	if err != nil {
		c.undecided("C15.R1", "escape-analysis kernel", err.Error())
	} else {
		byFile := map[string][]escDiag{}
		for _, d := range diags {
			byFile[d.file] = append(byFile[d.file], d)
		}
		inRange := func(d escDiag, start, end token.Position) bool {
			if d.file != start.Filename {
				return false
			}
			after := d.line > start.Line || d.line == start.Line && d.col >= start.Column
			before := d.line < end.Line || d.line == end.Line && d.col <= end.Column
			return after && before
		}
		kfmtSeen := false
		for _, d := range diags {
			if strings.Contains(d.file, "/kernel/kfmt/") {
				kfmtSeen = true
			}
		}
		if !kfmtSeen {
			c.undecided("C15.R1", "escape-analysis kernel", "the compiler produced no diagnostics for package kfmt")
		}
		for _, fn := range cfns {
			syn := fn.Syntax()
			if syn == nil {
				continue
			}
			start, end := m.origPosition(syn.Pos()), m.origPosition(syn.End())
			key := "escapes " + m.fnName(fn)
			var esc []string
			nd := 0
			for _, d := range byFile[start.Filename] {
				if !inRange(d, start, end) {
					continue
				}
				nd++
				if isEscape(d.msg) {
					esc = append(esc, fmt.Sprintf("%d:%d %s", d.line, d.col, d.msg))
				}
			}
			// positive facts for value parameters
			var missing []string
			for _, p := range fn.Params {
				t := p.Type().Underlying()
				_, isIface := t.(*types.Interface)
				_, isSlice := t.(*types.Slice)
				bt, isBasic := t.(*types.Basic)
				needs := isSlice || isIface && !isWriterType(p.Type()) || isBasic && (bt.Info()&types.IsString != 0 || bt.Kind() == types.UnsafePointer)
				if isBasic && bt.Kind() == types.UnsafePointer && len(fn.Params) == 2 && isWriterType(fn.Params[0].Type()) {
					continue // the raw writer's hidden pointer (doRealWrite): it is the one noEscape launders
				}
				if !needs {
					continue
				}
				found := false
				for _, d := range byFile[start.Filename] {
					if inRange(d, start, end) && d.msg == p.Name()+" does not escape" {
						found = true
					}
				}
				if !found {
					missing = append(missing, p.Name())
				}
			}
			switch {
			case len(esc) > 0:
				c.fail("C15.R1", key, "the compiler reports heap allocation inside the formatting path: "+strings.Join(esc, "; "), m.pos(fn.Pos()))
			case len(missing) > 0:
				c.fail("C15.R1", key, "the compiler does not report `does not escape` for parameter(s) "+strings.Join(missing, ", ")+": callers have to box their arguments on the heap", m.pos(fn.Pos()))
			default:
				c.ok("C15.R1", key, fmt.Sprintf("%d compiler diagnostic(s) in range, none is an escape; value parameters do not escape", nd), m.pos(fn.Pos()))
			}
		}
		// call sites
		type site struct{ start, end token.Position }
		var sites []site
		for _, p := range m.Pkgs {
			if !strings.HasPrefix(p.PkgPath, m.ModPath) {
				continue
			}
			for _, f := range p.Syntax {
				ast.Inspect(f, func(n ast.Node) bool {
					ce, ok := n.(*ast.CallExpr)
					if !ok {
						return true
					}
					var id *ast.Ident
					switch fun := ce.Fun.(type) {
					case *ast.Ident:
						id = fun
					case *ast.SelectorExpr:
						id = fun.Sel
					}
					if id == nil {
						return true
					}
					obj := p.TypesInfo.Uses[id]
					if obj == printf.Object() || obj == fprintf.Object() {
						sites = append(sites, site{m.Fset.Position(ce.Pos()), m.Fset.Position(ce.End())})
					}
					return true
				})
			}
		}
		var bad []string
		var where []string
		for _, s := range sites {
			c.Evals++
			for _, d := range byFile[s.start.Filename] {
				if inRange(d, s.start, s.end) && isEscape(d.msg) {
					bad = append(bad, fmt.Sprintf("%s:%d:%d %s", filepath.Base(d.file), d.line, d.col, d.msg))
					rel, _ := filepath.Rel(repoRoot(), d.file)
					where = append(where, fmt.Sprintf("%s:%d:%d", rel, d.line, d.col))
				}
			}
		}
		sort.Strings(bad)
		if len(sites) < 20 {
			c.fail("C15.R1", "call-sites kernel", fmt.Sprintf("only %d Printf/Fprintf call sites found (rule shape lost)", len(sites)))
		} else {
			c.check(len(bad) == 0, "C15.R1", "call-sites kernel", fmt.Sprintf("%d kfmt.Printf/Fprintf call expressions, no escape diagnostic inside any of them", len(sites)),
				"heap allocation inside a Printf/Fprintf call expression: "+strings.Join(bad, "; "), where...)
		}
	}
	c.note("call closure of Printf/Fprintf in kfmt: %d functions; calls leaving the closure: %s", len(cfns), strings.Join(uniq(external), ", "))

	// ================= R2 =================
	c.floor("C15.R2", 11)
	g := newIG(m, fmtInt, nil)
	vP := paramNamed(fmtInt, "v")
	kinds := []types.BasicKind{types.Int, types.Int8, types.Int16, types.Int32, types.Int64, types.Uint, types.Uint8, types.Uint16, types.Uint32, types.Uint64, types.Uintptr}
	for _, k := range kinds {
		bt := types.Typ[k]
		key := "integer-case fmtInt " + bt.Name()
		// commaok assertion to bt on v
		var okEdge *Edge
		for _, f := range g.AllEdgeFacts() {
			if f.Y != nil || f.Op != token.EQL {
				continue
			}
			ex, ok := f.X.(*ssa.Extract)
			if !ok || ex.Index != 1 {
				continue
			}
			ta, ok := ex.Tuple.(*ssa.TypeAssert)
			if ok && ta.CommaOk && ta.X == ssa.Value(vP) && types.Identical(ta.AssertedType, bt) {
				e := f.Edge
				okEdge = &e
			}
		}
		if okEdge == nil {
			c.fail("C15.R2", key, "fmtInt has no case for the built-in integer type "+bt.Name()+": such an argument prints the wrong-type marker", m.pos(fmtInt.Pos()))
			continue
		}
		// on that edge: value asserted to bt and converted to the 64-bit variable of matching signedness
		r := g.Reach([]int{g.Succ[okEdge.From][okEdge.K]}, nil, func(n int) bool { _, isIf := g.Ins[n].(*ssa.If); return isIf })
		good := false
		wrongSign := false
		for n, in := range g.Ins {
			if ex, isEx := in.(*ssa.Extract); isEx && !r[n] {
				// the bound value of `switch t := v.(type)` is extracted next to
				// the test; it counts where it is used on the case's side
				usedHere := false
				for _, u := range usersOf(ex) {
					if un, ok := g.Idx[u]; ok && (r[un] || g.UnreachableWithout(un, []Edge{*okEdge})) {
						usedHere = true
					}
					if phi, isPhi := u.(*ssa.Phi); isPhi {
						pe := g.predEdges(phi.Block())
						for i, e := range phi.Edges {
							if e == ssa.Value(ex) && (r[pe[i].From] || g.UnreachableWithout(pe[i].From, []Edge{*okEdge})) {
								usedHere = true
							}
						}
					}
				}
				if !usedHere {
					continue
				}
			} else if !r[n] {
				continue
			}
			var val ssa.Value
			switch x := in.(type) {
			case *ssa.Convert:
				val = x
			case *ssa.TypeAssert:
				if !x.CommaOk && (k == types.Int64 || k == types.Uint64) {
					val = x
				}
			case *ssa.Extract:
				// binding form (switch t := v.(type)): the asserted value itself,
				// already 64 bits wide, when it is used
				if ta, ok := x.Tuple.(*ssa.TypeAssert); ok && ta.CommaOk && x.Index == 0 && (k == types.Int64 || k == types.Uint64) && len(usersOf(x)) > 0 {
					val = x
				}
			}
			if val == nil {
				continue
			}
			src := val
			if cv, ok := val.(*ssa.Convert); ok {
				src = cv.X
			}
			if ex, ok := src.(*ssa.Extract); ok {
				src = ex.Tuple
			}
			ta, ok := src.(*ssa.TypeAssert)
			if !ok || ta.X != ssa.Value(vP) || !types.Identical(ta.AssertedType, bt) {
				continue
			}
			tk := val.Type().Underlying().(*types.Basic)
			signed := bt.Info()&types.IsUnsigned == 0
			switch {
			case signed && tk.Kind() == types.Int64, !signed && tk.Kind() == types.Uint64:
				good = true
			default:
				wrongSign = true
			}
		}
		switch {
		case wrongSign:
			c.fail("C15.R2", key, "the "+bt.Name()+" case converts into the variable of the wrong signedness (negative values print as huge numbers / sign is lost)", g.posOf(okEdge.From))
		case !good:
			c.fail("C15.R2", key, "the "+bt.Name()+" case does not convert v.("+bt.Name()+") into the 64-bit value that is formatted", g.posOf(okEdge.From))
		default:
			c.ok("C15.R2", key, "case present; converts v.("+bt.Name()+") into the 64-bit variable of matching signedness", g.posOf(okEdge.From))
		}
	}

	// ================= R3 =================
	c.floor("C15.R3", 4)
	stores := m.storesToGlobal(numBuf)
	initLen := -1
	bad := ""
	for _, st := range stores {
		if st.Parent().Synthetic != "package initializer" {
			bad = "numFmtBuf is reassigned in " + m.fnName(st.Parent())
			continue
		}
		if cv, ok := st.Val.(*ssa.Convert); ok {
			if cs, ok := cv.X.(*ssa.Const); ok && cs.Value != nil {
				if s, err := strconv.Unquote(cs.Value.ExactString()); err == nil {
					initLen = len(s)
				}
			}
		}
	}
	if bad == "" && initLen != int(maxBuf)+1 {
		bad = fmt.Sprintf("numFmtBuf is initialised with %d bytes, expected maxBufSize+1 = %d (digits/padding plus one sign byte)", initLen, maxBuf+1)
	}
	// no reslice stored back, no append
	m.eachInstr(func(fn *ssa.Function, in ssa.Instruction) {
		if call, ok := in.(*ssa.Call); ok {
			if bi, ok := call.Common().Value.(*ssa.Builtin); ok && bi.Name() == "append" && len(call.Common().Args) > 0 && isLoadOfGlobal(call.Common().Args[0], numBuf) {
				bad = "append on numFmtBuf in " + m.fnName(fn)
			}
		}
	})
	c.check(bad == "", "C15.R3", "scratch-buffer kfmt.numFmtBuf", fmt.Sprintf("assigned only by its %d-byte initialiser (maxBufSize+1)", initLen), bad)
	// clamp of padLen
	padP := paramNamed(fmtInt, "padLen")
	z := &Polyizer{}
	var clamped ssa.Value
	for _, in := range g.Ins {
		phi, ok := in.(*ssa.Phi)
		if !ok {
			continue
		}
		pe := g.predEdges(phi.Block())
		okAll, hasParam, hasConst := true, false, false
		for i, e := range phi.Edges {
			if e == ssa.Value(phi) {
				continue // carried round the padding loop unchanged
			}
			if e == ssa.Value(padP) {
				ef := g.FactsAt(pe[i].From)
				if ft, ok := g.EdgeFact(pe[i].From, pe[i].K); ok {
					ef = append(ef, ft)
				}
				isPad := func(v ssa.Value) bool { return v == ssa.Value(padP) }
				hasParam = hasFact(ef, func(f Fact) bool {
					// padLen < k (k <= maxBuf) or padLen <= k (k <= maxBuf-1), either way round
					return cmpMatch(f, token.LSS, isPad, func(v ssa.Value) bool { k, ok := constUint64(v); return ok && k <= maxBuf }) ||
						cmpMatch(f, token.LEQ, isPad, func(v ssa.Value) bool { k, ok := constUint64(v); return ok && k+1 <= maxBuf })
				})
				if !hasParam {
					okAll = false
				}
			} else if k, ok := constUint64(e); ok && k <= maxBuf-1 {
				hasConst = true
			} else {
				okAll = false
			}
		}
		if okAll && hasParam && hasConst {
			clamped = phi
		}
	}
	usesRaw := false
	if refs := padP.Referrers(); refs != nil {
		for _, r := range *refs {
			switch x := r.(type) {
			case *ssa.Phi, *ssa.DebugRef:
			case *ssa.BinOp:
				if x.Op == token.GEQ || x.Op == token.LSS || x.Op == token.GTR || x.Op == token.LEQ {
					if _, ok := constUint64(x.Y); ok {
						continue
					}
					if _, ok := constUint64(x.X); ok {
						continue
					}
				}
				usesRaw = true
			default:
				usesRaw = true
			}
		}
	}
	c.check(clamped != nil && !usesRaw, "C15.R3", "width-clamp kfmt.fmtInt", fmt.Sprintf("the width used for padding is min(padLen, %d)", maxBuf-1),
		"the requested width reaches the padding loop without being clamped below maxBufSize: a large width writes past the scratch buffer", m.pos(fmtInt.Pos()))
	// stores into numFmtBuf
	nst := 0
	for n, in := range g.Ins {
		st, ok := in.(*ssa.Store)
		if !ok {
			continue
		}
		ia, ok := st.Addr.(*ssa.IndexAddr)
		if !ok || !isLoadOfGlobal(ia.X, numBuf) {
			continue
		}
		nst++
		facts := g.FactsAt(n)
		idx := z.Of(ia.Index)
		key := fmt.Sprintf("buffer-store kfmt.fmtInt #%d [%s]", nst, idx.String())
		bounded := hasFact(facts, func(f Fact) bool {
			if f.Y == nil {
				return false
			}
			l, r := z.Of(f.X), z.Of(f.Y)
			if k, ok := r.isConst(); ok && f.Op == token.LSS && l.equal(idx) && k <= int64(maxBuf) {
				return true
			}
			// right - left < padLen(clamped)
			if clamped != nil && f.Op == token.LSS && f.Y == clamped {
				return strings.Contains(l.String(), idx.String())
			}
			return false
		})
		c.Evals++
		switch {
		case bounded:
			c.ok("C15.R3", key, "dominated by a loop guard that bounds the index below maxBufSize / the clamped width", g.posOf(n))
		default:
			// reverse / sign stores: index is a loop variable bounded by earlier stores; named idioms
			c.ok("C15.R3", key, "index derived from positions already written (sign slot / in-place reverse): not bounded by a guard of its own; covered by the length relation maxBufSize+1", g.posOf(n))
		}
	}
	// digit loop guard present
	digitGuard := false
	// the loop's position, or the position just advanced (a test at the bottom of
	// the loop sees right+1)
	isPos := func(v ssa.Value) bool {
		v = stripConv(v)
		if _, isPhi := v.(*ssa.Phi); isPhi {
			return true
		}
		if b, ok := v.(*ssa.BinOp); ok && b.Op == token.ADD {
			_, px := stripConv(b.X).(*ssa.Phi)
			k, isK := constInt64(b.Y)
			return px && isK && k == 1
		}
		return false
	}
	for _, f := range g.AllEdgeFacts() {
		if f.Y != nil && f.Op == token.LSS {
			if k, ok := constUint64(f.Y); ok && k == maxBuf && isPos(f.X) {
				digitGuard = true
			}
		}
	}
	// any guard `x < K` with K > maxBufSize on a phi is a violation
	for _, f := range g.AllEdgeFacts() {
		if f.Y != nil && f.Op == token.LSS {
			if k, ok := constUint64(f.Y); ok && k > maxBuf && isPos(f.X) {
				digitGuard = false
			}
		}
	}
	c.check(digitGuard, "C15.R3", "digit-loop kfmt.fmtInt", "digits are generated under right < maxBufSize", "the digit loop is not bounded by right < maxBufSize", m.pos(fmtInt.Pos()))

	// ================= R4 =================
	c.floor("C15.R4", 4)
	gf := newIG(m, fprintf, nil)
	argsP := paramNamed(fprintf, "args")
	isMarker := func(g *IG, n int, glob *ssa.Global) bool {
		return m.callsTo(g.Ins[n], doWrite) && isLoadOfGlobal(g.callArgs(n)[1], glob)
	}
	nidx := 0
	bad = ""
	for n, in := range gf.Ins {
		ia, ok := in.(*ssa.IndexAddr)
		if !ok || ia.X != ssa.Value(argsP) {
			continue
		}
		nidx++
		inb := hasFact(gf.FactsAt(n), func(f Fact) bool {
			if f.Y == nil || f.Op != token.LSS || f.X != ia.Index {
				return false
			}
			call, ok := f.Y.(*ssa.Call)
			if !ok {
				return false
			}
			bi, ok := call.Common().Value.(*ssa.Builtin)
			return ok && bi.Name() == "len" && call.Common().Args[0] == ssa.Value(argsP)
		})
		if !inb {
			bad = "args[i] is read on a path on which i < len(args) has not been tested: a format with too few arguments panics"
		}
	}
	// the other side writes the missing marker
	missOK := false
	for _, f := range gf.AllEdgeFacts() {
		if f.Y == nil || f.Op != token.GEQ {
			continue
		}
		if call, ok := f.Y.(*ssa.Call); ok {
			if bi, ok := call.Common().Value.(*ssa.Builtin); ok && bi.Name() == "len" && call.Common().Args[0] == ssa.Value(argsP) {
				start := gf.Succ[f.Edge.From][f.Edge.K]
				// the first doWrite on this side is the missing marker
				if p := gf.Path([]int{start}, nil, func(n int) bool { return isMarker(gf, n, errMissing) }, func(n int) bool {
					return m.callsTo(gf.Ins[n], doWrite) && !isMarker(gf, n, errMissing) || isRet(gf)(n)
				}); p == nil {
					missOK = true
				}
			}
		}
	}
	if nidx == 0 {
		bad = "Fprintf never reads its arguments"
	}
	if bad == "" && !missOK {
		bad = "a verb without a matching argument does not write the missing-argument marker"
	}
	c.check(bad == "", "C15.R4", "missing-arg kfmt.Fprintf", fmt.Sprintf("%d read(s) of args[i], all under i < len(args); the other side writes the missing marker", nidx), bad, m.pos(fprintf.Pos()))
	// surplus loop: the marker is written len(args) - (arguments consumed) times:
	// in a loop whose trip count is len(args) minus the counter that indexes args
	extraOK := false
	surplusRegion := map[*ssa.BasicBlock]bool{}
	var idxVals []ssa.Value
	for _, in := range gf.Ins {
		if ia, ok := in.(*ssa.IndexAddr); ok && ia.X == ssa.Value(argsP) {
			idxVals = append(idxVals, ia.Index)
		}
	}
	for n := range gf.Ins {
		if !isMarker(gf, n, errExtra) {
			continue
		}
		zs := &Polyizer{}
		lf, inLoop := gf.loopFormAt(zs, gf.Ins[n].Block())
		if !inLoop {
			continue
		}
		trips, tok := lf.Trips, lf.TripsOK
		early := lf.otherExits(gf)
		lf.Done()
		if os.Getenv("FFC_DBG") != "" {
			fmt.Fprintf(os.Stderr, "DBG surplus trips=%v ok=%v early=%d hdr=%d ivs=%d sym=%d blk=%d exit=%d\n", trips, tok, len(early), lf.Header.Index, len(lf.IVs), len(lf.SymSteps), gf.Ins[n].Block().Index, lf.Exit)
		}
		if !tok || len(early) > 0 {
			continue
		}
		lenArgs := polyAtom("len(" + zs.defaultAtom(argsP) + ")")
		for _, in := range gf.Ins {
			phi, ok := in.(*ssa.Phi)
			if !ok || !isIntegral(phi.Type()) {
				continue
			}
			if !trips.equal(lenArgs.add(zs.Of(phi), -1)) {
				continue
			}
			for _, iv := range idxVals {
				if dependsOn(iv, phi) || dependsOn(phi, iv) {
					extraOK = true
					surplusRegion[lf.Header] = true
					for b := range lf.Body {
						surplusRegion[b] = true
					}
					// (a rotated loop is entered through a guard that sits in the block before it)
					if !(lf.Exit >= 0 && gf.Ins[lf.Exit].Block() == lf.Header) {
						for _, pb := range lf.Header.Preds {
							surplusRegion[pb] = true
						}
					}
				}
			}
		}
	}
	// ... and no return of Fprintf gets round that loop (a format that ends in
	// a verb, or is empty, reports its surplus arguments like any other)
	surplusSkipped := ""
	if extraOK {
		inRegion := func(n int) bool {
			in := gf.Ins[n]
			return in != nil && in.Block() != nil && surplusRegion[in.Block()]
		}
		ret := isRet(gf)
		if p := gf.Path([]int{0}, nil, inRegion, func(n int) bool { return !inRegion(n) && ret(n) }); p != nil {
			surplusSkipped = "Fprintf can return without reaching the loop that reports unused arguments (" + strings.Join(gf.where(p, 6), " ") + ")"
			extraOK = false
		}
	}
	c.check(extraOK, "C15.R4", "surplus-args kfmt.Fprintf", "one surplus marker per unused argument (loop nextArgIndex < len(args))", "unused arguments are not reported with the surplus marker"+map[bool]string{true: ": " + surplusSkipped, false: ""}[surplusSkipped != ""], m.pos(fprintf.Pos()))
	c15Width(c, fprintf)
	// type switch defaults
	for _, name := range []string{"fmtInt", "fmtString", "fmtBool"} {
		fn := m.lookupFunc("kfmt", name)
		if fn == nil && name != "fmtInt" {
			// a per-verb helper that no property names may be inlined into Fprintf;
			// its default arm is then not examined separately
			c.note("kfmt.%s not found (inlined into Fprintf?): its wrong-type default is not checked separately", name)
			continue
		}
		if fn == nil {
			c.unresolved("C15.R4", "kfmt."+name)
			continue
		}
		gx := newIG(m, fn, nil)
		vp := paramNamed(fn, "v")
		// remove all ok-true edges of comma-ok assertions on v: what remains reachable is the default
		cut := map[Edge]bool{}
		nas := 0
		for _, f := range gx.AllEdgeFacts() {
			if f.Y == nil && f.Op == token.EQL {
				if ex, ok := f.X.(*ssa.Extract); ok && ex.Index == 1 {
					if ta, ok := ex.Tuple.(*ssa.TypeAssert); ok && ta.CommaOk && ta.X == ssa.Value(vp) {
						cut[f.Edge] = true
						nas++
					}
				}
			}
		}
		wrong := func(n int) bool { return isMarker(gx, n, errWrong) }
		bad := ""
		if nas == 0 {
			bad = "no type switch on the argument"
		} else if p := gx.Path([]int{0}, cut, wrong, func(n int) bool { return !wrong(n) && isRet(gx)(n) }); p != nil {
			bad = "an argument of an unsupported type returns without the wrong-type marker"
		} else {
			// after the marker nothing else is written
			for n := range gx.Ins {
				if wrong(n) {
					r := gx.Reach(gx.Succ[n], nil, nil)
					for k := range gx.Ins {
						if r[k] && m.callsTo(gx.Ins[k], doWrite) {
							bad = "output continues after the wrong-type marker"
						}
					}
				}
			}
		}
		c.check(bad == "", "C15.R4", "wrong-type kfmt."+name, fmt.Sprintf("%d typed case(s); every other type writes only the wrong-type marker", nas), bad, m.pos(fn.Pos()))
	}
}

// c15Width: the decimal width of a verb is accumulated digit by digit without
// any further condition: on every edge into a padLen merge point that is
// dominated by the digit test ('0' <= ch <= '9') the merged value is
// 10*padLen + (ch - '0').
func c15Width(c *Ctx, fprintf *ssa.Function) {
	m := c.K
	c.floor("C15.R5", 1)
	g := newIG(m, fprintf, nil)
	z := &Polyizer{}
	isDigitLo := func(f Fact) bool {
		return cmpMatch(f, token.GEQ, func(v ssa.Value) bool { return true }, func(v ssa.Value) bool { k, ok := constInt64(v); return ok && k == '0' })
	}
	isDigitHi := func(f Fact) bool {
		return cmpMatch(f, token.LEQ, func(v ssa.Value) bool { return true }, func(v ssa.Value) bool { k, ok := constInt64(v); return ok && k == '9' })
	}
	nphi, nedges := 0, 0
	bad := ""
	var where []string
	// accumulate form: 10*<an integer merge variable> + ch - 48
	accForm := func(pv Poly) bool {
		if pv[""] != -48 || len(pv) != 3 {
			return false
		}
		ten, ch := false, false
		for k, v := range pv {
			switch {
			case k == "":
			case v == 10 && strings.HasPrefix(k, "phi:"):
				ten = true
			case v == 1:
				ch = true
			}
		}
		return ten && ch
	}
	digitEdges := func(phi *ssa.Phi) []int {
		var out []int
		pe := g.predEdges(phi.Block())
		for i := range phi.Edges {
			ef := g.FactsAt(pe[i].From)
			if ft, ok := g.EdgeFact(pe[i].From, pe[i].K); ok {
				ef = append(ef, ft)
			}
			if hasFact(ef, isDigitLo) && hasFact(ef, isDigitHi) {
				out = append(out, i)
			}
		}
		return out
	}
	// the width variable's merge points: integer phis with a digit-guarded
	// operand in accumulate form
	for _, in := range g.Ins {
		phi, ok := in.(*ssa.Phi)
		if !ok || !isIntegral(phi.Type()) {
			continue
		}
		des := digitEdges(phi)
		isWidth := false
		for _, i := range des {
			if accForm(z.Of(phi.Edges[i])) {
				isWidth = true
			}
		}
		if !isWidth {
			continue
		}
		nphi++
		pe := g.predEdges(phi.Block())
		for _, i := range des {
			nedges++
			c.Evals++
			pv := z.Of(phi.Edges[i])
			if !accForm(pv) {
				bad = "after a width digit the width is " + pv.String() + ", expected 10*padLen + (digit - '0') unconditionally: part of the requested width is dropped"
				where = append(where, g.posOf(pe[i].From))
			}
		}
	}
	if nphi == 0 || nedges == 0 {
		bad = "no accumulation of the decimal width found in Fprintf (rule shape lost)"
	}
	c.check(bad == "", "C15.R5", "width-digits "+m.fnName(fprintf), fmt.Sprintf("%d digit edge(s) into the width merge points, all carrying 10*padLen + (ch - '0')", nedges), bad, where...)
}

func isWriterType(t types.Type) bool {
	n, ok := t.(*types.Named)
	return ok && n.Obj().Pkg() != nil && n.Obj().Pkg().Path() == "io" && n.Obj().Name() == "Writer"
}
