package main

// Lock typestate with callee summaries (E1), used by C09.

import (
	"fmt"
	"go/token"
	"go/types"

	"golang.org/x/tools/go/ssa"
)

const (
	stU  = 0 // lock not held by this call chain
	stL  = 1 // lock held
	stLd = 2 // lock held, release deferred
)

type lockErr struct {
	Fn    *ssa.Function
	Node  int
	Kind  string // acquire-while-held release-while-free return-while-held guarded-unlocked undecided
	Text  string
	Entry int
}

type lockResult struct {
	g        *IG
	exits    uint32
	states   []uint32
	errs     map[string]lockErr
	acquires int
	releases int
	returns  int
	guardedN int
	done     bool
}

type lockAnalysis struct {
	m         *Module
	cg        *CG
	lockField *types.Var
	acquire   *ssa.Function
	release   *ssa.Function
	try       *ssa.Function
	guarded   func(path []PE) (string, bool) // name of guarded item
	touching  map[*ssa.Function]bool
	isEntry   func(*ssa.Function) bool
	memo      map[[2]interface{}]*lockResult
	evals     int
}

// lockOpOn reports whether the call's receiver is the analysed lock field.
func (la *lockAnalysis) lockOpOn(cc *ssa.CallCommon) bool {
	if len(cc.Args) == 0 {
		return false
	}
	p := accessPath(cc.Args[0])
	f, rest := lastField(p)
	return f == la.lockField && rest == ""
}

// guardedAccess: instruction loads or stores guarded state.
func (la *lockAnalysis) guardedAccess(in ssa.Instruction) (string, bool) {
	switch x := in.(type) {
	case *ssa.Store:
		return la.guarded(accessPath(x.Addr))
	case *ssa.UnOp:
		if x.Op == token.MUL {
			return la.guarded(accessPath(x.X))
		}
	}
	return "", false
}

// computeTouching: functions that directly use the lock or the guarded state,
// closed under callers.
func (la *lockAnalysis) computeTouching() {
	la.touching = map[*ssa.Function]bool{}
	direct := map[*ssa.Function]bool{}
	la.m.eachInstr(func(fn *ssa.Function, in ssa.Instruction) {
		if cc := callCommon(in); cc != nil {
			c := la.m.callee(cc)
			if c != nil && (c == la.acquire || c == la.release || c == la.try) && la.lockOpOn(cc) {
				direct[fn] = true
			}
		}
		if _, ok := la.guardedAccess(in); ok {
			direct[fn] = true
		}
	})
	for f := range direct {
		for c := range la.cg.transitiveCallers(f, nil) {
			la.touching[c] = true
		}
	}
}

func (la *lockAnalysis) analyze(fn *ssa.Function, entry int) *lockResult {
	key := [2]interface{}{fn, entry}
	if r, ok := la.memo[key]; ok {
		if !r.done {
			// recursion: assume the recursive call preserves the state
			return &lockResult{exits: 1 << uint(entry), done: true}
		}
		return r
	}
	r := &lockResult{errs: map[string]lockErr{}}
	la.memo[key] = r
	// the typestate handles Defer / RunDefers itself
	modelDefersOn = false
	g := newIG(la.m, fn, nil)
	modelDefersOn = true
	r.g = g
	addErr := func(n int, kind, text string) {
		k := fmt.Sprintf("%d/%s", n, kind)
		r.errs[k] = lockErr{Fn: fn, Node: n, Kind: kind, Text: text, Entry: entry}
	}
	transfer := func(n int, s int) uint32 {
		la.evals++
		in := g.Ins[n]
		switch x := in.(type) {
		case *ssa.Return:
			r.exits |= 1 << uint(s)
			// Only an entry point has to give the lock back: a function called
			// with the lock held returns with it held, and a wrapper that takes
			// the lock for its caller is accounted for in the caller's flow.
			if s != stU && entry == stU && (la.isEntry == nil || la.isEntry(fn)) {
				addErr(n, "return-while-held", "function returns with the lock held")
			}
			return 0
		case *ssa.RunDefers:
			if s == stLd {
				return 1 << stU
			}
			return 1 << uint(s)
		case *ssa.Defer:
			cc := x.Common()
			c := la.m.callee(cc)
			if c == la.release && la.lockOpOn(cc) {
				if s == stL {
					return 1 << stLd
				}
				addErr(n, "release-while-free", "deferred release registered while the lock is not held")
				return 1 << uint(s)
			}
			if c != nil && la.touching[c] || c == la.acquire && la.lockOpOn(cc) {
				addErr(n, "undecided", "deferred call of a function that uses the lock or guarded state (outside the idiom table)")
			}
			return 1 << uint(s)
		case *ssa.Go:
			if c := la.m.callee(x.Common()); c != nil && la.touching[c] {
				addErr(n, "undecided", "go statement on a function that uses the lock or guarded state")
			}
			return 1 << uint(s)
		case *ssa.MakeClosure:
			if f, ok := x.Fn.(*ssa.Function); ok && la.touching[f] {
				addErr(n, "undecided", "closure that uses the lock or guarded state created inside a locked method")
			}
			return 1 << uint(s)
		case *ssa.Call:
			cc := x.Common()
			c := la.m.callee(cc)
			switch {
			case c == nil:
				if cc.IsInvoke() {
					for _, impl := range la.m.implementations(cc) {
						if la.touching[impl] {
							addErr(n, "undecided", "interface call that may reach a function using the lock")
						}
					}
				}
				return 1 << uint(s)
			case c == la.acquire && la.lockOpOn(cc):
				if s != stU {
					addErr(n, "acquire-while-held", "the lock is acquired while this call chain already holds it (self-deadlock)")
				}
				return 1 << stL
			case c == la.release && la.lockOpOn(cc):
				if s == stU {
					addErr(n, "release-while-free", "the lock is released on a path on which it is not held")
					return 1 << stU
				}
				if s == stLd {
					addErr(n, "release-while-free", "explicit release although a deferred release is pending")
				}
				return 1 << stU
			case c == la.try && la.lockOpOn(cc):
				addErr(n, "undecided", "TryToAcquire on the analysed lock (path-sensitive; outside the idiom table)")
				return 1 << uint(s)
			case la.touching[c]:
				sub := la.analyze(c, s)
				if sub.exits == 0 {
					return 0 // callee never returns
				}
				return sub.exits
			}
			return 1 << uint(s)
		}
		return 1 << uint(s)
	}
	r.states = g.Flow(1<<uint(entry), transfer)
	for n, in := range g.Ins {
		if r.states[n] == 0 {
			continue
		}
		if cc := callCommon(in); cc != nil {
			if _, isCall := in.(*ssa.Call); isCall && la.lockOpOn(cc) {
				switch la.m.callee(cc) {
				case la.acquire:
					r.acquires++
				case la.release:
					r.releases++
				}
			}
		}
		if _, ok := in.(*ssa.Return); ok {
			r.returns++
		}
		if name, ok := la.guardedAccess(in); ok {
			r.guardedN++
			if r.states[n]&(1<<stU) != 0 {
				addErr(n, "guarded-unlocked", "access to "+name+" on a path on which the lock is not held")
			}
		}
	}
	r.done = true
	return r
}
