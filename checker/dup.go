package main

// Helper duplication. The splice of inl.go is exact for helpers with one call
// site. A small private helper called from several places (a clamp, a
// round-up, a "bounds of this region" function) is brought into that form
// first: the analysed copy of the source gets one private copy of the helper
// per call site (`name_ffc1`, `name_ffc2`, ...), each call is redirected to its
// own copy and the original is blanked. The program analysed is behaviourally
// the same program; every copy then has exactly one call site and is spliced.
//
// This is a rewrite of the *analysed text* only (a go/packages overlay built
// from the working tree on every run); nothing is written to the repository and
// the text of every function other than the rewritten call identifiers keeps
// its line numbers. Positions inside a copy are mapped back to the original
// helper when reported.

import (
	"fmt"
	"go/ast"
	"go/token"
	"go/types"
	"os"
	"sort"
	"strings"

	"golang.org/x/tools/go/ssa"
)

const (
	dupMaxSites = 6
	dupMaxStmts = 40
	dupSuffix   = "_ffc"
)

type dupPosMap struct {
	file               string
	copyLine, origLine int
	nLines             int
	copyName, origName string
}

var dupPositions []dupPosMap

// planDuplication returns an overlay (absolute file name -> new contents) that
// duplicates the eligible multi-site helpers of m, given the current contents
// (base overlay or disk). n is the number of helpers duplicated.
func planDuplication(m *Module, base map[string][]byte) (map[string][]byte, int) {
	out := map[string][]byte{}
	total := 0
	anchorObjs := map[types.Object]bool{}
	for fn := range m.anchors {
		if o := fn.Object(); o != nil {
			anchorObjs[o] = true
		}
		// a closure's enclosing function is looked up by name as well
		for p := fn.Parent(); p != nil; p = p.Parent() {
			if o := p.Object(); o != nil {
				anchorObjs[o] = true
			}
		}
	}
	// method names of interfaces: a method that may satisfy one is left alone
	ifaceMethods := map[string]bool{}
	for _, p := range m.Pkgs {
		for _, tv := range p.TypesInfo.Types {
			if it, ok := tv.Type.Underlying().(*types.Interface); ok {
				for i := 0; i < it.NumMethods(); i++ {
					ifaceMethods[it.Method(i).Name()] = true
				}
			}
		}
	}
	for _, p := range m.Pkgs {
		if !strings.HasPrefix(p.PkgPath, m.ModPath) {
			continue
		}
		type helper struct {
			decl  *ast.FuncDecl
			file  *ast.File
			sites []*ast.Ident
			encl  []*ast.FuncDecl
			bad   bool
		}
		helpers := map[types.Object]*helper{}
		var order []types.Object
		for _, f := range p.Syntax {
			for _, d := range f.Decls {
				fd, ok := d.(*ast.FuncDecl)
				if !ok || fd.Body == nil {
					continue
				}
				obj := p.TypesInfo.Defs[fd.Name]
				if obj == nil {
					continue
				}
				helpers[obj] = &helper{decl: fd, file: f}
				order = append(order, obj)
			}
		}
		// uses
		callIdent := map[*ast.Ident]bool{}
		for _, f := range p.Syntax {
			var stack []ast.Node
			ast.Inspect(f, func(n ast.Node) bool {
				if n == nil {
					stack = stack[:len(stack)-1]
					return true
				}
				stack = append(stack, n)
				call, ok := n.(*ast.CallExpr)
				if !ok {
					return true
				}
				var id *ast.Ident
				switch fun := call.Fun.(type) {
				case *ast.Ident:
					id = fun
				case *ast.SelectorExpr:
					id = fun.Sel
				}
				if id == nil {
					return true
				}
				h := helpers[p.TypesInfo.Uses[id]]
				if h == nil {
					return true
				}
				callIdent[id] = true
				if len(stack) >= 2 {
					switch stack[len(stack)-2].(type) {
					case *ast.GoStmt, *ast.DeferStmt:
						h.bad = true
					}
				}
				var encl *ast.FuncDecl
				for _, s := range stack {
					if fd, ok := s.(*ast.FuncDecl); ok {
						encl = fd
					}
				}
				h.sites = append(h.sites, id)
				h.encl = append(h.encl, encl)
				return true
			})
		}
		for id, obj := range p.TypesInfo.Uses {
			if h := helpers[obj]; h != nil && !callIdent[id] {
				h.bad = true // used as a value
			}
		}
		eligible := map[*ast.FuncDecl]bool{}
		for _, obj := range order {
			h := helpers[obj]
			name := h.decl.Name.Name
			exported := token.IsExported(name)
			if exported && h.decl.Recv != nil {
				// an exported method of an unexported type names nothing outside the package
				if sig, ok := obj.Type().(*types.Signature); ok && sig.Recv() != nil {
					if n, ok := derefNamed(sig.Recv().Type()); ok && !token.IsExported(n.Obj().Name()) {
						exported = false
					}
				}
			}
			if h.bad || anchorObjs[obj] || exported || name == "init" || name == "main" || name == "_" {
				continue
			}
			if len(h.sites) < 2 || len(h.sites) > dupMaxSites || h.decl.Type.TypeParams != nil {
				continue
			}
			if h.decl.Recv != nil && ifaceMethods[name] {
				continue
			}
			if sig, ok := obj.Type().(*types.Signature); ok && sig.Recv() != nil {
				if n, ok := derefNamed(sig.Recv().Type()); ok && n.TypeParams() != nil {
					continue
				}
			}
			nst, ok := 0, true
			ast.Inspect(h.decl.Body, func(n ast.Node) bool {
				switch x := n.(type) {
				case *ast.DeferStmt, *ast.GoStmt:
					ok = false
				case ast.Stmt:
					nst++
				case *ast.Ident:
					if p.TypesInfo.Uses[x] == obj {
						ok = false // self-recursive
					}
				}
				return true
			})
			if !ok || nst > dupMaxStmts {
				continue
			}
			eligible[h.decl] = true
		}
		// A helper with a call outside any function (package-level initialiser)
		// is left alone.
		for _, obj := range order {
			h := helpers[obj]
			for _, e := range h.encl {
				if e == nil {
					delete(eligible, h.decl)
				}
			}
		}
		// Helpers that (mutually) recurse, and helpers whose copies would multiply
		// beyond a small bound, are left alone.
		for changed := true; changed; {
			changed = false
			calls := map[*ast.FuncDecl][]*ast.FuncDecl{} // eligible helper -> eligible helpers it calls
			for _, obj := range order {
				h := helpers[obj]
				if !eligible[h.decl] {
					continue
				}
				for _, e := range h.encl {
					if eligible[e] {
						calls[e] = append(calls[e], h.decl)
					}
				}
			}
			var reaches func(from, to *ast.FuncDecl, seen map[*ast.FuncDecl]bool) bool
			reaches = func(from, to *ast.FuncDecl, seen map[*ast.FuncDecl]bool) bool {
				for _, c := range calls[from] {
					if c == to {
						return true
					}
					if !seen[c] {
						seen[c] = true
						if reaches(c, to, seen) {
							return true
						}
					}
				}
				return false
			}
			for d := range eligible {
				if reaches(d, d, map[*ast.FuncDecl]bool{}) {
					delete(eligible, d)
					changed = true
				}
			}
			if changed {
				continue
			}
			ncopies := map[*ast.FuncDecl]int{}
			var count func(h *helper) int
			count = func(h *helper) int {
				if n, ok := ncopies[h.decl]; ok {
					return n
				}
				ncopies[h.decl] = 1 << 20 // guard; cycles were removed above
				n := 0
				for _, e := range h.encl {
					if eligible[e] {
						for _, obj := range order {
							if helpers[obj].decl == e {
								n += count(helpers[obj])
							}
						}
					} else {
						n++
					}
				}
				ncopies[h.decl] = n
				return n
			}
			for _, obj := range order {
				h := helpers[obj]
				if eligible[h.decl] && count(h) > 16 {
					delete(eligible, h.decl)
					changed = true
					break
				}
			}
		}
		type edit struct {
			off  int
			end  int
			text string
		}
		type app struct {
			text string
			idx  int
		}
		edits := map[string][]edit{}
		appends := map[string][]app{}
		// inner[d]: the call sites of eligible helpers that lie inside decl d
		type site struct {
			id *ast.Ident
			h  *helper
		}
		inner := map[*ast.FuncDecl][]site{}
		var top []site
		for _, obj := range order {
			h := helpers[obj]
			if !eligible[h.decl] {
				continue
			}
			for i, id := range h.sites {
				if eligible[h.encl[i]] {
					inner[h.encl[i]] = append(inner[h.encl[i]], site{id, h})
				} else {
					top = append(top, site{id, h})
				}
			}
		}
		sort.Slice(top, func(i, j int) bool {
			a, b := m.Fset.Position(top[i].id.Pos()), m.Fset.Position(top[j].id.Pos())
			if a.Filename != b.Filename {
				return a.Filename < b.Filename
			}
			return a.Offset < b.Offset
		})
		counter := map[*helper]int{}
		copies := 0
		abort := false
		fresh := func(h *helper) string {
			counter[h]++
			return fmt.Sprintf("%s%s%d", h.decl.Name.Name, dupSuffix, counter[h])
		}
		var emit func(h *helper, name string, depth int)
		emit = func(h *helper, name string, depth int) {
			copies++
			if depth > 6 || copies > 300 {
				abort = true // mutually recursive helpers, or a blow-up
				return
			}
			fname := m.Fset.Position(h.decl.Pos()).Filename
			src, err := currentSource(fname, base, nil)
			if err != nil {
				abort = true
				return
			}
			start := m.Fset.Position(h.decl.Pos()).Offset
			end := m.Fset.Position(h.decl.End()).Offset
			if start < 0 || end > len(src) {
				abort = true
				return
			}
			es := []edit{{m.Fset.Position(h.decl.Name.Pos()).Offset - start, m.Fset.Position(h.decl.Name.Pos()).Offset - start + len(h.decl.Name.Name), name}}
			for _, s := range inner[h.decl] {
				n := fresh(s.h)
				off := m.Fset.Position(s.id.Pos()).Offset - start
				es = append(es, edit{off, off + len(s.id.Name), n})
				emit(s.h, n, depth+1)
			}
			sort.Slice(es, func(i, j int) bool { return es[i].off > es[j].off })
			text := append([]byte(nil), src[start:end]...)
			for _, e := range es {
				if e.off < 0 || e.end > len(text) {
					abort = true
					return
				}
				text = append(text[:e.off:e.off], append([]byte(e.text), text[e.end:]...)...)
			}
			appends[fname] = append(appends[fname], app{string(text), len(dupPositions)})
			dupPositions = append(dupPositions, dupPosMap{file: fname, origLine: m.Fset.Position(h.decl.Pos()).Line,
				nLines: strings.Count(string(text), "\n") + 1, copyName: name, origName: h.decl.Name.Name})
		}
		for _, s := range top {
			n := fresh(s.h)
			sp := m.Fset.Position(s.id.Pos())
			edits[sp.Filename] = append(edits[sp.Filename], edit{sp.Offset, sp.Offset + len(s.id.Name), n})
			emit(s.h, n, 0)
		}
		if abort {
			continue
		}
		for _, obj := range order {
			h := helpers[obj]
			if !eligible[h.decl] {
				continue
			}
			fname := m.Fset.Position(h.decl.Pos()).Filename
			src, err := currentSource(fname, base, nil)
			if err != nil {
				continue
			}
			start := m.Fset.Position(h.decl.Pos()).Offset
			end := m.Fset.Position(h.decl.End()).Offset
			blank := append([]byte(nil), src[start:end]...)
			for i, c := range blank {
				if c != '\n' {
					blank[i] = ' '
				}
			}
			edits[fname] = append(edits[fname], edit{start, end, string(blank)})
			total++
			if os.Getenv("FFC_DEBUG_INL") != "" {
				fmt.Fprintf(os.Stderr, "dup: %s.%s: %d copies\n", p.PkgPath, h.decl.Name.Name, counter[h])
			}
		}
		files := map[string]bool{}
		for f := range edits {
			files[f] = true
		}
		for f := range appends {
			files[f] = true
		}
		for f := range files {
			src, err := currentSource(f, base, nil)
			if err != nil {
				continue
			}
			es := edits[f]
			sort.Slice(es, func(i, j int) bool { return es[i].off > es[j].off })
			buf := append([]byte(nil), src...)
			for _, e := range es {
				buf = append(buf[:e.off:e.off], append([]byte(e.text), buf[e.end:]...)...)
			}
			if len(buf) > 0 && buf[len(buf)-1] != '\n' {
				buf = append(buf, '\n')
			}
			line := strings.Count(string(buf), "\n") + 1
			for _, cp := range appends[f] {
				buf = append(buf, '\n')
				line++
				dupPositions[cp.idx].copyLine = line
				buf = append(buf, cp.text...)
				buf = append(buf, '\n')
				line += strings.Count(cp.text, "\n") + 1
			}
			out[f] = buf
		}
	}
	return out, total
}

func derefNamed(t types.Type) (*types.Named, bool) {
	if p, ok := t.(*types.Pointer); ok {
		t = p.Elem()
	}
	n, ok := t.(*types.Named)
	return n, ok
}

func currentSource(f string, base, out map[string][]byte) ([]byte, error) {
	if b, ok := out[f]; ok {
		return b, nil
	}
	if b, ok := base[f]; ok {
		return b, nil
	}
	return os.ReadFile(f)
}

// origHelperName strips the duplication suffix from a function name.
func origHelperName(name string) string {
	if i := strings.LastIndex(name, dupSuffix); i > 0 {
		rest := name[i+len(dupSuffix):]
		if rest != "" && strings.Trim(rest, "0123456789") == "" {
			return name[:i]
		}
	}
	return name
}

// mapDupPos maps a position inside a helper copy back to the helper.
func mapDupPos(file string, line int) (int, bool) {
	for _, d := range dupPositions {
		if d.file == file && d.copyLine > 0 && line >= d.copyLine && line < d.copyLine+d.nLines {
			return d.origLine + (line - d.copyLine), true
		}
	}
	return 0, false
}

var _ = ssa.BuilderMode(0)
