package main

// Helpers over go/ssa shared by all rules: value classification, access
// paths, constant evaluation, callee resolution through test seams.

import (
	"fmt"
	"go/constant"
	"go/token"
	"go/types"
	"strings"

	"golang.org/x/tools/go/ssa"
)

// strip removes type-only wrappers (ChangeType, MakeInterface is kept).
func strip(v ssa.Value) ssa.Value {
	for {
		switch x := v.(type) {
		case *ssa.ChangeType:
			v = x.X
		case *ssa.Parameter, *ssa.Call, *ssa.Extract:
			if a := resolveAlias(v); a != v {
				v = a
				continue
			}
			return v
		default:
			return v
		}
	}
}

// through is strip that also looks through loads of variables assigned
// exactly once (a hoisted temporary, possibly captured by a closure): such a
// load is the assigned value.
func through(v ssa.Value) ssa.Value {
	for i := 0; i < 8; i++ {
		v = strip(v)
		u, ok := v.(*ssa.UnOp)
		if !ok || u.Op != token.MUL {
			return v
		}
		sv, ok := singleStoreCached(u.X)
		if !ok {
			return v
		}
		v = sv
	}
	return v
}

var singleStoreCache = map[ssa.Value]ssa.Value{}

func singleStoreCached(addr ssa.Value) (ssa.Value, bool) {
	if v, ok := singleStoreCache[addr]; ok {
		return v, v != nil
	}
	v, ok := singleStoreValue(addr)
	if !ok {
		v = nil
	}
	singleStoreCache[addr] = v
	return v, v != nil
}

// stripConv additionally removes numeric conversions (used where only the
// mathematical value matters, never where the width matters).
func stripConv(v ssa.Value) ssa.Value {
	for {
		switch x := v.(type) {
		case *ssa.ChangeType:
			v = x.X
		case *ssa.Convert:
			if isIntegral(x.Type()) && isIntegral(x.X.Type()) {
				v = x.X
				continue
			}
			return v
		case *ssa.Parameter, *ssa.Call, *ssa.Extract:
			if a := resolveAlias(v); a != v {
				v = a
				continue
			}
			return v
		default:
			return v
		}
	}
}

func isIntegral(t types.Type) bool {
	if t == nil {
		return false // (the stand-in node of a modelled deferred call has no type)
	}
	b, ok := t.Underlying().(*types.Basic)
	return ok && b.Info()&types.IsInteger != 0
}

func intWidth(t types.Type) int {
	b, ok := t.Underlying().(*types.Basic)
	if !ok {
		return 0
	}
	switch b.Kind() {
	case types.Int8, types.Uint8:
		return 8
	case types.Int16, types.Uint16:
		return 16
	case types.Int32, types.Uint32:
		return 32
	case types.Int64, types.Uint64, types.Int, types.Uint, types.Uintptr:
		return 64
	}
	return 0
}

// loadAddr: if v is a load (*addr) return addr.
func loadAddr(v ssa.Value) (ssa.Value, bool) {
	if u, ok := v.(*ssa.UnOp); ok && u.Op == token.MUL {
		return u.X, true
	}
	return nil, false
}

// fieldOfAddr: if addr is &X.f return X and the field.
func fieldOfAddr(addr ssa.Value) (ssa.Value, *types.Var, bool) {
	fa, ok := addr.(*ssa.FieldAddr)
	if !ok {
		return nil, nil, false
	}
	pt, ok := fa.X.Type().Underlying().(*types.Pointer)
	if !ok {
		return nil, nil, false
	}
	st, ok := pt.Elem().Underlying().(*types.Struct)
	if !ok {
		return nil, nil, false
	}
	return fa.X, st.Field(fa.Field), true
}

// loadedField: v is a load of field f (through FieldAddr) or a Field
// extraction; returns base value and field.
func loadedField(v ssa.Value) (ssa.Value, *types.Var, bool) {
	v = strip(v)
	if a, ok := loadAddr(v); ok {
		return fieldOfAddr(a)
	}
	if f, ok := v.(*ssa.Field); ok {
		if st, ok := f.X.Type().Underlying().(*types.Struct); ok {
			return f.X, st.Field(f.Field), true
		}
	}
	return nil, nil, false
}

func isLoadOfField(v ssa.Value, fld *types.Var) bool {
	_, f, ok := loadedField(stripConv(v))
	return ok && f == fld
}

func loadedGlobal(v ssa.Value) (*ssa.Global, bool) {
	if a, ok := loadAddr(strip(v)); ok {
		g, ok := a.(*ssa.Global)
		return g, ok
	}
	return nil, false
}

func isLoadOfGlobal(v ssa.Value, g *ssa.Global) bool {
	x, ok := loadedGlobal(stripConv(v))
	return ok && x == g
}

// ---- constants ----

// constEval evaluates v to a constant if it is one structurally: literal
// constants, unary/binary operations on constants, integer conversions, and
// loads of closure capture cells / locals that are stored exactly once with a
// constant.
func constEval(v ssa.Value) (constant.Value, bool) {
	return constEvalD(v, 0)
}

func constEvalD(v ssa.Value, depth int) (constant.Value, bool) {
	if depth > 12 {
		return nil, false
	}
	switch x := v.(type) {
	case *ssa.Const:
		if x.Value == nil {
			return nil, false
		}
		return x.Value, true
	case *ssa.ChangeType:
		return constEvalD(x.X, depth+1)
	case *ssa.Convert:
		c, ok := constEvalD(x.X, depth+1)
		if !ok || !isIntegral(x.Type()) {
			return nil, false
		}
		return wrapTo(c, x.Type()), true
	case *ssa.UnOp:
		switch x.Op {
		case token.MUL:
			if val, ok := singleStoreValue(x.X); ok {
				return constEvalD(val, depth+1)
			}
			return nil, false
		case token.XOR, token.SUB:
			c, ok := constEvalD(x.X, depth+1)
			if !ok || c.Kind() != constant.Int {
				return nil, false
			}
			r := constant.UnaryOp(x.Op, c, 0)
			return wrapTo(r, x.Type()), true
		}
	case *ssa.BinOp:
		a, ok1 := constEvalD(x.X, depth+1)
		b, ok2 := constEvalD(x.Y, depth+1)
		if !ok1 || !ok2 || a.Kind() != constant.Int || b.Kind() != constant.Int {
			return nil, false
		}
		switch x.Op {
		case token.ADD, token.SUB, token.MUL, token.AND, token.OR, token.XOR, token.AND_NOT:
			return wrapTo(constant.BinaryOp(a, x.Op, b), x.Type()), true
		case token.SHL, token.SHR:
			s, ok := constant.Uint64Val(b)
			if !ok || s > 64 {
				return nil, false
			}
			return wrapTo(constant.Shift(a, x.Op, uint(s)), x.Type()), true
		case token.QUO, token.REM:
			if constant.Sign(b) == 0 {
				return nil, false
			}
			op := x.Op
			if op == token.QUO {
				op = token.QUO_ASSIGN // integer division
			}
			return wrapTo(constant.BinaryOp(a, op, b), x.Type()), true
		}
	}
	return nil, false
}

// wrapTo reduces an integer constant to the value range of t.
func wrapTo(c constant.Value, t types.Type) constant.Value {
	if c.Kind() != constant.Int {
		return c
	}
	w := intWidth(t)
	if w == 0 {
		return c
	}
	b, ok := t.Underlying().(*types.Basic)
	if !ok {
		return c
	}
	mod := constant.Shift(constant.MakeInt64(1), token.SHL, uint(w))
	mask := constant.BinaryOp(mod, token.SUB, constant.MakeInt64(1))
	r := constant.BinaryOp(c, token.AND, mask) // two's complement semantics for negatives
	if b.Info()&types.IsUnsigned == 0 {
		half := constant.Shift(constant.MakeInt64(1), token.SHL, uint(w-1))
		if constant.Compare(r, token.GEQ, half) {
			r = constant.BinaryOp(r, token.SUB, mod)
		}
	}
	return r
}

func constInt64(v ssa.Value) (int64, bool) {
	c, ok := constEval(v)
	if !ok || c.Kind() != constant.Int {
		return 0, false
	}
	return constant.Int64Val(c)
}

func constUint64(v ssa.Value) (uint64, bool) {
	c, ok := constEval(v)
	if !ok || c.Kind() != constant.Int {
		return 0, false
	}
	if constant.Sign(c) < 0 {
		i, ok := constant.Int64Val(c)
		return uint64(i), ok
	}
	return constant.Uint64Val(c)
}

func constBool(v ssa.Value) (bool, bool) {
	c, ok := constEval(v)
	if !ok || c.Kind() != constant.Bool {
		return false, false
	}
	return constant.BoolVal(c), true
}

func isNilConst(v ssa.Value) bool {
	c, ok := strip(v).(*ssa.Const)
	return ok && c.Value == nil
}

// cellOf resolves an address to the local cell (Alloc) it denotes, following a
// closure's FreeVar to the Alloc bound by the (unique) MakeClosure.
func cellOf(addr ssa.Value) (*ssa.Alloc, bool) {
	switch a := addr.(type) {
	case *ssa.Alloc:
		return a, true
	case *ssa.FreeVar:
		fn := a.Parent()
		parent := fn.Parent()
		if parent == nil {
			return nil, false
		}
		idx := -1
		for i, fv := range fn.FreeVars {
			if fv == a {
				idx = i
			}
		}
		var found ssa.Value
		n := 0
		for _, b := range parent.Blocks {
			for _, in := range b.Instrs {
				if mc, ok := in.(*ssa.MakeClosure); ok && mc.Fn == fn {
					found = mc.Bindings[idx]
					n++
				}
			}
		}
		if n != 1 {
			return nil, false
		}
		return cellOf(found)
	}
	return nil, false
}

// cellAccesses returns all stores to and loads from a cell, in the allocating
// function and in every closure that captures it. ok is false if the cell's
// address escapes in any other way (then nothing can be said about it).
func cellAccesses(cell *ssa.Alloc) (stores []*ssa.Store, loads []*ssa.UnOp, ok bool) {
	ok = true
	var visit func(addr ssa.Value)
	visit = func(addr ssa.Value) {
		refs := addr.Referrers()
		if refs == nil {
			ok = false
			return
		}
		for _, r := range *refs {
			switch x := r.(type) {
			case *ssa.Store:
				if x.Addr == addr {
					if !selfStores[x] {
						stores = append(stores, x)
					}
				} else {
					ok = false // address stored somewhere
				}
			case *ssa.UnOp:
				if x.Op == token.MUL {
					loads = append(loads, x)
				} else {
					ok = false
				}
			case *ssa.MakeClosure:
				for i, b := range x.Bindings {
					if b == addr {
						visit(x.Fn.(*ssa.Function).FreeVars[i])
					}
				}
			case *ssa.DebugRef:
			case *ssa.FieldAddr, *ssa.IndexAddr:
				// address of a component: treated as escaping for
				// single-store purposes
				ok = false
			default:
				ok = false
			}
		}
	}
	visit(cell)
	return
}

// singleStoreValue: addr denotes a local cell that is stored exactly once
// (whole program), returns the stored value.
func singleStoreValue(addr ssa.Value) (ssa.Value, bool) {
	cell, ok := cellOf(addr)
	if !ok {
		return nil, false
	}
	stores, _, ok := cellAccesses(cell)
	if !ok || len(stores) != 1 {
		return nil, false
	}
	return stores[0].Val, true
}

// ---- access paths ----

// PE is one element of an access path.
type PE struct {
	Kind   string // global param freevar alloc field index deref slice call phi const conv other
	Field  *types.Var
	Global *ssa.Global
	V      ssa.Value
}

// accessPath describes how v (an address or a value) is derived: root first.
func accessPath(v ssa.Value) []PE {
	var out []PE
	var rec func(v ssa.Value, depth int)
	rec = func(v ssa.Value, depth int) {
		if depth > 24 {
			out = append(out, PE{Kind: "other", V: v})
			return
		}
		switch x := v.(type) {
		case *ssa.Global:
			out = append(out, PE{Kind: "global", Global: x, V: x})
		case *ssa.Parameter:
			if a := resolveAlias(v); a != v {
				rec(a, depth+1)
				return
			}
			out = append(out, PE{Kind: "param", V: x})
		case *ssa.FreeVar:
			out = append(out, PE{Kind: "freevar", V: x})
		case *ssa.Alloc:
			out = append(out, PE{Kind: "alloc", V: x})
		case *ssa.FieldAddr:
			rec(x.X, depth+1)
			_, f, _ := fieldOfAddr(x)
			out = append(out, PE{Kind: "field", Field: f, V: x})
		case *ssa.Field:
			rec(x.X, depth+1)
			st := x.X.Type().Underlying().(*types.Struct)
			out = append(out, PE{Kind: "field", Field: st.Field(x.Field), V: x})
		case *ssa.IndexAddr:
			rec(x.X, depth+1)
			out = append(out, PE{Kind: "index", V: x})
		case *ssa.Index:
			rec(x.X, depth+1)
			out = append(out, PE{Kind: "index", V: x})
		case *ssa.Lookup:
			rec(x.X, depth+1)
			out = append(out, PE{Kind: "index", V: x})
		case *ssa.UnOp:
			if x.Op == token.MUL {
				rec(x.X, depth+1)
				out = append(out, PE{Kind: "deref", V: x})
			} else {
				out = append(out, PE{Kind: "other", V: x})
			}
		case *ssa.Slice:
			rec(x.X, depth+1)
			out = append(out, PE{Kind: "slice", V: x})
		case *ssa.ChangeType:
			rec(x.X, depth+1)
		case *ssa.Convert:
			rec(x.X, depth+1)
			out = append(out, PE{Kind: "conv", V: x})
		case *ssa.Call:
			if a := resolveAlias(v); a != v {
				rec(a, depth+1)
				return
			}
			out = append(out, PE{Kind: "call", V: x})
		case *ssa.Extract:
			if a := resolveAlias(v); a != v {
				rec(a, depth+1)
				return
			}
			out = append(out, PE{Kind: "other", V: v})
		case *ssa.Phi:
			out = append(out, PE{Kind: "phi", V: x})
		case *ssa.Const:
			out = append(out, PE{Kind: "const", V: x})
		default:
			out = append(out, PE{Kind: "other", V: v})
		}
	}
	rec(v, 0)
	return out
}

func pathString(p []PE) string {
	var sb strings.Builder
	for i, e := range p {
		switch e.Kind {
		case "global":
			sb.WriteString(e.Global.Name())
		case "param":
			sb.WriteString(e.V.Name())
		case "freevar":
			sb.WriteString("^" + e.V.Name())
		case "alloc":
			c := e.V.(*ssa.Alloc).Comment
			if c == "" {
				c = "local"
			}
			sb.WriteString("<" + c + ">")
		case "field":
			sb.WriteString("." + e.Field.Name())
		case "index":
			sb.WriteString("[]")
		case "deref":
			if i == 0 {
				sb.WriteString("*")
			}
		case "slice":
			sb.WriteString("[:]")
		case "call":
			sb.WriteString(callName(e.V.(*ssa.Call).Common()) + "()")
		case "phi":
			sb.WriteString("phi")
		case "const":
			sb.WriteString(e.V.String())
		case "conv":
			sb.WriteString("(conv)")
		default:
			sb.WriteString("?")
		}
	}
	return sb.String()
}

// pathFields lists the struct fields selected along the path, in order.
func pathFields(p []PE) []*types.Var {
	var out []*types.Var
	for _, e := range p {
		if e.Kind == "field" {
			out = append(out, e.Field)
		}
	}
	return out
}

func pathHasField(p []PE, f *types.Var) bool {
	for _, e := range p {
		if e.Kind == "field" && e.Field == f {
			return true
		}
	}
	return false
}

// lastField returns the last field selector of the path and what follows it
// ("" = the field itself, "[]" = an element of it, ...).
func lastField(p []PE) (*types.Var, string) {
	for i := len(p) - 1; i >= 0; i-- {
		if p[i].Kind == "field" {
			rest := ""
			for _, e := range p[i+1:] {
				switch e.Kind {
				case "index":
					rest += "[]"
				case "slice":
					rest += "[:]"
				case "deref":
				case "conv":
					rest += "(conv)"
				default:
					rest += "?"
				}
			}
			return p[i].Field, rest
		}
	}
	return nil, ""
}

// ---- calls ----

func callCommon(in ssa.Instruction) *ssa.CallCommon {
	switch x := in.(type) {
	case *ssa.Call:
		return x.Common()
	case *ssa.Defer:
		return x.Common()
	case *ssa.Go:
		return x.Common()
	}
	return nil
}

func callName(cc *ssa.CallCommon) string {
	if cc.IsInvoke() {
		return "(" + cc.Value.Type().String() + ")." + cc.Method.Name()
	}
	if f := cc.StaticCallee(); f != nil {
		return f.Name()
	}
	if g, ok := loadedGlobal(cc.Value); ok {
		return "*" + g.Name()
	}
	return cc.Value.Name()
}

// seamInit resolves a func-valued package variable used as a test seam to its
// unique non-test initialiser. ok is false if the variable has no function
// initialiser or is stored anywhere else in non-test code.
func (m *Module) seamInit(g *ssa.Global) (*ssa.Function, bool) {
	if m.seamCache == nil {
		m.seamCache = map[*ssa.Global]*ssa.Function{}
	}
	if f, ok := m.seamCache[g]; ok {
		return f, f != nil
	}
	f, ok := m.seamInitUncached(g)
	if !ok {
		f = nil
	}
	m.seamCache[g] = f
	return f, ok
}

func (m *Module) seamInitUncached(g *ssa.Global) (*ssa.Function, bool) {
	var found *ssa.Function
	n := 0
	for _, fn := range m.Funcs {
		for _, b := range fn.Blocks {
			for _, in := range b.Instrs {
				st, ok := in.(*ssa.Store)
				if !ok || st.Addr != g {
					continue
				}
				n++
				switch v := strip(st.Val).(type) {
				case *ssa.Function:
					found = v
				case *ssa.MakeClosure:
					found, _ = v.Fn.(*ssa.Function)
				}
			}
		}
	}
	if n != 1 || found == nil {
		return nil, false
	}
	return found, true
}

// callee resolves the function called: a static callee, or the unique
// initialiser of a seam variable. Interface calls and other dynamic calls
// return nil.
func (m *Module) callee(cc *ssa.CallCommon) *ssa.Function {
	if cc == nil || cc.IsInvoke() {
		return nil
	}
	if f := cc.StaticCallee(); f != nil {
		return m.unwrap(f)
	}
	if g, ok := loadedGlobal(cc.Value); ok {
		if f, ok := m.seamInit(g); ok {
			return m.unwrap(f)
		}
	}
	return nil
}

// callsTo reports whether instruction in calls fn (directly or through a seam).
func (m *Module) callsTo(in ssa.Instruction, fn *ssa.Function) bool {
	cc := callCommon(in)
	return cc != nil && fn != nil && m.callee(cc) == fn
}

// callSites lists every call instruction in the module that resolves to fn.
func (m *Module) callSites(fn *ssa.Function) []ssa.Instruction {
	var out []ssa.Instruction
	for _, f := range m.Funcs {
		for _, b := range f.Blocks {
			for _, in := range b.Instrs {
				if m.callsTo(in, fn) {
					out = append(out, in)
				}
			}
		}
	}
	return out
}

// usesOfFunc lists every instruction that mentions fn as an operand (calls,
// stores into variables, closures...).
func (m *Module) usesOfFunc(fn *ssa.Function) []ssa.Instruction {
	var out []ssa.Instruction
	var ops []*ssa.Value
	for _, f := range m.Funcs {
		for _, b := range f.Blocks {
			for _, in := range b.Instrs {
				ops = in.Operands(ops[:0])
				for _, op := range ops {
					if *op != nil && strip(*op) == ssa.Value(fn) {
						out = append(out, in)
						break
					}
				}
			}
		}
	}
	return out
}

// eachInstr visits every instruction of every source function in the module.
func (m *Module) eachInstr(f func(fn *ssa.Function, in ssa.Instruction)) {
	for _, fn := range m.Funcs {
		// an instruction of a spliced helper belongs to the function it is spliced into
		o := m.owner(fn)
		for _, b := range fn.Blocks {
			for _, in := range b.Instrs {
				f(o, in)
			}
		}
	}
}

// storesToGlobal lists every store whose address is exactly g.
func (m *Module) storesToGlobal(g *ssa.Global) []*ssa.Store {
	var out []*ssa.Store
	m.eachInstr(func(fn *ssa.Function, in ssa.Instruction) {
		if st, ok := in.(*ssa.Store); ok && st.Addr == ssa.Value(g) {
			out = append(out, st)
		}
	})
	return out
}

// fieldStore describes a store that writes field f (rest "") or a component of
// it (rest "[]" for an element...).
type fieldStore struct {
	Fn    *ssa.Function
	Store *ssa.Store
	Path  []PE
	Rest  string
}

// storesToField lists every store in the module whose address path's last
// selected field is f.
func (m *Module) storesToField(f *types.Var) []fieldStore {
	var out []fieldStore
	m.eachInstr(func(fn *ssa.Function, in ssa.Instruction) {
		st, ok := in.(*ssa.Store)
		if !ok {
			return
		}
		p := accessPath(st.Addr)
		lf, rest := lastField(p)
		if lf == f {
			out = append(out, fieldStore{fn, st, p, rest})
		}
	})
	return out
}

// outermost returns the top-level function enclosing fn (fn itself if it is
// not a closure).
func outermost(fn *ssa.Function) *ssa.Function {
	for fn.Parent() != nil {
		fn = fn.Parent()
	}
	for _, m := range loadedModules {
		if m.Prog == fn.Prog {
			if o := m.owner(fn); o != fn {
				return outermost(o)
			}
		}
	}
	return fn
}

// closuresIn returns all anonymous functions nested (at any depth) in fn.
func closuresIn(fn *ssa.Function) []*ssa.Function {
	var out []*ssa.Function
	fns := []*ssa.Function{fn}
	for _, m := range loadedModules {
		if m.Prog == fn.Prog {
			fns = m.body(fn) // with the helpers spliced into fn
		}
	}
	for _, f := range fns {
		for _, a := range f.AnonFuncs {
			out = append(out, a)
			out = append(out, closuresIn(a)...)
		}
	}
	return out
}

// closureArgOf: the closure passed as argument argIdx to the (unique) call of
// callee inside fn.
func (m *Module) closureArgOf(fn *ssa.Function, callee *ssa.Function, argIdx int) []*ssa.Function {
	var out []*ssa.Function
	for _, b := range m.blocksOf(fn) {
		for _, in := range b.Instrs {
			if !m.callsTo(in, callee) {
				continue
			}
			cc := callCommon(in)
			if argIdx >= len(cc.Args) {
				continue
			}
			switch a := strip(cc.Args[argIdx]).(type) {
			case *ssa.MakeClosure:
				if f, ok := a.Fn.(*ssa.Function); ok {
					out = append(out, f)
				}
			case *ssa.Function:
				out = append(out, a)
			}
		}
	}
	return out
}

func describe(v ssa.Value) string {
	if v == nil {
		return "<nil>"
	}
	if c, ok := v.(*ssa.Const); ok {
		return c.String()
	}
	return fmt.Sprintf("%s (%s)", v.Name(), pathString(accessPath(v)))
}

// storedFields lists the struct fields a store to an address with this path
// writes into: the field selectors after the last pointer dereference of the
// path (a store to alloc.pools[i].freeCount writes freeCount, not pools; a
// store to alloc.poolsHdr.Len writes poolsHdr and its component Len).
func storedFields(p []PE) []*types.Var {
	last := -1
	for i, e := range p {
		if e.Kind == "deref" {
			last = i
		}
	}
	var out []*types.Var
	for _, e := range p[last+1:] {
		if e.Kind == "field" {
			out = append(out, e.Field)
		}
	}
	return out
}

// alwaysCalls: every path through fn (a module function with a body) that
// returns passes a call of target, directly or through a function that always
// does.
func (m *Module) alwaysCalls(fn, target *ssa.Function, depth int) bool {
	if fn == nil || len(fn.Blocks) == 0 || depth > 3 {
		return false
	}
	g := scanIG(m, fn, nil)
	is := func(n int) bool {
		if m.callsTo(g.Ins[n], target) {
			return true
		}
		if cc := callCommon(g.Ins[n]); cc != nil {
			if cal := m.callee(cc); cal != nil && cal != fn && cal != target {
				return m.alwaysCalls(cal, target, depth+1)
			}
		}
		return false
	}
	rets := g.Returns()
	if len(rets) == 0 {
		return false
	}
	for _, rn := range rets {
		if ok, _ := g.MustPassBefore(rn, is); !ok {
			return false
		}
	}
	return true
}

// stringRanges lists the `range` loops over a string in fn: they iterate UTF-8
// runes, not bytes (a byte >= 0x80 is decoded, invalid ones become U+FFFD, the
// index skips continuation bytes).
func stringRanges(fn *ssa.Function) []ssa.Instruction {
	var out []ssa.Instruction
	for _, b := range fn.Blocks {
		for _, in := range b.Instrs {
			if r, ok := in.(*ssa.Range); ok {
				if bt, ok := r.X.Type().Underlying().(*types.Basic); ok && bt.Info()&types.IsString != 0 {
					out = append(out, in)
				}
			}
		}
	}
	return out
}

// eqConstFact: the fact states v == k, in any equivalent linear spelling
// (v == k, k == v, v+1 == k+1, ...).
func eqConstFact(f Fact, v ssa.Value, k int64) bool {
	if f.Y == nil || f.Op != token.EQL || v == nil {
		return false
	}
	z := &Polyizer{}
	d := z.Of(f.X).add(z.Of(f.Y), -1)
	want := z.Of(v).add(polyConst(k), -1)
	return d.equal(want) || d.equal(want.mul(polyConst(-1)))
}
