package main

import (
	"fmt"
	"go/token"

	"golang.org/x/tools/go/ssa"
)

func init() {
	register(&Property{
		ID: "C05", NeedKernel: true, Run: runC05,
		Explanation: "Kernel address-space construction decided on SSA: (R1) all four outcomes of the two ELF-flag tests of the section visitor are enumerated and the flag constant " +
			"reaching kernelPDT.Map is folded for each: FlagRW iff the section is writable, FlagNoExecute iff it is not executable, FlagPresent always, nothing else " +
			"(never FlagUserAccessible); (R2) the Map call is dominated by secAddress >= kernelPageOffset and by the sticky error being nil; (R3) first page = " +
			"fdiv(secAddress,4096), last page = fdiv(secAddress+secSize-1,4096), first frame = fdiv(secAddress-kernelPageOffset,4096), the loop runs while page <= last " +
			"page with page and frame stepping by one together; (R4) the reservation copy loop runs from earlyReserveLastUsed below tempMappingAddr in PageSize steps, " +
			"maps page fdiv(a,4096) to frame fdiv(translate(a),4096) for the same a with Present|RW, and returns translate/map errors; (R5) kernelPDT.Init(new frame) " +
			"precedes every kernelPDT.Map, every nil return passes kernelPDT.Activate(), and vmm.Init returns setupPDTForKernel's error before anything else.",
		EnumRule:    "obligations per rule and construct; R1 has one obligation per combination of section flags",
		Assumptions: []string{"that the resulting translation is what the MMU computes is C04's undecided part", "sections do not share pages (quantifier of C05)"},
		Controls: []Control{
			{Name: "flags |= FlagRW unconditionally", File: "kernel/mm/vmm/pdt.go", Old: "\t\tif (secFlags & multiboot.ElfSectionWritable) != 0 {\n\t\t\tflags |= FlagRW\n\t\t}\n", New: "\t\tflags |= FlagRW\n", Expect: "C05.R1"},
			{Name: "invert the executable test", File: "kernel/mm/vmm/pdt.go", Old: "if (secFlags & multiboot.ElfSectionExecutable) == 0 {", New: "if (secFlags & multiboot.ElfSectionExecutable) != 0 {", Expect: "C05.R1"},
			{Name: "add FlagUserAccessible", File: "kernel/mm/vmm/pdt.go", Old: "\t\tflags := FlagPresent\n", New: "\t\tflags := FlagPresent | FlagUserAccessible\n", Expect: "C05.R1"},
			{Name: "skip Activate when nothing was reserved", File: "kernel/mm/vmm/pdt.go", Old: "\tkernelPDT.Activate()\n\n\treturn nil", New: "\tif earlyReserveLastUsed != tempMappingAddr {\n\t\tkernelPDT.Activate()\n\t}\n\n\treturn nil", Expect: "C05.R5"},
			{Name: "test the allocated flag instead of writable", File: "kernel/mm/vmm/pdt.go", Old: "if (secFlags & multiboot.ElfSectionWritable) != 0 {", New: "if (secFlags & multiboot.ElfSectionAllocated) != 0 {", Expect: "C05.R1"},
			{Name: "sections below the kernel offset mapped", File: "kernel/mm/vmm/pdt.go", Old: "if err != nil || secAddress < kernelPageOffset {", New: "if err != nil {", Expect: "C05.R2"},
			{Name: "last page computed from the size, not size-1", File: "kernel/mm/vmm/pdt.go", Old: "lastPage := mm.PageFromAddress(secAddress + uintptr(secSize-1))", New: "lastPage := mm.PageFromAddress(secAddress + uintptr(secSize))", Expect: "C05.R3"},
			{Name: "frame computed without subtracting the offset", File: "kernel/mm/vmm/pdt.go", Old: "curFrame := mm.Frame((secAddress - kernelPageOffset) >> mm.PageShift)", New: "curFrame := mm.Frame(secAddress >> mm.PageShift)", Expect: "C05.R3"},
			{Name: "reservation copy starts at the temp page", File: "kernel/mm/vmm/pdt.go", Old: "for rsvAddr := earlyReserveLastUsed; rsvAddr < tempMappingAddr; rsvAddr += mm.PageSize {", New: "for rsvAddr := earlyReserveLastUsed + mm.PageSize; rsvAddr < tempMappingAddr; rsvAddr += mm.PageSize {", Expect: "C05.R4"},
			{Name: "translate error ignored", File: "kernel/mm/vmm/pdt.go", Old: "\t\tframeAddr, err := translateFn(rsvAddr)\n\t\tif err != nil {\n\t\t\treturn err\n\t\t}\n", New: "\t\tframeAddr, _ := translateFn(rsvAddr)\n", Expect: "C05.R4"},
			{Name: "vmm.Init installs handlers before checking the PDT error", File: "kernel/mm/vmm/vmm.go", Old: "\tif err := setupPDTForKernel(kernelPageOffset); err != nil {\n\t\treturn err\n\t}\n\n\t// Install arch-specific handlers for vmm-related faults.\n\tinstallFaultHandlers()\n", New: "\terr := setupPDTForKernel(kernelPageOffset)\n\tinstallFaultHandlers()\n\tif err != nil {\n\t\treturn err\n\t}\n", Expect: "C05.R5"},
		},
	})
}

// constUnder folds v to a constant when the edges in cut are infeasible.
func constUnder(g *IG, v ssa.Value, cut map[Edge]bool, depth int) (uint64, bool) {
	if depth > 10 {
		return 0, false
	}
	if k, ok := constUint64(v); ok {
		return k, true
	}
	switch x := v.(type) {
	case *ssa.Phi:
		r := resolvePhi(g, x, cut)
		if r == nil || r == v {
			return 0, false
		}
		return constUnder(g, r, cut, depth+1)
	case *ssa.BinOp:
		a, ok1 := constUnder(g, x.X, cut, depth+1)
		b, ok2 := constUnder(g, x.Y, cut, depth+1)
		if !ok1 || !ok2 {
			return 0, false
		}
		switch x.Op {
		case token.OR:
			return a | b, true
		case token.AND:
			return a & b, true
		case token.AND_NOT:
			return a &^ b, true
		case token.XOR:
			return a ^ b, true
		case token.ADD:
			return a + b, true
		}
	case *ssa.ChangeType:
		return constUnder(g, x.X, cut, depth+1)
	case *ssa.Convert:
		return constUnder(g, x.X, cut, depth+1)
	}
	return 0, false
}

func runC05(c *Ctx) {
	m := c.K
	const vmm = "mm/vmm"
	setup := m.lookupFunc(vmm, "setupPDTForKernel")
	vinit := m.lookupFunc(vmm, "Init")
	pdtMap := m.lookupMethod(vmm, "PageDirectoryTable", "Map")
	pdtInit := m.lookupMethod(vmm, "PageDirectoryTable", "Init")
	pdtAct := m.lookupMethod(vmm, "PageDirectoryTable", "Activate")
	kernelPDT := m.lookupGlobal(vmm, "kernelPDT")
	lastUsed := m.lookupGlobal(vmm, "earlyReserveLastUsed")
	translate := m.lookupFunc(vmm, "Translate")
	visitElf := m.lookupFunc("multiboot", "VisitElfSections")
	allocFrame := m.lookupFunc("mm", "AllocFrame")
	for name, v := range map[string]interface{}{"vmm.setupPDTForKernel": setup, "vmm.Init": vinit, "PageDirectoryTable.Map": pdtMap, "PageDirectoryTable.Init": pdtInit,
		"PageDirectoryTable.Activate": pdtAct, "vmm.kernelPDT": kernelPDT, "vmm.earlyReserveLastUsed": lastUsed, "vmm.Translate": translate,
		"multiboot.VisitElfSections": visitElf, "mm.AllocFrame": allocFrame} {
		if isNilIface(v) {
			c.unresolved("C05.R1", name)
			return
		}
	}
	cst := func(rel, name string) uint64 {
		v, ok := namedConstUint(m, rel, name)
		if !ok {
			c.unresolved("C05.R1", rel+"."+name)
		}
		return v
	}
	fPresent, fRW, fNX, fUser := cst(vmm, "FlagPresent"), cst(vmm, "FlagRW"), cst(vmm, "FlagNoExecute"), cst(vmm, "FlagUserAccessible")
	eW, eX := cst("multiboot", "ElfSectionWritable"), cst("multiboot", "ElfSectionExecutable")
	tempAddr, pageSize := cst(vmm, "tempMappingAddr"), cst("mm", "PageSize")
	if len(c.Obls) > 0 {
		return
	}
	// the section visitor: the closure created in setupPDTForKernel whose signature is the ELF visitor's
	var vis *ssa.Function
	for _, cl := range closuresIn(setup) {
		if cl.Signature.Params().Len() == 4 {
			vis = cl
		}
	}
	if vis == nil {
		c.fail("C05.R1", "visitor "+m.fnName(setup), "no section visitor closure found in setupPDTForKernel", m.pos(setup.Pos()))
		return
	}
	// kernelPDT itself, its value, or a local copy of its value that was taken after
	// kernelPDT.Init (the methods have value receivers: a copy taken earlier would
	// name the uninitialised table)
	var gInit *IG
	isKernelPDT := func(v ssa.Value) bool {
		if v == ssa.Value(kernelPDT) || isLoadOfGlobal(v, kernelPDT) {
			return true
		}
		// through a local pointer that is set once to &kernelPDT (`pdt := &kernelPDT`):
		// the pointer itself, or what it points to (read where it is used)
		if through(v) == ssa.Value(kernelPDT) {
			return true
		}
		if ld, ok := strip(v).(*ssa.UnOp); ok && ld.Op == token.MUL && through(ld.X) == ssa.Value(kernelPDT) {
			return true
		}
		w := through(v)
		ld, ok := w.(*ssa.UnOp)
		if !ok || !isLoadOfGlobal(w, kernelPDT) || ld.Parent() != setup {
			return false
		}
		if gInit == nil {
			gInit = newIG(m, setup, nil)
		}
		n, inG := gInit.Idx[ld]
		if !inG {
			return false
		}
		after, _ := gInit.MustPassBefore(n, func(k int) bool {
			cc := callCommon(gInit.Ins[k])
			return cc != nil && m.callsTo(gInit.Ins[k], pdtInit) && (cc.Args[0] == ssa.Value(kernelPDT) || through(cc.Args[0]) == ssa.Value(kernelPDT))
		})
		return after
	}
	g := newIG(m, vis, nil)
	var maps []int
	for _, n := range g.callNodes(pdtMap) {
		if isKernelPDT(g.callArgs(n)[0]) {
			maps = append(maps, n)
		}
	}
	if len(maps) != 1 {
		c.fail("C05.R1", "map-call "+m.fnName(vis), fmt.Sprintf("expected one kernelPDT.Map call in the section visitor, found %d", len(maps)), m.pos(vis.Pos()))
		return
	}
	mn := maps[0]
	margs := g.callArgs(mn)
	secFlags := vis.Params[1]
	secAddr := vis.Params[2]
	// the visitor's parameters are named by position in the polynomial forms
	if len(vis.Params) >= 4 {
		paramRoleName[vis.Params[1]], paramRoleName[vis.Params[2]], paramRoleName[vis.Params[3]] = "secFlags", "secAddress", "secSize"
	}
	if len(setup.Params) >= 1 {
		paramRoleName[setup.Params[0]] = "kernelPageOffset"
	}

	// ---- R1 ----
	c.floor("C05.R1", 4)
	var ifW, ifX = -1, -1
	var wTrueK, xTrueK int // successor index on which the section HAS the flag
	for _, f := range g.AllEdgeFacts() {
		if f.Y == nil {
			continue
		}
		for _, pr := range [][2]ssa.Value{{f.X, f.Y}, {f.Y, f.X}} {
			v, mask, ok := maskTest(pr[0])
			if !ok || stripConv(v) != ssa.Value(secFlags) || !isZeroConst(pr[1]) || f.Op != token.NEQ {
				continue
			}
			if mask == eW {
				ifW, wTrueK = f.Edge.From, f.Edge.K
			}
			if mask == eX {
				ifX, xTrueK = f.Edge.From, f.Edge.K
			}
		}
	}
	// other tests on secFlags are not expected
	for _, f := range g.AllEdgeFacts() {
		if v, mask, ok := maskTest(f.X); ok && stripConv(v) == ssa.Value(secFlags) && mask != eW && mask != eX {
			c.fail("C05.R1", "flag-tests "+m.fnName(vis), fmt.Sprintf("the visitor tests section flag bit %#x, which is neither the writable nor the executable flag", mask), g.posOf(f.Edge.From))
		}
	}
	if ifW < 0 || ifX < 0 {
		c.fail("C05.R1", "flag-tests "+m.fnName(vis), "the visitor does not test both (secFlags & ElfSectionWritable) and (secFlags & ElfSectionExecutable)", m.pos(vis.Pos()))
	} else {
		for _, w := range []bool{false, true} {
			for _, ex := range []bool{false, true} {
				cut := map[Edge]bool{}
				if w {
					cut[Edge{ifW, 1 - wTrueK}] = true
				} else {
					cut[Edge{ifW, wTrueK}] = true
				}
				if ex {
					cut[Edge{ifX, 1 - xTrueK}] = true
				} else {
					cut[Edge{ifX, xTrueK}] = true
				}
				key := fmt.Sprintf("permissions %s writable=%v executable=%v", m.fnName(vis), w, ex)
				c.Evals++
				fl, ok := constUnder(g, margs[3], cut, 0)
				if !ok {
					c.undecided("C05.R1", key, "the flags passed to kernelPDT.Map do not fold to a constant on this path")
					continue
				}
				bad := ""
				switch {
				case fl&fPresent == 0:
					bad = "FlagPresent missing"
				case (fl&fRW != 0) != w:
					bad = fmt.Sprintf("FlagRW is %v for a section whose writable flag is %v", fl&fRW != 0, w)
				case (fl&fNX != 0) == ex:
					bad = fmt.Sprintf("FlagNoExecute is %v for a section whose executable flag is %v", fl&fNX != 0, ex)
				case fl&^(fPresent|fRW|fNX) != 0:
					bad = fmt.Sprintf("extra permission bits %#x", fl&^(fPresent|fRW|fNX))
					if fl&fUser != 0 {
						bad += " (FlagUserAccessible: kernel pages become accessible to user mode)"
					}
				}
				c.check(bad == "", "C05.R1", key, fmt.Sprintf("flags = %#x", fl), fmt.Sprintf("flags = %#x: %s", fl, bad), g.posOf(mn))
			}
		}
	}

	// ---- R2 ----
	c.floor("C05.R2", 1)
	z := &Polyizer{Inline: true}
	facts := g.FactsAt(mn)
	inRange := hasFact(facts, func(f Fact) bool {
		if f.Y == nil {
			return false
		}
		l, r := z.Of(f.X).String(), z.Of(f.Y).String()
		return f.Op == token.GEQ && l == "secAddress" && r == "kernelPageOffset" || f.Op == token.LEQ && r == "secAddress" && l == "kernelPageOffset"
	})
	noErr := hasFact(facts, func(f Fact) bool {
		return isNilFact(f, token.EQL, func(v ssa.Value) bool { _, ok := loadAddr(strip(v)); return ok })
	})
	bad := ""
	if !inRange {
		bad = "a section below the kernel's virtual offset can be mapped (Map not dominated by secAddress >= kernelPageOffset)"
	} else if !noErr {
		bad = "mapping continues after an earlier section failed (sticky error not tested)"
	}
	c.check(bad == "", "C05.R2", "range-guard "+m.fnName(vis), "Map dominated by secAddress >= kernelPageOffset and err == nil", bad, g.posOf(mn))

	// ---- R3 ----
	c.floor("C05.R3", 1)
	bad = ""
	// the section loop in induction form: page and frame of iteration T, trip count
	{
		secA, secS, off := polyAtom("secAddress"), polyAtom("secSize"), polyAtom("kernelPageOffset")
		firstPage := pFdiv(12, secA)
		lastPage := pFdiv(12, secA.add(secS, 1).add(polyConst(1), -1))
		firstFrame := pFdiv(12, secA.add(off, -1))
		one := func(p Poly) bool { k, ok := p.isConst(); return ok && k == 1 }
		lf, inLoop := g.loopFormAt(z, g.Ins[mn].Block())
		if !inLoop {
			bad = "page and frame are not loop variables of the same loop"
		} else {
			p0, pStep, okP := lf.affineInT(margs[1])
			f0, fStep, okF := lf.affineInT(margs[2])
			trips, tripsOK := lf.Trips, lf.TripsOK
			lf.Done()
			switch {
			case !okP || !okF || !one(pStep) || !one(fStep):
				bad = "page and frame are not loop variables of the same loop advancing by one"
			case !p0.equal(firstPage):
				bad = "the page starts at " + p0.String() + ", expected " + firstPage.String()
			case !f0.equal(firstFrame):
				bad = "the frame starts at " + f0.String() + ", expected " + firstFrame.String()
			case !tripsOK || !trips.equal(lastPage.add(firstPage, -1).add(polyConst(1), 1)):
				bad = "the loop does not run while page <= " + lastPage.String()
			}
		}
	}
	_ = secAddr
	c.check(bad == "", "C05.R3", "section-range "+m.fnName(vis), "pages fdiv(secAddress)..fdiv(secAddress+secSize-1), frames from fdiv(secAddress-kernelPageOffset), stepping together", bad, g.posOf(mn))
	// error of the Map call stops the section loop
	{
		call := g.Ins[mn].(*ssa.Call)
		isErr := func(v ssa.Value) bool {
			if v == ssa.Value(call) {
				return true
			}
			vals, _, ok := cellStoredValues(v)
			if ok {
				for _, sv := range vals {
					if sv == ssa.Value(call) {
						return true
					}
				}
			}
			return false
		}
		stop := false
		for _, f := range g.AllEdgeFacts() {
			if isNilFact(f, token.NEQ, isErr) {
				r := g.ReachAssuming(f.Edge, nil)
				stop = !r[mn]
			}
		}
		c.check(stop, "C05.R3", "map-error "+m.fnName(vis), "a failing Map ends the section loop with the error recorded", "the section loop continues (or drops the error) after kernelPDT.Map failed", g.posOf(mn))
	}

	// ---- R4 / R5 in setupPDTForKernel ----
	c.floor("C05.R4", 1)
	c.floor("C05.R5", 3)
	gs := newIG(m, setup, nil)
	var cmaps []int
	for _, n := range gs.callNodes(pdtMap) {
		if isKernelPDT(gs.callArgs(n)[0]) {
			cmaps = append(cmaps, n)
		}
	}
	bad = ""
	if len(cmaps) != 1 {
		bad = fmt.Sprintf("expected one kernelPDT.Map call in the reservation copy loop, found %d", len(cmaps))
	} else {
		cn := cmaps[0]
		a := gs.callArgs(cn)
		// In iteration T the loop maps page fdiv12(A) to frame fdiv12(translate(A))
		// with Present|RW, for the address A = earlyReserveLastUsed + 4096*T, while
		// A < tempMappingAddr.
		fl, okf := constUint64(a[3])
		// the frame: the translated address / PageSize, however it is spelled
		var tc *ssa.Call
		zt := &Polyizer{}
		frameP := zt.Of(a[2])
		for _, in := range gs.Ins {
			v, ok := in.(ssa.Value)
			if !ok || !isIntegral(v.Type()) {
				continue
			}
			if call, ok := m.resultOf(v, translate, 0); ok && frameP.equal(pFdiv(12, zt.Of(v))) {
				tc = call
			}
		}
		lf, inLoop := gs.loopFormAt(z, gs.Ins[cn].Block())
		switch {
		case !okf || fl != fPresent|fRW:
			bad = "reserved pages are not re-mapped with Present|RW"
		case tc == nil:
			bad = "the frame is not fdiv(translate(a), 4096) (" + z.Of(a[2]).String() + ")"
		case !inLoop:
			bad = "the reservation copy is not a loop"
		default:
			addr := tc.Common().Args[0]
			first, step, okA := lf.affineInT(addr)
			pageP := z.Of(a[1])
			addrP := z.Of(addr)
			trips, tripsOK := lf.Trips, lf.TripsOK
			lf.Done()
			var lastUsedP Poly
			for _, in := range gs.Ins {
				if v, ok := in.(ssa.Value); ok && isLoadOfGlobal(v, lastUsed) {
					lastUsedP = z.Of(v)
				}
			}
			stepK, stepIsK := step.isConst()
			switch {
			case !pageP.equal(pFdiv(12, addrP)):
				bad = "the page mapped is not the page of the address that is translated (" + pageP.String() + ")"
			case !okA || !stepIsK || uint64(stepK) != pageSize || lastUsedP == nil || !first.equal(lastUsedP):
				bad = "the copy loop does not start at earlyReserveLastUsed and advance by PageSize"
			case !tripsOK || !trips.equal(pCdiv(12, polyConst(int64(tempAddr)).add(lastUsedP, -1))):
				bad = "the copy loop does not run while the address is below tempMappingAddr"
			}
			// translate error checked before the page is mapped
			if bad == "" {
				tErr := hasFact(gs.FactsAt(cn), func(f Fact) bool {
					return isNilFact(f, token.EQL, func(v ssa.Value) bool { cc, ok := m.resultOf(v, translate, 1); return ok && cc == tc })
				})
				if !tErr {
					bad = "the translation error is not checked before the page is mapped"
				}
			}
			returnsOne := func(r []bool, is func(ssa.Value) bool) bool {
				found := false
				for k, in := range gs.Ins {
					rt, ok := in.(*ssa.Return)
					if !ok || !r[k] || rt.Parent() != setup {
						continue
					}
					okOne := false
					for _, vc := range gs.valueCases(rt.Results[0], k) {
						if is(vc.Val) {
							okOne = true
						}
					}
					if !okOne {
						return false
					}
					found = true
				}
				return found
			}
			// map error returned
			if bad == "" {
				call := gs.Ins[cn].(*ssa.Call)
				okRet := false
				for _, f := range gs.AllEdgeFacts() {
					if isNilFact(f, token.NEQ, func(v ssa.Value) bool { return v == ssa.Value(call) }) {
						r := gs.ReachAssuming(f.Edge, nil)
						if returnsOne(r, func(v ssa.Value) bool { return v == ssa.Value(call) }) {
							okRet = true
						}
					}
				}
				if !okRet {
					bad = "a failing Map in the copy loop is not returned"
				}
			}
			// translate failure returns its error and maps nothing further
			if bad == "" {
				for _, f := range gs.AllEdgeFacts() {
					if isNilFact(f, token.NEQ, func(v ssa.Value) bool { _, ok := m.resultOf(v, translate, 1); return ok }) {
						r := gs.ReachAssuming(f.Edge, nil)
						if !returnsOne(r, func(v ssa.Value) bool { _, ok := m.resultOf(v, translate, 1); return ok }) {
							bad = "a translation failure does not return the translation error"
						}
						if r[cn] {
							bad = "mapping continues after a translation failure"
						}
					}
				}
			}
		}
	}
	c.check(bad == "", "C05.R4", "reservation-copy "+m.fnName(setup), "for a := earlyReserveLastUsed; a < tempMappingAddr; a += PageSize: kernelPDT.Map(fdiv(a), fdiv(translate(a)), Present|RW), errors returned", bad, m.pos(setup.Pos()))

	// R5
	inits := gs.Nodes(func(in ssa.Instruction) bool {
		return m.callsTo(in, pdtInit) && isKernelPDT(callCommon(in).Args[0])
	})
	bad = ""
	if len(inits) != 1 {
		bad = "expected exactly one kernelPDT.Init call"
	} else {
		in := gs.Ins[inits[0]].(*ssa.Call)
		if _, ok := m.resultOf(in.Common().Args[1], allocFrame, 0); !ok {
			bad = "kernelPDT is not initialised with a freshly allocated frame"
		}
		isErr := func(v ssa.Value) bool {
			if v == ssa.Value(in) {
				return true
			}
			vals, _, ok := cellStoredValues(v)
			return ok && len(vals) > 0 && containsValue(vals, in)
		}
		// every use of kernelPDT.Map (both the closure creation and the copy loop) after Init succeeded
		var uses []int
		uses = append(uses, cmaps...)
		for n, ins := range gs.Ins {
			if mc, ok := ins.(*ssa.MakeClosure); ok && mc.Fn == ssa.Value(vis) {
				uses = append(uses, n)
			}
		}
		for _, u := range uses {
			if ok, _ := gs.MustPassBefore(u, func(n int) bool { return n == inits[0] }); !ok && bad == "" {
				bad = "kernelPDT.Map can run before kernelPDT.Init"
			}
		}
		// Init's error is tested right after it (a later overwrite of the shared err variable must not hide it)
		okTest := false
		for _, f := range gs.AllEdgeFacts() {
			if isNilFact(f, token.NEQ, isErr) {
				if ok, _ := gs.MustPassBefore(f.Edge.From, func(n int) bool { return n == inits[0] }); ok {
					r := gs.ReachAssuming(f.Edge, nil)
					okTest = true
					for _, u := range uses {
						if r[u] {
							okTest = false
						}
					}
				}
			}
		}
		if bad == "" && !okTest {
			bad = "sections are mapped although kernelPDT.Init failed"
		}
	}
	c.check(bad == "", "C05.R5", "init-first "+m.fnName(setup), "kernelPDT.Init(fresh frame) succeeds before any kernelPDT.Map", bad, m.pos(setup.Pos()))
	isAct := func(n int) bool {
		return gs.Ins[n] != nil && m.callsTo(gs.Ins[n], pdtAct) && isKernelPDT(gs.callArgs(n)[0])
	}
	nnil := 0
	bad = ""
	var visErr []int
	for n, in := range gs.Ins {
		if m.callsTo(in, visitElf) {
			visErr = append(visErr, n)
		}
	}
	for _, rc := range gs.ReturnCases() {
		// a return of nil: the constant, or a value that is known to be nil (or not
		// known to be an error) on this path
		v := rc.Vals[0]
		facts := gs.CaseFacts(rc)
		if !isNilConst(v) {
			if hasFact(facts, func(f Fact) bool { return isNilFact(f, token.NEQ, func(x ssa.Value) bool { return x == v }) }) {
				continue // an error return
			}
			if m.nonNilErrorGlobal(v) {
				continue
			}
		}
		nnil++
		if !gs.CaseMustPassBefore(rc, isAct) {
			bad = "setupPDTForKernel can return nil without activating the new address space"
		}
		// the visitor ran and its error was checked
		if len(visErr) != 1 {
			bad = "the ELF sections are not visited exactly once"
		} else if !gs.CaseMustPassBefore(rc, func(n int) bool { return n == visErr[0] }) {
			bad = "nil can be returned without visiting the ELF sections"
		}
	}
	if nnil == 0 {
		bad = "no nil return"
	}
	// nothing maps after Activate
	for n := range gs.Ins {
		if isAct(n) {
			r := gs.Reach(gs.Succ[n], nil, nil)
			for _, cm := range cmaps {
				if r[cm] {
					bad = "pages are mapped into kernelPDT after it has been activated"
				}
			}
		}
	}
	c.check(bad == "", "C05.R5", "activate "+m.fnName(setup), "every nil return passes the section visit and kernelPDT.Activate()", bad, m.pos(setup.Pos()))
	// the sticky error after the visit is returned
	// vmm.Init
	gi := newIG(m, vinit, nil)
	sc := gi.callNodes(setup)
	bad = ""
	if len(sc) != 1 {
		bad = "vmm.Init does not call setupPDTForKernel exactly once"
	} else {
		call := gi.Ins[sc[0]].(*ssa.Call)
		if call.Common().Args[0] != ssa.Value(vinit.Params[0]) {
			bad = "setupPDTForKernel is not given vmm.Init's kernelPageOffset"
		}
		for n, in := range gi.Ins {
			if _, isCall := in.(*ssa.Call); !isCall || n == sc[0] {
				continue
			}
			okBefore, _ := gi.MustPassBefore(n, func(k int) bool { return k == sc[0] })
			errNil := hasFact(gi.FactsAt(n), func(f Fact) bool {
				return isNilFact(f, token.EQL, func(v ssa.Value) bool { return v == ssa.Value(call) })
			})
			if !okBefore || !errNil {
				bad = "vmm.Init performs " + callName(in.(*ssa.Call).Common()) + " on a path on which setupPDTForKernel has not succeeded"
			}
		}
		okRet := false
		for _, rn := range gi.Returns() {
			if gi.Ins[rn].(*ssa.Return).Results[0] == ssa.Value(call) {
				okRet = true
			}
		}
		if bad == "" && !okRet {
			bad = "vmm.Init does not return setupPDTForKernel's error"
		}
	}
	c.check(bad == "", "C05.R5", "init-order "+m.fnName(vinit), "returns setupPDTForKernel's error before doing anything else", bad, m.pos(vinit.Pos()))
}

func containsValue(vals []ssa.Value, v ssa.Value) bool {
	for _, x := range vals {
		if x == v {
			return true
		}
	}
	return false
}
