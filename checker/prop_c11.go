package main

import (
	"fmt"
	"go/constant"
	"go/token"
	"go/types"
	"sort"
	"strings"

	"golang.org/x/tools/go/ssa"
)

func init() {
	register(&Property{
		ID: "C11", NeedKernel: true, Run: runC11,
		Explanation: "Only the tables the AML parser is driven by are decided, by folding the program's own lookup functions over every input (constant folding through " +
			"control flow of go/ssa, nothing executed): (R1) for every byte b, opcodeMap[b] / extendedOpcodeMap[b] is either 0xff or the index of a table entry whose " +
			"opcode is b / 0xff+b; every pOp* opcode constant except the freed sentinel folds through pOpcodeTableIndex(op, true) to exactly one entry carrying that " +
			"opcode; entry names are unique; (R2) for every table entry built with makeArgK(a0..), argCount() folds to K and arg(i) to ai; every pArgType constant " +
			"dispatches in parseArg either to an explicit case or is one of the three Target/SimpleName/SuperName kinds handled by the default, and exactly the " +
			"types parseArg routes to parseSimpleArg have a non-failing case there; (R3) every named entry (except the internal scope block) has NameString as its " +
			"first non-PkgLen argument, every deferred entry starts with PkgLen, every TermList/FieldList argument is last, and Method's arguments are " +
			"[PkgLen, NameString, ByteData, TermList] (the argument-count flags are attached argument #1); (R4) multi-table loads start from a clean per-table state: every Parser " +
			"field written while a table is parsed is re-initialised by init/resetState, which ParseAML calls first on every path.",
		EnumRule:    "one obligation per table (exhaustive over its 256 / N entries) and per opcode / argument-type constant",
		Assumptions: []string{"scoping, relocation, forward references and multi-table loads (the behavioural core of C11) are not decided; honest size of this claim: small"},
		Controls: []Control{
			{Name: "deferred blocks below some children never parsed", File: "kernel/device/acpi/aml/parser.go", Old: "\t\tif p.parseDeferredBlocks(argIndex) != parseResultOk {", New: "\t\tif p.objTree.ObjectAt(argIndex).tableHandle != p.tableHandle {\n\t\t\tcontinue\n\t\t}\n\t\tif p.parseDeferredBlocks(argIndex) != parseResultOk {", Expect: "C11.R3 deferred-all-children"},
			{Name: "scope block taken from argument 1", File: "kernel/device/acpi/aml/parser.go", Old: "\t\t\t\tfor targetIndex, targetObj = targetObj.firstArgIndex, nil; targetIndex != InvalidIndex; targetIndex = p.objTree.ObjectAt(targetIndex).nextSiblingIndex {\n\t\t\t\t\tif nextObj := p.objTree.ObjectAt(targetIndex); nextObj.opcode == pOpIntScopeBlock {\n\t\t\t\t\t\ttargetObj = nextObj\n\t\t\t\t\t\tbreak\n\t\t\t\t\t}\n\t\t\t\t}\n", New: "\t\t\t\tif targetObj = p.objTree.ArgAt(targetObj, 1); targetObj != nil && targetObj.opcode != pOpIntScopeBlock {\n\t\t\t\t\ttargetObj = nil\n\t\t\t\t}\n", Expect: "C11.R7"},
			{Name: "field offset restarts at a Connection", File: "kernel/device/acpi/aml/parser.go", Old: "\t\t\tconnectionIndex = connection.index\n", New: "\t\t\tconnectionIndex = connection.index\n\t\t\tnextFieldOffset = 0\n", Expect: "C11.R6"},
			{Name: "one site reads the method argument count with & 0x3", File: "kernel/device/acpi/aml/parser.go", Old: "\targCount := uint8(p.objTree.ArgAt(target, 1).value.(uint64) & 0x7)", New: "\targCount := uint8(p.objTree.ArgAt(target, 1).value.(uint64) & 0x3)", Expect: "C11.R5"},
			{Name: "swap two opcodeMap entries", File: "kernel/device/acpi/aml/parser_opcode_table.go", Old: "/*0x70 - 0x77*/ 0x1e, 0x1f, 0x20, 0x21,", New: "/*0x70 - 0x77*/ 0x1e, 0x1f, 0x21, 0x20,", Expect: "C11.R1"},
			{Name: "drop pArgTypeQwordData from parseSimpleArg", File: "kernel/device/acpi/aml/parser.go", Old: "\tcase pArgTypeQwordData:\n\t\tobj.opcode = pOpQwordPrefix\n\t\tobj.value, res = p.parseNumConstant(8)\n", New: "", Expect: "C11.R2"},
			{Name: "arg() mask narrower than the slot", File: "kernel/device/acpi/aml/parser_opcode_table.go", Old: "return pArgType((fl >> (num * 8)) & 0xf)", New: "return pArgType((fl >> (num * 8)) & 0x7)", Expect: "C11.R2"},
			{Name: "makeArg3 shifts the third argument into slot 3", File: "kernel/device/acpi/aml/parser_opcode_table.go", Old: "return pOpArgTypeList(arg2)<<16 | pOpArgTypeList(arg1)<<8 | pOpArgTypeList(arg0)\n}\nfunc makeArg4", New: "return pOpArgTypeList(arg2)<<24 | pOpArgTypeList(arg1)<<8 | pOpArgTypeList(arg0)\n}\nfunc makeArg4", Expect: "C11.R2"},
			{Name: "Device loses its name argument position", File: "kernel/device/acpi/aml/parser_opcode_table.go", Old: "{pOpDevice, \"Device\", pOpFlagNamed | pOpFlagScoped, makeArg3(pArgTypePkgLen, pArgTypeNameString, pArgTypeTermList)}", New: "{pOpDevice, \"Device\", pOpFlagNamed | pOpFlagScoped, makeArg3(pArgTypeNameString, pArgTypePkgLen, pArgTypeTermList)}", Expect: "C11.R3"},
			{Name: "extended map entry points at the wrong row", File: "kernel/device/acpi/aml/parser_opcode_table.go", Old: "/*0x80 - 0x87*/ 0x68, 0x69, 0x6a, 0x6b, 0x6c, 0x6d, 0x6e, 0x6f,\n\t/*0x88 - 0x8f*/ 0x70,", New: "/*0x80 - 0x87*/ 0x68, 0x69, 0x6b, 0x6a, 0x6c, 0x6d, 0x6e, 0x6f,\n\t/*0x88 - 0x8f*/ 0x70,", Expect: "C11.R1"},
			{Name: "internal opcode formula off by one", File: "kernel/device/acpi/aml/parser_opcode_table.go", Old: "index = uint8(len(pOpcodeTable) + int(opcode) - 0x1fe)", New: "index = uint8(len(pOpcodeTable) + int(opcode) - 0x1fd)", Expect: "C11.R1"},
			{Name: "Method flags argument moved", File: "kernel/device/acpi/aml/parser_opcode_table.go", Old: "makeArg4(pArgTypePkgLen, pArgTypeNameString, pArgTypeByteData, pArgTypeTermList)}", New: "makeArg4(pArgTypePkgLen, pArgTypeByteData, pArgTypeNameString, pArgTypeTermList)}", Expect: "C11.R3"},
			{Name: "parse mode survives into the next table", File: "kernel/device/acpi/aml/parser.go", Old: "\tp.mode = parseModeSkipAmbiguousBlocks\n", New: "", Expect: "C11.R4"},
			{Name: "FieldList routed to the target parser", File: "kernel/device/acpi/aml/parser.go", Old: "\tcase pArgTypeFieldList:\n\t\treturn nil, p.parseFieldElements(curObj)\n", New: "", Expect: "C11.R2"},
		},
	})
}

func runC11(c *Ctx) {
	m := c.K
	const aml = "device/acpi/aml"
	pkg := m.pkg(aml)
	if pkg == nil {
		c.unresolved("C11.R1", "package aml")
		return
	}
	tableG, mapG, extG := pkg.Var("pOpcodeTable"), pkg.Var("opcodeMap"), pkg.Var("extendedOpcodeMap")
	idxFn := pkg.Func("pOpcodeTableIndex")
	argCount := m.lookupMethod(aml, "pOpArgTypeList", "argCount")
	argFn := m.lookupMethod(aml, "pOpArgTypeList", "arg")
	parseArg := m.lookupMethod(aml, "Parser", "parseArg")
	parseSimple := m.lookupMethod(aml, "Parser", "parseSimpleArg")
	infoT := m.lookupType(aml, "pOpcodeInfo")
	for name, v := range map[string]interface{}{"aml.pOpcodeTable": tableG, "aml.opcodeMap": mapG, "aml.extendedOpcodeMap": extG, "aml.pOpcodeTableIndex": idxFn,
		"pOpArgTypeList.argCount": argCount, "pOpArgTypeList.arg": argFn, "Parser.parseArg": parseArg, "Parser.parseSimpleArg": parseSimple, "aml.pOpcodeInfo": infoT} {
		if isNilIface(v) {
			c.unresolved("C11.R1", name)
			return
		}
	}
	fieldIdx := map[string]int{}
	st := infoT.Underlying().(*types.Struct)
	for i := 0; i < st.NumFields(); i++ {
		fieldIdx[st.Field(i).Name()] = i
	}
	for _, f := range []string{"op", "opName", "flags", "argFlags"} {
		if _, ok := fieldIdx[f]; !ok {
			c.unresolved("C11.R1", "pOpcodeInfo."+f)
			return
		}
	}
	ip := &Interp{m: m, Limit: 2_000_000}
	tables, err := loadTables(m, pkg, ip)
	if err != nil {
		c.undecided("C11.R1", "tables "+aml, "the opcode tables are not constant-foldable: "+err.Error())
		return
	}
	ip.tables = tables
	rows := tables.structs[tableG]
	omap, emap := tables.scalars[mapG], tables.scalars[extG]
	if len(rows) == 0 || len(omap) != 256 || len(emap) != 256 {
		c.undecided("C11.R1", "tables "+aml, fmt.Sprintf("unexpected table shapes: %d rows, %d/%d map entries", len(rows), len(omap), len(emap)))
		return
	}
	rowOp := func(i int) (uint64, bool) { return ivUint(rows[i][fieldIdx["op"]]) }
	bad, okc := namedConstUint(m, aml, "badOpcode")
	if !okc {
		c.unresolved("C11.R1", "aml.badOpcode")
		return
	}

	// ================= R1 =================
	c.floor("C11.R1", 4)
	for _, mp := range []struct {
		name string
		vals []constant.Value
		base uint64
	}{{"opcodeMap", omap, 0}, {"extendedOpcodeMap", emap, 0xff}} {
		var errs []string
		mapped := 0
		for b, v := range mp.vals {
			c.Evals++
			idx, _ := ivUint(v)
			if idx == bad {
				continue
			}
			mapped++
			if int(idx) >= len(rows) {
				errs = append(errs, fmt.Sprintf("%s[%#x] = %#x is past the end of the opcode table (%d rows)", mp.name, b, idx, len(rows)))
				continue
			}
			if op, ok := rowOp(int(idx)); !ok || op != mp.base+uint64(b) {
				errs = append(errs, fmt.Sprintf("%s[%#x] = %#x selects the row of opcode %#x, not %#x", mp.name, b, idx, op, mp.base+uint64(b)))
			}
		}
		if len(errs) > 3 {
			errs = append(errs[:3], fmt.Sprintf("... %d more", len(errs)-3))
		}
		c.check(len(errs) == 0, "C11.R1", "map-agrees aml."+mp.name, fmt.Sprintf("all 256 entries checked: %d map to the row carrying their opcode, the rest are 0xff", mapped), strings.Join(errs, "; "))
	}
	// opcode constants
	type opc struct {
		name string
		val  uint64
	}
	var ops []opc
	for name, mem := range pkg.Members {
		nc, ok := mem.(*ssa.NamedConst)
		if !ok || !strings.HasPrefix(name, "pOp") || strings.HasPrefix(name, "pOpFlag") {
			continue
		}
		if b, ok := nc.Type().Underlying().(*types.Basic); !ok || b.Kind() != types.Uint16 {
			continue
		}
		v, _ := constUint64(nc.Value)
		ops = append(ops, opc{name, v})
	}
	sort.Slice(ops, func(i, j int) bool { return ops[i].val < ops[j].val })
	var errs []string
	seenRow := map[uint64]string{}
	nops := 0
	for _, o := range ops {
		if o.name == "pOpIntFreedObject" {
			continue
		}
		nops++
		c.Evals++
		r, err := ip.Call(idxFn, []iv{constant.MakeUint64(o.val), constant.MakeBool(true)})
		if err != nil {
			errs = append(errs, fmt.Sprintf("%s: %v", o.name, err))
			continue
		}
		idx, _ := ivUint(r)
		if idx == bad || int(idx) >= len(rows) {
			errs = append(errs, fmt.Sprintf("%s (%#x) has no table entry (index %#x)", o.name, o.val, idx))
			continue
		}
		if op, _ := rowOp(int(idx)); op != o.val {
			errs = append(errs, fmt.Sprintf("%s (%#x) resolves to the row of opcode %#x", o.name, o.val, op))
		}
		if prev, dup := seenRow[idx]; dup {
			errs = append(errs, fmt.Sprintf("%s and %s share table row %#x", prev, o.name, idx))
		}
		seenRow[idx] = o.name
		// non-internal lookups agree
		if o.val < 0xff+0xf7 {
			r2, err := ip.Call(idxFn, []iv{constant.MakeUint64(o.val), constant.MakeBool(false)})
			if i2, _ := ivUint(r2); err != nil || i2 != idx {
				errs = append(errs, fmt.Sprintf("%s: lookup with allowInternalOp=false gives %#x, with true %#x", o.name, i2, idx))
			}
		}
	}
	if len(seenRow) != len(rows) {
		errs = append(errs, fmt.Sprintf("%d table rows but %d opcode constants resolve to a row: some rows are unreachable", len(rows), len(seenRow)))
	}
	if len(errs) > 4 {
		errs = append(errs[:4], fmt.Sprintf("... %d more", len(errs)-4))
	}
	c.check(len(errs) == 0, "C11.R1", "opcode-constants aml.pOpcodeTableIndex", fmt.Sprintf("all %d opcode constants fold to the unique row carrying their opcode (%d rows)", nops, len(rows)), strings.Join(errs, "; "))
	// every byte sequence that is NOT an opcode folds to badOpcode (allowInternalOp=false)
	errs = nil
	for op := uint64(0); op <= 0x1fe; op++ {
		r, err := ip.Call(idxFn, []iv{constant.MakeUint64(op), constant.MakeBool(false)})
		if err != nil {
			errs = append(errs, fmt.Sprintf("opcode %#x: %v", op, err))
			continue
		}
		idx, _ := ivUint(r)
		isOp := false
		for _, o := range ops {
			if o.val == op && o.val < 0xff+0xf7 {
				isOp = true
			}
		}
		if !isOp && idx != bad {
			errs = append(errs, fmt.Sprintf("%#x is not an AML opcode but maps to row %#x", op, idx))
		}
	}
	if len(errs) > 3 {
		errs = append(errs[:3], "...")
	}
	c.check(len(errs) == 0, "C11.R1", "non-opcodes aml.pOpcodeTableIndex", "all 511 byte / extended-byte values folded: exactly the opcode constants map to a row", strings.Join(errs, "; "))
	names := map[string]int{}
	for i := range rows {
		if cv, ok := rows[i][fieldIdx["opName"]].(constant.Value); ok {
			names[constant.StringVal(cv)]++
		}
	}
	dups := []string{}
	for n, k := range names {
		if k > 1 {
			dups = append(dups, n)
		}
	}
	sort.Strings(dups)
	c.check(len(dups) == 0 && len(names) == len(rows), "C11.R1", "names-unique aml.pOpcodeTable", fmt.Sprintf("%d distinct entry names", len(names)), "duplicate or missing opcode names: "+strings.Join(dups, ", "))

	// ================= R2 =================
	c.floor("C11.R2", 3)
	// argument-type constants
	argT := m.lookupType(aml, "pArgType")
	argNames := map[uint64]string{}
	for name, mem := range pkg.Members {
		if nc, ok := mem.(*ssa.NamedConst); ok && argT != nil && types.Identical(nc.Type(), argT) {
			v, _ := constUint64(nc.Value)
			argNames[v] = name
		}
	}
	// per row: constructor arguments vs argCount()/arg(i). The constructors
	// (functions returning a pOpArgTypeList) are anchors: their calls carry the
	// declared arguments.
	if listT := m.lookupType(aml, "pOpArgTypeList"); listT != nil {
		for _, mem := range pkg.Members {
			if fn, ok := mem.(*ssa.Function); ok && fn.Signature.Recv() == nil && fn.Signature.Results().Len() == 1 &&
				types.Identical(fn.Signature.Results().At(0).Type(), listT) {
				m.anchor(fn)
			}
		}
	}
	init := pkg.Func("init")
	ctor := map[int][]uint64{} // row -> constructor args
	for _, b := range init.Blocks {
		for _, in := range b.Instrs {
			s, ok := in.(*ssa.Store)
			if !ok {
				continue
			}
			fa, ok := s.Addr.(*ssa.FieldAddr)
			if !ok || fa.Field != fieldIdx["argFlags"] {
				continue
			}
			ia, ok := fa.X.(*ssa.IndexAddr)
			if !ok {
				continue
			}
			ri, _ := constInt64(ia.Index)
			if call, ok := s.Val.(*ssa.Call); ok {
				var as []uint64
				for _, a := range call.Common().Args {
					v, _ := constUint64(a)
					as = append(as, v)
				}
				ctor[int(ri)] = as
			} else {
				ctor[int(ri)] = nil
			}
		}
	}
	errs = nil
	rowArgs := make([][]uint64, len(rows))
	for i := range rows {
		af := rows[i][fieldIdx["argFlags"]]
		if af == nil {
			errs = append(errs, fmt.Sprintf("row %#x: argument list is not constant-foldable", i))
			continue
		}
		c.Evals++
		r, err := ip.Call(argCount, []iv{af})
		if err != nil {
			errs = append(errs, fmt.Sprintf("row %#x: %v", i, err))
			continue
		}
		n, _ := ivUint(r)
		for k := uint64(0); k < n; k++ {
			av, err := ip.Call(argFn, []iv{af, constant.MakeUint64(k)})
			if err != nil {
				errs = append(errs, fmt.Sprintf("row %#x arg %d: %v", i, k, err))
				break
			}
			a, _ := ivUint(av)
			rowArgs[i] = append(rowArgs[i], a)
			if _, ok := argNames[a]; !ok {
				errs = append(errs, fmt.Sprintf("row %#x arg %d decodes to %d, which is not a pArgType constant", i, k, a))
			}
		}
		want, have := ctor[i], rowArgs[i]
		if fmt.Sprint(want) != fmt.Sprint(have) && !(len(want) == 0 && len(have) == 0) {
			opn, _ := rows[i][fieldIdx["opName"]].(constant.Value)
			errs = append(errs, fmt.Sprintf("row %#x (%v): declared arguments %v but argCount()/arg(i) decode %v", i, opn, want, have))
		}
	}
	if len(errs) > 4 {
		errs = append(errs[:4], fmt.Sprintf("... %d more", len(errs)-4))
	}
	c.check(len(errs) == 0, "C11.R2", "encoding-agrees aml.pOpcodeTable", fmt.Sprintf("for all %d rows argCount() and arg(i) fold to the arguments the row was declared with", len(rows)), strings.Join(errs, "; "))

	// dispatch of parseArg / parseSimpleArg per argument type
	landing := func(fn *ssa.Function, param *ssa.Parameter, k uint64) (*ssa.BasicBlock, bool) {
		b := fn.Blocks[0]
		for steps := 0; steps < 200; steps++ {
			last := b.Instrs[len(b.Instrs)-1]
			// dispatch blocks contain only comparisons of the parameter with constants
			pure := true
			for _, in := range b.Instrs[:len(b.Instrs)-1] {
				bo, ok := in.(*ssa.BinOp)
				if !ok || bo.Op != token.EQL || bo.X != ssa.Value(param) {
					pure = false
				}
			}
			ifi, isIf := last.(*ssa.If)
			if !pure || !isIf {
				// allow a leading non-dispatch prefix only in the entry block
				if b == fn.Blocks[0] && isIf {
					if bo, ok := ifi.Cond.(*ssa.BinOp); ok && bo.Op == token.EQL && bo.X == ssa.Value(param) {
						goto eval
					}
				}
				return b, true
			}
		eval:
			bo, ok := ifi.Cond.(*ssa.BinOp)
			if !ok || bo.Op != token.EQL || bo.X != ssa.Value(param) {
				return b, true
			}
			cv, ok := constUint64(bo.Y)
			if !ok {
				return nil, false
			}
			if cv == k {
				b = b.Succs[0]
				// landed on the case body
				return b, true
			}
			b = b.Succs[1]
		}
		return nil, false
	}
	firstCall := func(b *ssa.BasicBlock) string {
		seen := map[*ssa.BasicBlock]bool{}
		for b != nil && !seen[b] {
			seen[b] = true
			for _, in := range b.Instrs {
				if call, ok := in.(*ssa.Call); ok {
					if f := call.Common().StaticCallee(); f != nil && f.Pkg == pkg && strings.HasPrefix(f.Name(), "parse") {
						return f.Name()
					}
				}
				if _, ok := in.(*ssa.Return); ok {
					return "return"
				}
			}
			if len(b.Succs) == 0 {
				break
			}
			b = b.Succs[0]
		}
		return "?"
	}
	paP, psP := paramNamed(parseArg, "argType"), paramNamed(parseSimple, "argType")
	if paP == nil || psP == nil {
		c.unresolved("C11.R2", "argType parameters of parseArg / parseSimpleArg")
		return
	}
	// the default block of parseArg: where an impossible value lands
	defBlk, _ := landing(parseArg, paP, 0xee)
	defSimple, _ := landing(parseSimple, psP, 0xee)
	trio := map[string]bool{"pArgTypeTarget": true, "pArgTypeSimpleName": true, "pArgTypeSuperName": true}
	var keys []uint64
	for k := range argNames {
		keys = append(keys, k)
	}
	sort.Slice(keys, func(i, j int) bool { return keys[i] < keys[j] })
	simpleSet := []string{}
	for _, k := range keys {
		name := argNames[k]
		key := "arg-dispatch " + name
		blk, ok := landing(parseArg, paP, k)
		if !ok {
			c.undecided("C11.R2", key, "the dispatch of parseArg is not a chain of comparisons with constants")
			continue
		}
		c.Evals++
		target := firstCall(blk)
		switch {
		case blk == defBlk && !trio[name]:
			c.fail("C11.R2", key, name+" has no case in parseArg and falls into the default, which parses a Target", m.pos(parseArg.Pos()))
		case blk == defBlk:
			c.ok("C11.R2", key, "handled by the default (target parser: "+target+")")
		case trio[name]:
			c.ok("C11.R2", key, "explicit case -> "+target)
		case target == parseSimple.Name():
			simpleSet = append(simpleSet, name)
			sb, ok := landing(parseSimple, psP, k)
			if !ok || sb == defSimple {
				c.fail("C11.R2", key, "parseArg routes "+name+" to parseSimpleArg, which has no case for it and fails the parse", m.pos(parseSimple.Pos()))
			} else {
				c.ok("C11.R2", key, "parseArg -> parseSimpleArg, which has a case for it")
			}
		default:
			c.ok("C11.R2", key, "explicit case -> "+target)
		}
	}
	// cases of parseSimpleArg that parseArg never routes there are dead but harmless; report the set
	c.note("argument types routed to parseSimpleArg: %s", strings.Join(simpleSet, ", "))

	// ================= R3 =================
	c.floor("C11.R3", 3)
	flagV := func(name string) uint64 { v, _ := namedConstUint(m, aml, name); return v }
	fNamed, fDefer := flagV("pOpFlagNamed"), flagV("pOpFlagDeferParsing")
	argV := map[string]uint64{}
	for v, n := range argNames {
		argV[n] = v
	}
	scopeBlock, _ := namedConstUint(m, aml, "pOpIntScopeBlock")
	methodOp, _ := namedConstUint(m, aml, "pOpMethod")
	var eNamed, eDefer, eLast []string
	nNamed, nDefer := 0, 0
	for i := range rows {
		fl, _ := ivUint(rows[i][fieldIdx["flags"]])
		op, _ := rowOp(i)
		opn, _ := rows[i][fieldIdx["opName"]].(constant.Value)
		args := rowArgs[i]
		nonPkg := []uint64{}
		for _, a := range args {
			if a != argV["pArgTypePkgLen"] {
				nonPkg = append(nonPkg, a)
			}
		}
		if fl&fNamed != 0 && op != scopeBlock {
			nNamed++
			if len(nonPkg) == 0 || nonPkg[0] != argV["pArgTypeNameString"] {
				eNamed = append(eNamed, fmt.Sprintf("%v: named but its first non-PkgLen argument is not a NameString", opn))
			}
		}
		if fl&fDefer != 0 {
			nDefer++
			if len(args) == 0 || args[0] != argV["pArgTypePkgLen"] {
				eDefer = append(eDefer, fmt.Sprintf("%v: deferred but does not start with PkgLen", opn))
			}
		}
		for k, a := range args {
			if (a == argV["pArgTypeTermList"] || a == argV["pArgTypeFieldList"] || a == argV["pArgTypeByteList"]) && k != len(args)-1 {
				eLast = append(eLast, fmt.Sprintf("%v: a list argument is not the last argument", opn))
			}
			if a == argV["pArgTypePkgLen"] && k != 0 {
				eLast = append(eLast, fmt.Sprintf("%v: PkgLen is not the first argument", opn))
			}
		}
		if op == methodOp {
			want := []uint64{argV["pArgTypePkgLen"], argV["pArgTypeNameString"], argV["pArgTypeByteData"], argV["pArgTypeTermList"]}
			c.check(fmt.Sprint(args) == fmt.Sprint(want), "C11.R3", "method-args aml.pOpcodeTable", "Method = [PkgLen, NameString, ByteData(flags), TermList]: attached argument #1 holds the argument count",
				fmt.Sprintf("Method's arguments are %v; the parser reads the argument count from attached argument #1 expecting [PkgLen, NameString, ByteData, TermList]", args))
		}
	}
	c.check(len(eNamed) == 0 && nNamed > 0, "C11.R3", "named-entries aml.pOpcodeTable", fmt.Sprintf("%d named entries start with a NameString", nNamed), strings.Join(eNamed, "; "))
	c.check(len(eDefer) == 0 && nDefer > 0, "C11.R3", "deferred-entries aml.pOpcodeTable", fmt.Sprintf("%d deferred entries start with PkgLen", nDefer), strings.Join(eDefer, "; "))
	// every deferred block is parsed, wherever it hangs in the tree: the walk of
	// parseDeferredBlocks descends into every child
	if pdb := m.lookupMethod(aml, "Parser", "parseDeferredBlocks"); pdb == nil {
		c.unresolved("C11.R3", "Parser.parseDeferredBlocks")
	} else {
		g := newIG(m, pdb, nil)
		bad, nrec := "", 0
		var where []string
		for n := range g.Ins {
			if !m.callsTo(g.Ins[n], pdb) {
				continue
			}
			nrec++
			p, inLoop := g.loopBypass(n)
			if !inLoop {
				bad = "the recursive call is not in the loop over the children"
			} else if p != nil {
				bad = "the walk can go on to the next child without descending into this one: deferred blocks below it are never parsed"
				where = g.where(p, 8)
			}
		}
		if nrec == 0 {
			bad = "parseDeferredBlocks no longer descends into the children of an object"
		}
		c.check(bad == "", "C11.R3", "deferred-all-children "+m.fnName(pdb), "the walk over the tree descends into every child of every object", bad, where...)
	}
	c.check(len(eLast) == 0, "C11.R3", "list-args-last aml.pOpcodeTable", "PkgLen only first, TermList/FieldList/ByteList only last", strings.Join(eLast, "; "))

	// ================= R4 =================
	c11PerTableState(c)
	c11MethodArgMask(c)
	c11FieldOffsets(c)
	c11ScopeBlockLookup(c)
}

// C11.R4: every Parser field that is written while a table is parsed is
// re-initialised when the next table is started (multi-table loads start from a
// clean per-table state). Frame condition: fields stored outside the
// constructor / init / resetState  is a subset of  fields stored by init /
// resetState on every path of ParseAML's entry.
func c11PerTableState(c *Ctx) {
	m := c.K
	const aml = "device/acpi/aml"
	c.floor("C11.R4", 1)
	parserT := m.lookupType(aml, "Parser")
	parse := m.lookupMethod(aml, "Parser", "ParseAML")
	initM := m.lookupMethod(aml, "Parser", "init")
	reset := m.lookupMethod(aml, "Parser", "resetState")
	ctor := m.lookupFunc(aml, "NewParser")
	if parserT == nil || parse == nil || initM == nil || reset == nil || ctor == nil {
		c.unresolved("C11.R4", "aml.Parser / ParseAML / init / resetState / NewParser")
		return
	}
	st := parserT.Underlying().(*types.Struct)
	isParserField := map[*types.Var]bool{}
	for i := 0; i < st.NumFields(); i++ {
		isParserField[st.Field(i)] = true
	}
	// the first Parser field selected on the path of a store (p.r.offset -> r)
	// the Parser field a store writes: a component of the Parser struct itself,
	// or an element of a slice the Parser holds; a store into an object that a
	// Parser field points to (p.objTree.x) writes that object, not the Parser
	firstField := func(s *ssa.Store) *types.Var {
		p := accessPath(s.Addr)
		fd := len(p)
		for i, e := range p {
			if e.Kind == "deref" {
				fd = i
				break
			}
		}
		for _, e := range p[fd:] {
			if e.Kind == "field" {
				return nil
			}
		}
		for _, e := range p[:fd] {
			if e.Kind == "field" && isParserField[e.Field] {
				return e.Field
			}
		}
		return nil
	}
	reinit := map[*types.Var]bool{}
	// stores in init/resetState (and, for the embedded reader, its Init method called from init)
	for _, fn := range []*ssa.Function{initM, reset} {
		g := newIG(m, fn, nil)
		for n, in := range g.Ins {
			if s, ok := in.(*ssa.Store); ok {
				if f := firstField(s); f != nil {
					// on every path to the function's returns
					all := true
					for _, rn := range g.Returns() {
						if ok, _ := g.MustPassBefore(rn, func(k int) bool { return k == n }); !ok {
							all = false
						}
					}
					if all {
						reinit[f] = true
					}
				}
			}
			// a method call on a field value (p.r.Init(...)) re-initialises that field
			if cc := callCommon(in); cc != nil && len(cc.Args) > 0 {
				if cal := m.callee(cc); cal != nil && cal.Name() == "Init" {
					for _, f := range pathFields(accessPath(cc.Args[0])) {
						if isParserField[f] {
							reinit[f] = true
						}
					}
				}
			}
		}
	}
	// init/resetState run first in ParseAML
	g := newIG(m, parse, nil)
	firstOK := false
	for _, n := range g.callNodes(initM) {
		// nothing else is called before it
		before := false
		for k, in := range g.Ins {
			if _, isCall := in.(*ssa.Call); isCall && k != n && m.helperOf(in) == nil && g.Reach(g.Succ[k], nil, nil)[n] {
				before = true
			}
		}
		dom := true
		for _, rn := range g.Returns() {
			if ok, _ := g.MustPassBefore(rn, func(k int) bool { return k == n }); !ok {
				dom = false
			}
		}
		firstOK = !before && dom
	}
	gi := newIG(m, initM, nil)
	resetCalled := len(gi.callNodes(reset)) > 0
	if !firstOK || !resetCalled {
		c.fail("C11.R4", "per-table-state "+m.fnName(parse), "ParseAML does not start by calling init (which must call resetState) on every path", m.pos(parse.Pos()))
		return
	}
	// fields written while parsing
	written := map[*types.Var][]string{}
	pkg := m.pkg(aml)
	for _, fn := range m.scanFuncs() {
		if fn.Pkg != pkg || fn == ctor || fn == initM || fn == reset {
			continue
		}
		for _, b := range m.blocksOf(fn) {
			for _, in := range b.Instrs {
				if s, ok := in.(*ssa.Store); ok {
					p := accessPath(s.Addr)
					if len(p) == 0 {
						continue
					}
					// only stores rooted at a *Parser
					rootIsParser := false
					if pr, ok := p[0].V.(*ssa.Parameter); ok && typeIs(pr.Type(), parserT) {
						rootIsParser = true
					}
					if !rootIsParser {
						continue
					}
					if f := firstField(s); f != nil {
						written[f] = append(written[f], m.fnName(fn))
						c.Evals++
					}
				}
			}
		}
	}
	var stale []string
	var names []string
	for f, where := range written {
		names = append(names, f.Name())
		if !reinit[f] {
			stale = append(stale, fmt.Sprintf("%s (written by %s)", f.Name(), strings.Join(uniq(where), ", ")))
		}
	}
	sort.Strings(stale)
	sort.Strings(names)
	c.check(len(stale) == 0, "C11.R4", "per-table-state "+m.fnName(parse), "every Parser field written while parsing ("+strings.Join(names, ", ")+") is re-initialised by init/resetState at the start of each table",
		"per-table parser state survives into the next table: "+strings.Join(stale, "; ")+" - a later table is parsed with the state the previous one left behind", m.pos(reset.Pos()))
}

// storedFieldsAll lists every struct field selected on an address path.
func storedFieldsAll(p []PE) []*types.Var { return pathFields(p) }

// C11.R5: the number of arguments of a method invocation is read from the
// method's flags byte in more than one place (parsing a call inside a deferred
// block, resolving calls after the table is loaded, printing the tree). All of
// them must take the same field: the low three bits (ACPI: ArgCount, bits 0-2).
// A site that masks differently gives calls of methods with 4..7 arguments a
// different arity than the other sites.
func c11MethodArgMask(c *Ctx) {
	m := c.K
	const aml = "device/acpi/aml"
	c.floor("C11.R5", 2)
	pkg := m.pkg(aml)
	argAt := m.lookupMethod(aml, "ObjectTree", "ArgAt")
	valueF := m.fieldOf(aml, "Object", "value")
	if pkg == nil || argAt == nil || valueF == nil {
		c.unresolved("C11.R5", "ObjectTree.ArgAt / Object.value")
		return
	}
	// flagsOf: v is (through conversions) <ArgAt(method, 1)>.value.(uint64), or a value merged from it
	var isFlags func(v ssa.Value, depth int) bool
	isFlags = func(v ssa.Value, depth int) bool {
		if depth > 6 {
			return false
		}
		switch x := stripConv(v).(type) {
		case *ssa.TypeAssert:
			b, f, ok := loadedField(x.X)
			if !ok || f != valueF {
				return false
			}
			call, ok := m.resultOf(b, argAt, -1)
			if !ok {
				return false
			}
			k, ok := constUint64(call.Common().Args[2])
			return ok && k == 1
		case *ssa.Extract:
			return isFlags(x.Tuple, depth+1)
		case *ssa.Phi:
			for _, e := range x.Edges {
				if isFlags(e, depth+1) {
					return true
				}
			}
		}
		return false
	}
	n := 0
	for _, fn := range m.scanFuncs() {
		if fn.Pkg != pkg {
			continue
		}
		for _, b := range m.blocksOf(fn) {
			for _, in := range b.Instrs {
				bo, ok := in.(*ssa.BinOp)
				if !ok || bo.Op != token.AND {
					continue
				}
				var mask uint64
				var okM bool
				switch {
				case isFlags(bo.X, 0):
					mask, okM = constUint64(bo.Y)
				case isFlags(bo.Y, 0):
					mask, okM = constUint64(bo.X)
				default:
					continue
				}
				n++
				c.Evals++
				key := fmt.Sprintf("method-argcount-mask %s #%d", m.fnName(fn), n)
				c.check(okM && mask == 7, "C11.R5", key, "argument count = method flags & 0x7",
					fmt.Sprintf("the argument count of a method is taken as flags & %#x here; the other sites (and ACPI) use the low three bits (& 0x7): calls of methods with more arguments get a different arity at this site", mask), m.pos(in.Pos()))
			}
		}
	}
	if n < 2 {
		c.fail("C11.R5", "method-argcount-mask aml", fmt.Sprintf("only %d site(s) that read a method's argument count found (rule shape lost)", n))
	}
}

// C11.R6: the bit offset of a field unit is the sum of the widths of the
// elements before it in the field list. In parseFieldElements the value stored
// into fieldElement.offset is a variable of the element loop that starts at 0
// and is only ever increased by the package length just parsed (reserved
// elements and named fields); nothing else assigns it, and the width stored is
// that same package length.
func c11FieldOffsets(c *Ctx) {
	m := c.K
	const aml = "device/acpi/aml"
	c.floor("C11.R6", 2)
	fn := m.lookupMethod(aml, "Parser", "parseFieldElements")
	offF, widthF := m.fieldOf(aml, "fieldElement", "offset"), m.fieldOf(aml, "fieldElement", "width")
	pkgLenFn := m.lookupMethod(aml, "Parser", "parsePkgLength")
	if fn == nil || offF == nil || widthF == nil || pkgLenFn == nil {
		c.unresolved("C11.R6", "Parser.parseFieldElements / fieldElement.offset / width / Parser.parsePkgLength")
		return
	}
	g := newIG(m, fn, nil)
	isPkgLen := func(v ssa.Value) bool { _, ok := m.resultOf(stripConv(v), pkgLenFn, 0); return ok }
	var offV, widthV ssa.Value
	var offN int
	for n, in := range g.Ins {
		st, ok := in.(*ssa.Store)
		if !ok {
			continue
		}
		if _, f, ok := fieldOfAddr(st.Addr); ok {
			switch f {
			case offF:
				offV, offN = st.Val, n
			case widthF:
				widthV = st.Val
			}
		}
	}
	key := "field-offset-accumulates " + m.fnName(fn)
	if offV == nil || widthV == nil {
		c.fail("C11.R6", key, "no store of fieldElement.offset / width found (rule shape lost)", m.pos(fn.Pos()))
		return
	}
	wv := stripConv(widthV)
	if phi, ok := wv.(*ssa.Phi); ok {
		if r := g.phiAt(phi, offN); r != nil {
			wv = r
		}
	}
	c.check(isPkgLen(wv), "C11.R6", "field-width "+m.fnName(fn), "fieldElement.width = the package length parsed for this field",
		"the width of a field unit is not the package length parsed for it", g.posOf(offN))
	phi, ok := stripConv(offV).(*ssa.Phi)
	bad := ""
	if !ok {
		bad = "the offset stored is not a running variable of the element loop"
	} else {
		h, body := loopOf(phi.Block())
		if h != phi.Block() {
			bad = "the offset stored is not carried by the element loop"
		} else {
			seen := map[ssa.Value]bool{}
			var visit func(v ssa.Value, depth int)
			visit = func(v ssa.Value, depth int) {
				v = stripConv(v)
				if v == ssa.Value(phi) || seen[v] || bad != "" {
					return
				}
				seen[v] = true
				if depth > 8 {
					bad = "the offset variable is updated through too many merges to follow"
					return
				}
				switch t := v.(type) {
				case *ssa.Phi:
					for _, e := range t.Edges {
						visit(e, depth+1)
					}
				case *ssa.BinOp:
					if t.Op == token.ADD && (isPkgLen(t.Y) || isPkgLen(t.X)) {
						other := t.X
						if isPkgLen(t.X) && !isPkgLen(t.Y) {
							other = t.Y
						}
						visit(other, depth+1)
						return
					}
					bad = "the running offset is changed by something other than adding a parsed package length: " + describe(v)
				default:
					bad = "the running offset is assigned " + describe(v) + " inside the element loop (offsets of later field units no longer add up)"
				}
			}
			nInit := 0
			for i, e := range phi.Edges {
				if !body[h.Preds[i]] {
					nInit++
					if k, ok := constUint64(e); !ok || k != 0 {
						bad = "the running offset does not start at 0"
					}
					continue
				}
				visit(e, 0)
			}
			if nInit != 1 && bad == "" {
				bad = "the running offset has no single start value"
			}
		}
	}
	c.check(bad == "", "C11.R6", key, "fieldElement.offset is a loop variable that starts at 0 and only grows by parsed package lengths", bad, g.posOf(offN))
}

// C11.R7: both resolve passes (mergeScopeDirectives, relocateNamedObjects) move
// objects into the *scope block* of the named object they found by name. Where
// that block sits among the target's arguments depends on the opcode (after the
// name for Device, after four arguments for Processor, ...), so it is found by
// scanning the target's children for the scope-block opcode; a fixed argument
// position is right for some opcodes only. Checked in both passes: the object
// whose opcode is compared with pOpIntScopeBlock and that then becomes the new
// parent comes from a walk over the target's sibling chain.
func c11ScopeBlockLookup(c *Ctx) {
	m := c.K
	const aml = "device/acpi/aml"
	c.floor("C11.R7", 2)
	objectAt := m.lookupMethod(aml, "ObjectTree", "ObjectAt")
	opcodeF, nextF, firstF := m.fieldOf(aml, "Object", "opcode"), m.fieldOf(aml, "Object", "nextSiblingIndex"), m.fieldOf(aml, "Object", "firstArgIndex")
	scopeBlk := m.lookupConst(aml, "pOpIntScopeBlock")
	if objectAt == nil || opcodeF == nil || nextF == nil || firstF == nil || scopeBlk == nil {
		c.unresolved("C11.R7", "ObjectTree.ObjectAt / Object.opcode / nextSiblingIndex / firstArgIndex / pOpIntScopeBlock")
		return
	}
	sb, _ := constUint64(scopeBlk.Value)
	for _, name := range []string{"mergeScopeDirectives", "relocateNamedObjects"} {
		fn := m.lookupMethod(aml, "Parser", name)
		if fn == nil {
			c.unresolved("C11.R7", "Parser."+name)
			continue
		}
		key := "scope-block-lookup " + m.fnName(fn)
		g := newIG(m, fn, nil)
		// tests `X.opcode == pOpIntScopeBlock` on the side where X is taken as the block
		nscan, bad := 0, ""
		where := m.pos(fn.Pos())
		for _, f := range g.AllEdgeFacts() {
			if f.Y == nil || f.Op != token.EQL {
				continue
			}
			k, isK := constUint64(f.Y)
			b, fl, okF := loadedField(f.X)
			if !isK || k != sb || !okF || fl != opcodeF {
				continue
			}
			// where does the object come from?
			call, isCall := stripConv(b).(*ssa.Call)
			if !isCall {
				continue // (a test of an object the function was given: the target itself)
			}
			cal := m.callee(call.Common())
			switch {
			case cal == objectAt:
				idx := stripConv(call.Common().Args[1])
				phi, isPhi := idx.(*ssa.Phi)
				walks := false
				if isPhi {
					for _, e := range phi.Edges {
						if _, f2, ok := loadedField(e); ok && (f2 == nextF || f2 == firstF) {
							walks = true
						}
					}
				}
				if walks {
					nscan++
				}
			case cal != nil && cal.Name() == "ArgAt":
				if _, isC := constUint64(call.Common().Args[len(call.Common().Args)-1]); isC {
					bad = "the scope block of the named target is taken from a fixed argument position: right for Device and ThermalZone, wrong for Processor, PowerResource and others (their objects are rejected or attached to the wrong node)"
					where = g.posOf(f.Edge.From)
				}
			}
		}
		if nscan == 0 && bad == "" {
			bad = "no scan of the target's children for its scope block found (rule shape lost)"
		}
		c.check(bad == "", "C11.R7", key, fmt.Sprintf("%d scan(s) of the target's sibling chain for the scope-block opcode", nscan), bad, where)
	}
}
