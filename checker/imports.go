package main

// importTable: rules of one property that are necessary conditions of another
// as well, because the second property rests on the mechanism the first one
// describes. A change that breaks such a rule breaks both properties, so both
// checks report it. The imported rules are evaluated by a separate, complete
// analysis of the property they belong to (runProperty), never re-implemented.
var importTable = map[string][]Import{
	"C01": {
		{From: "C10", Rules: []string{"C10.R1", "C10.R2"}, Why: "available RAM is what VisitMemRegions reports as available: every entry of the memory map, read at the stride the bootloader gives, with unknown types turned into reserved"},
		{From: "C02", Rules: []string{"C02.R3"}, Why: "a frame consumed by the early-boot allocator stays reserved only if the hand-over replays exactly the early allocations"},
		{From: "C03", Rules: []string{"C03.R1", "C03.R2"}, Why: "pool bitmaps that overlap or are too short let one frame's bit stand for another, and a free that is not rejected makes a frame allocatable while it is held"},
	},
	"C03": {
		{From: "C10", Rules: []string{"C10.R1", "C10.R2"}, Why: "available RAM is what VisitMemRegions reports as available: every entry of the memory map, read at the stride the bootloader gives, with unknown types turned into reserved"},
		{From: "C02", Rules: []string{"C02.R3"}, Why: "the usable total is available RAM minus kernel image minus exactly the early-boot allocations"},
		{From: "C01", Rules: []string{"C01.R4"}, Why: "every usable frame is allocatable only if the scan visits every bitmap word and the allocation and free sides agree on the bit of a frame"},
	},
	"C02": {
		{From: "C10", Rules: []string{"C10.R1", "C10.R2"}, Why: "available RAM is what VisitMemRegions reports as available: every entry of the memory map, read at the stride the bootloader gives, with unknown types turned into reserved"},
	},
	"C05": {
		{From: "C10", Rules: []string{"C10.R5"}, Keys: []string{"non-empty-sections", "section-reads-bounded"}, Why: "the sections that get mapped are the ones VisitElfSections reports: every non-empty section header, read inside the section table"},
		{From: "C07", Rules: []string{"C07.R1"}, Why: "regions reserved earlier keep their translations only if later reservations cannot overlap them or wrap"},
		{From: "C04", Rules: []string{"C04.R1"}, Why: "section permissions reach the hardware entry only if Map writes exactly the requested frame and flags"},
		{From: "C04", Rules: []string{"C04.R7"}, Why: "regions mapped earlier in boot keep their translations in the new table only if the frame read back out of an entry (Translate, the copy of the early reservations) uses the hardware's bit layout: frame bits 12..51, four levels of nine index bits"},
	},
	"C06": {
		{From: "C04", Rules: []string{"C04.R1", "C04.R2"}, Why: "the private copy is installed writable, without stale copy-on-write bits, and its TLB entry invalidated, only if Map writes exactly the requested entry and flushes it"},
	},
	"C07": {
		{From: "C04", Rules: []string{"C04.R6"}, Why: "exactly the pages needed to cover the size are mapped only if the region helpers count pages without wrapping"},
	},
	"C09": {
		{From: "C08", Rules: []string{"C08.R1", "C08.R2", "C08.R3"}, Why: "the allocator's critical sections exclude each other only if the spinlock does"},
		{From: "C03", Rules: []string{"C03.R3"}, Why: "the totals agree after all callers stopped only if every bit change is paired with its counter update inside the same critical section"},
		{From: "C01", Rules: []string{"C01.R4"}, Why: "a freed frame becomes allocatable again only if the scan visits every bitmap word of every pool"},
	},
	"C11": {
		{From: "C12", Rules: []string{"C12.R4"}, Why: "objects declared after their use or in a later table are resolved only if the resolve passes run, count progress and terminate as designed"},
	},
	"C12": {
		{From: "C13", Rules: []string{"C13.R5"}, Why: "the parser resolves names through ObjectTree.Find; an index out of range there is a panic on malformed input"},
	},
	"C18": {
		{From: "C17", Rules: []string{"C17.R4"}, Why: "the console is scrolled by one line; it equals the viewport only if the buffer is scrolled by exactly one line and its last line blanked as well"},
		{From: "C19", Rules: []string{"C19.R1", "C19.R2", "C19.R3", "C19.R4", "C19.R5", "C19.R6"}, Why: "the property is stated for the shipped consoles: a cell shows the terminal's character only if the console drivers paint exactly the addressed cells"},
	},
}
