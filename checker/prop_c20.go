package main

import (
	"fmt"
	"go/constant"
	"go/token"
	"go/types"
	"strings"

	"golang.org/x/tools/go/ssa"
)

func init() {
	register(&Property{
		ID: "C20", NeedKbuild: true, Run: runC20,
		Explanation: "Redirect-table construction of the build tool decided on SSA: (R1) no store to Context.Redirects and no append to the source-file list lies in the body " +
			"of a range over a map (whose iteration order differs between runs) unless a sort of that slice follows on every path; the file list is filled only by the " +
			"filepath.Walk callback; no goroutine is started on the way (found F6); (R2) a path enters the file list only on the Ext == \".go\" side and the not-" +
			"\"_test.go\" side; an entry is appended only for a declaration that passed the *ast.FuncDecl assertion with a non-nil Doc, for a comment of that Doc.List " +
			"whose text has the directive prefix; every such comment reaches the append and the loop then continues with the next comment (one entry per annotation, in " +
			"source order: declarations and comments are visited by ascending index); (R3) DstSymbol is Sprintf(\"%s.%s\", path.Join(kernel import path, ToSlash(Dir(file)))," +
			" decl.Name) and SrcSymbol is TrimSpace(TrimPrefix(comment text, directive)); (R4) Redirects is written only by FindRedirects, CompleteRedirects writes source " +
			"then destination address for each entry in slice order, the boot assembly receives len(Redirects), and main runs FindRedirects before CompileRT0 and " +
			"CompleteRedirects after LinkKernel.",
		EnumRule:    "obligations per rule and construct",
		Assumptions: []string{"filepath.Walk visits files in lexical order; go/parser returns declarations and doc comments in source order", "that the tool finds every annotation of every tree (parser behaviour) is not decided"},
		Controls: []Control{
			{Name: "some collected files are not parsed", File: "kbuild/redirects.go", Old: "\tfor _, file := range sourceFiles {\n\t\tf, err := parser.ParseFile(", New: "\tfor _, file := range sourceFiles {\n\t\tif strings.HasSuffix(file, \"_amd64.go\") {\n\t\t\tcontinue\n\t\t}\n\t\tf, err := parser.ParseFile(", Expect: "C20.R2 every-file-parsed"},
			{Name: "walk skips directories called bin", File: "kbuild/redirects.go", Old: "\t\tif info.IsDir() {\n\t\t\treturn nil\n\t\t}\n", New: "\t\tif info.Name() == \"bin\" {\n\t\t\treturn filepath.SkipDir\n\t\t}\n\t\tif info.IsDir() {\n\t\t\treturn nil\n\t\t}\n", Expect: "C20.R2"},
			{Name: "one record shared by the annotations of a function", File: "kbuild/redirects.go", Old: "\t\t\tfor _, comment := range decl.Doc.List {\n", New: "\t\t\tshared := &SymbolRedirect{}\n\t\t\tfor _, comment := range decl.Doc.List {\n", Old2: "\t\t\t\tctx.Redirects = append(ctx.Redirects, &SymbolRedirect{\n\t\t\t\t\tComment:   fset.Position(comment.Pos()).String(),\n\t\t\t\t\tSrcSymbol: from,\n\t\t\t\t\tDstSymbol: name,\n\t\t\t\t})\n", New2: "\t\t\t\tshared.Comment, shared.SrcSymbol, shared.DstSymbol = fset.Position(comment.Pos()).String(), from, name\n\t\t\t\tctx.Redirects = append(ctx.Redirects, shared)\n", Expect: "C20.R3"},
			{Name: "re-introduce the map range (F6)", File: "kbuild/redirects.go",
				Old: "\t\t// Visit the declarations in source order so that the\n\t\t// redirect table is the same on every build.\n\t\tfor _, node := range f.Decls {\n", New: "\t\tcmap := ast.NewCommentMap(fset, f, f.Comments)\n\t\tcmap.Filter(f)\n\t\tfor node := range cmap {\n", Expect: "C20.R1"},
			{Name: "accept *ast.GenDecl too", File: "kbuild/redirects.go",
				Old: "\t\t\tdecl, ok := node.(*ast.FuncDecl)\n\t\t\tif !ok || decl.Doc == nil {\n\t\t\t\tcontinue\n\t\t\t}\n", New: "\t\t\tdecl, ok := node.(*ast.FuncDecl)\n\t\t\tif !ok {\n\t\t\t\tdecl = &ast.FuncDecl{Name: ast.NewIdent(\"x\")}\n\t\t\t\tif gd, isGen := node.(*ast.GenDecl); isGen {\n\t\t\t\t\tdecl.Doc = gd.Doc\n\t\t\t\t}\n\t\t\t}\n\t\t\tif decl.Doc == nil {\n\t\t\t\tcontinue\n\t\t\t}\n", Expect: "C20.R2"},
			{Name: "drop the _test.go filter", File: "kbuild/redirects.go", Old: "if filepath.Ext(path) == \".go\" && !strings.HasSuffix(path, \"_test.go\") {", New: "if filepath.Ext(path) == \".go\" {", Expect: "C20.R2"},
			{Name: "only the first annotation of a function", File: "kbuild/redirects.go", Old: "\t\t\t\t\tDstSymbol: name,\n\t\t\t\t})\n", New: "\t\t\t\t\tDstSymbol: name,\n\t\t\t\t})\n\t\t\t\tbreak\n", Expect: "C20.R2"},
			{Name: "destination without the directory", File: "kbuild/redirects.go", Old: "pkgPath := path.Join(pkgPrefix, slashed)", New: "pkgPath := path.Join(pkgPrefix, filepath.Base(slashed))", Expect: "C20.R3"},
			{Name: "source symbol not trimmed of the directive", File: "kbuild/redirects.go", Old: "from := strings.TrimSpace(strings.TrimPrefix(comment.Text, redirectComment))", New: "from := strings.TrimSpace(comment.Text)", Expect: "C20.R3"},
			{Name: "destination address written first", File: "kbuild/redirects.go",
				Old: "\t\terr = binary.Write(f, binary.LittleEndian, redirect.SrcVirtAddr)\n\t\tif err != nil {\n\t\t\tctx.Fatalf(\"failed to write src address for %s to %s: %v\", redirect.SrcSymbol, ctx.kernel, err)\n\t\t}\n\n\t\terr = binary.Write(f, binary.LittleEndian, redirect.DstVirtAddr)",
				New: "\t\terr = binary.Write(f, binary.LittleEndian, redirect.DstVirtAddr)\n\t\tif err != nil {\n\t\t\tctx.Fatalf(\"failed to write src address for %s to %s: %v\", redirect.SrcSymbol, ctx.kernel, err)\n\t\t}\n\n\t\terr = binary.Write(f, binary.LittleEndian, redirect.SrcVirtAddr)", Expect: "C20.R4"},
			{Name: "table sorted by a map-derived key elsewhere", File: "kbuild/redirects.go", Old: "\tbadSymbols := false\n", New: "\tseen := map[string]*SymbolRedirect{}\n\tfor _, r := range ctx.Redirects {\n\t\tseen[r.SrcSymbol] = r\n\t}\n\tctx.Redirects = ctx.Redirects[:0]\n\tfor _, r := range seen {\n\t\tctx.Redirects = append(ctx.Redirects, r)\n\t}\n\tbadSymbols := false\n", Expect: "C20.R"},
			{Name: "redirects scanned after the boot assembly is built", File: "kbuild/main.go", Old: "\tctx.FindRedirects()\n\tctx.CompileLinkerScript()\n\tctx.CompileRT0()\n", New: "\tctx.CompileLinkerScript()\n\tctx.CompileRT0()\n\tctx.FindRedirects()\n", Expect: "C20.R4"},
			{Name: "files parsed concurrently", File: "kbuild/redirects.go", Old: "\tfset := token.NewFileSet()\n\tfor _, file := range sourceFiles {\n", New: "\tfset := token.NewFileSet()\n\tgo func() { _ = fset }()\n\tfor _, file := range sourceFiles {\n", Expect: "C20.R1"},
		},
	})
}

func extFn(cc *ssa.CallCommon, pkg, name string) bool {
	f := cc.StaticCallee()
	return f != nil && f.Pkg != nil && f.Pkg.Pkg.Path() == pkg && f.Name() == name
}

func runC20(c *Ctx) {
	m := c.B
	find := m.lookupMethod("", "Context", "FindRedirects")
	complete := m.lookupMethod("", "Context", "CompleteRedirects")
	redirF := m.fieldOf("", "Context", "Redirects")
	srcSym, dstSym := m.fieldOf("", "SymbolRedirect", "SrcSymbol"), m.fieldOf("", "SymbolRedirect", "DstSymbol")
	srcAddr, dstAddr := m.fieldOf("", "SymbolRedirect", "SrcVirtAddr"), m.fieldOf("", "SymbolRedirect", "DstVirtAddr")
	mainFn := m.lookupFunc("", "main")
	for name, v := range map[string]interface{}{"Context.FindRedirects": find, "Context.CompleteRedirects": complete, "Context.Redirects": redirF, "SymbolRedirect.SrcSymbol": srcSym,
		"SymbolRedirect.DstSymbol": dstSym, "SymbolRedirect.SrcVirtAddr": srcAddr, "SymbolRedirect.DstVirtAddr": dstAddr, "kbuild.main": mainFn} {
		if isNilIface(v) {
			c.unresolved("C20.R1", name)
			return
		}
	}
	const directive = "//go:redirect-from"
	const kernelPath = "github.com/ProjectSerenity/firefly/kernel"
	g := newIG(m, find, nil)

	// map-range loops of a function: blocks of the natural loop of each Next over a map
	mapLoopBlocks := func(fn *ssa.Function) map[*ssa.BasicBlock]string {
		out := map[*ssa.BasicBlock]string{}
		for _, b := range m.blocksOf(fn) {
			for _, in := range b.Instrs {
				nx, ok := in.(*ssa.Next)
				if !ok || nx.IsString {
					continue
				}
				rg, ok := nx.Iter.(*ssa.Range)
				if !ok {
					continue
				}
				if _, isMap := rg.X.Type().Underlying().(*types.Map); !isMap {
					continue
				}
				_, body := loopOf(b)
				for bb := range body {
					out[bb] = rg.X.Type().String()
				}
				out[b] = rg.X.Type().String()
			}
		}
		return out
	}
	isSortOf := func(in ssa.Instruction, fld *types.Var) bool {
		cc := callCommon(in)
		if cc == nil {
			return false
		}
		if !(extFn(cc, "sort", "Slice") || extFn(cc, "sort", "SliceStable") || extFn(cc, "sort", "Sort") || extFn(cc, "sort", "Stable") || extFn(cc, "sort", "Strings")) {
			return false
		}
		a := cc.Args[0]
		if mi, ok := a.(*ssa.MakeInterface); ok {
			a = mi.X
		}
		return fld == nil || isLoadOfField(a, fld)
	}

	// ================= R1 =================
	c.floor("C20.R1", 3)
	nst := 0
	for _, fs := range m.storesToField(redirF) {
		if fs.Rest != "" {
			continue
		}
		nst++
		fn := fs.Fn
		key := fmt.Sprintf("ordered-append %s #%d", m.fnName(fn), nst)
		gg := scanIG(m, fn, nil)
		mlb := mapLoopBlocks(fn)
		c.Evals++
		if mt, inMap := mlb[fs.Store.Block()]; inMap {
			// a sort of the slice on every path from the store to the return
			ok, _ := gg.MustPassAfter(gg.Idx[fs.Store], func(n int) bool { return isSortOf(gg.Ins[n], redirF) }, isRet(gg))
			c.check(ok, "C20.R1", key, "inside a map range, but Redirects is sorted afterwards on every path",
				"Redirects is appended to inside a range over "+mt+": Go randomises map iteration, so the table order (and the kernel image) changes from build to build", m.pos(fs.Store.Pos()))
			continue
		}
		c.ok("C20.R1", key, "not inside any map range", m.pos(fs.Store.Pos()))
	}
	if nst == 0 {
		c.fail("C20.R1", "ordered-append kbuild", "Context.Redirects is never stored (rule shape lost)")
	}
	// file list
	walkClosures := []*ssa.Function{}
	walkNode := -1
	for n, in := range g.Ins {
		if cc := callCommon(in); cc != nil && (extFn(cc, "path/filepath", "Walk") || extFn(cc, "path/filepath", "WalkDir")) {
			if mc, ok := strip(cc.Args[1]).(*ssa.MakeClosure); ok {
				walkClosures = append(walkClosures, mc.Fn.(*ssa.Function))
				walkNode = n
			}
		}
	}
	// the file list: the []string variable of FindRedirects that the Walk callback appends to
	var filesCell *ssa.Alloc
	for _, wc := range walkClosures {
		for _, b := range m.blocksOf(wc) {
			for _, in := range b.Instrs {
				if st, ok := in.(*ssa.Store); ok {
					if cell, ok := cellOf(st.Addr); ok && outermost(cell.Parent()) == find {
						if sl, ok := st.Val.Type().Underlying().(*types.Slice); ok {
							if bt, ok := sl.Elem().Underlying().(*types.Basic); ok && bt.Kind() == types.String {
								filesCell = cell
							}
						}
					}
				}
			}
		}
	}
	bad := ""
	if filesCell == nil || len(walkClosures) != 1 {
		bad = "expected a local source-file list filled by exactly one filepath.Walk callback"
	} else {
		stores, _, okc := cellAccesses(filesCell)
		if !okc {
			bad = "the file list escapes"
		}
		afterWalk := g.Reach(g.Succ[walkNode], nil, nil)
		for _, st := range stores {
			if cs, isC := st.Val.(*ssa.Const); isC && cs.Value == nil && st.Parent() != walkClosures[0] {
				// the empty list the variable starts with (var files []string = nil, a
				// named result): harmless before the walk, it would drop every file after it
				if sn, inG := g.Idx[st]; inG && !afterWalk[sn] {
					continue
				}
			}
			if st.Parent() != walkClosures[0] {
				bad = "the file list is also written by " + m.fnName(st.Parent()) + " (not the filepath.Walk callback)"
			}
			if _, inMap := mapLoopBlocks(st.Parent())[st.Block()]; inMap {
				bad = "the file list is appended to inside a map range"
			}
		}
		// the list that is iterated is this cell, in index order
	}
	c.check(bad == "", "C20.R1", "file-order "+m.fnName(find), "the file list is filled only by the filepath.Walk callback (lexical order)", bad, m.pos(find.Pos()))
	// no goroutines / map ranges feeding ordered output in FindRedirects and its closures
	bad = ""
	for _, fn := range append([]*ssa.Function{find}, closuresIn(find)...) {
		for _, b := range m.blocksOf(fn) {
			for _, in := range b.Instrs {
				if _, ok := in.(*ssa.Go); ok {
					bad = "a goroutine is started while the table is collected: completion order is not reproducible"
				}
			}
		}
	}
	c.check(bad == "", "C20.R1", "sequential "+m.fnName(find), "no goroutine is started by FindRedirects", bad, m.pos(find.Pos()))

	// ================= R2 =================
	c.floor("C20.R2", 3)
	if len(walkClosures) == 1 {
		w := walkClosures[0]
		gw := newIG(m, w, nil)
		pathP := paramNamed(w, "path")
		bad := ""
		n := 0
		for k, in := range gw.Ins {
			st, ok := in.(*ssa.Store)
			if !ok {
				continue
			}
			if cell, ok := cellOf(st.Addr); !ok || cell != filesCell {
				continue
			}
			n++
			facts := gw.FactsAt(k)
			isGo := hasFact(facts, func(f Fact) bool {
				return cmpMatch(f, token.EQL, func(v ssa.Value) bool {
					call, ok := v.(*ssa.Call)
					return ok && extFn(call.Common(), "path/filepath", "Ext") && call.Common().Args[0] == ssa.Value(pathP)
				}, func(v ssa.Value) bool {
					cs, ok := v.(*ssa.Const)
					return ok && cs.Value != nil && cs.Value.ExactString() == `".go"`
				})
			})
			notTest := hasFact(facts, func(f Fact) bool {
				if f.Y != nil || f.Op != token.NEQ {
					return false
				}
				call, ok := f.X.(*ssa.Call)
				if !ok || !extFn(call.Common(), "strings", "HasSuffix") || call.Common().Args[0] != ssa.Value(pathP) {
					return false
				}
				cs, ok := call.Common().Args[1].(*ssa.Const)
				return ok && cs.Value != nil && cs.Value.ExactString() == `"_test.go"`
			})
			notDir := hasFact(facts, func(f Fact) bool {
				if f.Y != nil || f.Op != token.NEQ {
					return false
				}
				call, ok := f.X.(*ssa.Call)
				return ok && call.Common().IsInvoke() && call.Common().Method.Name() == "IsDir"
			})
			// appended value is the path
			appendsPath := false
			if call, ok := st.Val.(*ssa.Call); ok {
				if bi, ok := call.Common().Value.(*ssa.Builtin); ok && bi.Name() == "append" {
					appendsPath = true
				}
			}
			switch {
			case !isGo:
				bad = "a file is scanned without testing filepath.Ext(path) == \".go\""
			case !notTest:
				bad = "a file is scanned without excluding the _test.go suffix: annotations in test files enter the table"
			case !notDir:
				bad = "directories are not excluded"
			case !appendsPath:
				bad = "the file list is not extended by append"
			}
		}
		if n == 0 {
			bad = "the Walk callback never adds a file"
		}
		// nothing else prunes the walk: the callback returns nil or the error it
		// was handed (a filepath.SkipDir or a private error hides part of the tree)
		errP := paramNamed(w, "err")
		for _, rc := range gw.ReturnCases() {
			if len(rc.Vals) != 1 || bad != "" {
				continue
			}
			v := rc.Vals[0]
			if isNilConst(v) || (errP != nil && stripConv(v) == ssa.Value(errP)) {
				continue
			}
			bad = "the Walk callback returns " + describe(v) + ": it skips or aborts part of the source tree for a reason other than a walk error, so annotations there are not found"
		}
		c.check(bad == "", "C20.R2", "files-scanned "+m.fnName(w), "a path is added only on the .go, not-_test.go, not-directory side", bad, m.pos(w.Pos()))
	}
	// the append in FindRedirects
	var appendStore *ssa.Store
	for _, fs := range m.storesToField(redirF) {
		if fs.Fn == find && fs.Rest == "" {
			appendStore = fs.Store
		}
	}
	var declV, commentV ssa.Value
	if appendStore == nil {
		c.fail("C20.R2", "entry-guards "+m.fnName(find), "FindRedirects does not append to Redirects", m.pos(find.Pos()))
	} else {
		an := g.Idx[appendStore]
		facts := g.FactsAt(an)
		bad := ""
		// FuncDecl assertion
		for _, f := range facts {
			if f.Y == nil && f.Op == token.EQL {
				if ex, ok := f.X.(*ssa.Extract); ok && ex.Index == 1 {
					if ta, ok := ex.Tuple.(*ssa.TypeAssert); ok && ta.CommaOk && strings.HasSuffix(ta.AssertedType.String(), "go/ast.FuncDecl") {
						for _, r := range *ta.Referrers() {
							if e0, ok := r.(*ssa.Extract); ok && e0.Index == 0 {
								declV = e0
							}
						}
						// the asserted node is an element of f.Decls of the parsed file
						if ld, ok := ta.X.(*ssa.UnOp); !ok || !strings.HasSuffix(pathString(accessPath(ld.X)), ".Decls[]") {
							bad = "the asserted node is not an element of the parsed file's Decls (source order)"
						}
					}
				}
			}
		}
		if declV == nil {
			bad = "an entry is appended for a node that has not passed the *ast.FuncDecl assertion: annotations on variables and types enter the table"
		}
		if bad == "" {
			docNonNil := hasFact(facts, func(f Fact) bool {
				return isNilFact(f, token.NEQ, func(v ssa.Value) bool {
					b, fl, ok := loadedField(v)
					return ok && fl.Name() == "Doc" && b == declV
				})
			})
			if !docNonNil {
				bad = "the declaration's Doc is not tested non-nil"
			}
		}
		if bad == "" {
			okPrefix := hasFact(facts, func(f Fact) bool {
				subj, pfx, holds, ok := prefixFact(f)
				if !ok || !holds || pfx != directive {
					return false
				}
				// the subject: Text of an element of declV.Doc.List
				b, fl, ok := loadedField(subj)
				if !ok || fl.Name() != "Text" {
					return false
				}
				ps := pathString(accessPath(b))
				if strings.Contains(ps, ".Doc.List[]") {
					commentV = b
					// rooted at declV
					p := accessPath(b)
					return len(p) > 0 && p[0].V == declV
				}
				return false
			})
			if !okPrefix {
				bad = "an entry is appended for a comment that is not a doc-comment line of the function with the directive prefix (ordinary comments / other directives enter the table)"
			}
		}
		c.check(bad == "", "C20.R2", "entry-guards "+m.fnName(find), "*ast.FuncDecl of f.Decls, Doc != nil, comment of decl.Doc.List with the directive prefix", bad, g.posOf(an))
		// once per annotation, every annotation
		bad = ""
		// the comment loop: the innermost loop around the directive test
		var inner *ssa.BasicBlock
		var innerBody map[*ssa.BasicBlock]bool
		for _, f := range g.AllEdgeFacts() {
			if _, pfx, _, ok := prefixFact(f); ok && pfx == directive {
				inner, innerBody = loopOf(g.Ins[f.Edge.From].Block())
			}
		}
		if inner == nil {
			bad = "the directive test is not inside a loop over the doc-comment lines"
		} else if !innerBody[appendStore.Block()] {
			bad = "after recording an annotation the loop over the doc-comment lines is left: only the first annotation of a function is recorded"
		} else {
			h := g.First[inner]
			// after the append only the inner loop header is reached next
			r := g.Reach(g.Succ[an], nil, func(n int) bool { return n == h })
			for n, in := range g.Ins {
				if !r[n] || n == h {
					continue
				}
				if _, ok := in.(*ssa.Return); ok {
					bad = "the scan stops after the first annotation"
				}
				if g.Ins[n].Block() != appendStore.Block() {
					if hh, _ := loopOf(g.Ins[n].Block()); hh != inner && in.Block() != inner {
						bad = "after recording an annotation the remaining doc-comment lines of the function are skipped (only the first annotation of a function is recorded)"
					}
				}
			}
			// every comment with the prefix reaches the append
			for _, f := range g.AllEdgeFacts() {
				if _, pfx, holds, ok := prefixFact(f); ok && holds && pfx == directive {
					start := g.Succ[f.Edge.From][f.Edge.K]
					if p := g.Path([]int{start}, nil, func(n int) bool { return n == an }, func(n int) bool { return n != an && (n == h || isRet(g)(n)) }); p != nil {
						bad = "a doc-comment line with the directive can be skipped without an entry"
					}
				}
			}
			// the comment loop and the declaration loop run by ascending index from 0
			for _, blk := range []*ssa.BasicBlock{inner} {
				okAsc := false
				for _, in := range blk.Instrs {
					if phi, ok := in.(*ssa.Phi); ok {
						for _, e := range phi.Edges {
							if k, ok := constInt64(e); ok && k == -1 {
								okAsc = true
							}
						}
					}
				}
				if !okAsc {
					bad = "the doc-comment lines are not visited in ascending order"
				}
			}
		}
		// every file the walk collected is parsed: no way round the file loop misses ParseFile
		{
			badF, nparse := "", 0
			var where []string
			for n, in := range g.Ins {
				pc, ok := in.(*ssa.Call)
				if !ok || !extFn(pc.Common(), "go/parser", "ParseFile") {
					continue
				}
				nparse++
				if p, inLoop := g.loopBypass(n); !inLoop {
					badF = "ParseFile is not called in a loop over the collected files"
				} else if p != nil {
					badF = "the file loop can go on to the next file without parsing this one: annotations in it are not found"
					where = g.where(p, 8)
				}
			}
			if nparse != 1 && badF == "" {
				badF = fmt.Sprintf("expected one ParseFile call in FindRedirects, found %d", nparse)
			}
			c.check(badF == "", "C20.R2", "every-file-parsed "+m.fnName(find), "every collected file reaches parser.ParseFile", badF, where...)
		}
		c.check(bad == "", "C20.R2", "one-entry-per-annotation "+m.fnName(find), "every directive line reaches the append; the comment loop then continues with the next line", bad, g.posOf(an))
	}

	// ================= R3 =================
	c.floor("C20.R3", 3)
	if appendStore != nil {
		var entry *ssa.Alloc
		// the appended element: new SymbolRedirect
		for _, in := range g.Ins {
			if al, ok := in.(*ssa.Alloc); ok && typeIs(al.Type(), m.lookupType("", "SymbolRedirect")) {
				entry = al
			}
		}
		// one entry per annotation: the record appended is made for this annotation
		// (allocated inside the loop over the comment lines), not one record that
		// every annotation of the function overwrites
		{
			bad := ""
			ha, _ := loopOf(appendStore.Block())
			switch {
			case entry == nil:
				bad = "no SymbolRedirect is allocated for the appended entry"
			case ha == nil:
				bad = "the append is not inside the loop over the doc-comment lines"
			default:
				he, _ := loopOf(entry.Block())
				if he != ha {
					bad = "the record appended is allocated outside the loop over the annotations: all annotations of a function share (and overwrite) one entry"
				}
				// and it is that record that is appended
				okVal := false
				if call, ok := appendStore.Val.(*ssa.Call); ok {
					for _, a := range varargValues(call.Common().Args[len(call.Common().Args)-1]) {
						if a == ssa.Value(entry) {
							okVal = true
						}
					}
				}
				if !okVal && bad == "" {
					bad = "the value appended is not the record built for this annotation"
				}
			}
			c.check(bad == "", "C20.R3", "fresh-entry "+m.fnName(find), "a new SymbolRedirect per annotation is appended", bad, m.pos(appendStore.Pos()))
		}
		fieldVal := func(fld *types.Var) ssa.Value {
			if entry == nil {
				return nil
			}
			for _, r := range *entry.Referrers() {
				if fa, ok := r.(*ssa.FieldAddr); ok {
					if _, f, _ := fieldOfAddr(fa); f == fld {
						for _, rr := range *fa.Referrers() {
							if st, ok := rr.(*ssa.Store); ok {
								return st.Val
							}
						}
					}
				}
			}
			return nil
		}
		// DstSymbol
		bad := ""
		dv := fieldVal(dstSym)
		call, _ := dv.(*ssa.Call)
		// the two parts of "<package path>.<function name>": from Sprintf("%s.%s", a, b) or from a + "." + b
		var va []ssa.Value
		haveParts := false
		if call != nil && extFn(call.Common(), "fmt", "Sprintf") {
			if cs, ok := call.Common().Args[0].(*ssa.Const); !ok || cs.Value.ExactString() != `"%s.%s"` {
				bad = "DstSymbol format is not \"%s.%s\""
			}
			va = varargValues(call.Common().Args[1])
			haveParts = true
		} else if outer, ok := dv.(*ssa.BinOp); ok && outer.Op == token.ADD {
			if inner, ok := outer.X.(*ssa.BinOp); ok && inner.Op == token.ADD {
				if dot, ok := inner.Y.(*ssa.Const); ok && dot.Value != nil && dot.Value.ExactString() == `"."` {
					name := outer.Y
					// decl.Name.Name: the identifier's string is the identifier
					if b, fl, ok := loadedField(name); ok && fl.Name() == "Name" {
						name = b
					}
					// decl.Name.String(): the same string (an *ast.Ident prints as its name)
					if sc, ok := name.(*ssa.Call); ok {
						if cal := sc.Common().StaticCallee(); cal != nil && cal.Name() == "String" && cal.Pkg != nil && cal.Pkg.Pkg.Path() == "go/ast" && len(sc.Common().Args) == 1 {
							name = sc.Common().Args[0]
						}
					}
					va = []ssa.Value{inner.X, name}
					haveParts = true
				}
			}
		}
		if !haveParts {
			bad = "DstSymbol is not built with fmt.Sprintf"
		} else {
			if len(va) != 2 {
				bad = "DstSymbol is not formatted from (package path, function name)"
			} else {
				// arg0: path.Join(kernelPath, ToSlash(Dir(file)))
				okPkg := false
				if j, ok := va[0].(*ssa.Call); ok && extFn(j.Common(), "path", "Join") {
					ja := varargValues(j.Common().Args[0])
					if len(ja) == 2 {
						cs, isC := ja[0].(*ssa.Const)
						ts, isT := ja[1].(*ssa.Call)
						if isC && cs.Value.ExactString() == `"`+kernelPath+`"` && isT && extFn(ts.Common(), "path/filepath", "ToSlash") {
							if d, ok := ts.Common().Args[0].(*ssa.Call); ok && extFn(d.Common(), "path/filepath", "Dir") {
								// Dir's argument is the file being parsed
								for _, in := range g.Ins {
									if pc, ok := in.(*ssa.Call); ok && extFn(pc.Common(), "go/parser", "ParseFile") && pc.Common().Args[1] == d.Common().Args[0] {
										okPkg = true
									}
								}
							}
						}
					}
				}
				if !okPkg {
					bad = "the destination package path is not path.Join(\"" + kernelPath + "\", ToSlash(Dir(<the parsed file>)))"
				}
				// arg1: decl.Name
				if b, fl, ok := loadedField(va[1]); !ok || fl.Name() != "Name" || b != declV {
					if bad == "" {
						bad = "the destination function name is not decl.Name of the annotated declaration"
					}
				}
			}
		}
		c.check(bad == "", "C20.R3", "dst-symbol "+m.fnName(find), "DstSymbol = Sprintf(\"%s.%s\", path.Join(kernel import path, ToSlash(Dir(file))), decl.Name)", bad, m.pos(appendStore.Pos()))
		// SrcSymbol
		bad = ""
		sv := fieldVal(srcSym)
		ts, _ := sv.(*ssa.Call)
		if ts == nil || !extFn(ts.Common(), "strings", "TrimSpace") {
			bad = "SrcSymbol is not strings.TrimSpace(...)"
		} else if sl, ok := ts.Common().Args[0].(*ssa.Slice); ok {
			// comment.Text[len(directive):] under the HasPrefix test is the same string
			b, fl, okf := loadedField(sl.X)
			lo, okLo := constInt64(sl.Low)
			if sl.Low == nil || !okLo || lo != int64(len(directive)) || sl.High != nil || !okf || fl.Name() != "Text" || b != commentV {
				bad = "SrcSymbol is not the text of the matched comment with the directive removed"
			}
		} else if ex, ok := ts.Common().Args[0].(*ssa.Extract); ok && ex.Index == 0 {
			// after, found := strings.CutPrefix(comment.Text, directive)
			cp, isCall := ex.Tuple.(*ssa.Call)
			if !isCall || !extFn(cp.Common(), "strings", "CutPrefix") {
				bad = "SrcSymbol does not strip the directive with strings.TrimPrefix / CutPrefix"
			} else {
				cs, isC := cp.Common().Args[1].(*ssa.Const)
				b, fl, okf := loadedField(cp.Common().Args[0])
				if !isC || cs.Value.ExactString() != `"`+directive+`"` || !okf || fl.Name() != "Text" || b != commentV {
					bad = "SrcSymbol is not the text of the matched comment with the directive removed"
				}
			}
		} else if tp, ok := ts.Common().Args[0].(*ssa.Call); !ok || !extFn(tp.Common(), "strings", "TrimPrefix") {
			bad = "SrcSymbol does not strip the directive with strings.TrimPrefix"
		} else {
			cs, isC := tp.Common().Args[1].(*ssa.Const)
			b, fl, okf := loadedField(tp.Common().Args[0])
			if !isC || cs.Value.ExactString() != `"`+directive+`"` || !okf || fl.Name() != "Text" || b != commentV {
				bad = "SrcSymbol is not the text of the matched comment with the directive removed"
			}
		}
		c.check(bad == "", "C20.R3", "src-symbol "+m.fnName(find), "SrcSymbol = TrimSpace(TrimPrefix(comment.Text, directive))", bad, m.pos(appendStore.Pos()))
	}

	// ================= R4 =================
	c.floor("C20.R4", 4)
	bad = ""
	for _, fs := range m.storesToField(redirF) {
		if fs.Fn != find {
			bad = "Context.Redirects is also written by " + m.fnName(fs.Fn) + ": the order found by the scan is not what reaches the image"
		}
	}
	c.check(bad == "", "C20.R4", "table-writers kbuild", "Redirects is written only by FindRedirects", bad)
	gc := newIG(m, complete, nil)
	// the places where an address of an entry goes out to the image: binary.Write
	// of the value, or the value encoded little-endian into a buffer
	// (ByteOrder.PutUint64) that is then handed to the file's Write
	writes := []struct {
		n   int
		fld *types.Var
		val ssa.Value
	}{}
	bufBase := func(v ssa.Value) ssa.Value {
		for i := 0; i < 4; i++ {
			switch t := v.(type) {
			case *ssa.Slice:
				v = t.X
			case *ssa.Convert:
				v = t.X
			case *ssa.ChangeType:
				v = t.X
			default:
				return v
			}
		}
		return v
	}
	for n, in := range gc.Ins {
		cc := callCommon(in)
		if cc == nil {
			continue
		}
		var v ssa.Value
		at := n
		switch {
		case extFn(cc, "encoding/binary", "Write"):
			v = cc.Args[2]
			if mi, ok := v.(*ssa.MakeInterface); ok {
				v = mi.X
			}
			if k, ok := cc.Args[1].(*ssa.MakeInterface); !ok || !strings.Contains(k.X.Type().String(), "littleEndian") {
				v = nil // (the boot code reads little-endian words)
			}
		case extFn(cc, "encoding/binary", "PutUint64") && strings.Contains(cc.StaticCallee().String(), "littleEndian") && len(cc.Args) == 3:
			buf := bufBase(cc.Args[1])
			isWr := func(k int) bool {
				c2 := callCommon(gc.Ins[k])
				if c2 == nil || k == n {
					return false
				}
				name := ""
				if c2.IsInvoke() {
					name = c2.Method.Name()
				} else if f := c2.StaticCallee(); f != nil {
					name = f.Name()
				}
				if name != "Write" {
					return false
				}
				for _, a := range c2.Args {
					if bufBase(a) == buf {
						return true
					}
				}
				return false
			}
			if ok, _ := gc.MustPassAfter(n, isWr, isRet(gc)); ok {
				if p := gc.Path(gc.Succ[n], nil, nil, isWr); p != nil {
					v, at = cc.Args[2], p[len(p)-1]
				}
			}
		}
		if v == nil {
			continue
		}
		_, fl, ok := loadedField(v)
		if ok && (fl == srcAddr || fl == dstAddr) {
			// element of ctx.Redirects by ascending index
			writes = append(writes, struct {
				n   int
				fld *types.Var
				val ssa.Value
			}{at, fl, v})
		}
	}
	bad = ""
	if len(writes) != 2 || writes[0].fld == writes[1].fld {
		bad = fmt.Sprintf("expected one write of SrcVirtAddr and one of DstVirtAddr per entry, found %d", len(writes))
	} else {
		var sn, dn int
		var srcVal ssa.Value
		for _, w := range writes {
			if w.fld == srcAddr {
				sn, srcVal = w.n, w.val
			} else {
				dn = w.n
			}
		}
		if ok, _ := gc.MustPassBefore(dn, func(n int) bool { return n == sn }); !ok {
			bad = "the destination address is written before the source address (the boot code reads src, dst pairs)"
		}
		// (the innermost loop around each write, also when the write sits in a
		// spliced private helper)
		var h, h2 *ssa.BasicBlock
		if ls := gc.loopsAround(sn); len(ls) > 0 {
			h = ls[0]
		}
		if ls := gc.loopsAround(dn); len(ls) > 0 {
			h2 = ls[0]
		}
		if h == nil || h != h2 {
			bad = "source and destination are not written by the same loop over the entries"
		} else {
			// the element written in iteration T is Redirects[T] (induction form)
			asc := false
			var elemIdx ssa.Value
			if v := srcVal; v != nil {
				if bv, _, ok := loadedField(v); ok {
					for i := 0; i < 3 && bv != nil; i++ {
						switch t := bv.(type) {
						case *ssa.IndexAddr:
							elemIdx, bv = t.Index, nil
						case *ssa.UnOp:
							bv = t.X
						case *ssa.FieldAddr:
							bv = t.X
						default:
							bv = nil
						}
					}
				}
			}
			if elemIdx != nil {
				zo := &Polyizer{}
				if lf, ok := gc.loopFormAt(zo, gc.Ins[sn].Block()); ok {
					first, step, okA := lf.affineInT(elemIdx)
					lf.Done()
					f0, c0 := first.isConst()
					s1, c1 := step.isConst()
					asc = okA && c0 && f0 == 0 && c1 && s1 == 1
				}
			}
			if !asc {
				bad = "the entries are not written in slice order"
			}
			if _, inMap := mapLoopBlocks(complete)[gc.Ins[sn].Block()]; inMap {
				bad = "the entries are written from inside a map range"
			}
		}
	}
	c.check(bad == "", "C20.R4", "image-order "+m.fnName(complete), "per entry, in slice order: SrcVirtAddr then DstVirtAddr", bad, m.pos(complete.Pos()))
	// NUM_REDIRECTS = len(ctx.Redirects)
	var lenUser *ssa.Function
	m.eachInstr(func(fn *ssa.Function, in ssa.Instruction) {
		if call, ok := in.(*ssa.Call); ok {
			if bi, ok := call.Common().Value.(*ssa.Builtin); ok && bi.Name() == "len" && isLoadOfField(call.Common().Args[0], redirF) && fn != find && fn != complete {
				lenUser = fn
			}
		}
	})
	c.check(lenUser != nil, "C20.R4", "entry-count kbuild", "the boot assembly is given len(ctx.Redirects)", "no build step passes len(ctx.Redirects) on (NUM_REDIRECTS)")
	// main order
	gm := newIG(m, mainFn, nil)
	cg := buildCG(m)
	callsReaching := func(target *ssa.Function) []int {
		var out []int
		for n, in := range gm.Ins {
			if cc := callCommon(in); cc != nil {
				if cal := m.callee(cc); cal != nil && cg.reachable([]*ssa.Function{cal})[target] {
					out = append(out, n)
				}
			}
		}
		return out
	}
	finds := gm.callNodes(find)
	completes := gm.callNodes(complete)
	bad = ""
	if len(finds) != 1 || len(completes) != 1 {
		bad = "main does not call FindRedirects and CompleteRedirects exactly once"
	} else {
		if lenUser != nil {
			for _, n := range callsReaching(lenUser) {
				if ok, _ := gm.MustPassBefore(n, func(k int) bool { return k == finds[0] }); !ok {
					bad = "the boot assembly is built (NUM_REDIRECTS = len(Redirects)) before the redirects have been collected: the table size in the image is wrong"
				}
			}
		}
		if ok, _ := gm.MustPassBefore(completes[0], func(k int) bool { return k == finds[0] }); !ok {
			bad = "CompleteRedirects can run before FindRedirects"
		}
		if link := m.lookupMethod("", "Context", "LinkKernel"); link != nil {
			for _, ln := range gm.callNodes(link) {
				if ok, _ := gm.MustPassBefore(completes[0], func(k int) bool { return k == ln }); !ok {
					bad = "the table is written before the kernel has been linked"
				}
			}
		}
	}
	c.check(bad == "", "C20.R4", "build-order kbuild.main", "FindRedirects before the boot assembly is built; CompleteRedirects after LinkKernel", bad, m.pos(mainFn.Pos()))
}

// varargValues returns the values stored into the backing array of a variadic
// argument slice (slice t[:] of a local array).
func varargValues(v ssa.Value) []ssa.Value {
	sl, ok := v.(*ssa.Slice)
	if !ok {
		return nil
	}
	al, ok := sl.X.(*ssa.Alloc)
	if !ok {
		return nil
	}
	out := map[int64]ssa.Value{}
	max := int64(-1)
	for _, r := range *al.Referrers() {
		ia, ok := r.(*ssa.IndexAddr)
		if !ok {
			continue
		}
		idx, ok := constInt64(ia.Index)
		if !ok {
			continue
		}
		for _, rr := range *ia.Referrers() {
			if st, ok := rr.(*ssa.Store); ok {
				val := st.Val
				if mi, ok := val.(*ssa.MakeInterface); ok {
					val = mi.X
				}
				out[idx] = val
				if idx > max {
					max = idx
				}
			}
		}
	}
	res := make([]ssa.Value, max+1)
	for i := range res {
		res[i] = out[int64(i)]
	}
	return res
}

// prefixFact recognises a fact that says whether a string has a constant
// prefix, however the test is spelled: strings.HasPrefix(s, p); the found
// result of strings.CutPrefix(s, p); strings.TrimPrefix(s, p) compared with s
// itself or by length (TrimPrefix returns s unchanged exactly when s does not
// start with the non-empty p).
func prefixFact(f Fact) (subject ssa.Value, prefix string, holds, ok bool) {
	constStr := func(v ssa.Value) (string, bool) {
		cs, ok := v.(*ssa.Const)
		if !ok || cs.Value == nil || cs.Value.Kind() != constant.String {
			return "", false
		}
		return constant.StringVal(cs.Value), true
	}
	strCall := func(v ssa.Value, name string) (*ssa.Call, string, bool) {
		call, ok := v.(*ssa.Call)
		if !ok || !extFn(call.Common(), "strings", name) || len(call.Common().Args) != 2 {
			return nil, "", false
		}
		p, ok := constStr(call.Common().Args[1])
		return call, p, ok && p != ""
	}
	if f.Y == nil {
		if call, p, ok := strCall(f.X, "HasPrefix"); ok {
			return call.Common().Args[0], p, f.Op == token.EQL, true
		}
		if ex, isEx := f.X.(*ssa.Extract); isEx && ex.Index == 1 {
			if call, p, ok := strCall(ex.Tuple, "CutPrefix"); ok {
				return call.Common().Args[0], p, f.Op == token.EQL, true
			}
		}
		return nil, "", false, false
	}
	sameString := func(a, b ssa.Value) bool {
		if a == b {
			return true
		}
		pa, pb := pathString(accessPath(a)), pathString(accessPath(b))
		ra, rb := accessPath(a), accessPath(b)
		return pa != "" && pa == pb && len(ra) > 0 && len(rb) > 0 && ra[0].V == rb[0].V
	}
	lenOf := func(v ssa.Value) (ssa.Value, bool) {
		call, ok := v.(*ssa.Call)
		if !ok {
			return nil, false
		}
		if bi, ok := call.Common().Value.(*ssa.Builtin); ok && bi.Name() == "len" {
			return call.Common().Args[0], true
		}
		return nil, false
	}
	for _, pr := range [][2]ssa.Value{{f.X, f.Y}, {f.Y, f.X}} {
		op := f.Op
		if pr[0] != f.X {
			op = swapOp(op)
		}
		// TrimPrefix(s, p) ==/!= s
		if call, p, ok := strCall(pr[0], "TrimPrefix"); ok && sameString(call.Common().Args[0], pr[1]) {
			switch op {
			case token.NEQ:
				return call.Common().Args[0], p, true, true
			case token.EQL:
				return call.Common().Args[0], p, false, true
			}
		}
		// len(TrimPrefix(s, p)) ==/!=/</>= len(s)
		if a, ok := lenOf(pr[0]); ok {
			if b, ok := lenOf(pr[1]); ok {
				if call, p, ok := strCall(a, "TrimPrefix"); ok && sameString(call.Common().Args[0], b) {
					switch op {
					case token.NEQ, token.LSS:
						return call.Common().Args[0], p, true, true
					case token.EQL, token.GEQ:
						return call.Common().Args[0], p, false, true
					}
				}
			}
		}
	}
	return nil, "", false, false
}
