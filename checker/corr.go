package main

// E1b: correlated conditions. Two If instructions of one function are
// correlated when their conditions are the same comparison of stable operands
// (SSA values, loads of single-store cells or of parameters). A scenario fixes
// the outcome of all Ifs of one correlation group; infeasible edges are cut.

import (
	"fmt"
	"go/token"

	"golang.org/x/tools/go/ssa"
)

type corrGroup struct {
	Key string
	Ifs []int
}

func stableOperand(v ssa.Value) bool {
	switch x := stripConv(v).(type) {
	case *ssa.Parameter, *ssa.Const, *ssa.Call, *ssa.Extract, *ssa.Phi:
		return true
	case *ssa.BinOp:
		return stableOperand(x.X) && stableOperand(x.Y)
	case *ssa.UnOp:
		if x.Op == token.MUL {
			// load of a field of a single-store local (spilled value receiver) or of a single-store cell
			a := x.X
			if fa, ok := a.(*ssa.FieldAddr); ok {
				a = fa.X
			}
			if al, ok := a.(*ssa.Alloc); ok {
				stores, _, _ := cellAccessesLoose(al)
				return stores <= 1
			}
			_, ok := singleStoreValue(x.X)
			return ok
		}
		return stableOperand(x.X)
	}
	return false
}

// cellAccessesLoose counts stores to an Alloc or to any field address of it.
func cellAccessesLoose(al *ssa.Alloc) (stores int, loads int, ok bool) {
	ok = true
	var visit func(v ssa.Value)
	visit = func(v ssa.Value) {
		refs := v.Referrers()
		if refs == nil {
			return
		}
		for _, r := range *refs {
			switch x := r.(type) {
			case *ssa.Store:
				if x.Addr == v {
					stores++
				} else {
					stores += 2 // address escapes
				}
			case *ssa.FieldAddr:
				visit(x)
			case *ssa.UnOp:
				loads++
			case *ssa.DebugRef:
			default:
				stores += 2
			}
		}
	}
	visit(al)
	return
}

// correlatedIfs groups the If nodes of g by condition.
func correlatedIfs(g *IG, z *Polyizer) []corrGroup {
	byKey := map[string][]int{}
	var order []string
	for n, in := range g.Ins {
		_, ok := in.(*ssa.If)
		if !ok {
			continue
		}
		f, ok := condFact(g.Cond(n), true)
		if !ok {
			continue
		}
		var key string
		if prm, isP := f.X.(*ssa.Parameter); isP && f.Y == nil && f.Op == token.EQL {
			// a boolean parameter tested more than once
			key = fmt.Sprintf("bool parameter %s of %s", prm.Name(), prm.Parent())
		} else {
			if f.Y == nil || !stableOperand(f.X) || !stableOperand(f.Y) {
				continue
			}
			if !isIntegral(f.X.Type()) {
				continue
			}
			key = z.Of(f.X).String() + " " + f.Op.String() + " " + z.Of(f.Y).String()
		}
		if _, seen := byKey[key]; !seen {
			order = append(order, key)
		}
		byKey[key] = append(byKey[key], n)
	}
	var out []corrGroup
	for _, k := range order {
		out = append(out, corrGroup{k, byKey[k]})
	}
	return out
}

// scenarioCut returns the edges that are infeasible when every If of the group
// takes branch `taken` (0 = true branch).
func scenarioCut(grp corrGroup, taken int) map[Edge]bool {
	cut := map[Edge]bool{}
	for _, n := range grp.Ifs {
		cut[Edge{n, 1 - taken}] = true
	}
	return cut
}

// resolvePhi returns the single value a phi can have when the edges in cut are
// infeasible (nil if more than one remains).
func resolvePhi(g *IG, v ssa.Value, cut map[Edge]bool) ssa.Value {
	phi, ok := v.(*ssa.Phi)
	if !ok {
		return v
	}
	reach := g.Reach([]int{0}, cut, nil)
	pe := g.predEdges(phi.Block())
	var res ssa.Value
	n := 0
	for i, e := range phi.Edges {
		if cut[pe[i]] || !reach[pe[i].From] {
			continue
		}
		if e == ssa.Value(phi) {
			continue // carried round a loop unchanged
		}
		res = e
		n++
	}
	if n == 1 {
		return resolvePhi(g, res, cut)
	}
	return nil
}

// FactsAtUnder: the facts of the test edges that every path to target crosses
// when the edges in cut are infeasible.
func (g *IG) FactsAtUnder(target int, cut map[Edge]bool) []Fact {
	var out []Fact
	base := g.Reach([]int{0}, cut, nil)
	if !base[target] {
		return nil
	}
	for _, f := range g.rawEdgeFacts() {
		if !base[f.Edge.From] || cut[f.Edge] {
			continue
		}
		c2 := map[Edge]bool{f.Edge: true}
		for e := range cut {
			c2[e] = true
		}
		if !g.Reach([]int{0}, c2, nil)[target] {
			out = append(out, f)
		}
	}
	return out
}

// holdsInScenarios: pred holds for the facts at target, or there is a test that
// is made more than once (the same comparison of values that do not change in
// between) such that pred holds in each of its two outcomes: with the edges of
// the other outcome cut at every copy of the test. (`if a && b {..}; if a {X}`:
// X is reached with a true, so b was false.) An outcome under which target is
// unreachable holds vacuously.
func (g *IG) holdsInScenarios(target int, extra []Fact, pred func(facts []Fact, cut map[Edge]bool) bool) bool {
	if pred(append(append([]Fact(nil), extra...), g.FactsAt(target)...), nil) {
		return true
	}
	z := &Polyizer{}
	for _, grp := range correlatedIfs(g, z) {
		if len(grp.Ifs) < 2 {
			continue
		}
		all := true
		for taken := 0; taken < 2 && all; taken++ {
			cut := scenarioCut(grp, taken)
			if !g.Reach([]int{0}, cut, nil)[target] {
				continue
			}
			fs := append(append([]Fact(nil), extra...), g.FactsAtUnder(target, cut)...)
			if !pred(fs, cut) {
				all = false
			}
		}
		if all {
			return true
		}
	}
	return false
}
