package main

import (
	"fmt"
	"go/token"
	"go/types"
	"sort"
	"strings"

	"golang.org/x/tools/go/ssa"
)

func init() {
	register(&Property{
		ID: "C19", NeedKernel: true, Run: runC19,
		Explanation: "Console driver structure decided on SSA: (R1) in both Write implementations every framebuffer store and painter call is dominated by x >= 1, x <= width, " +
			"y >= 1, y <= height (and font != nil), in both Scroll implementations by lines != 0 and lines <= height; (R2) framebuffer elements are stored only by methods " +
			"of the two console types, write8/16/24 are called only from Write, fill8/16/24 only from Fill, replace16/24 only from setPaletteColor; (R3) in both Fill " +
			"implementations the caller-supplied x, y, width, height never enter arithmetic: they are only compared, and reach the offset computation through a clamp " +
			"(phi) whose argument edge is dominated by its bounds (found F5); (R4) every switch on the colour depth partitions {8}, {15,16}, {24,32} identically, " +
			"bytesPerPixel is (bpp+1)>>3 and in each group the largest constant byte offset written per pixel is below the group's smallest bytesPerPixel; (R5) outside " +
			"fbOffset (and the framebuffer size computation) nothing multiplies by the pitch, and fbOffset is (y + offsetY) * pitch + x * bytesPerPixel.",
		EnumRule:    "obligations per rule and construct (driver method / switch / parameter)",
		Assumptions: []string{"pixel-exact rendering, padding bytes and memory safety of the glyph walk in general are not decided", "pitch >= width * bytesPerPixel (quantifier of C19)"},
		Controls: []Control{
			{Name: "Write paints through Fill before the range tests", File: "kernel/device/video/console/vesa_fb.go", Old: "func (cons *VesaFbConsole) Write(ch byte, fg, bg uint8, x, y uint32) {\n", New: "func (cons *VesaFbConsole) Write(ch byte, fg, bg uint8, x, y uint32) {\n\tif ch == ' ' && cons.font != nil {\n\t\tcons.Fill(x, y, 1, 1, fg, bg)\n\t\treturn\n\t}\n", Expect: "C19.R1 write-guards"},
			{Name: "first cell of every row painted whatever the width", File: "kernel/device/video/console/vga_text.go", Old: "\tfor ; height > 0; height, rowOffset = height-1, rowOffset+cons.width {\n", New: "\tfor ; height > 0; height, rowOffset = height-1, rowOffset+cons.width {\n\t\tcons.fb[rowOffset] = clr\n", Expect: "C19.R6 fill-cells"},
			{Name: "grid width from the pitch", File: "kernel/device/video/console/vesa_fb.go", Old: "\tcons.widthInChars = cons.width / f.GlyphWidth\n", New: "\tcons.widthInChars = cons.pitch / (f.GlyphWidth * cons.bytesPerPixel)\n", Expect: "C19.R6"},
			{Name: "framebuffer slice rounded up to pages", File: "kernel/device/video/console/vesa_fb.go", Old: "\tfbSize := uintptr(cons.height * cons.pitch)\n", New: "\tfbSize := (uintptr(cons.height*cons.pitch) + mm.PageSize - 1) &^ (mm.PageSize - 1)\n", Expect: "C19.R6"},
			{Name: "full-width fast path in fill24", File: "kernel/device/video/console/vesa_fb.go", Old: "func (cons *VesaFbConsole) fill24(pX, pY, pW, pH uint32, bg uint8) {\n\tcomp := cons.packColor24(bg)\n\tfbRowOffset := cons.fbOffset(pX, pY)\n", New: "func (cons *VesaFbConsole) fill24(pX, pY, pW, pH uint32, bg uint8) {\n\tcomp := cons.packColor24(bg)\n\tfbRowOffset := cons.fbOffset(pX, pY)\n\tif pW == cons.width {\n\t\tpW, pH = pW*pH, 1\n\t}\n", Expect: "C19.R6"},
			{Name: "scroll distance from width*bytesPerPixel instead of the pitch", File: "kernel/device/video/console/vesa_fb.go", Old: "\toffset := cons.fbOffset(0, lines*cons.font.GlyphHeight-cons.offsetY)", New: "\toffset := lines * cons.font.GlyphHeight * cons.width * cons.bytesPerPixel", Expect: "C19.R6"},
			{Name: "full-width fill collapsed into one run", File: "kernel/device/video/console/vesa_fb.go", Old: "\tpH := height * cons.font.GlyphHeight\n\tswitch cons.bpp {", New: "\tpH := height * cons.font.GlyphHeight\n\tif x == 1 && width == cons.widthInChars {\n\t\tpW, pH = pH*(cons.pitch/cons.bytesPerPixel), 1\n\t}\n\tswitch cons.bpp {", Expect: "C19.R6"},
			{Name: "drop y > heightInChars in Write", File: "kernel/device/video/console/vesa_fb.go", Old: "if x < 1 || x > cons.widthInChars || y < 1 || y > cons.heightInChars || cons.font == nil {", New: "if x < 1 || x > cons.widthInChars || y < 1 || cons.font == nil {", Expect: "C19.R1"},
			{Name: "call write8 from Fill", File: "kernel/device/video/console/vesa_fb.go", Old: "\tcase 8:\n\t\tcons.fill8(pX, pY, pW, pH, bg)", New: "\tcase 8:\n\t\tcons.write8(0, bg, bg, pX, pY)\n\t\tcons.fill8(pX, pY, pW, pH, bg)", Expect: "C19.R2"},
			{Name: "re-introduce x+width-1 (F5, text console)", File: "kernel/device/video/console/vga_text.go", Old: "\tif width > cons.width-x+1 {", New: "\tif x+width-1 > cons.width {", Expect: "C19.R3"},
			{Name: "re-introduce y+height-1 (F5, framebuffer console)", File: "kernel/device/video/console/vesa_fb.go", Old: "\tif height > cons.heightInChars-y+1 {", New: "\tif y+height-1 > cons.heightInChars {", Expect: "C19.R3"},
			{Name: "move 32 to the 16-bit case list in Write only", File: "kernel/device/video/console/vesa_fb.go", Old: "\tcase 15, 16:\n\t\tcons.write16(ch, fg, bg, pX, pY)\n\tcase 24, 32:\n\t\tcons.write24(ch, fg, bg, pX, pY)", New: "\tcase 15, 16, 32:\n\t\tcons.write16(ch, fg, bg, pX, pY)\n\tcase 24:\n\t\tcons.write24(ch, fg, bg, pX, pY)", Expect: "C19.R4"},
			{Name: "text console Write without the x upper bound", File: "kernel/device/video/console/vga_text.go", Old: "if x < 1 || x > cons.width || y < 1 || y > cons.height {", New: "if x < 1 || y < 1 || y > cons.height {", Expect: "C19.R1"},
			{Name: "Scroll accepts any line count", File: "kernel/device/video/console/vga_text.go", Old: "\tif lines == 0 || lines > cons.height {\n\t\treturn\n\t}\n", New: "\tif lines == 0 {\n\t\treturn\n\t}\n", Expect: "C19.R1"},
			{Name: "fill16 writes three bytes per pixel", File: "kernel/device/video/console/vesa_fb.go", Old: "\t\t\tcons.fb[fbOffset] = comp[0]\n\t\t\tcons.fb[fbOffset+1] = comp[1]\n\t\t}\n\t}\n}\n\n// fill24", New: "\t\t\tcons.fb[fbOffset] = comp[0]\n\t\t\tcons.fb[fbOffset+1] = comp[1]\n\t\t\tcons.fb[fbOffset+2] = comp[1]\n\t\t}\n\t}\n}\n\n// fill24", Expect: "C19.R4"},
			{Name: "painter addresses rows without the logo offset", File: "kernel/device/video/console/vesa_fb.go", Old: "func (cons *VesaFbConsole) fill8(pX, pY, pW, pH uint32, bg uint8) {\n\tfbRowOffset := cons.fbOffset(pX, pY)", New: "func (cons *VesaFbConsole) fill8(pX, pY, pW, pH uint32, bg uint8) {\n\tfbRowOffset := pY*cons.pitch + pX", Expect: "C19.R5"},
			{Name: "fbOffset forgets offsetY", File: "kernel/device/video/console/vesa_fb.go", Old: "return ((y + cons.offsetY) * cons.pitch) + (x * cons.bytesPerPixel)", New: "return (y * cons.pitch) + (x * cons.bytesPerPixel)", Expect: "C19.R5"},
			{Name: "Fill origin not clamped at zero", File: "kernel/device/video/console/vga_text.go", Old: "\tif x == 0 {\n\t\tx = 1\n\t} else if x >= cons.width {\n\t\tx = cons.width\n\t}\n", New: "\tif x >= cons.width {\n\t\tx = cons.width\n\t}\n", Expect: "C19.R3"},
			{Name: "bytesPerPixel rounds down", File: "kernel/device/video/console/vesa_fb.go", Old: "bytesPerPixel: uint32(bpp+1) >> 3,", New: "bytesPerPixel: uint32(bpp) >> 3,", Expect: "C19.R4"},
		},
	})
}

func runC19(c *Ctx) {
	m := c.K
	const cons = "device/video/console"
	pkg := m.pkg(cons)
	vgaT, vesaT := m.lookupType(cons, "VgaTextConsole"), m.lookupType(cons, "VesaFbConsole")
	if vgaT == nil || vesaT == nil || pkg == nil {
		c.unresolved("C19.R1", "console.VgaTextConsole / console.VesaFbConsole")
		return
	}
	fld := func(t, n string) *types.Var { return m.fieldOf(cons, t, n) }
	vgaFb, vesaFb := fld("VgaTextConsole", "fb"), fld("VesaFbConsole", "fb")
	vgaW, vgaH := fld("VgaTextConsole", "width"), fld("VgaTextConsole", "height")
	wChars, hChars := fld("VesaFbConsole", "widthInChars"), fld("VesaFbConsole", "heightInChars")
	fontF, bppF, pitchF, bytesPP, offY := fld("VesaFbConsole", "font"), fld("VesaFbConsole", "bpp"), fld("VesaFbConsole", "pitch"), fld("VesaFbConsole", "bytesPerPixel"), fld("VesaFbConsole", "offsetY")
	for name, v := range map[string]interface{}{"VgaTextConsole.fb": vgaFb, "VesaFbConsole.fb": vesaFb, "VgaTextConsole.width": vgaW, "VgaTextConsole.height": vgaH,
		"VesaFbConsole.widthInChars": wChars, "VesaFbConsole.heightInChars": hChars, "VesaFbConsole.font": fontF, "VesaFbConsole.bpp": bppF, "VesaFbConsole.pitch": pitchF,
		"VesaFbConsole.bytesPerPixel": bytesPP, "VesaFbConsole.offsetY": offY} {
		if isNilIface(v) {
			c.unresolved("C19.R1", name)
			return
		}
	}
	meth := func(t, n string) *ssa.Function { return m.lookupMethod(cons, t, n) }
	isFbStore := func(in ssa.Instruction) bool {
		st, ok := in.(*ssa.Store)
		if !ok {
			return false
		}
		f, rest := lastField(accessPath(st.Addr))
		return (f == vgaFb || f == vesaFb) && strings.HasPrefix(rest, "[]")
	}
	painters := map[string]*ssa.Function{}
	for _, n := range []string{"write8", "write16", "write24", "fill8", "fill16", "fill24", "replace16", "replace24", "fbOffset", "setPaletteColor", "SetLogo"} {
		painters[n] = meth("VesaFbConsole", n)
		if painters[n] == nil {
			c.unresolved("C19.R2", "VesaFbConsole."+n)
			return
		}
	}
	isPainterCall := func(in ssa.Instruction) bool {
		for _, n := range []string{"write8", "write16", "write24", "fill8", "fill16", "fill24"} {
			if m.callsTo(in, painters[n]) {
				return true
			}
		}
		return false
	}

	// the functions of the package that (themselves or through what they call)
	// store into a framebuffer
	drawers := map[*ssa.Function]bool{}
	for changed := true; changed; {
		changed = false
		for _, fn := range m.Funcs {
			if drawers[fn] || fn.Pkg == nil || fn.Pkg.Pkg.Path() != m.ModPath+"/"+cons {
				continue
			}
			for _, b := range fn.Blocks {
				for _, in := range b.Instrs {
					if isFbStore(in) {
						drawers[fn] = true
					}
					if cc := callCommon(in); cc != nil {
						if cal := cc.StaticCallee(); cal != nil && drawers[cal] {
							drawers[fn] = true
						}
					}
				}
			}
			if drawers[fn] {
				changed = true
			}
		}
	}
	isDrawCall := func(in ssa.Instruction) bool {
		if cc := callCommon(in); cc != nil {
			if cal := cc.StaticCallee(); cal != nil && drawers[cal] {
				return true
			}
		}
		return false
	}

	// ================= R1 =================
	c.floor("C19.R1", 4)
	type drv struct {
		typ  string
		w, h *types.Var
		font bool
	}
	drivers := []drv{{"VgaTextConsole", vgaW, vgaH, false}, {"VesaFbConsole", wChars, hChars, true}}
	for _, d := range drivers {
		// ---- Write
		fn := meth(d.typ, "Write")
		if fn == nil {
			c.unresolved("C19.R1", d.typ+".Write")
			continue
		}
		g := newIG(m, fn, nil)
		xP, yP := paramNamed(fn, "x"), paramNamed(fn, "y")
		key := "write-guards " + m.fnName(fn)
		var targets []int
		for n, in := range g.Ins {
			// (a call of another drawing method of the driver, Fill or Scroll, paints too)
			if isFbStore(in) || isPainterCall(in) || isDrawCall(in) && m.helperOf(in) == nil {
				targets = append(targets, n)
			}
		}
		bad := ""
		if len(targets) == 0 || xP == nil || yP == nil {
			bad = "no framebuffer store / painter call found"
		}
		for _, tn := range targets {
			c.Evals++
			facts := g.FactsAt(tn)
			lo := func(p *ssa.Parameter) bool {
				return hasFact(facts, func(f Fact) bool {
					return cmpMatch(f, token.GEQ, func(v ssa.Value) bool { return v == ssa.Value(p) }, func(v ssa.Value) bool { k, ok := constUint64(v); return ok && k == 1 }) ||
						cmpMatch(f, token.NEQ, func(v ssa.Value) bool { return v == ssa.Value(p) }, isZeroConst) ||
						cmpMatch(f, token.GTR, func(v ssa.Value) bool { return v == ssa.Value(p) }, isZeroConst)
				})
			}
			hi := func(p *ssa.Parameter, lim *types.Var) bool {
				return hasFact(facts, func(f Fact) bool {
					return cmpMatch(f, token.LEQ, func(v ssa.Value) bool { return v == ssa.Value(p) }, func(v ssa.Value) bool { return isLoadOfField(v, lim) })
				})
			}
			switch {
			case !lo(xP) || !lo(yP):
				bad = "a cell is painted on a path on which x >= 1 / y >= 1 has not been tested (coordinate 0 wraps to a huge offset)"
			case !hi(xP, d.w):
				bad = "a cell is painted on a path on which x <= " + d.w.Name() + " has not been tested"
			case !hi(yP, d.h):
				bad = "a cell is painted on a path on which y <= " + d.h.Name() + " has not been tested: rows below the grid are written (past the framebuffer)"
			case d.font && !hasFact(facts, func(f Fact) bool {
				return isNilFact(f, token.NEQ, func(v ssa.Value) bool { return isLoadOfField(v, fontF) })
			}):
				bad = "a glyph is painted without testing that a font is set"
			}
		}
		c.check(bad == "", "C19.R1", key, fmt.Sprintf("%d paint site(s), all dominated by the four range tests", len(targets)), bad, m.pos(fn.Pos()))
		// ---- Scroll
		fs := meth(d.typ, "Scroll")
		if fs == nil {
			c.unresolved("C19.R1", d.typ+".Scroll")
			continue
		}
		gs := newIG(m, fs, nil)
		lP := paramNamed(fs, "lines")
		key = "scroll-guards " + m.fnName(fs)
		bad = ""
		nst := 0
		for n, in := range gs.Ins {
			if !isFbStore(in) {
				continue
			}
			nst++
			facts := gs.FactsAt(n)
			nz := hasFact(facts, func(f Fact) bool {
				return cmpMatch(f, token.NEQ, func(v ssa.Value) bool { return v == ssa.Value(lP) }, isZeroConst)
			})
			le := hasFact(facts, func(f Fact) bool {
				return cmpMatch(f, token.LEQ, func(v ssa.Value) bool { return v == ssa.Value(lP) }, func(v ssa.Value) bool { return isLoadOfField(v, d.h) })
			})
			if !nz || !le {
				bad = "rows are copied for a line count that has not been tested to lie in 1..height (the copy offset leaves the framebuffer)"
			}
			if d.font && !hasFact(facts, func(f Fact) bool {
				return isNilFact(f, token.NEQ, func(v ssa.Value) bool { return isLoadOfField(v, fontF) })
			}) {
				bad = "rows are copied without testing that a font is set"
			}
		}
		if nst == 0 {
			bad = "Scroll does not copy rows"
		}
		c.check(bad == "", "C19.R1", key, fmt.Sprintf("%d copy store(s), all dominated by lines != 0 and lines <= height", nst), bad, m.pos(fs.Pos()))
	}

	// ================= R2 =================
	c.floor("C19.R2", 3)
	{
		bad := ""
		var where []string
		nfn := map[string]bool{}
		m.eachInstr(func(fn *ssa.Function, in ssa.Instruction) {
			if !isFbStore(in) {
				return
			}
			c.Evals++
			nfn[m.fnName(fn)] = true
			recv := fn.Signature.Recv()
			if recv == nil || !(typeIs(recv.Type(), vgaT) || typeIs(recv.Type(), vesaT)) {
				bad = "framebuffer memory is written by " + m.fnName(fn) + ", which is not a method of a console driver"
				where = append(where, m.pos(in.Pos()))
			}
		})
		names := []string{}
		for n := range nfn {
			names = append(names, n)
		}
		sort.Strings(names)
		c.check(bad == "", "C19.R2", "fb-writers console", fmt.Sprintf("framebuffer elements are stored by %d driver method(s) only", len(names)), bad, where...)
		callerRule := func(group []string, allowed string) {
			var allowedFn *ssa.Function
			for _, t := range []string{"VesaFbConsole"} {
				if f := meth(t, allowed); f != nil {
					allowedFn = f
				}
			}
			bad := ""
			var where []string
			n := 0
			for _, p := range group {
				for _, cs := range m.callSites(painters[p]) {
					n++
					// (a private helper with one call site is part of its caller)
					if cs.Parent() != allowedFn && m.owner(cs.Parent()) != allowedFn {
						bad = p + " is called from " + m.fnName(cs.Parent()) + "; it must be reachable only through the guarded entry point " + allowed
						where = append(where, m.pos(cs.Pos()))
					}
				}
				for _, u := range m.usesOfFunc(painters[p]) {
					if cc := callCommon(u); cc == nil || m.callee(cc) != painters[p] {
						bad = p + " has its address taken in " + m.fnName(u.Parent())
					}
				}
			}
			if n == 0 {
				bad = "no call of " + strings.Join(group, "/") + " found"
			}
			c.check(bad == "", "C19.R2", "painter-callers "+strings.Join(group, "/"), fmt.Sprintf("%d call(s), all from %s", n, allowed), bad, where...)
		}
		callerRule([]string{"write8", "write16", "write24"}, "Write")
		callerRule([]string{"fill8", "fill16", "fill24"}, "Fill")
		callerRule([]string{"replace16", "replace24"}, "setPaletteColor")
	}

	// ================= R3 =================
	c.floor("C19.R3", 8)
	for _, d := range drivers {
		fn := meth(d.typ, "Fill")
		if fn == nil {
			c.unresolved("C19.R3", d.typ+".Fill")
			continue
		}
		g := newIG(m, fn, nil)
		for _, pn := range []string{"x", "y", "width", "height"} {
			p := paramNamed(fn, pn)
			key := fmt.Sprintf("no-wrap %s %s", m.fnName(fn), pn)
			if p == nil {
				c.undecided("C19.R3", key, "parameter not found")
				continue
			}
			bad := ""
			var where []string
			uses := 0
			for _, r := range *p.Referrers() {
				c.Evals++
				switch u := r.(type) {
				case *ssa.DebugRef:
				case *ssa.BinOp:
					uses++
					switch u.Op {
					case token.EQL, token.NEQ, token.LSS, token.LEQ, token.GTR, token.GEQ:
						// comparison: the other side must not be arithmetic on the raw parameter either (checked on its own use)
					default:
						// arithmetic on the raw argument: allowed only under bounds on both sides
						facts := g.FactsAt(g.Idx[u])
						up := hasFact(facts, func(f Fact) bool {
							return cmpMatch(f, token.LEQ, func(v ssa.Value) bool { return v == ssa.Value(p) }, func(v ssa.Value) bool { return !dependsOn(v, p) }) ||
								cmpMatch(f, token.LSS, func(v ssa.Value) bool { return v == ssa.Value(p) }, func(v ssa.Value) bool { return !dependsOn(v, p) })
						})
						lo := u.Op == token.ADD || u.Op == token.MUL || hasFact(facts, func(f Fact) bool {
							return cmpMatch(f, token.NEQ, func(v ssa.Value) bool { return v == ssa.Value(p) }, isZeroConst) || cmpMatch(f, token.GEQ, func(v ssa.Value) bool { return v == ssa.Value(p) }, func(v ssa.Value) bool { k, ok := constUint64(v); return ok && k >= 1 })
						})
						if !up || !lo {
							bad = fmt.Sprintf("the caller-supplied %s enters `%s` before it has been bounded: for values near 2^32 the sum wraps and the clipping test is bypassed", pn, u.String())
							where = append(where, g.posOf(g.Idx[u]))
						}
					}
				case *ssa.Phi:
					uses++
					// the clamp: the argument edge must be dominated by its bounds
					pe := g.predEdges(u.Block())
					for i, e := range u.Edges {
						if e != ssa.Value(p) {
							continue
						}
						ef := g.FactsAt(pe[i].From)
						if ft, ok := g.EdgeFact(pe[i].From, pe[i].K); ok {
							ef = append(ef, ft)
						}
						up := hasFact(ef, func(f Fact) bool {
							return cmpMatch(f, token.LEQ, func(v ssa.Value) bool { return v == ssa.Value(p) }, func(v ssa.Value) bool { return !dependsOn(v, p) }) ||
								cmpMatch(f, token.LSS, func(v ssa.Value) bool { return v == ssa.Value(p) }, func(v ssa.Value) bool { return !dependsOn(v, p) })
						})
						lo := pn == "width" || pn == "height" || hasFact(ef, func(f Fact) bool {
							return cmpMatch(f, token.NEQ, func(v ssa.Value) bool { return v == ssa.Value(p) }, isZeroConst) || cmpMatch(f, token.GEQ, func(v ssa.Value) bool { return v == ssa.Value(p) }, func(v ssa.Value) bool { k, ok := constUint64(v); return ok && k >= 1 })
						})
						if !up {
							bad = "the clamped " + pn + " can still be the caller's value on a path on which it has no upper bound"
							where = append(where, g.posOf(pe[i].From))
						} else if !lo {
							bad = "the clamped " + pn + " can be 0 (origin is 1-based: " + pn + "-1 wraps)"
							where = append(where, g.posOf(pe[i].From))
						}
					}
				case *ssa.Return:
					if u.Parent() == fn {
						uses++
						bad = "the raw " + pn + " argument is returned"
						continue
					}
					// the return of a spliced clamp helper that hands the argument back:
					// as for a merge, it must be bounded where it is returned
					uses++
					ef := g.FactsAt(g.Idx[u])
					up := hasFact(ef, func(f Fact) bool {
						return cmpMatch(f, token.LEQ, func(v ssa.Value) bool { return v == ssa.Value(p) }, func(v ssa.Value) bool { return !dependsOn(v, p) }) ||
							cmpMatch(f, token.LSS, func(v ssa.Value) bool { return v == ssa.Value(p) }, func(v ssa.Value) bool { return !dependsOn(v, p) })
					})
					lo := pn == "width" || pn == "height" || hasFact(ef, func(f Fact) bool {
						return cmpMatch(f, token.NEQ, func(v ssa.Value) bool { return v == ssa.Value(p) }, isZeroConst) || cmpMatch(f, token.GEQ, func(v ssa.Value) bool { return v == ssa.Value(p) }, func(v ssa.Value) bool { k, ok := constUint64(v); return ok && k >= 1 })
					})
					if !up {
						bad = "the clamped " + pn + " can still be the caller's value on a path on which it has no upper bound"
						where = append(where, g.posOf(g.Idx[u]))
					} else if !lo {
						bad = "the clamped " + pn + " can be 0 (origin is 1-based: " + pn + "-1 wraps)"
						where = append(where, g.posOf(g.Idx[u]))
					}
				default:
					if m.helperOf(r) != nil {
						continue // spliced helper: its uses of the argument are in this list
					}
					uses++
					if _, isCall := r.(*ssa.Call); isCall {
						bad = "the raw " + pn + " argument is passed on unclamped"
					} else {
						bad = "the raw " + pn + " argument is used outside a comparison/clamp: " + r.String()
					}
					where = append(where, m.pos(r.Pos()))
				}
			}
			if uses == 0 && (pn == "width" || pn == "height" || pn == "x" || pn == "y") {
				bad = "parameter unused (rule shape lost)"
			}
			c.check(bad == "", "C19.R3", key, "only compared, and merged through a clamp whose argument edge is bounded", bad, where...)
		}
	}

	// ================= R4 =================
	c.floor("C19.R4", 4)
	want := "[[8] [15 16] [24 32]]"
	for _, fn := range m.scanFuncs() {
		if fn.Pkg != pkg {
			continue
		}
		g := scanIG(m, fn, nil)
		groups := map[int][]uint64{}
		for _, f := range g.AllEdgeFacts() {
			if f.Y == nil || f.Op != token.EQL || !isLoadOfField(f.X, bppF) {
				continue
			}
			k, ok := constUint64(f.Y)
			if !ok {
				continue
			}
			tgt := g.Succ[f.Edge.From][f.Edge.K]
			groups[tgt] = append(groups[tgt], k)
		}
		if len(groups) == 0 {
			continue
		}
		var part [][]uint64
		for _, v := range groups {
			sort.Slice(v, func(i, j int) bool { return v[i] < v[j] })
			part = append(part, v)
		}
		sort.Slice(part, func(i, j int) bool { return part[i][0] < part[j][0] })
		got := fmt.Sprint(part)
		c.Evals++
		c.check(got == want, "C19.R4", "depth-dispatch "+m.fnName(fn), "switch on bpp partitions "+got, "switch on bpp partitions "+got+", expected "+want+": a depth is painted with the wrong pixel size", m.pos(fn.Pos()))
		// arms: max constant byte offset per pixel
		for tgt, ks := range groups {
			minBytes := uint64(1 << 30)
			for _, k := range ks {
				if b := (k + 1) >> 3; b < minBytes {
					minBytes = b
				}
			}
			// code of this arm: reachable from tgt without passing another bpp test; painters called from it
			var armFns []*ssa.Function
			r := g.Reach([]int{tgt}, nil, func(n int) bool {
				_, ok := g.Ins[n].(*ssa.If)
				if !ok {
					return false
				}
				f, _ := condFact(g.Cond(n), true)
				return f.X != nil && isLoadOfField(f.X, bppF)
			})
			maxOff := int64(-1)
			scan := func(ff *ssa.Function, only []bool, gg *IG) {
				z := &Polyizer{}
				for n, in := range gg.Ins {
					if only != nil && !only[n] {
						continue
					}
					st, ok := in.(*ssa.Store)
					if !ok || !isFbStore(in) {
						continue
					}
					ia, ok := st.Addr.(*ssa.IndexAddr)
					if !ok {
						continue
					}
					if k, ok := z.Of(ia.Index)[""]; ok && k > maxOff {
						maxOff = k
					} else if !ok && maxOff < 0 {
						maxOff = 0
					}
				}
			}
			scan(fn, r, g)
			for n, in := range g.Ins {
				if !r[n] {
					continue
				}
				if cc := callCommon(in); cc != nil {
					if cal := m.callee(cc); cal != nil && cal.Pkg == pkg && cal != painters["fbOffset"] {
						armFns = append(armFns, cal)
					}
				}
			}
			for _, af := range armFns {
				scan(af, nil, newIG(m, af, nil))
			}
			if maxOff < 0 {
				continue
			}
			key := fmt.Sprintf("pixel-size %s depth %v", m.fnName(fn), ks)
			c.check(uint64(maxOff)+1 <= minBytes, "C19.R4", key, fmt.Sprintf("writes %d byte(s) per pixel, bytesPerPixel >= %d", maxOff+1, minBytes),
				fmt.Sprintf("writes %d byte(s) per pixel but bytesPerPixel can be %d for these depths: neighbouring pixels / padding are overwritten", maxOff+1, minBytes), m.pos(fn.Pos()))
		}
	}
	// bytesPerPixel formula
	{
		z := &Polyizer{}
		n := 0
		for _, fs := range m.storesToField(bytesPP) {
			n++
			p := z.Of(fs.Store.Val).String()
			c.check(p == "fdiv3(1 + bpp)", "C19.R4", "bytes-per-pixel "+m.fnName(fs.Fn), "bytesPerPixel = (bpp + 1) >> 3", "bytesPerPixel is computed as "+p+", expected (bpp+1)>>3 (15 bpp must give 2)", m.pos(fs.Store.Pos()))
		}
		if n == 0 {
			c.fail("C19.R4", "bytes-per-pixel console", "bytesPerPixel is never set")
		}
	}

	// ================= R5 =================
	c.floor("C19.R5", 2)
	{
		z := &Polyizer{Atom: func(v ssa.Value) string {
			if _, f, ok := loadedField(v); ok && isIntegral(f.Type()) {
				return f.Name()
			}
			return ""
		}}
		fo := painters["fbOffset"]
		okForm := false
		for _, b := range fo.Blocks {
			for _, in := range b.Instrs {
				if r, ok := in.(*ssa.Return); ok {
					got := z.Of(r.Results[0])
					wantP := polyAtom("y").add(polyAtom("offsetY"), 1).mul(polyAtom("pitch")).add(polyAtom("x").mul(polyAtom("bytesPerPixel")), 1)
					okForm = got.equal(wantP)
					c.check(okForm, "C19.R5", "offset-formula "+m.fnName(fo), "fbOffset(x, y) = (y + offsetY) * pitch + x * bytesPerPixel", "fbOffset computes "+got.String()+", expected "+wantP.String()+" (rows of the logo area must be skipped)", m.pos(fo.Pos()))
				}
			}
		}
		bad := ""
		var where []string
		nmul := 0
		m.eachInstr(func(fn *ssa.Function, in ssa.Instruction) {
			b, ok := in.(*ssa.BinOp)
			if !ok || b.Op != token.MUL && b.Op != token.SHL {
				return
			}
			if !isLoadOfField(b.X, pitchF) && !isLoadOfField(b.Y, pitchF) {
				return
			}
			nmul++
			if fn == fo || fn.Name() == "DriverInit" {
				return
			}
			bad = m.fnName(fn) + " computes a row address from the pitch itself instead of through fbOffset: the logo rows are not skipped"
			where = append(where, m.pos(in.Pos()))
		})
		c.check(bad == "" && nmul > 0, "C19.R5", "pitch-users console", fmt.Sprintf("%d multiplication(s) by the pitch, only in fbOffset and the framebuffer size computation", nmul), bad, where...)
	}

	// ================= R6: scroll distance and fill geometry of the framebuffer console =================
	c.floor("C19.R6", 5)
	// the size of the cell grid and of the framebuffer slice
	{
		zg := &Polyizer{Atom: func(v ssa.Value) string {
			if _, f, ok := loadedField(v); ok && isIntegral(f.Type()) {
				return f.Name()
			}
			return ""
		}}
		quotOf := func(v ssa.Value) (num Poly, den Poly, ok bool) {
			b, isB := stripConv(v).(*ssa.BinOp)
			if !isB || b.Op != token.QUO {
				return nil, nil, false
			}
			return zg.Of(b.X), zg.Of(b.Y), true
		}
		for _, spec := range []struct {
			f        *types.Var
			num, den Poly
			what     string
		}{
			{wChars, polyAtom("width"), polyAtom("GlyphWidth"), "width / GlyphWidth (pixels, not bytes of a row)"},
			{hChars, polyAtom("height").add(polyAtom("offsetY"), -1), polyAtom("GlyphHeight"), "(height - offsetY) / GlyphHeight"},
		} {
			bad := ""
			var where []string
			n := 0
			for _, fs := range m.storesToField(spec.f) {
				if fs.Rest != "" {
					continue
				}
				n++
				num, den, ok := quotOf(fs.Store.Val)
				if !ok || !num.equal(spec.num) || !den.equal(spec.den) {
					bad = spec.f.Name() + " is set to " + describe(fs.Store.Val) + ", expected " + spec.what + ": cells outside the picture (or in the row padding) become addressable"
					where = append(where, m.pos(fs.Store.Pos()))
				}
			}
			if n == 0 {
				bad = spec.f.Name() + " is never set"
			}
			c.check(bad == "", "C19.R6", "grid-size VesaFbConsole."+spec.f.Name(), spec.f.Name()+" = "+spec.what, bad, where...)
		}
		// the framebuffer slice covers height*pitch bytes, no more
		bad := ""
		var where []string
		nlen := 0
		for _, fs := range m.storesToField(vesaFb) {
			if fs.Rest != "" {
				continue
			}
			for _, b := range m.blocksOf(fs.Fn) {
				for _, in := range b.Instrs {
					st, ok := in.(*ssa.Store)
					if !ok {
						continue
					}
					fa, ok := st.Addr.(*ssa.FieldAddr)
					if !ok {
						continue
					}
					pt, ok := fa.X.Type().Underlying().(*types.Pointer)
					if !ok || !strings.HasSuffix(pt.Elem().String(), "reflect.SliceHeader") || (fa.Field != 1 && fa.Field != 2) {
						continue
					}
					nlen++
					if got := zg.Of(st.Val); !got.equal(polyAtom("height").mul(polyAtom("pitch"))) {
						bad = "the framebuffer slice is given length/capacity " + got.String() + ", expected height*pitch: scrolling and palette changes run to len(fb) and would touch memory behind the picture"
						where = append(where, m.pos(st.Pos()))
					}
				}
			}
		}
		if nlen == 0 {
			bad = "no length is set for the framebuffer slice (rule shape lost)"
		}
		c.check(bad == "", "C19.R6", "fb-length VesaFbConsole.fb", "len(fb) = cap(fb) = height*pitch", bad, where...)
	}
	for _, pn := range []string{"fill8", "fill16", "fill24"} {
		c19PainterGeometry(c, m, painters[pn], painters["fbOffset"], vesaFb, pitchF, bytesPP, pn != "fill8")
	}
	{
		zi := &Polyizer{Inline: true, Atom: func(v ssa.Value) string {
			if _, f, ok := loadedField(v); ok && isIntegral(f.Type()) {
				return f.Name()
			}
			return ""
		}}
		// Scroll: every element move fb[i] = fb[i +- D] has D = lines * GlyphHeight * pitch
		scroll := meth("VesaFbConsole", "Scroll")
		if scroll == nil {
			c.unresolved("C19.R6", "VesaFbConsole.Scroll")
		} else {
			linesP := paramNamed(scroll, "lines")
			g := newIG(m, scroll, nil)
			want := polyAtom("lines").mul(polyAtom("GlyphHeight")).mul(polyAtom("pitch"))
			bad := ""
			var where []string
			nmove := 0
			for n, in := range g.Ins {
				st, ok := in.(*ssa.Store)
				if !ok {
					continue
				}
				da, ok := st.Addr.(*ssa.IndexAddr)
				if !ok || !isLoadOfField(da.X, vesaFb) {
					continue
				}
				ld, ok := st.Val.(*ssa.UnOp)
				if !ok || ld.Op != token.MUL {
					continue
				}
				sa, ok := ld.X.(*ssa.IndexAddr)
				if !ok || !isLoadOfField(sa.X, vesaFb) {
					continue
				}
				nmove++
				c.Evals++
				d := zi.Of(sa.Index).add(zi.Of(da.Index), -1)
				if !d.equal(want) && !d.equal(Poly{}.add(want, -1)) {
					bad = "the scroll moves bytes by " + d.String() + ", expected lines*GlyphHeight*pitch (whole pixel rows including their padding): the picture shears when the pitch is padded"
					where = append(where, g.posOf(n))
				}
			}
			if nmove == 0 || linesP == nil {
				bad = "no framebuffer move found in Scroll (rule shape lost)"
			}
			c.check(bad == "", "C19.R6", "scroll-distance "+m.fnName(scroll), fmt.Sprintf("%d element move(s), all by lines*GlyphHeight*pitch bytes", nmove), bad, where...)
		}
		// Fill: each painter gets the clipped cell rectangle in pixels:
		// ((x-1)*GlyphWidth, (y-1)*GlyphHeight, width*GlyphWidth, height*GlyphHeight)
		fill := meth("VesaFbConsole", "Fill")
		if fill != nil {
			g := newIG(m, fill, nil)
			bad := ""
			var where []string
			ncall := 0
			cellForm := func(p Poly, unit string, minusOne bool) bool {
				// p = A*unit (- unit): every monomial contains unit exactly once and, with it removed, A is a single variable
				rest := Poly{}
				for mono, cf := range p {
					parts := strings.Split(mono, "×")
					k := -1
					for i, a := range parts {
						if a == unit {
							k = i
						}
					}
					if k < 0 {
						return false
					}
					r := strings.Join(append(append([]string{}, parts[:k]...), parts[k+1:]...), "×")
					rest[r] += cf
				}
				if minusOne {
					rest = rest.add(polyConst(1), 1)
				}
				_, ok := rest.singleAtom()
				return ok
			}
			for n, in := range g.Ins {
				for _, pn := range []string{"fill8", "fill16", "fill24"} {
					if !m.callsTo(in, painters[pn]) {
						continue
					}
					ncall++
					c.Evals++
					a := g.callArgs(n)
					if len(a) < 5 {
						continue
					}
					okArgs := cellForm(zi.Of(a[1]), "GlyphWidth", true) && cellForm(zi.Of(a[2]), "GlyphHeight", true) &&
						cellForm(zi.Of(a[3]), "GlyphWidth", false) && cellForm(zi.Of(a[4]), "GlyphHeight", false)
					if !okArgs {
						bad = fmt.Sprintf("%s is not given the clipped cell rectangle in pixels ((x-1)*GlyphWidth, (y-1)*GlyphHeight, width*GlyphWidth, height*GlyphHeight): it gets (%s, %s, %s, %s)", pn,
							zi.Of(a[1]), zi.Of(a[2]), zi.Of(a[3]), zi.Of(a[4]))
						where = append(where, g.posOf(n))
					}
				}
			}
			if ncall == 0 {
				bad = "Fill calls no painter (rule shape lost)"
			}
			c.check(bad == "", "C19.R6", "fill-geometry "+m.fnName(fill), fmt.Sprintf("%d painter call(s), each with the clipped rectangle scaled by the glyph size", ncall), bad, where...)
		}
	}
	// the text-mode driver paints the cells itself: every cell store of its Fill
	// sits in the column loop inside the row loop and moves by one cell per
	// column (a store outside the column loop happens once per row whatever the
	// width, also for an empty rectangle)
	if vfill := meth("VgaTextConsole", "Fill"); vfill == nil {
		c.unresolved("C19.R6", "VgaTextConsole.Fill")
	} else {
		g := newIG(m, vfill, nil)
		bad, nst := "", 0
		var where []string
		for n, in := range g.Ins {
			st, ok := in.(*ssa.Store)
			if !ok || !isFbStore(in) {
				continue
			}
			nst++
			ls := g.loopsAround(n)
			if len(ls) < 2 {
				bad = "a cell is written outside the column loop: once per row whatever the rectangle's width"
				where = append(where, g.posOf(n))
				continue
			}
			ia, _ := st.Addr.(*ssa.IndexAddr)
			zi := &Polyizer{}
			lf, okL := g.loopFormAt(zi, ls[0])
			if ia == nil || !okL {
				bad = "the cell store is not indexed by the column loop's counter"
				where = append(where, g.posOf(n))
				continue
			}
			_, step, okA := lf.affineInT(ia.Index)
			tok := lf.TripsOK
			lf.Done()
			if k, isK := step.isConst(); !okA || !isK || k != 1 || !tok {
				bad = "the cell index does not advance by one cell per iteration of a counting column loop"
				where = append(where, g.posOf(n))
			}
		}
		if nst == 0 && bad == "" {
			// cells written through copy/clear only: not the shape this rule decides
			bad = "VgaTextConsole.Fill has no cell store in a row/column loop nest (rule shape lost)"
		}
		c.check(bad == "", "C19.R6", "fill-cells "+m.fnName(vfill), fmt.Sprintf("%d cell store(s), each inside the column loop inside the row loop, one cell per column", nst), bad, where...)
	}
}

// painterGeometry (C19.R6): a fill painter paints pH rows of pW pixels: its
// framebuffer stores are in an inner loop over one row - from the row's start
// in steps of the pixel size up to start + pW*pixel size, pW being the
// parameter - inside an outer loop whose row start begins at fbOffset(pX, pY),
// advances by the pitch, and runs pH times, pH being the parameter.
func c19PainterGeometry(c *Ctx, m *Module, fn, fbOffset *ssa.Function, fbF, pitchF, bppF *types.Var, pixelBytes bool) {
	key := "painter-geometry " + m.fnName(fn)
	g := newIG(m, fn, nil)
	pX, pY, pW, pH := paramNamed(fn, "pX"), paramNamed(fn, "pY"), paramNamed(fn, "pW"), paramNamed(fn, "pH")
	if pX == nil || pY == nil || pW == nil || pH == nil {
		ps := fn.Params
		if len(ps) >= 5 {
			pX, pY, pW, pH = ps[1], ps[2], ps[3], ps[4]
		} else {
			c.undecided("C19.R6", key, "the painter does not take (x, y, width, height)")
			return
		}
	}
	z := &Polyizer{NoInline: true, Atom: func(v ssa.Value) string {
		if _, f, ok := loadedField(v); ok && isIntegral(f.Type()) {
			return f.Name()
		}
		return ""
	}}
	bad := ""
	var where string
	nst := 0
	for n, in := range g.Ins {
		st, ok := in.(*ssa.Store)
		if !ok {
			continue
		}
		ia, ok := st.Addr.(*ssa.IndexAddr)
		if !ok || !isLoadOfField(ia.X, fbF) {
			continue
		}
		nst++
		where = g.posOf(n)
		lf, inLoop := g.loopFormAt(z, st.Block())
		if !inLoop {
			bad = "a framebuffer store is not in the loop over the pixels of a row"
			continue
		}
		first, step, okA := lf.affineInT(ia.Index)
		// the row variable: the start value of the pixel cursor
		var rowStart ssa.Value
		for phi := range lf.Init {
			if fp, _, ok := lf.affineInT(phi); ok {
				d := first.add(fp, -1)
				if k, isC := d.isConst(); isC && k >= 0 && k < 4 {
					rowStart = lf.Init[phi]
				}
			}
		}
		wantStep := polyConst(1)
		if pixelBytes {
			wantStep = polyAtom(bppF.Name())
		}
		// the end of the row: the stay test cursor < end
		var endOK bool
		var inner *ssa.BasicBlock = lf.Header
		for blk := range lf.Body {
			ifi, ok := blk.Instrs[len(blk.Instrs)-1].(*ssa.If)
			if !ok || len(blk.Succs) != 2 || lf.Body[blk.Succs[0]] == lf.Body[blk.Succs[1]] {
				continue
			}
			f, ok := condFact(ifi.Cond, lf.Body[blk.Succs[0]])
			if !ok || f.Y == nil || f.Op != token.LSS || rowStart == nil {
				continue
			}
			lf.Done()
			span := z.Of(f.Y).add(z.Of(rowStart), -1)
			if span.equal(z.Of(pW).mul(wantStep)) {
				endOK = true
			}
			lf, _ = g.loopFormAt(z, st.Block())
		}
		early := lf.otherExits(g)
		lf.Done()
		switch {
		case !okA || rowStart == nil:
			bad = "the framebuffer index is not a cursor that runs along one row"
		case !step.equal(wantStep):
			bad = "the pixel cursor advances by " + step.String() + ", expected " + wantStep.String()
		case !endOK:
			bad = "a row does not end pW pixels after its start (pW being the width the painter was given)"
		case len(early) > 0:
			bad = "the pixel loop can be left early"
		}
		if bad != "" {
			continue
		}
		// the rows
		var outerBlk *ssa.BasicBlock
		for _, p := range inner.Preds {
			if !lf.Body[p] {
				outerBlk = p
			}
		}
		lo, inOuter := g.loopFormAt(z, outerBlk)
		if outerBlk == nil || !inOuter {
			bad = "the rows are not painted by a loop around the pixel loop"
			continue
		}
		rFirst, rStep, okR := lo.affineInT(rowStart)
		trips, tok := lo.Trips, lo.TripsOK
		earlyO := lo.otherExits(g)
		lo.Done()
		okInit := false
		for _, in2 := range g.Ins {
			if call, ok := in2.(*ssa.Call); ok && m.callsTo(in2, fbOffset) {
				a := call.Common().Args
				if len(a) == 3 && stripConv(a[1]) == ssa.Value(pX) && stripConv(a[2]) == ssa.Value(pY) && z.Of(call).equal(rFirst) {
					okInit = true
				}
			}
		}
		switch {
		case !okR || !okInit:
			bad = "the first row does not start at fbOffset(pX, pY)"
		case !rStep.equal(polyAtom(pitchF.Name())):
			bad = "the row start advances by " + rStep.String() + ", expected the pitch"
		case !tok || !trips.equal(z.Of(pH)):
			bad = "the number of rows painted is not pH (the height the painter was given)"
		case len(earlyO) > 0:
			bad = "the row loop can be left early"
		}
	}
	if nst == 0 {
		bad = "the painter stores nothing into the framebuffer"
		where = m.pos(fn.Pos())
	}
	c.check(bad == "", "C19.R6", key, "pH rows from fbOffset(pX, pY) in steps of the pitch; each row pW pixels", bad, where)
}

// dependsOn: v is computed from p (through arithmetic / conversions).
func dependsOn(v ssa.Value, p ssa.Value) bool {
	seen := map[ssa.Value]bool{}
	var rec func(x ssa.Value, d int) bool
	rec = func(x ssa.Value, d int) bool {
		if x == p {
			return true
		}
		if d > 12 || seen[x] {
			return false
		}
		seen[x] = true
		switch t := x.(type) {
		case *ssa.BinOp:
			return rec(t.X, d+1) || rec(t.Y, d+1)
		case *ssa.UnOp:
			if t.Op != token.MUL {
				return rec(t.X, d+1)
			}
		case *ssa.Convert:
			return rec(t.X, d+1)
		case *ssa.ChangeType:
			return rec(t.X, d+1)
		case *ssa.Phi:
			for _, e := range t.Edges {
				if rec(e, d+1) {
					return true
				}
			}
		}
		return false
	}
	return rec(v, 0)
}
