package main

import (
	"go/token"
	"go/types"
	"os"

	"golang.org/x/tools/go/ssa"
)

// Expansion of arithmetic helpers. A function whose single block only does
// integer arithmetic and conversions on its parameters (mm.PageFromAddress,
// mm.FrameFromAddress, Frame.Address, Page.Address and the like, exported or
// not, any number of call sites) denotes an expression. Every call of such a
// function is replaced by a copy of that expression over the call's arguments,
// so that the rules see the same arithmetic whether the source spells it out or
// names it. Nothing is lost: the function has no effects and cannot fail.

// arithBody: fn is such a function; its instructions in order and the result.
func arithBody(fn *ssa.Function, depth int) ([]ssa.Instruction, ssa.Value, bool) {
	if fn == nil || len(fn.Blocks) != 1 || len(fn.FreeVars) != 0 || depth > 3 || fn.Synthetic != "" {
		return nil, nil, false
	}
	for _, p := range fn.Params {
		if !isIntegral(p.Type()) {
			return nil, nil, false
		}
	}
	var body []ssa.Instruction
	var res ssa.Value
	for _, in := range fn.Blocks[0].Instrs {
		switch x := in.(type) {
		case *ssa.DebugRef:
		case *ssa.BinOp:
			if x.Op == token.QUO || x.Op == token.REM {
				if _, isC := x.Y.(*ssa.Const); !isC {
					return nil, nil, false // could divide by zero
				}
			}
			body = append(body, in)
		case *ssa.Convert, *ssa.ChangeType:
			body = append(body, in)
		case *ssa.UnOp:
			if x.Op == token.MUL || x.Op == token.ARROW {
				return nil, nil, false
			}
			body = append(body, in)
		case *ssa.Call:
			if _, _, ok := arithBody(x.Common().StaticCallee(), depth+1); !ok || x.Common().IsInvoke() {
				return nil, nil, false
			}
			body = append(body, in)
		case *ssa.Return:
			if len(x.Results) != 1 {
				return nil, nil, false
			}
			res = x.Results[0]
		default:
			return nil, nil, false
		}
	}
	if res == nil {
		return nil, nil, false
	}
	if _, ok := res.Type().Underlying().(*types.Basic); !ok {
		return nil, nil, false
	}
	return body, res, true
}

// expandArith replaces call (to fn) by a copy of fn's expression; it returns the
// value that stands for the call's result.
func expandArith(at ssa.Instruction, fn *ssa.Function, args []ssa.Value, depth int) ssa.Value {
	body, res, ok := arithBody(fn, depth)
	if !ok {
		return nil
	}
	env := map[ssa.Value]ssa.Value{}
	for i, p := range fn.Params {
		if i >= len(args) {
			return nil
		}
		env[p] = args[i]
	}
	subst := func(v ssa.Value) ssa.Value {
		if r, ok := env[v]; ok {
			return r
		}
		return v
	}
	for _, in := range body {
		if call, isCall := in.(*ssa.Call); isCall {
			var as []ssa.Value
			for _, a := range call.Common().Args {
				as = append(as, subst(a))
			}
			r := expandArith(at, call.Common().StaticCallee(), as, depth+1)
			if r == nil {
				return nil
			}
			env[call] = r
			continue
		}
		nv := ssa.CloneArithBefore(at, in, subst)
		if nv == nil {
			return nil
		}
		env[in.(ssa.Value)] = nv
	}
	return subst(res)
}

// expandArithCalls rewrites every call of an arithmetic helper in the module.
func (m *Module) expandArithCalls() {
	if os.Getenv("FFC_NOPUREX") != "" {
		return
	}
	for _, fn := range m.Funcs {
		for _, b := range fn.Blocks {
			for i := 0; i < len(b.Instrs); i++ {
				call, ok := b.Instrs[i].(*ssa.Call)
				if !ok || call.Common().IsInvoke() {
					continue
				}
				callee := call.Common().StaticCallee()
				if callee == nil || callee == fn || m.anchors[callee] {
					continue // (a function a rule analyses by name stays a call)
				}
				if _, _, ok := arithBody(callee, 0); !ok {
					continue
				}
				r := expandArith(call, callee, call.Common().Args, 0)
				if r == nil {
					continue
				}
				replaceUses(call, r)
				for _, a := range call.Common().Args {
					if refs := a.Referrers(); refs != nil {
						for k, u := range *refs {
							if u == ssa.Instruction(call) {
								*refs = append((*refs)[:k], (*refs)[k+1:]...)
								break
							}
						}
					}
				}
				ssa.RemoveInstr(call)
				m.NArith++
				i = -1 // the block changed: start over
			}
		}
	}
}
