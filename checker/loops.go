package main

// Induction form of counted loops. How a loop counts is not part of any
// property: `for n > 0 { ...; n--; p++ }`, `for i := 0; i < n; i++ { f(p+i) }`
// and `for q := p; q < p+n; q++` are the same loop. The rules therefore do not
// match a loop's shape; they ask for its induction form:
//
//   - every header phi that is a basic induction variable (init on entry,
//     phi±c on every back edge) is the polynomial init + c·T, where the atom T
//     is the number of completed iterations;
//   - the loop's exit test, rewritten over T, gives the trip count when it has
//     the form "stay while d0 - T > 0" (also written <, <=, >=, != against a
//     bound): the body runs for T = 0 .. d0-1.
//
// Values computed in the body are then polynomials in T through the ordinary
// polynomial normal form (poly.go), e.g. the argument page+i is page0 + T.

import (
	"fmt"
	"go/token"
	"go/types"
	"os"
	"strings"

	"golang.org/x/tools/go/ssa"
)

const loopT = "T"

type LoopForm struct {
	Header *ssa.BasicBlock
	Body   map[*ssa.BasicBlock]bool
	// IVs: the basic induction variables and their step
	IVs map[*ssa.Phi]int64
	// Init: value of each induction variable on loop entry
	Init map[*ssa.Phi]ssa.Value
	// Trips is the trip count; TripsOK is false when the exit test is not an
	// affine test of the induction variables.
	Trips   Poly
	TripsOK bool
	// Exit is the If node that leaves the loop from the header.
	Exit int
	z    *Polyizer
	save map[ssa.Value]Poly
	// SymSteps: induction variables whose stride is not a constant (phi += s)
	SymSteps map[*ssa.Phi]ssa.Value
	// the range of T that was in force before this form (restored by Done)
	saveTMax int64
	saveTSet bool
	setTMax  bool
}

// loopFormAt returns the induction form of the innermost loop containing b.
// The polyizer's environment is extended with the induction variables for as
// long as the form is in use (call Done to restore it).
func (g *IG) loopFormAt(z *Polyizer, b *ssa.BasicBlock) (*LoopForm, bool) {
	// a block of a spliced helper that is not in a loop of its own lies in the
	// loops of the helper's call site
	for i := 0; i < 4 && b != nil && g.M != nil && b.Parent() != g.Fn; i++ {
		if hh, _ := loopOf(b); hh != nil {
			break
		}
		site := g.M.helperSite[b.Parent()]
		if site == nil {
			break
		}
		b = site.Block()
	}
	h, body := loopOf(b)
	if h == nil {
		return nil, false
	}
	lf := &LoopForm{Header: h, Body: body, IVs: map[*ssa.Phi]int64{}, Init: map[*ssa.Phi]ssa.Value{}, z: z, Exit: -1}
	dead := deadBackPreds(h, body)
	for _, in := range h.Instrs {
		phi, ok := in.(*ssa.Phi)
		if !ok {
			break
		}
		if !isIntegral(phi.Type()) {
			continue
		}
		var init ssa.Value
		step, okIV, nInit := int64(0), true, 0
		for i, e := range phi.Edges {
			if !body[h.Preds[i]] {
				if init == nil || init != e {
					nInit++ // (several entries with the same value are one start value)
				}
				init = e
				continue
			}
			if dead[i] {
				continue // the loop is left at once on this edge
			}
			s, ok := stepOf(e, phi)
			if !ok || (step != 0 && s != step) {
				okIV = false
				break
			}
			step = s
		}
		if okIV && nInit == 1 && step != 0 {
			lf.IVs[phi] = step
			lf.Init[phi] = init
			continue
		}
		// a stride that is not a constant: phi + s with the same s on every back
		// edge (the entry size read from a header, a field of the receiver)
		if nInit == 1 {
			var sv ssa.Value
			okS := true
			for i, e := range phi.Edges {
				if !body[h.Preds[i]] || dead[i] {
					continue
				}
				b, ok := stripConv(e).(*ssa.BinOp)
				if !ok || b.Op != token.ADD {
					okS = false
					break
				}
				var other ssa.Value
				switch {
				case stripConv(b.X) == ssa.Value(phi):
					other = b.Y
				case stripConv(b.Y) == ssa.Value(phi):
					other = b.X
				default:
					okS = false
				}
				if !okS {
					break
				}
				if sv != nil && sv != other {
					// two different expressions: accepted when they have the same polynomial
					if !z.Of(sv).equal(z.Of(other)) {
						okS = false
						break
					}
				}
				sv = other
			}
			if okS && sv != nil {
				if lf.SymSteps == nil {
					lf.SymSteps = map[*ssa.Phi]ssa.Value{}
				}
				lf.SymSteps[phi] = sv
				lf.Init[phi] = init
			}
		}
	}
	lf.save = z.env
	env := map[ssa.Value]Poly{}
	for k, v := range z.env {
		env[k] = v
	}
	// inits are evaluated outside the loop environment
	for phi, step := range lf.IVs {
		env[phi] = z.Of(lf.Init[phi]).add(polyAtom(loopT).mul(polyConst(step)), 1)
	}
	for phi, sv := range lf.SymSteps {
		sp := z.Of(sv)
		if _, c, ok := splitT(sp); !ok || len(c) != 0 {
			continue
		}
		env[phi] = z.Of(lf.Init[phi]).add(polyAtom(loopT).mul(sp), 1)
	}
	z.env = env
	// exit test: the test of the induction variables that leaves the loop. It is
	// usually the header's If; with a compound condition (err == nil && i < n)
	// it can be a later block. Other exits (an error return, a break) do not
	// involve T and only make the loop end earlier.
	var tests []int
	for blk := range body {
		ifi, ok := blk.Instrs[len(blk.Instrs)-1].(*ssa.If)
		if !ok || len(blk.Succs) != 2 {
			continue
		}
		stayK := -1
		if body[blk.Succs[0]] && !body[blk.Succs[1]] {
			stayK = 0
		} else if body[blk.Succs[1]] && !body[blk.Succs[0]] {
			stayK = 1
		}
		if stayK < 0 {
			continue
		}
		f, ok := condFact(ifi.Cond, stayK == 0)
		if !ok || f.Y == nil || !isIntegral(f.X.Type()) {
			continue
		}
		l, r := z.Of(f.X), z.Of(f.Y)
		var d Poly
		switch f.Op {
		case token.LSS:
			d = r.add(l, -1)
		case token.GTR:
			d = l.add(r, -1)
		case token.LEQ:
			d = r.add(l, -1).add(polyConst(1), 1)
		case token.GEQ:
			d = l.add(r, -1).add(polyConst(1), 1)
		case token.NEQ:
			d = r.add(l, -1)
			if _, c, ok := splitT(d); ok {
				if k, isC := c.isConst(); isC && k == 1 {
					d = l.add(r, -1)
				}
			}
		}
		if d == nil {
			continue
		}
		d0, c, ok := splitT(d)
		if !ok {
			continue
		}
		k, isC := c.isConst()
		if !isC && len(c) > 0 {
			// a test of a variable with a symbolic stride: the exit, but no trip count
			tests = append(tests, g.Idx[ifi], -1)
			lf.Exit = g.Idx[ifi]
			continue
		}
		if !isC || k == 0 {
			continue // not a test of the induction variables
		}
		// A rotated loop (`for i := range n`, do-while): the test sits at the end
		// of the body and decides about iteration T+1. With an entry guard that is
		// the same test for T = -1 it is a header test shifted by one iteration.
		if blk.Succs[stayK] == h && blk != h {
			guarded := false
			want := d0.add(polyConst(k), -1)
			for i, p := range h.Preds {
				_ = i
				if body[p] {
					continue
				}
				gi, ok := p.Instrs[len(p.Instrs)-1].(*ssa.If)
				if !ok || len(p.Succs) != 2 || p.Succs[0] == p.Succs[1] {
					// no test: fine when the guard is a constant that holds (0 < 4 is
					// folded away by the compiler)
					if wk, isK := want.isConst(); isK && wk > 0 {
						guarded = true
						continue
					}
					guarded = false
					break
				}
				gf, ok := condFact(gi.Cond, p.Succs[0] == h)
				if !ok || gf.Y == nil {
					guarded = false
					break
				}
				save := z.env
				z.env = lf.save
				gd := diffOfFact(z, gf)
				z.env = save
				if os.Getenv("FFC_DBG_LOOP") != "" {
					fmt.Fprintf(os.Stderr, "LOOP rotated guard gd=%v want=%v fact %v %v %v\n", gd, want, gf.X, gf.Op, gf.Y)
				}
				if gd != nil && gd.equal(want) {
					guarded = true
				} else {
					guarded = false
					break
				}
			}
			if !guarded {
				tests = append(tests, g.Idx[ifi], -1) // the body runs at least once: no closed form
				lf.Exit = g.Idx[ifi]
				continue
			}
			d0 = want
		}
		tests = append(tests, g.Idx[ifi])
		switch {
		case k == -1:
			lf.Trips, lf.TripsOK = d0, true
		case k < 0 && f.Op != token.NEQ:
			// stay while d0 - s*T > 0: ceil(d0/s) iterations
			step := -k
			divisible := len(d0) > 0
			q := Poly{}
			for mono, cf := range d0 {
				if cf%step != 0 {
					divisible = false
				}
				q[mono] = cf / step
			}
			if divisible {
				lf.Trips, lf.TripsOK = q, true // d0 is a multiple of the step
			} else if sh, ok := log2(uint64(step)); ok {
				lf.Trips, lf.TripsOK = pCdiv(sh, d0), true
			}
		}
		lf.Exit = g.Idx[ifi]
	}
	// a shifted mask that is tested against zero: K, K>>s, K>>2s, ... leaves the
	// loop when no bit is left (for mask := 1<<63; mask > 0; mask >>= 1)
	for blk := range body {
		ifi, ok := blk.Instrs[len(blk.Instrs)-1].(*ssa.If)
		if !ok || len(blk.Succs) != 2 || body[blk.Succs[0]] == body[blk.Succs[1]] {
			continue
		}
		f, ok := condFact(ifi.Cond, body[blk.Succs[0]])
		if !ok {
			continue
		}
		var sv ssa.Value
		switch {
		case f.Y == nil && f.Op == token.NEQ:
			sv = f.X
		case f.Y != nil && (f.Op == token.NEQ || f.Op == token.GTR):
			if k, isK := constUint64(f.Y); isK && k == 0 && isUnsignedInt(f.X.Type()) {
				sv = f.X
			}
		}
		if sv == nil {
			continue
		}
		if n, ok := shiftTrips(lf, sv); ok {
			tests = append(tests, g.Idx[ifi])
			lf.Trips, lf.TripsOK = polyConst(n), true
			lf.Exit = g.Idx[ifi]
		}
	}
	if len(tests) != 1 {
		lf.TripsOK = false // no test, or several tests of the induction variables
	}
	// T now counts this loop's iterations
	lf.saveTMax, lf.saveTSet, lf.setTMax = z.tMax, z.tMaxSet, true
	z.tMax, z.tMaxSet = 0, false
	if n, isC := lf.Trips.isConst(); lf.TripsOK && isC && n > 0 {
		z.tMax, z.tMaxSet = n-1, true
	}
	return lf, true
}

// shiftTrips: v is a header phi that starts at a constant and is shifted by a
// constant in every iteration; the number of iterations after which it is zero.
func shiftTrips(lf *LoopForm, v ssa.Value) (int64, bool) {
	phi, ok := stripConv(v).(*ssa.Phi)
	if !ok || phi.Block() != lf.Header || !isUnsignedInt(phi.Type()) {
		return 0, false
	}
	w := intWidth(phi.Type())
	if w <= 0 {
		return 0, false
	}
	var init uint64
	haveInit := false
	var op token.Token
	var sh uint64
	for i, e := range phi.Edges {
		if !lf.Body[lf.Header.Preds[i]] {
			k, ok := constUint64(e)
			if !ok || haveInit {
				return 0, false
			}
			init, haveInit = k, true
			continue
		}
		b, ok := stripConv(e).(*ssa.BinOp)
		if !ok || stripConv(b.X) != ssa.Value(phi) || (b.Op != token.SHR && b.Op != token.SHL) {
			return 0, false
		}
		k, ok := constUint64(b.Y)
		if !ok || k == 0 || (op != 0 && (op != b.Op || sh != k)) {
			return 0, false
		}
		op, sh = b.Op, k
	}
	if !haveInit || op == 0 {
		return 0, false
	}
	mask := ^uint64(0)
	if w < 64 {
		mask = 1<<uint(w) - 1
	}
	cur := init & mask
	n := int64(0)
	for cur != 0 && n <= 64 {
		if op == token.SHR {
			cur >>= sh
		} else {
			cur = (cur << sh) & mask
		}
		n++
	}
	return n, cur == 0
}

func isUnsignedInt(t types.Type) bool {
	b, ok := t.Underlying().(*types.Basic)
	return ok && b.Info()&types.IsUnsigned != 0
}

// Done restores the polyizer's environment.
func (lf *LoopForm) Done() {
	lf.z.env = lf.save
	if lf.setTMax {
		lf.z.tMax, lf.z.tMaxSet = lf.saveTMax, lf.saveTSet
	}
}

// stepOf: e is phi + c or phi - c (through integer conversions).
func stepOf(e ssa.Value, phi *ssa.Phi) (int64, bool) {
	b, ok := stripConv(e).(*ssa.BinOp)
	if !ok {
		return 0, false
	}
	switch b.Op {
	case token.ADD:
		if stripConv(b.X) == ssa.Value(phi) {
			if k, ok := constInt64(b.Y); ok {
				return k, true
			}
		}
		if stripConv(b.Y) == ssa.Value(phi) {
			if k, ok := constInt64(b.X); ok {
				return k, true
			}
		}
	case token.SUB:
		if stripConv(b.X) == ssa.Value(phi) {
			if k, ok := constInt64(b.Y); ok {
				return -k, true
			}
		}
	}
	return 0, false
}

// splitT writes p as p0 + c·T; ok is false if T occurs in a product with
// itself (p is not affine in T).
func splitT(p Poly) (p0, c Poly, ok bool) {
	p0, c = Poly{}, Poly{}
	for mono, k := range p {
		parts := strings.Split(mono, "×")
		nT := 0
		var rest []string
		for _, a := range parts {
			if a == loopT {
				nT++
			} else {
				rest = append(rest, a)
			}
		}
		switch nT {
		case 0:
			p0[mono] = k
		case 1:
			c[strings.Join(rest, "×")] += k
		default:
			return nil, nil, false
		}
	}
	for m, k := range c {
		if k == 0 {
			delete(c, m)
		}
	}
	return p0, c, true
}

// affineInT evaluates v in the loop's induction form and splits it into its
// value in the first iteration and its increment per iteration.
func (lf *LoopForm) affineInT(v ssa.Value) (first, perIter Poly, ok bool) {
	return splitT(lf.z.Of(v))
}

// tripValues lists the SSA values (operands of the exit test, initial values
// of the induction variables) whose value is the trip count.
func (lf *LoopForm) tripValues(g *IG) []ssa.Value {
	if !lf.TripsOK {
		return nil
	}
	var cands []ssa.Value
	if lf.Exit >= 0 {
		if f, ok := condFact(g.Cond(lf.Exit), true); ok && f.Y != nil {
			cands = append(cands, f.X, f.Y)
		}
	}
	for _, init := range lf.Init {
		cands = append(cands, init)
	}
	// (also the terms of a sum: the bound start+count contains the count)
	var terms func(v ssa.Value, depth int)
	terms = func(v ssa.Value, depth int) {
		if b, ok := stripConv(v).(*ssa.BinOp); ok && depth < 3 && (b.Op == token.ADD || b.Op == token.SUB) {
			cands = append(cands, b.X, b.Y)
			terms(b.X, depth+1)
			terms(b.Y, depth+1)
		}
	}
	for _, v := range append([]ssa.Value(nil), cands...) {
		terms(v, 0)
	}
	env := lf.z.env
	lf.z.env = lf.save
	var out []ssa.Value
	seen := map[ssa.Value]bool{}
	for _, v := range cands {
		if !seen[v] && lf.z.Of(v).equal(lf.Trips) {
			seen[v] = true
			out = append(out, v)
		}
	}
	lf.z.env = env
	return out
}

// exitOperands lists the two operands of the loop's exit test.
func (lf *LoopForm) exitOperands(g *IG) []ssa.Value {
	if lf.Exit < 0 {
		return nil
	}
	if f, ok := condFact(g.Cond(lf.Exit), true); ok && f.Y != nil {
		return []ssa.Value{f.X, f.Y}
	}
	return nil
}

// sliceElem resolves the element x[idx] through re-slicings to an element of the
// underlying slice: s[lo:][i] is s[lo+i], and a slice variable that a loop
// advances by a constant (for c := s[a:]; ...; c = c[k:]) is s[a+k*T:] in
// iteration T of that loop (lf may be nil outside loops).
func sliceElem(z *Polyizer, lf *LoopForm, x ssa.Value, idx Poly) (ssa.Value, Poly) {
	for depth := 0; depth < 8; depth++ {
		switch s := x.(type) {
		case *ssa.Slice:
			if _, isSlice := s.X.Type().Underlying().(*types.Slice); !isSlice {
				return x, idx
			}
			if s.Low != nil {
				idx = idx.add(z.Of(s.Low), 1)
			}
			x = s.X
			continue
		case *ssa.Phi:
			if lf == nil || s.Block() != lf.Header {
				return x, idx
			}
			var init ssa.Value
			step, okIV, nInit := int64(-1), true, 0
			for i, e := range s.Edges {
				if !lf.Body[lf.Header.Preds[i]] {
					init = e
					nInit++
					continue
				}
				sl, ok := e.(*ssa.Slice)
				if !ok || sl.X != ssa.Value(s) || sl.Low == nil {
					okIV = false
					break
				}
				k, ok := constInt64(sl.Low)
				if !ok || k < 0 || (step >= 0 && step != k) {
					okIV = false
					break
				}
				step = k
			}
			if !okIV || nInit != 1 || step < 0 {
				return x, idx
			}
			idx = idx.add(polyAtom(loopT).mul(polyConst(step)), 1)
			x = init
			continue
		}
		return x, idx
	}
	return x, idx
}

// deadBackPreds: the back edges of the loop with header h on which the loop is
// left at once: the header tests a flag (a boolean phi of the header, possibly
// negated) whose operand on that edge is a constant that selects the exit
// (found = true; done = true). What other variables carry on such an edge does
// not take part in the iteration.
func deadBackPreds(h *ssa.BasicBlock, body map[*ssa.BasicBlock]bool) map[int]bool {
	dead := map[int]bool{}
	if len(h.Instrs) == 0 || len(h.Succs) != 2 {
		return dead
	}
	ifi, ok := h.Instrs[len(h.Instrs)-1].(*ssa.If)
	if !ok {
		return dead
	}
	cond := ifi.Cond
	neg := false
	for {
		u, ok := cond.(*ssa.UnOp)
		if !ok || u.Op != token.NOT {
			break
		}
		cond, neg = u.X, !neg
	}
	phi, ok := cond.(*ssa.Phi)
	if !ok || phi.Block() != h {
		deadByNilTests(h, body, dead)
		return dead
	}
	defer deadByNilTests(h, body, dead)
	for i, e := range phi.Edges {
		if !body[h.Preds[i]] {
			continue
		}
		b, isC := constBool(e)
		if !isC {
			continue
		}
		if neg {
			b = !b
		}
		target := h.Succs[1]
		if b {
			target = h.Succs[0]
		}
		if !body[target] {
			dead[i] = true
		}
	}
	return dead
}

// otherExits lists the edges that leave the loop other than through its
// counting test (a break, a return or a jump out of the body).
func (lf *LoopForm) otherExits(g *IG) []*ssa.BasicBlock {
	var out []*ssa.BasicBlock
	for blk := range lf.Body {
		isExitTest := lf.Exit >= 0 && g.Ins[lf.Exit].Block() == blk
		for _, sb := range blk.Succs {
			if !lf.Body[sb] && !isExitTest {
				out = append(out, blk)
			}
		}
		if len(blk.Succs) == 0 {
			out = append(out, blk) // (a return or panic inside the body)
		}
	}
	return out
}

// diffOfFact: the quantity that is positive exactly when the comparison holds
// (for integers): y - x for x < y, y - x + 1 for x <= y, and so on; nil for
// other comparisons.
func diffOfFact(z *Polyizer, f Fact) Poly {
	if f.Y == nil || !isIntegral(f.X.Type()) {
		return nil
	}
	l, r := z.Of(f.X), z.Of(f.Y)
	switch f.Op {
	case token.LSS:
		return r.add(l, -1)
	case token.GTR:
		return l.add(r, -1)
	case token.LEQ:
		return r.add(l, -1).add(polyConst(1), 1)
	case token.GEQ:
		return l.add(r, -1).add(polyConst(1), 1)
	case token.NEQ:
		// an unsigned value != 0 is > 0 (the normal form of 0 < x and x >= 1)
		if isZeroConst(f.Y) && isUnsignedInt(f.X.Type()) {
			return l
		}
		if isZeroConst(f.X) && isUnsignedInt(f.Y.Type()) {
			return r
		}
	}
	return nil
}

// deadByNilTests: the loop condition also requires a merged pointer of the
// header to be nil (for ...; i < n && err == nil; ...), and on a back edge the
// operand is known not to be nil because that edge is the non-nil side of a test
// of it (if err = f(); err == nil { i++ }): the loop is left at once on it.
func deadByNilTests(h *ssa.BasicBlock, body map[*ssa.BasicBlock]bool, dead map[int]bool) {
	// the chain of condition blocks: h, then the staying successor while it has
	// nothing but the next test
	blk := h
	for depth := 0; depth < 4 && blk != nil; depth++ {
		ifi, ok := blk.Instrs[len(blk.Instrs)-1].(*ssa.If)
		if !ok || len(blk.Succs) != 2 {
			return
		}
		stayK := -1
		if body[blk.Succs[0]] && !body[blk.Succs[1]] {
			stayK = 0
		} else if body[blk.Succs[1]] && !body[blk.Succs[0]] {
			stayK = 1
		}
		if stayK < 0 {
			return
		}
		if f, ok := condFact(ifi.Cond, stayK == 0); ok && f.Y != nil && isNilConst(f.Y) && (f.Op == token.EQL || f.Op == token.NEQ) {
			if phi, isPhi := f.X.(*ssa.Phi); isPhi && phi.Block() == h {
				for i, o := range phi.Edges {
					p := h.Preds[i]
					if !body[p] || dead[i] {
						continue
					}
					// what the edge p -> h says about o
					var known token.Token
					if isNilConst(o) {
						known = token.EQL
					} else if pi, ok := p.Instrs[len(p.Instrs)-1].(*ssa.If); ok && len(p.Succs) == 2 && p.Succs[0] != p.Succs[1] {
						if pf, ok := condFact(pi.Cond, p.Succs[0] == h); ok && pf.X == o && pf.Y != nil && isNilConst(pf.Y) {
							known = pf.Op
						}
					}
					if known != 0 && known != f.Op {
						dead[i] = true
					}
				}
			}
		}
		// next condition block
		next := blk.Succs[stayK]
		if len(next.Preds) != 1 {
			return
		}
		pure := true
		for _, in := range next.Instrs[:len(next.Instrs)-1] {
			switch in.(type) {
			case *ssa.BinOp, *ssa.UnOp, *ssa.Convert, *ssa.ChangeType, *ssa.DebugRef, *ssa.FieldAddr, *ssa.IndexAddr, *ssa.Phi:
			default:
				if c, ok := in.(*ssa.Call); ok {
					if _, isB := c.Common().Value.(*ssa.Builtin); isB {
						continue
					}
				}
				pure = false
			}
		}
		if !pure {
			return
		}
		blk = next
	}
}
