// fireflycheck decides structural clauses of the firefly properties C01..C20
// by static analysis of /repo's current working tree. See /verif/DESIGN.md.
package main

import (
	"encoding/json"
	"flag"
	"fmt"
	"golang.org/x/tools/go/ssa"
	"os"
	"os/exec"
	"path/filepath"
	"runtime/debug"
	"sort"
	"strings"
	"sync"
	"time"
)

// Property describes one property's rule set.
type Property struct {
	ID          string
	NeedKernel  bool
	NeedKbuild  bool
	Run         func(c *Ctx)
	Explanation string
	EnumRule    string
	Assumptions []string
	Controls    []Control
}

// Import names rules of another property that are necessary conditions of this
// one as well.
type Import struct {
	From  string
	Rules []string
	// Keys, when set, narrows the import to obligations whose key starts with
	// one of these words (a rule id may cover clauses the importing property
	// does not rest on)
	Keys []string
	Why  string
}

// Control is a positive control: a seeded variant of one source file (analysed
// through an in-memory overlay, never written into /repo, never executed) that
// must make the named rule report a violation.
type Control struct {
	Name   string
	File   string // relative to the repository root
	Old    string // must occur exactly once in the file, else the control is skipped
	New    string
	Expect string // rule id expected to report (prefix match on "rule key")
	// an optional second edit of the same file (both must apply)
	Old2, New2 string
}

var registry = map[string]*Property{}

func register(p *Property) { registry[p.ID] = p }

func main() {
	prop := flag.String("property", "", "property id (C01..C20)")
	tier := flag.String("tier", "", "quick or thorough (default: $VERIF_TIER or quick)")
	only := flag.String("only", "", "print only obligations of this rule (replay aid)")
	overlay := flag.String("overlay", "", "control mode: <abs file>=<replacement file>")
	control := flag.Bool("control", false, "control mode: print non-ok obligations as JSON, write nothing")
	list := flag.Bool("list", false, "list properties")
	dump := flag.String("dump", "", "debug: dump the SSA of functions whose name contains this string (kernel module)")
	flag.Parse()
	if *dump != "" {
		mod := "kernel"
		if strings.HasPrefix(*dump, "kbuild:") {
			mod = "kbuild"
			*dump = strings.TrimPrefix(*dump, "kbuild:")
		}
		m, err := loadModule(mod, 1, nil)
		if err != nil {
			fmt.Fprintln(os.Stderr, err)
			os.Exit(2)
		}
		for _, fn := range m.Funcs {
			if strings.Contains(m.fnName(fn), *dump) {
				if os.Getenv("FFC_POLY") == "" {
					fn.WriteTo(os.Stdout)
					continue
				}
				z := &Polyizer{Inline: true}
				fmt.Println("==", m.fnName(fn))
				for _, b := range fn.Blocks {
					for _, in := range b.Instrs {
						switch x := in.(type) {
						case *ssa.Store:
							if isIntegral(x.Val.Type()) {
								fmt.Printf("  store %s := %s\n", pathString(accessPath(x.Addr)), z.Of(x.Val))
							}
						case *ssa.If:
							if f, ok := condFact(x.Cond, true); ok && f.Y != nil && isIntegral(f.X.Type()) {
								fmt.Printf("  if %s %s %s\n", z.Of(f.X), f.Op, z.Of(f.Y))
							}
						case *ssa.Return:
							for _, r := range x.Results {
								if isIntegral(r.Type()) {
									fmt.Printf("  return %s\n", z.Of(r))
								}
							}
						}
					}
				}
			}
		}
		return
	}
	if *list {
		ids := []string{}
		for id := range registry {
			ids = append(ids, id)
		}
		sort.Strings(ids)
		for _, id := range ids {
			fmt.Println(id)
		}
		return
	}
	if *tier == "" {
		*tier = os.Getenv("VERIF_TIER")
	}
	if *tier != "thorough" {
		*tier = "quick"
	}
	p := registry[*prop]
	if p == nil {
		fmt.Fprintf(os.Stderr, "fireflycheck: unknown property %q\n", *prop)
		os.Exit(2)
	}
	os.Exit(runProperty(p, *tier, *only, *overlay, *control))
}

func runProperty(p *Property, tier, only, overlaySpec string, controlMode bool) (code int) {
	start := time.Now()
	defer func() {
		if r := recover(); r != nil {
			fmt.Fprintf(os.Stderr, "fireflycheck: internal error analysing %s: %v\n%s\n", p.ID, r, debug.Stack())
			code = 2
		}
	}()
	var ov map[string][]byte
	if overlaySpec != "" {
		parts := strings.SplitN(overlaySpec, "=", 2)
		data, err := os.ReadFile(parts[1])
		if err != nil {
			fmt.Fprintln(os.Stderr, "fireflycheck:", err)
			return 2
		}
		ov = map[string][]byte{parts[0]: data}
	}
	c, code := analyse(p, tier, ov, overlaySpec, controlMode)
	if c == nil {
		return code
	}
	for _, im := range importTable[p.ID] {
		q := registry[im.From]
		if q == nil {
			fmt.Fprintf(os.Stderr, "fireflycheck: internal error: %s imports from unknown property %s\n", p.ID, im.From)
			return 2
		}
		ci, code := analyse(q, tier, ov, overlaySpec, controlMode)
		if ci == nil {
			return code
		}
		want := map[string]bool{}
		for _, r := range im.Rules {
			want[r] = true
			// an imported rule that produced nothing was not evaluated (an anchor of
			// the other property no longer resolves): fail closed
			c.floors[r] = 1
			if n := ci.floors[r]; n > 1 && len(im.Keys) == 0 {
				c.floors[r] = n
			}
		}
		for _, o := range ci.Obls {
			if want[o.Rule] && im.wantsKey(o.Key) {
				c.Obls = append(c.Obls, o)
				c.counts[o.Rule]++
			}
		}
		c.Evals += ci.Evals
		c.note("rule(s) %s of %s are evaluated here as well (separate complete analysis): %s", strings.Join(im.Rules, ", "), im.From, im.Why)
	}
	for _, a := range p.Assumptions {
		c.assume(a)
	}
	if controlMode {
		var bad []*Obligation
		for _, o := range c.Obls {
			if o.Status != "ok" && o.Status != "not-implemented" {
				bad = append(bad, o)
			}
		}
		for r, n := range c.floors {
			if c.counts[r] < n {
				bad = append(bad, &Obligation{Rule: r, Key: "vacuity-floor", Status: "violation"})
			}
		}
		json.NewEncoder(os.Stdout).Encode(map[string]interface{}{"loaded": true, "bad": bad})
		return 0
	}
	if only != "" {
		for _, o := range c.Obls {
			if o.Rule == only {
				fmt.Printf("%s %s [%s] %s: %s\n", o.Rule, o.Key, o.Status, strings.Join(o.Where, " "), o.Detail)
			}
		}
	}
	var controls map[string]interface{}
	if tier == "thorough" {
		controls = runControls(p)
	}
	return c.finish(start, p.Explanation, p.EnumRule, controls)
}

func (im Import) wantsKey(key string) bool {
	if len(im.Keys) == 0 {
		return true
	}
	for _, k := range im.Keys {
		if key == k || strings.HasPrefix(key, k+" ") {
			return true
		}
	}
	return false
}

// analyse loads the tree (with the overlay, if any), normalises it for the
// property's anchors and runs the property's rules. A nil context means that
// no verdict can be given; the exit code is returned with it.
func analyse(p *Property, tier string, ov map[string][]byte, overlaySpec string, controlMode bool) (*Ctx, int) {
	c := &Ctx{Prop: p.ID, Tier: tier, floors: map[string]int{}, counts: map[string]int{}}
	if overlaySpec != "" {
		parts := strings.SplitN(overlaySpec, "=", 2)
		c.OverlayFiles = map[string]string{parts[0]: parts[1]}
	}
	load := func(o map[string][]byte) error {
		var err error
		if os.Getenv("FFC_DEBUG_INL") != "" {
			t0 := time.Now()
			defer func() { fmt.Fprintf(os.Stderr, "load: %d overlay file(s), %v\n", len(o), time.Since(t0)) }()
		}
		c.K, c.B = nil, nil
		if p.NeedKernel {
			if c.K, err = loadModule("kernel", 15, o); err != nil {
				return err
			}
		}
		if p.NeedKbuild {
			if c.B, err = loadModule("kbuild", 2, o); err != nil {
				return err
			}
		}
		return nil
	}
	if err := load(ov); err != nil {
		return nil, loadFailure(c, p, controlMode, err)
	}
	// Dry passes: run the rules, discarding their verdicts, only to learn which
	// functions they anchor at. Then bring private helpers into single-call-site
	// form (dup.go, on the analysed text only) and splice every private
	// single-call-site function into its caller (inl.go). The deciding pass
	// runs last.
	if os.Getenv("FFC_NOINLINE") == "" {
		dryRun := func() {
			defer func() { recover() }()
			dry := &Ctx{Prop: p.ID, Tier: tier, K: c.K, B: c.B, OverlayFiles: c.OverlayFiles, floors: map[string]int{}, counts: map[string]int{}}
			p.Run(dry)
		}
		dryRun()
		merged := map[string][]byte{}
		for k, v := range ov {
			merged[k] = v
		}
		n := 0
		anchorNames := map[string]bool{}
		for _, m := range []*Module{c.K, c.B} {
			if m != nil {
				o, k := planDuplication(m, ov)
				n += k
				for f, b := range o {
					merged[f] = b
				}
				for fn := range m.anchors {
					anchorNames[fn.String()] = true
				}
			}
		}
		if n > 0 {
			if err := load(merged); err != nil {
				// the rewritten text must load whenever the original does
				fmt.Fprintf(os.Stderr, "fireflycheck: internal error: helper duplication produced text that does not load: %v\n", err)
				return nil, 2
			}
			// the anchors of the first load, by name (copies have new names)
			for _, m := range []*Module{c.K, c.B} {
				if m != nil {
					for _, fn := range m.Funcs {
						if anchorNames[fn.String()] {
							m.anchor(fn)
						}
					}
				}
			}
		}
		for _, m := range []*Module{c.K, c.B} {
			if m != nil {
				m.enableInlining()
			}
		}
	}
	p.Run(c)
	return c, 0
}

func loadFailure(c *Ctx, p *Property, controlMode bool, err error) int {
	if controlMode {
		json.NewEncoder(os.Stdout).Encode(map[string]interface{}{"loaded": false, "error": err.Error()})
		return 0
	}
	// The tree does not load / type-check: no verdict can be given.
	fmt.Fprintln(os.Stderr, "fireflycheck:", err)
	return 2
}

// runControls analyses each seeded variant in a sub-process (at most 4 at a
// time) and records whether the expected rule fired.
func runControls(p *Property) map[string]interface{} {
	type result struct {
		Name, Status, Expect, Detail string
	}
	// the property's own controls, and those of the rules it imports
	ctls := append([]Control{}, p.Controls...)
	for _, im := range importTable[p.ID] {
		for _, ctl := range registry[im.From].Controls {
			for _, r := range im.Rules {
				if strings.HasPrefix(ctl.Expect, r) && (len(ctl.Expect) == len(r) || ctl.Expect[len(r)] == ' ') && len(im.Keys) == 0 {
					ctls = append(ctls, ctl)
				}
			}
		}
	}
	results := make([]result, len(ctls))
	self, _ := os.Executable()
	tmp, err := os.MkdirTemp("", "ffc-controls-")
	if err != nil {
		return map[string]interface{}{"error": err.Error()}
	}
	defer os.RemoveAll(tmp)
	sem := make(chan struct{}, 4)
	var wg sync.WaitGroup
	for i, ctl := range ctls {
		i, ctl := i, ctl
		results[i] = result{Name: ctl.Name, Expect: ctl.Expect}
		abs := filepath.Join(repoRoot(), ctl.File)
		data, err := os.ReadFile(abs)
		if err != nil || strings.Count(string(data), ctl.Old) != 1 {
			results[i].Status = "skipped"
			results[i].Detail = "edit site not found exactly once in the current tree"
			continue
		}
		variant := strings.Replace(string(data), ctl.Old, ctl.New, 1)
		if ctl.Old2 != "" {
			if strings.Count(variant, ctl.Old2) != 1 {
				results[i].Status = "skipped"
				results[i].Detail = "second edit site not found exactly once in the current tree"
				continue
			}
			variant = strings.Replace(variant, ctl.Old2, ctl.New2, 1)
		}
		vf := filepath.Join(tmp, fmt.Sprintf("v%d.go", i))
		if strings.HasSuffix(ctl.File, ".s") {
			vf = filepath.Join(tmp, fmt.Sprintf("v%d.s", i))
		}
		os.WriteFile(vf, []byte(variant), 0o644)
		wg.Add(1)
		go func() {
			defer wg.Done()
			sem <- struct{}{}
			defer func() { <-sem }()
			cmd := exec.Command(self, "-property", p.ID, "-control", "-overlay", abs+"="+vf)
			cmd.Env = os.Environ()
			out, err := cmd.Output()
			if err != nil {
				results[i].Status = "error"
				results[i].Detail = err.Error()
				return
			}
			var r struct {
				Loaded bool
				Error  string
				Bad    []*Obligation
			}
			if err := json.Unmarshal(out, &r); err != nil {
				results[i].Status = "error"
				results[i].Detail = "bad control output"
				return
			}
			if !r.Loaded {
				results[i].Status = "skipped"
				results[i].Detail = "variant does not type-check: " + firstLine(r.Error)
				return
			}
			for _, o := range r.Bad {
				if strings.HasPrefix(o.Rule+" "+o.Key, ctl.Expect) {
					results[i].Status = "fired"
					results[i].Detail = o.Rule + " " + o.Key + " [" + o.Status + "]"
					return
				}
			}
			results[i].Status = "MISSED"
			names := []string{}
			for _, o := range r.Bad {
				names = append(names, o.Rule+" "+o.Key)
			}
			results[i].Detail = "expected rule did not report; reported: " + strings.Join(names, "; ")
		}()
	}
	wg.Wait()
	fired, skipped, missed := 0, 0, 0
	list := []interface{}{}
	for _, r := range results {
		switch r.Status {
		case "fired":
			fired++
		case "skipped":
			skipped++
		default:
			missed++
			fmt.Printf("CONTROL-%s: %s (expected %s): %s\n", strings.ToUpper(r.Status), r.Name, r.Expect, r.Detail)
		}
		list = append(list, map[string]string{"name": r.Name, "status": r.Status, "expect": r.Expect, "detail": r.Detail})
	}
	fmt.Printf("positive controls: %d tried, %d fired, %d skipped, %d missed\n", len(results), fired, skipped, missed)
	return map[string]interface{}{"tried": len(results), "fired": fired, "skipped": skipped, "missed": missed, "variants": list}
}

func firstLine(s string) string {
	if i := strings.Index(s, "\n"); i >= 0 {
		// keep the second line too: the first one is the count
		rest := s[i+1:]
		if j := strings.Index(rest, "\n"); j >= 0 {
			rest = rest[:j]
		}
		return strings.TrimSpace(s[:i]) + " " + strings.TrimSpace(rest)
	}
	return s
}
