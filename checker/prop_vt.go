package main

import (
	"fmt"
	"go/token"
	"go/types"
	"sort"
	"strings"

	"golang.org/x/tools/go/ssa"
)

func init() {
	register(&Property{
		ID:         "C17",
		NeedKernel: true,
		Run:        runC17,
		Explanation: "Terminal emulator structure decided on SSA: (R1) WriteByte dispatches exactly on {CR, LF, BS, TAB} with the documented action on each " +
			"edge (cr; lf(true); on cursorX > 1 SetCursorPosition(cursorX-1, cursorY) then doWrite(' ', false); tabWidth times doWrite(' ', true); default " +
			"doWrite(b, true)); (R2) every store to cursorX/cursorY in package tty is one of: constant 1, a viewport dimension, an argument on the side " +
			"where both range tests failed, cursorY+1 under cursorY+1 <= viewportHeight, or cursorX+1 followed on every path by the > viewportWidth test " +
			"whose true side line-feeds with carriage return; (R3) every store to cursorX, cursorY or viewportY is followed on every path to the function " +
			"exit by updateDataOffset (directly or through a callee that always calls it) or is the paired incremental update dataOffset += 3; " +
			"updateDataOffset computes (viewportY + cursorY - 1) * viewportWidth * 3 + (cursorX - 1) * 3; (R4) when the scrollback is used up lf moves exactly the viewport's lines " +
			"[viewportY, viewportY+viewportHeight-1) up by one line (byte loop or copy idiom) and blanks exactly the viewportWidth cells of the last line. Decides these clauses, not equality with a reference terminal.",
		EnumRule: "obligations per rule and construct (function + store / case)",
		Assumptions: []string{
			"stores into a VT freshly allocated in the same function (constructor) are exempt by role",
			"named exception: (*VT).AttachTo resets the cursor to (1,1) and viewportY to 0 without recomputing dataOffset (correct for the first attach, whose dataOffset is the zero value; a second attach is outside C17's quantifier)",
			"degenerate geometries (0 columns/rows) are not decided",
		},
		Controls: []Control{
			{Name: "Write ranges over the data as a string", File: "kernel/device/tty/vt.go", Old: "\tfor count, b := range data {\n\t\terr := t.WriteByte(b)\n", New: "\tfor count, r := range string(data) {\n\t\terr := t.WriteByte(byte(r))\n", Expect: "C17.R1"},
			{Name: "tab stops at the right margin", File: "kernel/device/tty/vt.go", Old: "\t\t\tt.doWrite(' ', true)\n\t\t}\n\tdefault:", New: "\t\t\tt.doWrite(' ', true)\n\t\t\tif t.cursorX == 1 {\n\t\t\t\tbreak\n\t\t\t}\n\t\t}\n\tdefault:", Expect: "C17.R1"},
			{Name: "carriage return goes to column two", File: "kernel/device/tty/vt.go", Old: "\tt.cursorX = 1\n\tt.updateDataOffset()\n}", New: "\tt.cursorX = 2\n\tt.updateDataOffset()\n}", Expect: "C17.R1"},
			{Name: "drop updateDataOffset in cr", File: "kernel/device/tty/vt.go", Old: "\tt.cursorX = 1\n\tt.updateDataOffset()\n}", New: "\tt.cursorX = 1\n}", Expect: "C17.R3"},
			{Name: "drop the upper clamp in SetCursorPosition", File: "kernel/device/tty/vt.go", Old: "\t} else if x > t.viewportWidth {\n\t\tx = t.viewportWidth\n\t}", New: "\t}", Expect: "C17.R2"},
			{Name: "backspace in column one", File: "kernel/device/tty/vt.go", Old: "\t\tif t.cursorX > 1 {\n\t\t\tt.SetCursorPosition", New: "\t\tif t.cursorX >= 1 {\n\t\t\tt.SetCursorPosition", Expect: "C17.R1"},
			{Name: "form feed handled as line feed", File: "kernel/device/tty/vt.go", Old: "\tcase '\\n':\n\t\tt.lf(true)", New: "\tcase '\\n', '\\f':\n\t\tt.lf(true)", Expect: "C17.R1"},
			{Name: "line feed without carriage return on wrap", File: "kernel/device/tty/vt.go", Old: "\t\tif t.cursorX > t.viewportWidth {\n\t\t\tt.lf(true)", New: "\t\tif t.cursorX > t.viewportWidth {\n\t\t\tt.lf(false)", Expect: "C17.R2"},
			{Name: "cursorY advanced past the viewport", File: "kernel/device/tty/vt.go", Old: "\tcase t.cursorY+1 <= t.viewportHeight:", New: "\tcase t.cursorY <= t.viewportHeight:", Expect: "C17.R2"},
			{Name: "offset formula ignores viewportY", File: "kernel/device/tty/vt.go", Old: "uint((t.viewportY+(t.cursorY-1))*(t.viewportWidth*3) + ((t.cursorX - 1) * 3))", New: "uint((t.cursorY-1)*(t.viewportWidth*3) + ((t.cursorX - 1) * 3))", Expect: "C17.R3"},
			{Name: "scroll moves the whole buffer", File: "kernel/device/tty/vt.go", Old: "\t\t\tfor offset := startOffset; offset < endOffset; offset++ {", New: "\t\t\tfor offset := startOffset / 2; offset < endOffset; offset++ {", Expect: "C17.R4"},
			{Name: "blanking misses the last cell", File: "kernel/device/tty/vt.go", Old: "for offset := endOffset; offset < endOffset+stride; offset += 3 {", New: "for offset := endOffset; offset < endOffset+stride-3; offset += 3 {", Expect: "C17.R4"},
			{Name: "last line blanked only while the terminal is active", File: "kernel/device/tty/vt.go", Old: "\t\t\tfor offset := endOffset; offset < endOffset+stride; offset += 3 {", New: "\t\t\tif t.state != StateActive {\n\t\t\t\treturn\n\t\t\t}\n\t\t\tfor offset := endOffset; offset < endOffset+stride; offset += 3 {", Expect: "C17.R4 scroll-paired"},
			{Name: "viewport advance without offset refresh", File: "kernel/device/tty/vt.go", Old: "\n\tt.updateDataOffset()\n}\n\n// updateDataOffset", New: "\n\tif withCR {\n\t\tt.updateDataOffset()\n\t}\n}\n\n// updateDataOffset", Expect: "C17.R3"},
		},
	})
	register(&Property{
		ID:         "C18",
		NeedKernel: true,
		Run:        runC18,
		Explanation: "Terminal/console mirroring decided on SSA: (R1) every call of a mutating console.Device method (Write, Fill, Scroll, SetPaletteColor) made by " +
			"package tty goes through VT.cons and is dominated by the equal side of t.state == StateActive; (R2) doWrite mirrors on the active side " +
			"cons.Write(b, curFg, curBg, cursorX, cursorY) with the same three values it stores into data, before any cursor store; in lf every path " +
			"that changes viewportY or the buffer reaches the active test, whose true side calls Scroll(ScrollDirUp, 1) then Fill(1, cursorY, termWidth, " +
			"1, defaultFg, defaultBg); (R3) SetState stores the new state and, on the active-and-attached side, redraws with two nested counted loops " +
			"(y = 1..viewportHeight, x = 1..viewportWidth, step 1) calling cons.Write(data[o], data[o+1], data[o+2], x, y) with o starting at " +
			"(y-1+viewportY)*viewportWidth*3 and advancing by 3 per cell. Decides the call structure, not cell/pixel equality (C19 covers the console side).",
		EnumRule: "obligations per rule and construct (function + call site)",
		Assumptions: []string{
			"loads of the same VT field within one function denote the same value when no store to that field intervenes (single-threaded terminal code)",
		},
		Controls: []Control{
			{Name: "remove the state test in lf", File: "kernel/device/tty/vt.go", Old: "\t\tif t.state == StateActive {\n\t\t\tt.cons.Scroll(", New: "\t\tif t.cons != nil {\n\t\t\tt.cons.Scroll(", Expect: "C18.R1"},
			{Name: "redraw from y = 2", File: "kernel/device/tty/vt.go", Old: "for y := uint32(1); y <= t.viewportHeight; y++ {", New: "for y := uint32(2); y <= t.viewportHeight; y++ {", Expect: "C18.R3"},
			{Name: "mirror with default colours", File: "kernel/device/tty/vt.go", Old: "t.cons.Write(b, t.curFg, t.curBg, t.cursorX, t.cursorY)", New: "t.cons.Write(b, t.defaultFg, t.curBg, t.cursorX, t.cursorY)", Expect: "C18.R2"},
			{Name: "mirror after advancing the cursor", File: "kernel/device/tty/vt.go",
				Old: "\tif t.state == StateActive {\n\t\tt.cons.Write(b, t.curFg, t.curBg, t.cursorX, t.cursorY)\n\t}\n\n\tt.data[t.dataOffset] = b\n\tt.data[t.dataOffset+1] = t.curFg\n\tt.data[t.dataOffset+2] = t.curBg\n\n\tif advanceCursor {",
				New: "\tt.data[t.dataOffset] = b\n\tt.data[t.dataOffset+1] = t.curFg\n\tt.data[t.dataOffset+2] = t.curBg\n\n\tif advanceCursor {\n\t\tif t.state == StateActive {\n\t\t\tt.cons.Write(b, t.curFg, t.curBg, t.cursorX+1, t.cursorY)\n\t\t}", Expect: "C18.R2"},
			{Name: "no Fill after scrolling the console", File: "kernel/device/tty/vt.go", Old: "\t\t\tt.cons.Fill(1, t.cursorY, t.termWidth, 1, t.defaultFg, t.defaultBg)\n", New: "", Expect: "C18.R2"},
			{Name: "scroll down instead of up", File: "kernel/device/tty/vt.go", Old: "t.cons.Scroll(console.ScrollDirUp, 1)", New: "t.cons.Scroll(console.ScrollDirDown, 1)", Expect: "C18.R2"},
			{Name: "redraw ignores viewportY", File: "kernel/device/tty/vt.go", Old: "offset := (y - 1 + t.viewportY) * (t.viewportWidth * 3)", New: "offset := (y - 1) * (t.viewportWidth * 3)", Expect: "C18.R3"},
			{Name: "redraw skips the last column", File: "kernel/device/tty/vt.go", Old: "for x := uint32(1); x <= t.viewportWidth; x, offset = x+1, offset+3 {", New: "for x := uint32(1); x < t.viewportWidth; x, offset = x+1, offset+3 {", Expect: "C18.R3"},
			{Name: "activation without redraw when state unchanged check is inverted", File: "kernel/device/tty/vt.go", Old: "\tif t.state == newState {\n\t\treturn\n\t}\n\n\tt.state = newState\n", New: "\tif t.state != newState {\n\t\treturn\n\t}\n\n\tt.state = newState\n", Expect: "C18.R3"},
		},
	})
}

type vtx struct {
	c *Ctx
	m *Module

	vt                                                           *types.Named
	cons, data, cursorX, cursorY, viewportY, dataOffset, state   *types.Var
	viewportWidth, viewportHeight, termWidth, termHeight         *types.Var
	curFg, curBg, defaultFg, defaultBg, tabWidth                 *types.Var
	writeByte, doWrite, cr, lf, setCursor, update, setState, att *ssa.Function
	stActive                                                     int64
}

func newVTX(c *Ctx, rule string) *vtx {
	m := c.K
	x := &vtx{c: c, m: m}
	const tty = "device/tty"
	x.vt = m.lookupType(tty, "VT")
	fld := func(n string) *types.Var { return m.fieldOf(tty, "VT", n) }
	x.cons, x.data, x.cursorX, x.cursorY, x.viewportY, x.dataOffset, x.state = fld("cons"), fld("data"), fld("cursorX"), fld("cursorY"), fld("viewportY"), fld("dataOffset"), fld("state")
	x.viewportWidth, x.viewportHeight, x.termWidth, x.termHeight = fld("viewportWidth"), fld("viewportHeight"), fld("termWidth"), fld("termHeight")
	x.curFg, x.curBg, x.defaultFg, x.defaultBg, x.tabWidth = fld("curFg"), fld("curBg"), fld("defaultFg"), fld("defaultBg"), fld("tabWidth")
	meth := func(n string) *ssa.Function { return m.lookupMethod(tty, "VT", n) }
	x.writeByte, x.doWrite, x.lf, x.setCursor, x.setState, x.att = meth("WriteByte"), meth("doWrite"), meth("lf"), meth("SetCursorPosition"), meth("SetState"), meth("AttachTo")
	// helpers the property does not name, by role when renamed: the parameterless
	// method that recomputes dataOffset, and the parameterless method that moves
	// the cursor to column one
	x.update = m.methodByRole(tty, "VT", "updateDataOffset", func(fn *ssa.Function) bool {
		return nParams(fn) == 0 && storesField(fn, x.dataOffset) && !storesField(fn, x.cursorX) && !storesField(fn, x.cursorY)
	})
	x.cr = m.methodByRole(tty, "VT", "cr", func(fn *ssa.Function) bool {
		return nParams(fn) == 0 && storesField(fn, x.cursorX) && !storesField(fn, x.cursorY) && !storesField(fn, x.dataOffset)
	})
	sa := m.lookupConst(tty, "StateActive")
	for name, v := range map[string]interface{}{
		"tty.VT": x.vt, "VT.cons": x.cons, "VT.data": x.data, "VT.cursorX": x.cursorX, "VT.cursorY": x.cursorY, "VT.viewportY": x.viewportY,
		"VT.dataOffset": x.dataOffset, "VT.state": x.state, "VT.viewportWidth": x.viewportWidth, "VT.viewportHeight": x.viewportHeight,
		"VT.termWidth": x.termWidth, "VT.termHeight": x.termHeight, "VT.curFg": x.curFg, "VT.curBg": x.curBg, "VT.defaultFg": x.defaultFg,
		"VT.defaultBg": x.defaultBg, "VT.tabWidth": x.tabWidth, "VT.WriteByte": x.writeByte, "VT.doWrite": x.doWrite, "VT.lf": x.lf,
		"VT.SetCursorPosition": x.setCursor, "VT.updateDataOffset": x.update, "VT.SetState": x.setState, "VT.AttachTo": x.att, "tty.StateActive": sa,
	} {
		if isNilIface(v) {
			c.unresolved(rule, name)
			return nil
		}
	}
	x.stActive, _ = constInt64(sa.Value)
	return x
}

func (x *vtx) fld(f *types.Var) func(ssa.Value) bool {
	return func(v ssa.Value) bool { return isLoadOfField(v, f) }
}

// vtAtoms names VT field loads by field name so polynomials are readable and
// position independent.
func (x *vtx) polyizer() *Polyizer {
	return &Polyizer{Atom: func(v ssa.Value) string {
		if _, f, ok := loadedField(v); ok {
			if pt, ok := f.Type().Underlying().(*types.Basic); ok && pt.Info()&types.IsInteger != 0 {
				return "t." + f.Name()
			}
		}
		return ""
	}}
}

func (x *vtx) activeFact(f Fact, want bool) bool {
	op := token.EQL
	if !want {
		op = token.NEQ
	}
	return cmpMatch(f, op, x.fld(x.state), func(v ssa.Value) bool { k, ok := constInt64(v); return ok && k == x.stActive })
}

func (x *vtx) storesOf(g *IG, f *types.Var) []int {
	var out []int
	for n, in := range g.Ins {
		if st, ok := in.(*ssa.Store); ok {
			if lf, rest := lastField(accessPath(st.Addr)); lf == f && rest == "" {
				out = append(out, n)
			}
		}
	}
	return out
}

// freshBase: the store's address is a field of an object allocated in the same function.
func freshBase(st *ssa.Store) bool {
	p := accessPath(st.Addr)
	return len(p) > 0 && p[0].Kind == "alloc"
}

func isRet(g *IG) func(int) bool {
	return func(n int) bool { _, ok := g.Ins[n].(*ssa.Return); return ok }
}

// ======================= C17 =======================

func runC17(c *Ctx) {
	x := newVTX(c, "C17.R1")
	if x == nil {
		return
	}
	x.c17r1()
	x.c17r2()
	x.c17r3()
	c.floor("C17.R4", 3)
	mb, cb, pb := x.scrollArmForms()
	c.check(mb == "", "C17.R4", "scroll-move "+c.K.fnName(x.lf), "the viewport's lines [viewportY, viewportY+viewportHeight-1) move up by exactly one line; the scrollback above them does not move", mb, c.K.pos(x.lf.Pos()))
	c.check(cb == "", "C17.R4", "scroll-clear "+c.K.fnName(x.lf), "exactly the viewportWidth cells of the last viewport line are blanked with (' ', defaultFg, defaultBg)", cb, c.K.pos(x.lf.Pos()))
	c.check(pb == "", "C17.R4", "scroll-paired "+c.K.fnName(x.lf), "the move and the blanking happen on exactly the same paths through lf (whatever the terminal's state)", pb, c.K.pos(x.lf.Pos()))
}

// writeBytes (C17.R1): VT.Write hands every byte of its argument, in order, to
// WriteByte: the call sits in a loop whose iteration T passes data[T], T from 0
// for len(data) iterations (any early exit is an error return), and nothing on
// the way ranges over a string (that would decode the bytes as UTF-8 runes).
func (x *vtx) writeBytes() {
	c, m := x.c, x.m
	wr := m.lookupMethod("device/tty", "VT", "Write")
	if wr == nil {
		c.unresolved("C17.R1", "VT.Write")
		return
	}
	key := "write-bytes " + m.fnName(wr)
	g := newIG(m, wr, nil)
	bad := ""
	where := m.pos(wr.Pos())
	// (in Write and everything of the package it calls)
	seenFn := map[*ssa.Function]bool{}
	work := append([]*ssa.Function(nil), g.Funcs...)
	for len(work) > 0 {
		fn := work[len(work)-1]
		work = work[:len(work)-1]
		if seenFn[fn] {
			continue
		}
		seenFn[fn] = true
		for _, in := range stringRanges(fn) {
			bad = "the byte stream is ranged over as a string (" + m.fnName(fn) + "): bytes >= 0x80 are decoded as UTF-8 runes instead of being written one by one"
			where = m.pos(in.Pos())
		}
		for _, b := range fn.Blocks {
			for _, in := range b.Instrs {
				if cc := callCommon(in); cc != nil {
					if cal := cc.StaticCallee(); cal != nil && cal.Pkg == wr.Pkg && len(cal.Blocks) > 0 {
						work = append(work, cal)
					}
				}
			}
		}
	}
	var dataP *ssa.Parameter
	for _, p := range wr.Params {
		if sl, ok := p.Type().Underlying().(*types.Slice); ok {
			if bt, ok := sl.Elem().Underlying().(*types.Basic); ok && bt.Kind() == types.Uint8 {
				dataP = p
			}
		}
	}
	// the byte sink: WriteByte, or a function that dispatches on the special bytes
	// itself (a helper WriteByte shares with Write)
	isSink := func(fn *ssa.Function) bool {
		if fn == nil {
			return false
		}
		if fn == x.writeByte {
			return true
		}
		var bp *ssa.Parameter
		for _, p := range fn.Params {
			if bt, ok := p.Type().Underlying().(*types.Basic); ok && bt.Kind() == types.Uint8 {
				bp = p
			}
		}
		if bp == nil || len(fn.Blocks) == 0 {
			return false
		}
		gs := scanIG(m, fn, nil)
		seen := map[uint64]bool{}
		for _, k := range comparedConstants(gs, func(v ssa.Value) bool { return stripConv(v) == ssa.Value(bp) }) {
			seen[k] = true
		}
		return seen[8] && seen[9] && seen[10] && seen[13]
	}
	var calls []int
	for n, in := range g.Ins {
		cl, ok := in.(*ssa.Call)
		if !ok {
			continue
		}
		if isSink(m.callee(cl.Common())) {
			calls = append(calls, n)
			continue
		}
		// a helper spliced into Write: its byte parameter is the argument itself
		if m.helperOf(cl) != nil && len(cl.Common().Args) > 0 {
			a := cl.Common().Args[len(cl.Common().Args)-1]
			seen := map[uint64]bool{}
			for _, k := range comparedConstants(g, func(v ssa.Value) bool { return stripConv(v) == stripConv(a) }) {
				seen[k] = true
			}
			if seen[8] && seen[9] && seen[10] && seen[13] {
				calls = append(calls, n)
			}
		}
	}
	switch {
	case bad != "":
	case dataP == nil:
		bad = "VT.Write has no byte-slice parameter"
	case len(calls) != 1:
		bad = fmt.Sprintf("expected one WriteByte call in VT.Write, found %d", len(calls))
	default:
		cn := calls[0]
		args := g.callArgs(cn)
		arg := args[len(args)-1]
		z := &Polyizer{}
		lf, inLoop := g.loopFormAt(z, g.Ins[cn].Block())
		if !inLoop {
			bad = "WriteByte is not called in a loop over the bytes"
			break
		}
		var idx ssa.Value
		if ld, ok := stripConv(arg).(*ssa.UnOp); ok && ld.Op == token.MUL {
			if ia, ok := ld.X.(*ssa.IndexAddr); ok && ia.X == ssa.Value(dataP) {
				idx = ia.Index
			}
		}
		if idx == nil {
			bad = "the byte handed to WriteByte is not an element of the data argument"
			lf.Done()
			break
		}
		first, step, okA := lf.affineInT(idx)
		trips, tok := lf.Trips, lf.TripsOK
		lf.Done()
		f0, c0 := first.isConst()
		s1, c1 := step.isConst()
		lenData := polyAtom("len(" + z.defaultAtom(dataP) + ")")
		switch {
		case !okA || !c0 || f0 != 0 || !c1 || s1 != 1:
			bad = "the bytes are not handed over in order from the first one (index " + z.Of(idx).String() + ")"
		case !tok || !trips.equal(lenData):
			bad = "the loop does not run len(data) times"
		}
	}
	c.check(bad == "", "C17.R1", key, "iteration T hands data[T] to WriteByte, for len(data) iterations; no rune decoding", bad, where)
}

func (x *vtx) c17r1() {
	c, m := x.c, x.m
	c.floor("C17.R1", 5)
	x.writeBytes()
	g := newIG(m, x.writeByte, nil)
	bP := paramNamed(x.writeByte, "b")
	if bP == nil {
		c.unresolved("C17.R1", "WriteByte parameter b")
		return
	}
	cases := map[int64]Edge{}
	var caseEdges []Edge
	for _, f := range g.AllEdgeFacts() {
		if f.Op != token.EQL || f.Y == nil {
			continue
		}
		if f.X == ssa.Value(bP) {
			if k, ok := constInt64(f.Y); ok {
				cases[k] = f.Edge
				caseEdges = append(caseEdges, f.Edge)
			}
		}
	}
	var got []int64
	for k := range cases {
		got = append(got, k)
	}
	sort.Slice(got, func(i, j int) bool { return got[i] < got[j] })
	want := []int64{8, 9, 10, 13}
	same := len(got) == len(want)
	for i := range want {
		if same && got[i] != want[i] {
			same = false
		}
	}
	c.check(same, "C17.R1", "dispatch-set "+m.fnName(x.writeByte), "special bytes are exactly {BS 8, TAB 9, LF 10, CR 13}",
		fmt.Sprintf("the set of specially handled bytes is %v, expected [8 9 10 13]", got), m.pos(x.writeByte.Pos()))
	if !same {
		return
	}
	ret := isRet(g)
	callWith := func(fn *ssa.Function, argPred func(args []ssa.Value) bool) func(int) bool {
		return func(n int) bool {
			if !m.callsTo(g.Ins[n], fn) {
				return false
			}
			return argPred == nil || argPred(g.callArgs(n)[1:])
		}
	}
	constArg := func(v ssa.Value, k int64) bool { c, ok := constInt64(v); return ok && c == k }
	boolArg := func(v ssa.Value, b bool) bool { c, ok := constBool(v); return ok && c == b }
	anyWrite := func(n int) bool {
		return m.callsTo(g.Ins[n], x.doWrite) || m.callsTo(g.Ins[n], x.cr) || m.callsTo(g.Ins[n], x.lf) || m.callsTo(g.Ins[n], x.setCursor)
	}
	// helper: from edge e every path to return passes `must`, and no action other than `allowed` is reachable before return
	checkCase := func(name string, e Edge, must func(int) bool, allowed func(int) bool) {
		start := g.Succ[e.From][e.K]
		key := "case " + name + " " + m.fnName(x.writeByte)
		if p := g.Path([]int{start}, nil, must, func(n int) bool { return !must(n) && ret(n) }); p != nil && must != nil {
			c.fail("C17.R1", key, "a path through this case returns without the documented action", g.where(p, 8)...)
			return
		}
		r := g.Reach([]int{start}, nil, nil)
		for n := range g.Ins {
			if r[n] && anyWrite(n) && !allowed(n) {
				c.fail("C17.R1", key, "an action other than the documented one is performed in this case: "+g.Ins[n].String(), g.posOf(n))
				return
			}
		}
		c.ok("C17.R1", key, "documented action on every path, no other terminal action", g.posOf(e.From))
	}
	// carriage return: the cursor goes to column one (through the helper that does
	// that, or in place when there is no such helper)
	colOne := func(gg *IG, n int) bool {
		st, ok := gg.Ins[n].(*ssa.Store)
		if !ok {
			return false
		}
		f, rest := lastField(accessPath(st.Addr))
		k, isK := constInt64(st.Val)
		return f == x.cursorX && rest == "" && isK && k == 1
	}
	isCR := callWith(x.cr, nil)
	if x.cr == nil {
		isCR = func(n int) bool { return colOne(g, n) }
	} else {
		gc := newIG(m, x.cr, nil)
		okBody, nst := true, 0
		for _, sn := range x.storesOf(gc, x.cursorX) {
			nst++
			if !colOne(gc, sn) {
				okBody = false
			}
		}
		c.check(okBody && nst > 0, "C17.R1", "cr-body "+m.fnName(x.cr), "the carriage-return helper stores 1 into cursorX", "the carriage-return helper does not put the cursor into column one", m.pos(x.cr.Pos()))
	}
	checkCase("CR", cases[13], isCR, isCR)
	isLF := callWith(x.lf, func(a []ssa.Value) bool { return boolArg(a[0], true) })
	checkCase("LF", cases[10], isLF, isLF)
	// TAB: loop i < tabWidth { doWrite(' ', true) }
	isTabWrite := callWith(x.doWrite, func(a []ssa.Value) bool { return constArg(a[0], ' ') && boolArg(a[1], true) })
	{
		key := "case TAB " + m.fnName(x.writeByte)
		start := g.Succ[cases[9].From][cases[9].K]
		r := g.Reach([]int{start}, nil, nil)
		okLoop := false
		bad := ""
		for n := range g.Ins {
			if !r[n] {
				continue
			}
			if anyWrite(n) && !isTabWrite(n) {
				bad = "an action other than doWrite(' ', true) in the TAB case: " + g.Ins[n].String()
			}
			if isTabWrite(n) {
				// in a loop that runs tabWidth times (induction form: any counting direction)
				zt := x.polyizer()
				if lf, ok := g.loopFormAt(zt, g.Ins[n].Block()); ok {
					trips, tok := lf.Trips, lf.TripsOK
					early := lf.otherExits(g)
					lf.Done()
					okLoop = tok && trips.equal(polyAtom("t.tabWidth"))
					if len(early) > 0 {
						bad = "the TAB loop can be left before tabWidth spaces are written (an exit other than its counting test)"
					}
				}
			}
		}
		switch {
		case bad != "":
			c.fail("C17.R1", key, bad, g.posOf(start))
		case !okLoop:
			c.fail("C17.R1", key, "TAB does not write tabWidth spaces (loop i = 0; i < tabWidth; i++ around doWrite(' ', true))", g.posOf(start))
		default:
			c.ok("C17.R1", key, "loop i = 0..tabWidth-1 around doWrite(' ', true)", g.posOf(start))
		}
	}
	// BS: only on cursorX > 1: SetCursorPosition(cursorX-1, cursorY) then doWrite(' ', false)
	{
		key := "case BS " + m.fnName(x.writeByte)
		start := g.Succ[cases[8].From][cases[8].K]
		r := g.Reach([]int{start}, nil, nil)
		z := x.polyizer()
		isMove := callWith(x.setCursor, func(a []ssa.Value) bool {
			return z.Of(a[0]).String() == "t.cursorX - 1" || z.Of(a[0]).String() == "-1 + t.cursorX" && true || z.Of(a[0]).equal(polyAtom("t.cursorX").add(polyConst(1), -1)) && z.Of(a[1]).equal(polyAtom("t.cursorY"))
		})
		isBlank := callWith(x.doWrite, func(a []ssa.Value) bool { return constArg(a[0], ' ') && boolArg(a[1], false) })
		bad := ""
		nMove, nBlank := 0, 0
		for n := range g.Ins {
			if !r[n] {
				continue
			}
			if anyWrite(n) && !isMove(n) && !isBlank(n) {
				bad = "an action other than SetCursorPosition(cursorX-1, cursorY) / doWrite(' ', false) in the BS case: " + g.Ins[n].String()
			}
			if isMove(n) || isBlank(n) {
				guard := hasFact(g.FactsAt(n), func(f Fact) bool {
					return cmpMatch(f, token.GTR, x.fld(x.cursorX), func(v ssa.Value) bool { return constArg(v, 1) })
				})
				if !guard {
					bad = "backspace acts without the test cursorX > 1 (it must do nothing in column one)"
				}
				if isMove(n) {
					nMove++
					if ok, _ := g.MustPassAfter(n, isBlank, ret); !ok {
						bad = "the cursor is moved left but the cell is not blanked afterwards"
					}
				} else {
					nBlank++
					if ok, _ := g.MustPassBefore(n, func(k int) bool { return isMove(k) }); !ok {
						bad = "the cell is blanked without first moving the cursor one column left"
					}
				}
			}
		}
		if bad == "" && (nMove == 0 || nBlank == 0) {
			bad = "backspace does not move the cursor left and blank the cell"
		}
		c.check(bad == "", "C17.R1", key, "on cursorX > 1: SetCursorPosition(cursorX-1, cursorY) then doWrite(' ', false); nothing otherwise", bad, g.posOf(start))
	}
	// default: doWrite(b, true) — reached when all four case edges are false
	{
		key := "case default " + m.fnName(x.writeByte)
		isDef := callWith(x.doWrite, func(a []ssa.Value) bool { return a[0] == ssa.Value(bP) && boolArg(a[1], true) })
		cut := map[Edge]bool{}
		for _, e := range caseEdges {
			cut[e] = true
		}
		// also cut the "no console" early return: paths with cons == nil return an error
		var consNil []Edge
		for _, f := range g.AllEdgeFacts() {
			if isNilFact(f, token.EQL, x.fld(x.cons)) {
				cut[f.Edge] = true
				consNil = append(consNil, f.Edge)
			}
		}
		if p := g.Path([]int{0}, cut, isDef, func(n int) bool { return !isDef(n) && ret(n) }); p != nil {
			c.fail("C17.R1", key, "an ordinary byte can be handled without doWrite(b, true)", g.where(p, 8)...)
		} else {
			c.ok("C17.R1", key, "every other byte is stored with doWrite(b, true)")
		}
	}
}

func (x *vtx) c17r2() {
	c, m := x.c, x.m
	c.floor("C17.R2", 4)
	z := x.polyizer()
	for _, fld := range []*types.Var{x.cursorX, x.cursorY} {
		dim := x.viewportWidth
		if fld == x.cursorY {
			dim = x.viewportHeight
		}
		seq := 0
		for _, fs := range m.storesToField(fld) {
			if fs.Rest != "" {
				continue
			}
			fn := fs.Fn
			key := fmt.Sprintf("cursor-store %s in %s #%d", fld.Name(), m.fnName(fn), seq)
			seq++
			c.Evals++
			if freshBase(fs.Store) {
				c.ok("C17.R2", key, "store into a freshly allocated VT (constructor), exempt by role", m.pos(fs.Store.Pos()))
				continue
			}
			g := scanIG(m, fn, nil)
			n := g.Idx[fs.Store]
			val := fs.Store.Val
			if k, ok := constInt64(val); ok && k == 1 {
				c.ok("C17.R2", key, "constant 1", g.posOf(n))
				continue
			}
			p := z.Of(val)
			// field + 1
			if p.equal(polyAtom("t."+fld.Name()).add(polyConst(1), 1)) {
				facts := g.FactsAt(n)
				if fld == x.cursorY {
					ok := hasFact(facts, func(f Fact) bool {
						if f.Y == nil {
							return false
						}
						l, r := z.Of(f.X), z.Of(f.Y)
						inc := polyAtom("t.cursorY").add(polyConst(1), 1)
						vh := polyAtom("t.viewportHeight")
						return f.Op == token.LEQ && l.equal(inc) && r.equal(vh) || f.Op == token.GEQ && r.equal(inc) && l.equal(vh) ||
							f.Op == token.LSS && l.equal(polyAtom("t.cursorY")) && r.equal(vh) || f.Op == token.GTR && r.equal(polyAtom("t.cursorY")) && l.equal(vh)
					})
					c.check(ok, "C17.R2", key, "cursorY+1 under the test cursorY+1 <= viewportHeight",
						"cursorY is incremented on a path not dominated by cursorY+1 <= viewportHeight: the cursor can leave the viewport", g.posOf(n))
					continue
				}
				// cursorX+1: followed by `cursorX > viewportWidth` whose true side calls lf(true)
				// the test cursorX > viewportWidth, whichever way it is written
				// (`!(cursorX <= viewportWidth)` puts it on the false branch);
				// wrapSide is the branch on which the cursor is past the last column
				wrapSide := func(k int) int {
					if _, ok := g.Ins[k].(*ssa.If); !ok {
						return -1
					}
					for side, sense := range []bool{true, false} {
						if f, ok := condFact(g.Cond(k), sense); ok && cmpMatch(f, token.GTR, x.fld(x.cursorX), x.fld(x.viewportWidth)) {
							return side
						}
					}
					return -1
				}
				isTest := func(k int) bool { return wrapSide(k) >= 0 }
				ret := isRet(g)
				// (a flag that is tested twice has the same outcome both times)
				okAfter := g.holdsInScenarios(n, nil, func(_ []Fact, cut map[Edge]bool) bool {
					return g.Path(g.Succ[n], cut, isTest, func(j int) bool { return !isTest(j) && ret(j) }) == nil
				})
				if !okAfter {
					_, pth := g.MustPassAfter(n, isTest, ret)
					c.fail("C17.R2", key, "cursorX is advanced and the function can return without testing cursorX > viewportWidth", g.where(pth, 8)...)
					continue
				}
				bad := ""
				for k := range g.Ins {
					if !isTest(k) {
						continue
					}
					isWrap := func(j int) bool {
						if !m.callsTo(g.Ins[j], x.lf) {
							return false
						}
						b, ok := constBool(g.callArgs(j)[1])
						return ok && b
					}
					if p := g.Path([]int{g.Succ[k][wrapSide(k)]}, nil, isWrap, func(j int) bool { return !isWrap(j) && ret(j) }); p != nil {
						bad = "past the last column the function returns without lf(true): the cursor stays outside the viewport"
					}
				}
				// lf(true) resets cursorX
				gl := newIG(m, x.lf, nil)
				reset := false
				for _, sn := range x.storesOf(gl, x.cursorX) {
					if k, ok := constInt64(gl.Ins[sn].(*ssa.Store).Val); ok && k == 1 {
						if hasFact(gl.FactsAt(sn), func(f Fact) bool {
							return f.Y == nil && f.Op == token.EQL && f.X == ssa.Value(paramNamed(x.lf, "withCR"))
						}) {
							reset = true
						}
					}
				}
				if bad == "" && !reset {
					bad = "lf(true) does not reset cursorX to 1"
				}
				c.check(bad == "", "C17.R2", key, "cursorX+1 followed on every path by the cursorX > viewportWidth test whose true side calls lf(true), which resets cursorX to 1", bad, g.posOf(n))
				continue
			}
			// SetCursorPosition-style clamp: a merge of {1, dimension, argument within range}
			if g.isMerge(val) {
				bad := ""
				for _, vc := range g.valueCases(val, n) {
					v := vc.Val
					if k, ok := constInt64(v); ok && k == 1 {
						continue
					}
					if isLoadOfField(v, dim) {
						continue
					}
					if prm, ok := v.(*ssa.Parameter); ok {
						facts := g.ValFacts(vc)
						lo := hasFact(facts, func(f Fact) bool {
							return cmpMatch(f, token.GEQ, func(v ssa.Value) bool { return v == ssa.Value(prm) }, func(v ssa.Value) bool { k, ok := constInt64(v); return ok && k == 1 }) ||
								cmpMatch(f, token.NEQ, func(v ssa.Value) bool { return v == ssa.Value(prm) }, isZeroConst)
						})
						hi := hasFact(facts, func(f Fact) bool {
							return cmpMatch(f, token.LEQ, func(v ssa.Value) bool { return v == ssa.Value(prm) }, x.fld(dim))
						})
						if !lo || !hi {
							bad = fmt.Sprintf("argument %s reaches the cursor on a path where it has not been tested to lie in [1, %s]", prm.Name(), dim.Name())
						}
						continue
					}
					bad = "unrecognised value stored to the cursor: " + describe(v)
				}
				c.check(bad == "", "C17.R2", key, "value is 1, the viewport dimension, or the argument on the side where both range tests failed", bad, g.posOf(n))
				continue
			}
			c.fail("C17.R2", key, "store to the cursor of a value that is not provably inside the viewport: "+describe(val)+" = "+p.String(), g.posOf(n))
		}
	}
}

// refreshes: every path of fn from entry to return passes a call of
// updateDataOffset (or of a function that refreshes, bound 2).
func (x *vtx) refreshes(fn *ssa.Function, depth int) bool {
	if fn == x.update {
		return true
	}
	if depth > 2 || fn == nil || fn.Blocks == nil {
		return false
	}
	// a callee's summary does not make it an anchor
	g := scanIG(x.m, fn, nil)
	isRef := func(n int) bool {
		cc := callCommon(g.Ins[n])
		if cc == nil {
			return false
		}
		if _, ok := g.Ins[n].(*ssa.Call); !ok {
			return false
		}
		cal := x.m.callee(cc)
		return cal != nil && cal != fn && x.refreshes(cal, depth+1)
	}
	for _, rn := range g.Returns() {
		if ok, _ := g.MustPassBefore(rn, isRef); !ok {
			return false
		}
	}
	return true
}

func (x *vtx) c17r3() {
	c, m := x.c, x.m
	c.floor("C17.R3", 5)
	// formula of updateDataOffset
	z := x.polyizer()
	gu := newIG(m, x.update, nil)
	st := x.storesOf(gu, x.dataOffset)
	wantP := polyAtom("t.viewportY").add(polyAtom("t.cursorY"), 1).add(polyConst(1), -1).mul(polyAtom("t.viewportWidth")).mul(polyConst(3)).
		add(polyAtom("t.cursorX").add(polyConst(1), -1).mul(polyConst(3)), 1)
	if len(st) != 1 {
		c.fail("C17.R3", "offset-formula "+m.fnName(x.update), "updateDataOffset does not store dataOffset exactly once", m.pos(x.update.Pos()))
	} else {
		got := z.Of(gu.Ins[st[0]].(*ssa.Store).Val)
		c.check(got.equal(wantP), "C17.R3", "offset-formula "+m.fnName(x.update), "dataOffset = "+wantP.String(),
			"dataOffset is computed as "+got.String()+", expected "+wantP.String(), gu.posOf(st[0]))
	}
	// every store to cursorX/cursorY/viewportY is followed by a refresh
	for _, fld := range []*types.Var{x.cursorX, x.cursorY, x.viewportY} {
		seq := 0
		for _, fs := range m.storesToField(fld) {
			if fs.Rest != "" {
				continue
			}
			fn := fs.Fn
			key := fmt.Sprintf("refresh-after %s in %s #%d", fld.Name(), m.fnName(fn), seq)
			seq++
			if freshBase(fs.Store) {
				c.ok("C17.R3", key, "store into a freshly allocated VT (constructor), exempt by role")
				continue
			}
			if fn == x.att {
				c.ok("C17.R3", key, "named exception: AttachTo (first attach; the zero dataOffset is the offset of (1,1) with viewportY 0)")
				continue
			}
			g := scanIG(m, fn, nil)
			n := g.Idx[fs.Store]
			isRef := func(k int) bool {
				if _, ok := g.Ins[k].(*ssa.Call); !ok {
					return false
				}
				cal := m.callee(callCommon(g.Ins[k]))
				return cal != nil && x.refreshes(cal, 0)
			}
			ret := isRet(g)
			okA, path := g.MustPassAfter(n, isRef, ret)
			if okA {
				c.ok("C17.R3", key, "followed on every path to the exit by updateDataOffset (directly or through a callee that always calls it)", g.posOf(n))
				continue
			}
			// paired incremental update: cursorX+1 with dataOffset += 3 before it on every path
			pv := z.Of(fs.Store.Val)
			if fld == x.cursorX && pv.equal(polyAtom("t.cursorX").add(polyConst(1), 1)) {
				isInc := func(k int) bool {
					s, ok := g.Ins[k].(*ssa.Store)
					if !ok {
						return false
					}
					if lf, rest := lastField(accessPath(s.Addr)); lf != x.dataOffset || rest != "" {
						return false
					}
					return z.Of(s.Val).equal(polyAtom("t.dataOffset").add(polyConst(3), 1))
				}
				if okB, _ := g.MustPassBefore(n, isInc); okB {
					// exactly one increment per advance: no second cursorX store between
					c.ok("C17.R3", key, "paired incremental update: dataOffset += 3 precedes cursorX+1 on every path", g.posOf(n))
					continue
				}
				// or right after it: before the function returns or calls anything
				if okAfter, _ := g.MustPassAfter(n, isInc, func(k int) bool {
					_, isCall := g.Ins[k].(*ssa.Call)
					return ret(k) || isCall
				}); okAfter {
					c.ok("C17.R3", key, "paired incremental update: dataOffset += 3 follows cursorX+1 before any call or return", g.posOf(n))
					continue
				}
			}
			c.fail("C17.R3", key, "the cursor/viewport changes and the function can return without recomputing dataOffset: later writes land in the wrong cell", g.where(path, 8)...)
		}
	}
	// dataOffset is stored only by updateDataOffset and the paired increment
	for _, fs := range m.storesToField(x.dataOffset) {
		if fs.Fn == x.update || freshBase(fs.Store) {
			continue
		}
		pv := z.Of(fs.Store.Val)
		key := "offset-writers " + m.fnName(fs.Fn)
		c.check(fs.Fn == x.doWrite && pv.equal(polyAtom("t.dataOffset").add(polyConst(3), 1)), "C17.R3", key,
			"dataOffset += 3 in doWrite (paired with cursorX+1)", "dataOffset is written outside updateDataOffset / the paired increment: "+pv.String(), m.pos(fs.Store.Pos()))
	}
}

// ======================= C18 =======================

func runC18(c *Ctx) {
	x := newVTX(c, "C18.R1")
	if x == nil {
		return
	}
	m := c.K
	consDev := m.lookupType("device/video/console", "Device")
	if consDev == nil {
		c.unresolved("C18.R1", "console.Device")
		return
	}
	mutating := map[string]bool{"Write": true, "Fill": true, "Scroll": true, "SetPaletteColor": true}

	// ---- R1 ----
	c.floor("C18.R1", 3)
	ttyPkg := m.pkg("device/tty")
	seq := map[string]int{}
	for _, fn := range m.scanFuncs() {
		if fn.Pkg != ttyPkg {
			continue
		}
		var g *IG
		for _, b := range m.blocksOf(fn) {
			for _, in := range b.Instrs {
				cc := callCommon(in)
				if cc == nil || !cc.IsInvoke() || !mutating[cc.Method.Name()] {
					continue
				}
				if n, ok := cc.Value.Type().(*types.Named); !ok || n.Obj() != consDev.Obj() {
					continue
				}
				c.Evals++
				if g == nil {
					g = scanIG(m, fn, nil)
				}
				key := fmt.Sprintf("console-call %s.%s #%d", m.fnName(fn), cc.Method.Name(), seq[m.fnName(fn)+cc.Method.Name()])
				seq[m.fnName(fn)+cc.Method.Name()]++
				n := g.Idx[in]
				switch {
				case !isLoadOfField(cc.Value, x.cons):
					c.fail("C18.R1", key, "a mutating console method is called on a console that is not VT.cons", g.posOf(n))
				case !hasFact(g.FactsAt(n), func(f Fact) bool { return x.activeFact(f, true) }):
					c.fail("C18.R1", key, "the console is modified on a path not dominated by t.state == StateActive: an inactive terminal touches the console", g.posOf(n))
				default:
					c.ok("C18.R1", key, "through VT.cons, dominated by t.state == StateActive", g.posOf(n))
				}
			}
		}
	}
	// the state field is stored only in SetState (and the constructor)
	for _, fs := range m.storesToField(x.state) {
		if fs.Fn != x.setState && !freshBase(fs.Store) {
			c.fail("C18.R1", "state-writers "+m.fnName(fs.Fn), "VT.state is written outside SetState", m.pos(fs.Store.Pos()))
		}
	}

	x.c18r2()
	x.c18r3()
}

func (x *vtx) consCall(g *IG, n int, method string) (*ssa.CallCommon, bool) {
	cc, ok := invokeOf(g.Ins[n], method)
	if !ok || !isLoadOfField(cc.Value, x.cons) {
		return nil, false
	}
	return cc, true
}

func (x *vtx) c18r2() {
	c, m := x.c, x.m
	c.floor("C18.R2", 3)
	g := newIG(m, x.doWrite, nil)
	bP := paramNamed(x.doWrite, "b")
	isMirror := func(n int) bool {
		cc, ok := x.consCall(g, n, "Write")
		if !ok || len(cc.Args) != 5 {
			return false
		}
		a := cc.Args
		return a[0] == ssa.Value(bP) && isLoadOfField(a[1], x.curFg) && isLoadOfField(a[2], x.curBg) && isLoadOfField(a[3], x.cursorX) && isLoadOfField(a[4], x.cursorY)
	}
	// stores into data: values b, curFg, curBg at dataOffset+0/1/2
	z := x.polyizer()
	type ds struct {
		n   int
		off string
		val ssa.Value
	}
	var dstores []ds
	for n, in := range g.Ins {
		st, ok := in.(*ssa.Store)
		if !ok {
			continue
		}
		ia, ok := st.Addr.(*ssa.IndexAddr)
		if !ok || !isLoadOfField(ia.X, x.data) {
			continue
		}
		dstores = append(dstores, ds{n, z.Of(ia.Index).String(), st.Val})
	}
	key := "mirror-write " + m.fnName(x.doWrite)
	wantOff := map[string]func(ssa.Value) bool{
		"t.dataOffset":     func(v ssa.Value) bool { return v == ssa.Value(bP) },
		"1 + t.dataOffset": x.fld(x.curFg),
		"2 + t.dataOffset": x.fld(x.curBg),
	}
	bad := ""
	if len(dstores) != 3 {
		bad = fmt.Sprintf("doWrite stores %d bytes into the buffer, expected the (char, fg, bg) triple", len(dstores))
	}
	for _, d := range dstores {
		pred, ok := wantOff[d.off]
		if !ok || !pred(d.val) {
			bad = "buffer store at offset " + d.off + " does not store the matching member of (b, curFg, curBg)"
		}
	}
	// on the active side the mirror call precedes the stores; never after a cursor change
	mirrors := g.Nodes(func(in ssa.Instruction) bool { return isMirror(g.Idx[in]) })
	if bad == "" && len(mirrors) == 0 {
		bad = "no call cons.Write(b, curFg, curBg, cursorX, cursorY) found"
	}
	if bad == "" {
		// every path from the active-true edge to the first data store / return passes the mirror
		for _, f := range g.AllEdgeFacts() {
			if !x.activeFact(f, true) {
				continue
			}
			start := g.Succ[f.Edge.From][f.Edge.K]
			isGoal := func(n int) bool {
				if _, ok := g.Ins[n].(*ssa.Return); ok {
					return true
				}
				for _, d := range dstores {
					if d.n == n {
						return true
					}
				}
				return false
			}
			if p := g.Path([]int{start}, nil, isMirror, func(n int) bool { return !isMirror(n) && isGoal(n) }); p != nil {
				bad = "on the active side a character is stored without being mirrored to the console"
			}
		}
		// every data store must have passed the active test
		for _, d := range dstores {
			isTest := func(n int) bool {
				_, ok := g.Ins[n].(*ssa.If)
				if !ok {
					return false
				}
				f, ok := condFact(g.Cond(n), true)
				return ok && (x.activeFact(f, true) || x.activeFact(f, false))
			}
			if ok, _ := g.MustPassBefore(d.n, isTest); !ok {
				bad = "a character is stored into the buffer on a path that never tests t.state == StateActive"
			}
		}
		// no cursor / offset store can precede the mirror call
		for _, fld := range []*types.Var{x.cursorX, x.cursorY, x.dataOffset, x.viewportY} {
			for _, sn := range x.storesOf(g, fld) {
				r := g.Reach(g.Succ[sn], nil, nil)
				for _, mn := range mirrors {
					if r[mn] {
						bad = "the console is written after " + fld.Name() + " has been changed: the mirrored cell is not the stored cell"
					}
				}
			}
		}
		// calls that move the cursor must not precede the mirror either
		for n, in := range g.Ins {
			if m.callsTo(in, x.lf) || m.callsTo(in, x.setCursor) || m.callsTo(in, x.cr) {
				r := g.Reach(g.Succ[n], nil, nil)
				for _, mn := range mirrors {
					if r[mn] {
						bad = "the console is written after the cursor has been moved"
					}
				}
			}
		}
	}
	c.check(bad == "", "C18.R2", key, "cons.Write(b, curFg, curBg, cursorX, cursorY) on the active side before the (b, curFg, curBg) triple is stored and before any cursor change", bad, m.pos(x.doWrite.Pos()))

	// lf
	gl := newIG(m, x.lf, nil)
	ret := isRet(gl)
	isTest := func(n int) bool {
		_, ok := gl.Ins[n].(*ssa.If)
		if !ok {
			return false
		}
		f, ok := condFact(gl.Cond(n), true)
		return ok && x.activeFact(f, true)
	}
	// every buffer / viewport change reaches the active test
	nchg := 0
	for n, in := range gl.Ins {
		st, ok := in.(*ssa.Store)
		if !ok {
			continue
		}
		isData := false
		if ia, ok := st.Addr.(*ssa.IndexAddr); ok && isLoadOfField(ia.X, x.data) {
			isData = true
		}
		lf, rest := lastField(accessPath(st.Addr))
		if !isData && !(lf == x.viewportY && rest == "") {
			continue
		}
		nchg++
		if ok, p := gl.MustPassAfter(n, isTest, ret); !ok {
			c.fail("C18.R2", "mirror-scroll-reached "+m.fnName(x.lf), "the viewport or the buffer is scrolled and the function can return without testing whether the console must follow", gl.where(p, 8)...)
			nchg = -1000
		}
	}
	if nchg > 0 {
		c.ok("C18.R2", "mirror-scroll-reached "+m.fnName(x.lf), fmt.Sprintf("all %d store(s) that scroll the viewport/buffer reach the t.state == StateActive test", nchg))
	} else if nchg == 0 {
		c.fail("C18.R2", "mirror-scroll-reached "+m.fnName(x.lf), "lf no longer scrolls the viewport or the buffer (rule shape lost)", m.pos(x.lf.Pos()))
	}
	scrollDirUp := int64(0)
	if sc := m.lookupConst("device/video/console", "ScrollDirUp"); sc != nil {
		scrollDirUp, _ = constInt64(sc.Value)
	}
	isScroll := func(n int) bool {
		cc, ok := x.consCall(gl, n, "Scroll")
		if !ok {
			return false
		}
		d, ok1 := constInt64(cc.Args[0])
		l, ok2 := constInt64(cc.Args[1])
		return ok1 && ok2 && d == scrollDirUp && l == 1
	}
	isFill := func(n int) bool {
		cc, ok := x.consCall(gl, n, "Fill")
		if !ok {
			return false
		}
		a := cc.Args
		one := func(v ssa.Value) bool { k, ok := constInt64(v); return ok && k == 1 }
		return one(a[0]) && isLoadOfField(a[1], x.cursorY) && (isLoadOfField(a[2], x.termWidth) || isLoadOfField(a[2], x.viewportWidth)) && one(a[3]) &&
			isLoadOfField(a[4], x.defaultFg) && isLoadOfField(a[5], x.defaultBg)
	}
	for _, f := range gl.AllEdgeFacts() {
		if !x.activeFact(f, true) {
			continue
		}
		key := "mirror-scroll " + m.fnName(x.lf)
		start := gl.Succ[f.Edge.From][f.Edge.K]
		if p := gl.Path([]int{start}, nil, isScroll, func(n int) bool { return !isScroll(n) && ret(n) }); p != nil {
			c.fail("C18.R2", key, "on the active side the console is not scrolled up by one line (Scroll(ScrollDirUp, 1))", gl.where(p, 8)...)
			continue
		}
		bad := ""
		for n := range gl.Ins {
			if isScroll(n) {
				if ok, _ := gl.MustPassAfter(n, isFill, ret); !ok {
					bad = "the console is scrolled but the new last line is not cleared with Fill(1, cursorY, termWidth, 1, defaultFg, defaultBg)"
				}
			}
			if isFill(n) {
				if ok, _ := gl.MustPassBefore(n, isScroll); !ok {
					bad = "the last line is cleared on the console without scrolling it first"
				}
			}
		}
		c.check(bad == "", "C18.R2", key, "Scroll(ScrollDirUp, 1) then Fill(1, cursorY, termWidth, 1, defaultFg, defaultBg) on every path of the active side", bad, gl.posOf(f.Edge.From))
	}
	// the buffer's own blanking of the new last line covers what the console's Fill covers (a whole row)
	_, cb, _ := x.scrollArmForms()
	c.check(cb == "", "C18.R2", "mirror-scroll-clear "+m.fnName(x.lf), "the buffer blanks the same viewportWidth cells of the last line that Fill(1, cursorY, termWidth, 1, ...) blanks on the console", cb, m.pos(x.lf.Pos()))
	_ = strings.Join
}

func (x *vtx) c18r3() {
	c, m := x.c, x.m
	c.floor("C18.R3", 3)
	g := newIG(m, x.setState, nil)
	ret := isRet(g)
	newP := paramNamed(x.setState, "newState")
	// the state is stored on every path that does not return early on equality
	key := "state-store " + m.fnName(x.setState)
	stores := x.storesOf(g, x.state)
	okStore := len(stores) > 0
	for _, sn := range stores {
		if g.Ins[sn].(*ssa.Store).Val != ssa.Value(newP) {
			okStore = false
		}
	}
	// paths on which state != newState must store
	cut := map[Edge]bool{}
	for _, f := range g.AllEdgeFacts() {
		if cmpMatch(f, token.EQL, x.fld(x.state), func(v ssa.Value) bool { return v == ssa.Value(newP) }) {
			cut[f.Edge] = true
		}
	}
	isStore := func(n int) bool { return contains(stores, n) }
	if p := g.Path([]int{0}, cut, isStore, func(n int) bool { return !isStore(n) && ret(n) }); p != nil {
		okStore = false
	}
	c.check(okStore, "C18.R3", key, "t.state = newState on every path on which the state differs", "SetState can return without recording a different new state", m.pos(x.setState.Pos()))

	// redraw
	z := x.polyizer()
	var writes []int
	for n := range g.Ins {
		if _, ok := x.consCall(g, n, "Write"); ok {
			writes = append(writes, n)
		}
	}
	key = "redraw " + m.fnName(x.setState)
	if len(writes) != 1 {
		c.fail("C18.R3", key, fmt.Sprintf("expected exactly one cons.Write call in the redraw loops, found %d", len(writes)), m.pos(x.setState.Pos()))
		return
	}
	wn := writes[0]
	cc, _ := x.consCall(g, wn, "Write")
	a := cc.Args
	// x, y counters
	counter := func(v ssa.Value, dim *types.Var, name string) (*ssa.Phi, string) {
		phi, ok := v.(*ssa.Phi)
		if !ok {
			return nil, name + " is not a loop counter"
		}
		one, step := false, false
		for _, e := range phi.Edges {
			if k, ok := constInt64(e); ok && k == 1 {
				one = true
			} else if b, ok := e.(*ssa.BinOp); ok && b.Op == token.ADD && b.X == ssa.Value(phi) {
				if k, ok := constInt64(b.Y); ok && k == 1 {
					step = true
				}
			} else {
				return nil, name + " has an unexpected loop update"
			}
		}
		if !one || !step {
			return nil, name + " does not run from 1 in steps of 1"
		}
		if !hasFact(g.FactsAt(wn), func(f Fact) bool {
			return cmpMatch(f, token.LEQ, func(v ssa.Value) bool { return v == ssa.Value(phi) }, x.fld(dim))
		}) {
			return nil, name + " is not bounded by <= " + dim.Name()
		}
		// loop exits only when counter > dim: the loop header's If is `phi <= dim`
		return phi, ""
	}
	xPhi, e1 := counter(a[3], x.viewportWidth, "x")
	yPhi, e2 := counter(a[4], x.viewportHeight, "y")
	bad := e1
	if bad == "" {
		bad = e2
	}
	if bad == "" {
		// the three bytes: data[o], data[o+1], data[o+2], where in iteration T of the
		// column loop o = (y-1+viewportY)*viewportWidth*3 + 3*T (however the offset
		// is carried: a counter, or a sub-slice that is advanced)
		lf, inLoop := g.loopFormAt(z, g.Ins[wn].Block())
		if !inLoop || lf.Header != xPhi.Block() {
			bad = "the cells are not read in the loop that advances the column"
		}
		offs := []Poly{}
		for i := 0; i < 3 && bad == ""; i++ {
			ld, ok := a[i].(*ssa.UnOp)
			if !ok || ld.Op != token.MUL {
				bad = "redraw does not read the cell from the buffer"
				break
			}
			ia, ok := ld.X.(*ssa.IndexAddr)
			if !ok {
				bad = "redraw does not read the cell from VT.data"
				break
			}
			base, idx := sliceElem(z, lf, ia.X, z.Of(ia.Index))
			if !isLoadOfField(base, x.data) {
				bad = "redraw does not read the cell from VT.data"
				break
			}
			offs = append(offs, idx)
		}
		if bad == "" {
			base := offs[0]
			if !offs[1].equal(base.add(polyConst(1), 1)) || !offs[2].equal(base.add(polyConst(2), 1)) {
				bad = "the redraw does not pass (data[o], data[o+1], data[o+2])"
			}
			first, step, okA := splitT(base)
			want := polyAtom(z.defaultAtom(yPhi)).add(polyConst(1), -1).add(polyAtom("t.viewportY"), 1).mul(polyAtom("t.viewportWidth")).mul(polyConst(3))
			if bad == "" {
				if k, isK := step.isConst(); !okA || !isK || k != 3 || !first.equal(want) {
					bad = "the redraw offset does not start at (y-1+viewportY)*viewportWidth*3 and advance by 3 per cell: it is " + base.String()
				}
			}
		}
		if inLoop {
			lf.Done()
		}
	}
	if bad == "" {
		// the redraw is reached whenever state becomes active with a console attached
		facts := g.FactsAt(wn)
		if !hasFact(facts, func(f Fact) bool { return x.activeFact(f, true) }) {
			bad = "the redraw is not tied to the active state"
		}
		cut2 := map[Edge]bool{}
		for _, f := range g.AllEdgeFacts() {
			if x.activeFact(f, false) || isNilFact(f, token.EQL, x.fld(x.cons)) ||
				cmpMatch(f, token.EQL, x.fld(x.state), func(v ssa.Value) bool { return v == ssa.Value(newP) }) {
				cut2[f.Edge] = true
			}
		}
		// with inactive / detached / unchanged edges removed, every path to return passes the outer loop header
		isHdr := func(n int) bool { return n == g.First[yPhi.Block()] }
		if p := g.Path([]int{0}, cut2, isHdr, func(n int) bool { return !isHdr(n) && ret(n) }); p != nil {
			bad = "SetState can activate an attached terminal and return without redrawing the console"
		}
	}
	c.check(bad == "", "C18.R3", key, "y = 1..viewportHeight, x = 1..viewportWidth, cons.Write(data[o..o+2], x, y), o from (y-1+viewportY)*viewportWidth*3 step 3", bad, g.posOf(wn))
	// loop exit conditions: the counters' loops exit only on the > side
	for _, pr := range []struct {
		phi *ssa.Phi
		dim *types.Var
		n   string
	}{{xPhi, x.viewportWidth, "x"}, {yPhi, x.viewportHeight, "y"}} {
		if pr.phi == nil {
			continue
		}
		key := "redraw-loop-" + pr.n + " " + m.fnName(x.setState)
		blk := pr.phi.Block()
		ifi, ok := blk.Instrs[len(blk.Instrs)-1].(*ssa.If)
		okc := false
		if ok {
			// (the side that stays in the loop states counter <= dimension, whichever
			// way round the test is written)
			_, body := loopOf(blk)
			for k, sense := range []bool{true, false} {
				if k >= len(blk.Succs) || !body[blk.Succs[k]] || blk.Succs[k] == blk {
					continue
				}
				if f, okf := condFact(ifi.Cond, sense); okf && cmpMatch(f, token.LEQ, func(v ssa.Value) bool { return v == ssa.Value(pr.phi) }, x.fld(pr.dim)) {
					okc = true
				}
			}
		}
		c.check(okc, "C18.R3", key, "loop header tests "+pr.n+" <= "+pr.dim.Name(), "the redraw loop over "+pr.n+" is not bounded by <= "+pr.dim.Name(), m.pos(ifiPos(blk)))
	}
}

func ifiPos(b *ssa.BasicBlock) token.Pos {
	for _, in := range b.Instrs {
		if in.Pos().IsValid() {
			return in.Pos()
		}
	}
	return token.NoPos
}
