package main

import (
	"fmt"
	"go/token"
	"go/types"

	"golang.org/x/tools/go/ssa"
)

// C12.R4: the merge/relocate resolve loop of ParseAML is bounded. Structural
// conditions of the termination argument: every iteration increments the pass
// counter; relocateNamedObjects asks for another pass only while the counter is
// <= maxResolvePasses; mergeScopeDirectives asks for another pass only in the
// first pass or when the previous relocate pass moved something; and the
// "moved something" counter is reset for every pass.
func c12BoundedPasses(c *Ctx) {
	m := c.K
	const aml = "device/acpi/aml"
	c.floor("C12.R4", 4)
	parse := m.lookupMethod(aml, "Parser", "ParseAML")
	merge := m.lookupMethod(aml, "Parser", "mergeScopeDirectives")
	reloc := m.lookupMethod(aml, "Parser", "relocateNamedObjects")
	passesF := m.fieldOf(aml, "Parser", "resolvePasses")
	movedF := m.fieldOf(aml, "Parser", "relocatedObjects")
	extra, ok1 := namedConstUint(m, aml, "parseResultRequireExtraPass")
	maxP, ok2 := namedConstUint(m, aml, "maxResolvePasses")
	if parse == nil || merge == nil || reloc == nil || passesF == nil || movedF == nil || !ok1 || !ok2 {
		c.unresolved("C12.R4", "Parser.ParseAML / mergeScopeDirectives / relocateNamedObjects / resolvePasses / relocatedObjects / maxResolvePasses")
		return
	}
	isField := func(f *types.Var) func(ssa.Value) bool {
		return func(v ssa.Value) bool { return isLoadOfField(v, f) }
	}
	storeNodes := func(g *IG, f *types.Var) []int {
		var out []int
		for n, in := range g.Ins {
			if st, ok := in.(*ssa.Store); ok {
				if lf, rest := lastField(accessPath(st.Addr)); lf == f && rest == "" {
					out = append(out, n)
				}
			}
		}
		return out
	}
	// (a) the loop increments the pass counter on every iteration
	g := newIG(m, parse, nil)
	mc, rc := g.callNodes(merge), g.callNodes(reloc)
	bad := ""
	var hdr *ssa.BasicBlock
	var body map[*ssa.BasicBlock]bool
	if len(mc) != 1 || len(rc) != 1 {
		bad = "expected one mergeScopeDirectives and one relocateNamedObjects call in ParseAML"
	} else {
		hdr, body = loopOf(g.Ins[mc[0]].Block())
		h2, _ := loopOf(g.Ins[rc[0]].Block())
		if hdr == nil || hdr != h2 {
			bad = "merge and relocate are not called from the same loop"
		}
	}
	if bad == "" {
		h := g.First[hdr]
		isInc := func(n int) bool {
			st, ok := g.Ins[n].(*ssa.Store)
			if !ok {
				return false
			}
			if lf, rest := lastField(accessPath(st.Addr)); lf != passesF || rest != "" {
				return false
			}
			b, ok := st.Val.(*ssa.BinOp)
			if !ok || b.Op != token.ADD || !isLoadOfField(b.X, passesF) {
				return false
			}
			k, ok := constInt64(b.Y)
			return ok && k >= 1
		}
		// every path from the relocate call back to the loop header passes the increment
		if p := g.Path(g.Succ[rc[0]], nil, isInc, func(n int) bool { return n == h }); p != nil {
			bad = "an iteration of the resolve loop does not increment resolvePasses: the pass bound is never reached"
		}
		for _, sn := range storeNodes(g, passesF) {
			if body[g.Ins[sn].Block()] && !isInc(sn) {
				bad = "resolvePasses is reset inside the resolve loop"
			}
		}
		// both passes start at the root
		for _, n := range []int{mc[0], rc[0]} {
			if a := g.callArgs(n); len(a) < 2 || !isZeroConst(a[1]) {
				bad = "a resolve pass does not start at the root object"
			}
		}
	}
	c.check(bad == "", "C12.R4", "pass-counter "+m.fnName(parse), "every iteration of the merge/relocate loop increments resolvePasses", bad, m.pos(parse.Pos()))

	// (b) relocate asks for another pass only while resolvePasses <= maxResolvePasses
	// the places where a function itself (or a helper spliced into it) decides to
	// return "another pass is needed": return cases with that constant
	directExtra := func(g *IG) []RetCase {
		var out []RetCase
		for _, rc := range g.ReturnCases() {
			if k, ok := constUint64(rc.Vals[0]); ok && k == extra {
				// (not where the request of a child's pass is handed on: under
				// `recursive call == extra`)
				handedOn := hasFact(g.CaseFacts(rc), func(f Fact) bool {
					return cmpMatch(f, token.EQL, func(v ssa.Value) bool {
						call, isCall := v.(*ssa.Call)
						return isCall && m.callee(call.Common()) == g.Fn
					}, func(v ssa.Value) bool { k, ok := constUint64(v); return ok && k == extra })
				})
				if !handedOn {
					out = append(out, rc)
				}
			}
		}
		return out
	}
	gr := newIG(m, reloc, nil)
	bad = ""
	n := 0
	for _, rc := range directExtra(gr) {
		n++
		if !gr.holdsInScenarios(rc.At, gr.CaseFacts(rc), func(facts []Fact, _ map[Edge]bool) bool {
			return hasFact(facts, func(f Fact) bool { return leConstFact(f, isField(passesF), maxP) })
		}) {
			bad = "relocateNamedObjects can ask for another pass although resolvePasses > maxResolvePasses"
		}
	}
	if n == 0 {
		bad = "relocateNamedObjects never asks for another pass (rule shape lost)"
	}
	c.check(bad == "", "C12.R4", "relocate-bound "+m.fnName(reloc), fmt.Sprintf("another pass is requested only under resolvePasses <= %d", maxP), bad, m.pos(reloc.Pos()))

	// (c) merge asks for another pass only in the first pass or when something was relocated
	gm := newIG(m, merge, nil)
	bad = ""
	n = 0
	for _, rn := range directExtra(gm) {
		n++
		var cut []Edge
		for _, f := range gm.AllEdgeFacts() {
			if leConstFact(f, isField(passesF), 1) ||
				cmpMatch(f, token.NEQ, isField(movedF), isZeroConst) || cmpMatch(f, token.GTR, isField(movedF), isZeroConst) {
				cut = append(cut, f.Edge)
			}
		}
		if !gm.holdsInScenarios(rn.At, nil, func(_ []Fact, sc map[Edge]bool) bool {
			es := append([]Edge(nil), cut...)
			for e := range sc {
				es = append(es, e)
			}
			return gm.UnreachableWithout(rn.At, es)
		}) {
			bad = "mergeScopeDirectives can ask for another pass although this is not the first pass and the previous relocate pass moved nothing: the loop never ends on an unresolvable Scope"
		}
	}
	if n == 0 {
		bad = "mergeScopeDirectives never asks for another pass (rule shape lost)"
	}
	c.check(bad == "", "C12.R4", "merge-progress "+m.fnName(merge), "another pass is requested only when resolvePasses <= 1 or relocatedObjects != 0", bad, m.pos(merge.Pos()))

	// (d) the progress counter is reset for every pass and only incremented otherwise
	bad = ""
	resetPerPass := false
	for _, fs := range m.storesToField(movedF) {
		fn := fs.Fn
		switch {
		case isZeroConst(fs.Store.Val):
			gg := scanIG(m, fn, nil)
			sn := gg.Idx[fs.Store]
			if fn == reloc {
				idx := paramNamed(reloc, "objIndex")
				if hasFact(gg.FactsAt(sn), func(f Fact) bool {
					return cmpMatch(f, token.EQL, func(v ssa.Value) bool { return v == ssa.Value(idx) }, isZeroConst)
				}) {
					// before any increment / recursion on the objIndex == 0 paths
					early := true
					for _, k := range storeNodes(gg, movedF) {
						if k != sn && gg.Reach(gg.Succ[k], nil, nil)[sn] {
							early = false
						}
					}
					if early {
						resetPerPass = true
					}
				}
			}
			if fn == parse && body != nil && body[fs.Store.Block()] {
				// reset inside the loop, before the relocate call of the iteration
				if ok, _ := g.MustPassBefore(rc[0], func(k int) bool { return k == g.Idx[fs.Store] }); ok {
					resetPerPass = true
				}
				// ... and after mergeScopeDirectives of the same iteration, which
				// reads what the previous relocate pass counted
				if hdr != nil {
					sn := g.Idx[fs.Store]
					if p := g.Path([]int{g.First[hdr]}, nil, func(k int) bool { return k == mc[0] }, func(k int) bool { return k == sn }); p != nil {
						bad = "relocatedObjects is reset before mergeScopeDirectives has looked at the count of the previous relocate pass: an unresolved Scope is given up although objects were still being relocated (a valid table that needs another pass is rejected)"
					}
				}
			}
		default:
			b, ok := fs.Store.Val.(*ssa.BinOp)
			if !ok || b.Op != token.ADD || !isLoadOfField(b.X, movedF) {
				bad = "relocatedObjects is written with something other than 0 or +1 in " + m.fnName(fn)
			} else if fn != reloc {
				bad = "relocatedObjects is incremented outside relocateNamedObjects"
			}
		}
	}
	if bad == "" && !resetPerPass {
		bad = "relocatedObjects is not reset at the start of every relocate pass: relocations of earlier passes keep mergeScopeDirectives asking for one more pass forever"
	}
	c.check(bad == "", "C12.R4", "progress-reset "+m.fnName(reloc), "relocatedObjects = 0 at the start of each pass (objIndex == 0), +1 per relocation", bad, m.pos(reloc.Pos()))
}

// C12.R5: an object that is already part of the tree may be moved (detach +
// append) under a parent that was found by *name lookup* only if the new parent
// is not the object itself or one of its descendants; otherwise the tree becomes
// a cycle and every recursive walk (the resolve passes themselves, printing)
// runs until the stack is exhausted. Structural form: between the lookup and
// the move there is a walk from the new parent up the parentIndex chain that
// compares each ancestor with the moved object, and the "equal" outcome cannot
// reach the move.
func c12MoveAcyclic(c *Ctx) {
	m := c.K
	const aml = "device/acpi/aml"
	c.floor("C12.R5", 1)
	find := m.lookupMethod(aml, "ObjectTree", "Find")
	detach := m.lookupMethod(aml, "ObjectTree", "detach")
	appendM := m.lookupMethod(aml, "ObjectTree", "append")
	objectAt := m.lookupMethod(aml, "ObjectTree", "ObjectAt")
	parentF := m.fieldOf(aml, "Object", "parentIndex")
	indexF := m.fieldOf(aml, "Object", "index")
	reloc := m.lookupMethod(aml, "Parser", "relocateNamedObjects")
	for name, v := range map[string]interface{}{"ObjectTree.Find": find, "ObjectTree.detach": detach, "ObjectTree.append": appendM, "ObjectTree.ObjectAt": objectAt,
		"Object.parentIndex": parentF, "Object.index": indexF, "Parser.relocateNamedObjects": reloc} {
		if isNilIface(v) {
			c.unresolved("C12.R5", name)
			return
		}
	}
	var derives func(v, src ssa.Value, depth int, seen map[ssa.Value]bool) bool
	derives = func(v, src ssa.Value, depth int, seen map[ssa.Value]bool) bool {
		if v == src {
			return true
		}
		if depth > 10 || v == nil || seen[v] {
			return false
		}
		seen[v] = true
		switch x := v.(type) {
		case *ssa.Phi:
			for _, e := range x.Edges {
				if derives(e, src, depth+1, seen) {
					return true
				}
			}
		case *ssa.Call:
			for _, a := range x.Common().Args {
				if derives(a, src, depth+1, seen) {
					return true
				}
			}
		case *ssa.UnOp:
			return derives(x.X, src, depth+1, seen)
		case *ssa.FieldAddr:
			return derives(x.X, src, depth+1, seen)
		case *ssa.Convert:
			return derives(x.X, src, depth+1, seen)
		case *ssa.ChangeType:
			return derives(x.X, src, depth+1, seen)
		case *ssa.Extract:
			return derives(x.Tuple, src, depth+1, seen)
		case *ssa.BinOp:
			return derives(x.X, src, depth+1, seen) || derives(x.Y, src, depth+1, seen)
		}
		return false
	}
	pkg := m.pkg(aml)
	nmoves := 0
	for _, fn := range m.scanFuncs() {
		if fn.Pkg != pkg {
			continue
		}
		g := scanIG(m, fn, nil)
		finds := g.callNodes(find)
		if len(finds) == 0 {
			continue
		}
		for _, an := range g.callNodes(appendM) {
			aargs := g.callArgs(an)
			if len(aargs) < 3 {
				continue
			}
			target, moved := aargs[1], aargs[2]
			// a move: the same object is detached before on every path
			isDetach := func(k int) bool {
				if !m.callsTo(g.Ins[k], detach) {
					return false
				}
				a := g.callArgs(k)
				return len(a) >= 3 && a[2] == moved
			}
			if ok, _ := g.MustPassBefore(an, isDetach); !ok {
				continue
			}
			// ... under a parent that comes from a name lookup
			var src ssa.Value
			for _, fnode := range finds {
				if fv, ok := g.Ins[fnode].(ssa.Value); ok && derives(target, fv, 0, map[ssa.Value]bool{}) {
					src = fv
				}
			}
			if src == nil {
				continue
			}
			// the moved object is the function's own subject (not a child that is
			// being handed to the found scope: moving the *contents* of a Scope
			// directive cannot close a cycle through the directive, which is freed)
			if fn != reloc {
				continue
			}
			nmoves++
			c.Evals++
			key := fmt.Sprintf("move-acyclic %s #%d", m.fnName(fn), nmoves)
			isMovedIndex := func(v ssa.Value) bool {
				v = stripConv(v)
				if b, f, ok := loadedField(v); ok && f == indexF && b == moved {
					return true
				}
				if call, ok := moved.(*ssa.Call); ok && m.callee(call.Common()) == objectAt && len(call.Common().Args) > 1 && call.Common().Args[1] == v {
					return true
				}
				return false
			}
			guarded := false
			for _, in := range g.Ins {
				w, ok := in.(*ssa.Phi)
				if !ok || !isIntegral(w.Type()) {
					continue
				}
				stepsUp, fromTarget := false, false
				for _, e := range w.Edges {
					if b, f, ok := loadedField(e); ok && f == parentF {
						if call, ok := b.(*ssa.Call); ok && m.callee(call.Common()) == objectAt && stripConv(call.Common().Args[1]) == ssa.Value(w) {
							stepsUp = true
							continue
						}
					}
					if derives(e, target, 0, map[ssa.Value]bool{}) || derives(e, src, 0, map[ssa.Value]bool{}) {
						fromTarget = true
					}
				}
				if !stepsUp || !fromTarget {
					continue
				}
				wn := g.Idx[w]
				if ok, _ := g.MustPassBefore(an, func(k int) bool { return k == wn }); !ok {
					continue
				}
				for _, f := range g.AllEdgeFacts() {
					if !cmpMatch(f, token.EQL, func(v ssa.Value) bool { return stripConv(v) == ssa.Value(w) }, isMovedIndex) {
						continue
					}
					if !g.ReachAssuming(f.Edge, nil)[an] {
						guarded = true
					}
				}
			}
			c.check(guarded, "C12.R5", key, "the new parent's ancestor chain is compared with the moved object before the move; an ancestor equal to it cannot reach the move",
				"an attached object is moved under a parent found by name lookup without checking that the parent is not the object itself or one of its descendants: a path such as AAAA.AAAA makes the tree a cycle and the resolve pass recurses until the stack overflows", g.posOf(an))
		}
	}
	if nmoves == 0 {
		c.fail("C12.R5", "move-acyclic aml", "no move of an attached object under a looked-up parent found in relocateNamedObjects (rule shape lost)")
	}
}

// leConstFact: the fact states v <= K for a v matched by pa: v <= k (k <= K) or
// v < k (k <= K+1), in either operand order.
func leConstFact(f Fact, pa func(ssa.Value) bool, K uint64) bool {
	return cmpMatch(f, token.LEQ, pa, func(v ssa.Value) bool { k, ok := constUint64(v); return ok && k <= K }) ||
		cmpMatch(f, token.LSS, pa, func(v ssa.Value) bool { k, ok := constUint64(v); return ok && k <= K+1 })
}
