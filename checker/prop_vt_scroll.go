package main

import (
	"fmt"
	"go/token"
	"strings"

	"golang.org/x/tools/go/ssa"
)

// scrollArmForms checks the buffer-scrolling arm of VT.lf: the viewport's lines
// [viewportY, viewportY+viewportHeight-1) are moved up by one line (stride =
// viewportWidth*3 bytes) and exactly the viewportWidth cells of the last
// viewport line are blanked with (' ', defaultFg, defaultBg).
//
// The loops are read in induction form (loops.go), and element addresses as
// absolute byte indices into VT.data (an index into a sub-slice data[lo:] is
// lo + index), so that the way the loops count and the way the elements are
// addressed do not matter:
//
//	move:  in iteration T, data[start+T] = data[start+stride+T], for end-start iterations
//	       (or one copy(data[start:end], data[start+stride:]))
//	clear: in iteration T, data[end + 3T + k] = (' ', defaultFg, defaultBg)[k], for viewportWidth iterations
//
// Returns a description of what is wrong for the move and for the clear ("" = ok).
func (x *vtx) scrollArmForms() (moveBad, clearBad, pairBad string) {
	m := x.m
	g := newIG(m, x.lf, nil)
	z := x.polyizer()
	vw, vY, vH := polyAtom("t.viewportWidth"), polyAtom("t.viewportY"), polyAtom("t.viewportHeight")
	stride := vw.mul(polyConst(3))
	start := vY.mul(stride)
	end := vY.add(vH, 1).add(polyConst(1), -1).mul(stride)
	isData := func(v ssa.Value) bool { return isLoadOfField(v, x.data) }
	// absIndex: the absolute index into VT.data of an element address
	var sliceBase func(v ssa.Value, depth int) (Poly, bool)
	sliceBase = func(v ssa.Value, depth int) (Poly, bool) {
		if depth > 4 {
			return nil, false
		}
		if isData(v) {
			return Poly{}, true
		}
		if sl, ok := v.(*ssa.Slice); ok {
			base, ok := sliceBase(sl.X, depth+1)
			if !ok {
				return nil, false
			}
			if sl.Low != nil {
				base = base.add(z.Of(sl.Low), 1)
			}
			return base, true
		}
		if phi, ok := v.(*ssa.Phi); ok {
			// a sub-slice that is advanced in a loop (cells = cells[3:]) is not an absolute index
			_ = phi
		}
		return nil, false
	}
	absIndex := func(ia *ssa.IndexAddr) (Poly, bool) {
		base, ok := sliceBase(ia.X, 0)
		if !ok {
			return nil, false
		}
		return base.add(z.Of(ia.Index), 1), true
	}
	one := func(p Poly) bool { k, ok := p.isConst(); return ok && k == 1 }
	// the blocks of a loop, with the blocks it is entered from (a rotated loop's
	// entry guard sits there)
	moveBlocks, clearBlocks := map[*ssa.BasicBlock]bool{}, map[*ssa.BasicBlock]bool{}
	region := func(set map[*ssa.BasicBlock]bool, lf *LoopForm) {
		set[lf.Header] = true
		for b := range lf.Body {
			set[b] = true
		}
		if !(lf.Exit >= 0 && g.Ins[lf.Exit].Block() == lf.Header) {
			for _, p := range lf.Header.Preds {
				set[p] = true
			}
		}
	}
	// ---- the move
	moves := 0
	for n, in := range g.Ins {
		switch t := in.(type) {
		case *ssa.Store:
			da, ok := t.Addr.(*ssa.IndexAddr)
			if !ok {
				continue
			}
			if _, ok := sliceBase(da.X, 0); !ok {
				continue
			}
			ld, ok := t.Val.(*ssa.UnOp)
			if !ok || ld.Op != token.MUL {
				continue
			}
			sa, ok := ld.X.(*ssa.IndexAddr)
			if !ok {
				continue
			}
			if _, ok := sliceBase(sa.X, 0); !ok {
				continue
			}
			moves++
			lf, inLoop := g.loopFormAt(z, t.Block())
			if !inLoop {
				moveBad = "the scroll copies one element outside a loop"
				continue
			}
			dst, okd := absIndex(da)
			src, oks := absIndex(sa)
			var d0, dStep, s0, sStep Poly
			okA := okd && oks
			if okA {
				var ok1, ok2 bool
				d0, dStep, ok1 = splitT(dst)
				s0, sStep, ok2 = splitT(src)
				okA = ok1 && ok2
			}
			trips, tripsOK := lf.Trips, lf.TripsOK
			region(moveBlocks, lf)
			lf.Done()
			switch {
			case !okA || !one(dStep) || !one(sStep):
				moveBad = "the scroll copies with indices that do not advance by one byte per iteration"
			case !s0.equal(d0.add(stride, 1)):
				moveBad = "the scroll copies from " + s0.String() + " to " + d0.String() + "; the source must be one line (viewportWidth*3 bytes) below the destination"
			case !d0.equal(start):
				moveBad = "the scroll starts at " + d0.String() + ", expected the first byte of the viewport's first line (" + start.String() + "): lines of the scrollback above the viewport must not move"
			case !tripsOK || !trips.equal(end.add(start, -1)):
				moveBad = "the scroll does not stop at the first byte of the viewport's last line (" + end.String() + ")"
			}
			_ = n
		case *ssa.Call:
			bi, ok := t.Common().Value.(*ssa.Builtin)
			if !ok || bi.Name() != "copy" {
				continue
			}
			d, ok1 := t.Common().Args[0].(*ssa.Slice)
			s, ok2 := t.Common().Args[1].(*ssa.Slice)
			if !ok1 || !ok2 || !isData(d.X) || !isData(s.X) {
				continue
			}
			moves++
			moveBlocks[t.Block()] = true
			lo := polyConst(0)
			if d.Low != nil {
				lo = z.Of(d.Low)
			}
			var hi Poly
			if d.High != nil {
				hi = z.Of(d.High)
			}
			slo := polyConst(0)
			if s.Low != nil {
				slo = z.Of(s.Low)
			}
			switch {
			case !lo.equal(start):
				moveBad = "the scroll moves the buffer from offset " + lo.String() + ", expected the first byte of the viewport's first line (" + start.String() + "): lines of the scrollback above the viewport must not move"
			case hi == nil || !hi.equal(end):
				moveBad = "the scroll does not stop at the first byte of the viewport's last line (" + end.String() + ")"
			case !slo.equal(lo.add(stride, 1)):
				moveBad = "the scroll source does not start one line below its destination"
			}
		}
	}
	if moves == 0 {
		moveBad = "lf no longer moves the viewport's lines up when the scrollback is used up"
	} else if moves > 1 && moveBad == "" {
		moveBad = "the buffer is moved more than once per line feed"
	}
	// ---- the clear: stores of something other than a buffer element into the buffer
	type clr struct {
		first Poly // absolute index in iteration 0
		step  Poly
		val   string
		trips Poly
		ok    bool
	}
	var clears []clr
	for _, in := range g.Ins {
		st, ok := in.(*ssa.Store)
		if !ok {
			continue
		}
		ia, ok := st.Addr.(*ssa.IndexAddr)
		if !ok {
			continue
		}
		if _, ok := sliceBase(ia.X, 0); !ok {
			continue
		}
		if a, ok := loadAddr(st.Val); ok {
			if sa, isIdx := a.(*ssa.IndexAddr); isIdx {
				if _, isBuf := sliceBase(sa.X, 0); isBuf {
					continue // the move
				}
			}
		}
		val := "?"
		if k, ok := constInt64(st.Val); ok {
			val = fmt.Sprintf("%d", k)
		} else if isLoadOfField(st.Val, x.defaultFg) {
			val = "defaultFg"
		} else if isLoadOfField(st.Val, x.defaultBg) {
			val = "defaultBg"
		}
		cl := clr{val: val}
		if lf, inLoop := g.loopFormAt(z, st.Block()); inLoop {
			if abs, ok := absIndex(ia); ok {
				cl.first, cl.step, cl.ok = splitT(abs)
			}
			cl.trips = lf.Trips
			cl.ok = cl.ok && lf.TripsOK
			region(clearBlocks, lf)
			lf.Done()
		}
		clears = append(clears, cl)
	}
	// ---- the pairing: the lines are moved and the last line is blanked on
	// exactly the same paths through lf
	if len(moveBlocks) > 0 && len(clearBlocks) > 0 {
		in := func(set map[*ssa.BasicBlock]bool) func(int) bool {
			return func(n int) bool { b := g.Ins[n].Block(); return b != nil && g.Ins[n].Parent() == x.lf && set[b] }
		}
		isMove, isClear, ret := in(moveBlocks), in(clearBlocks), isRet(g)
		some := func(set map[*ssa.BasicBlock]bool) []int {
			var out []int
			for n := range g.Ins {
				if in(set)(n) {
					out = append(out, n)
				}
			}
			return out
		}
		if p := g.Path(some(moveBlocks), nil, isClear, func(n int) bool { return !isClear(n) && ret(n) }); p != nil {
			pairBad = "after the viewport's lines were moved up lf can return without blanking the new last line (" + strings.Join(g.where(p, 6), " ") + ")"
		} else if p := g.Path(append(x.storesOf(g, x.viewportY), x.storesOf(g, x.cursorY)...), nil, nil, isClear); p != nil {
			pairBad = "a viewport line is blanked after the cursor or the viewport was moved down, where nothing scrolls out of the buffer (" + strings.Join(g.where(p, 6), " ") + ")"
		}
		_ = isMove
	}
	want := map[int64]string{0: "32", 1: "defaultFg", 2: "defaultBg"}
	if len(clears) != 3 {
		clearBad = fmt.Sprintf("the new last line is blanked with %d stores per cell, expected (' ', defaultFg, defaultBg)", len(clears))
		return
	}
	for _, cl := range clears {
		if !cl.ok {
			clearBad = "the last line is blanked with an index that is not a loop variable"
			return
		}
		off, isC := cl.first.add(end, -1).isConst()
		three, isS := cl.step.isConst()
		switch {
		case !isC || off < 0 || off > 2:
			clearBad = "the blanking does not start at the first byte of the viewport's last line (" + end.String() + ") in steps of one cell"
		case !isS || three != 3:
			clearBad = "the blanking does not advance by one cell (3 bytes) per iteration"
		case want[off] != cl.val:
			clearBad = fmt.Sprintf("byte %d of a blanked cell is %s, expected %s", off, cl.val, want[off])
		case !cl.trips.equal(vw):
			clearBad = "the blanking covers " + cl.trips.String() + " cell(s) of the new last line, expected t.viewportWidth: the remaining cells keep stale characters while the console row is cleared completely"
		}
		if clearBad != "" {
			return
		}
	}
	seen := map[string]bool{}
	for _, cl := range clears {
		seen[cl.val] = true
	}
	if len(seen) != 3 {
		clearBad = "a blanked cell does not get all of (' ', defaultFg, defaultBg)"
	}
	return
}
