package main

import (
	"fmt"
	"go/token"

	"golang.org/x/tools/go/ssa"
)

// scrollArmForms checks the buffer-scrolling arm of VT.lf: the viewport's lines
// [viewportY, viewportY+viewportHeight-1) are moved up by one line (stride =
// viewportWidth*3 bytes) and exactly the viewportWidth cells of the last
// viewport line are blanked with (' ', defaultFg, defaultBg). Two idioms are
// accepted for the move: the byte loop data[o] = data[o+stride] for o in
// [start, end), or copy(data[start:end], data[start+stride:...]). Returns a
// description of what is wrong for the move and for the clear ("" = ok).
func (x *vtx) scrollArmForms() (moveBad, clearBad string) {
	m := x.m
	g := newIG(m, x.lf, nil)
	z := x.polyizer()
	vw, vY, vH := polyAtom("t.viewportWidth"), polyAtom("t.viewportY"), polyAtom("t.viewportHeight")
	stride := vw.mul(polyConst(3))
	start := vY.mul(stride)
	end := vY.add(vH, 1).add(polyConst(1), -1).mul(stride)
	isData := func(v ssa.Value) bool { return isLoadOfField(v, x.data) }
	phiInitStep := func(phi *ssa.Phi) (init Poly, step int64, ok bool) {
		ok = true
		gotInit, gotStep := false, false
		for _, e := range phi.Edges {
			if b, isB := e.(*ssa.BinOp); isB && b.Op == token.ADD && b.X == ssa.Value(phi) {
				if k, isC := constInt64(b.Y); isC {
					step, gotStep = k, true
					continue
				}
			}
			init, gotInit = z.Of(e), true
		}
		return init, step, ok && gotInit && gotStep
	}
	guardBound := func(n int, phi *ssa.Phi) (Poly, token.Token, bool) {
		for _, f := range g.FactsAt(n) {
			if f.Y != nil && f.X == ssa.Value(phi) && (f.Op == token.LSS || f.Op == token.LEQ) {
				return z.Of(f.Y), f.Op, true
			}
		}
		return nil, 0, false
	}
	// ---- the move
	moves := 0
	for n, in := range g.Ins {
		switch t := in.(type) {
		case *ssa.Store:
			ia, ok := t.Addr.(*ssa.IndexAddr)
			if !ok || !isData(ia.X) {
				continue
			}
			ld, ok := t.Val.(*ssa.UnOp)
			if !ok || ld.Op != token.MUL {
				continue
			}
			sa, ok := ld.X.(*ssa.IndexAddr)
			if !ok || !isData(sa.X) {
				continue
			}
			moves++
			phi, ok := stripConv(ia.Index).(*ssa.Phi)
			if !ok {
				moveBad = "the scroll copies with an index that is not a loop variable"
				continue
			}
			dst, src := z.Of(ia.Index), z.Of(sa.Index)
			init, step, ok := phiInitStep(phi)
			bound, op, okb := guardBound(n, phi)
			switch {
			case !src.equal(dst.add(stride, 1)):
				moveBad = "the scroll copies from " + src.String() + " to " + dst.String() + "; the source must be one line (viewportWidth*3 bytes) below the destination"
			case !ok || step != 1 || !init.equal(start):
				moveBad = "the scroll starts at " + fmt.Sprint(init) + ", expected the first byte of the viewport's first line (" + start.String() + "): lines of the scrollback above the viewport must not move"
			case !okb || op != token.LSS || !bound.equal(end):
				moveBad = "the scroll does not stop at the first byte of the viewport's last line (" + end.String() + ")"
			}
		case *ssa.Call:
			bi, ok := t.Common().Value.(*ssa.Builtin)
			if !ok || bi.Name() != "copy" {
				continue
			}
			d, ok1 := t.Common().Args[0].(*ssa.Slice)
			s, ok2 := t.Common().Args[1].(*ssa.Slice)
			if !ok1 || !ok2 || !isData(d.X) || !isData(s.X) {
				continue
			}
			moves++
			lo := polyConst(0)
			if d.Low != nil {
				lo = z.Of(d.Low)
			}
			var hi Poly
			if d.High != nil {
				hi = z.Of(d.High)
			}
			slo := polyConst(0)
			if s.Low != nil {
				slo = z.Of(s.Low)
			}
			switch {
			case !lo.equal(start):
				moveBad = "the scroll moves the buffer from offset " + lo.String() + ", expected the first byte of the viewport's first line (" + start.String() + "): lines of the scrollback above the viewport must not move"
			case hi == nil || !hi.equal(end):
				moveBad = "the scroll does not stop at the first byte of the viewport's last line (" + end.String() + ")"
			case !slo.equal(lo.add(stride, 1)):
				moveBad = "the scroll source does not start one line below its destination"
			}
		}
	}
	if moves == 0 {
		moveBad = "lf no longer moves the viewport's lines up when the scrollback is used up"
	} else if moves > 1 && moveBad == "" {
		moveBad = "the buffer is moved more than once per line feed"
	}
	// ---- the clear
	type clr struct {
		off int64
		val string
	}
	var clears []clr
	var clearPhi *ssa.Phi
	var clearNode int
	for n, in := range g.Ins {
		st, ok := in.(*ssa.Store)
		if !ok {
			continue
		}
		ia, ok := st.Addr.(*ssa.IndexAddr)
		if !ok || !isData(ia.X) {
			continue
		}
		if _, isLoad := st.Val.(*ssa.UnOp); isLoad {
			if a, ok := loadAddr(st.Val); ok {
				if _, isIdx := a.(*ssa.IndexAddr); isIdx {
					continue // the move
				}
			}
		}
		idx := z.Of(ia.Index)
		var phi *ssa.Phi
		off := int64(0)
		// idx = phi + const
		for k, v := range idx {
			if k == "" {
				off = v
			}
		}
		base := idx.add(polyConst(off), -1)
		name, ok := base.singleAtom()
		if ok {
			for _, ins := range g.Ins {
				if p, isPhi := ins.(*ssa.Phi); isPhi && z.defaultAtom(p) == name {
					phi = p
				}
			}
		}
		if phi == nil {
			clearBad = "the last line is blanked with an index that is not a loop variable"
			continue
		}
		clearPhi, clearNode = phi, n
		val := "?"
		if k, ok := constInt64(st.Val); ok {
			val = fmt.Sprintf("%d", k)
		} else if isLoadOfField(st.Val, x.defaultFg) {
			val = "defaultFg"
		} else if isLoadOfField(st.Val, x.defaultBg) {
			val = "defaultBg"
		}
		clears = append(clears, clr{off, val})
	}
	want := map[int64]string{0: "32", 1: "defaultFg", 2: "defaultBg"}
	if len(clears) != 3 {
		if clearBad == "" {
			clearBad = fmt.Sprintf("the new last line is blanked with %d stores per cell, expected (' ', defaultFg, defaultBg)", len(clears))
		}
		return
	}
	for _, cl := range clears {
		if want[cl.off] != cl.val && clearBad == "" {
			clearBad = fmt.Sprintf("byte %d of a blanked cell is %s, expected %s", cl.off, cl.val, want[cl.off])
		}
	}
	if clearBad != "" {
		return
	}
	init, step, ok := phiInitStep(clearPhi)
	if !ok || step != 3 || !init.equal(end) {
		clearBad = "the blanking does not start at the first byte of the viewport's last line (" + end.String() + ") in steps of one cell"
		return
	}
	// number of cells: guard on the offset itself, or on a companion counter of the same loop
	if bound, op, ok := guardBound(clearNode, clearPhi); ok {
		if op != token.LSS || !bound.equal(end.add(stride, 1)) {
			clearBad = "the blanking stops at " + bound.String() + ", expected the end of the last line (" + end.add(stride, 1).String() + "): exactly viewportWidth cells must be blanked"
		}
		return
	}
	cells := ""
	for _, in := range clearPhi.Block().Instrs {
		p, ok := in.(*ssa.Phi)
		if !ok || p == clearPhi {
			continue
		}
		ci, cs, ok := phiInitStep(p)
		if !ok || cs != 1 {
			continue
		}
		if bound, op, ok := guardBound(clearNode, p); ok {
			n := bound.add(ci, -1)
			if op == token.LEQ {
				n = n.add(polyConst(1), 1)
			}
			cells = n.String()
		}
	}
	if cells != vw.String() {
		clearBad = "the blanking covers " + cells + " cell(s) of the new last line, expected t.viewportWidth: the remaining cells keep stale characters while the console row is cleared completely"
	}
	return
}
