package main

import (
	"go/token"
	"go/types"

	"golang.org/x/tools/go/ssa"
)

// Index-range obligations decided by linear reasoning over the tests that
// dominate an access. Every dominating comparison of integers is a linear
// inequality P >= 0 over the polynomial atoms; a counter that starts at c and
// only counts up gives atom - c >= 0; a length is >= 0. An access s[i] needs
// len(s) - i - 1 >= 0 and i >= 0; it is proved when the goal is a non-negative
// constant plus a sum of at most three of the known inequalities.

type linFact struct {
	p Poly // p >= 0
}

func (g *IG) linearFacts(z *Polyizer, n int) []linFact {
	var out []linFact
	add := func(p Poly) { out = append(out, linFact{p}) }
	for _, f := range g.FactsAt(n) {
		if f.Y == nil || !isIntegral(f.X.Type()) || !isIntegral(f.Y.Type()) {
			continue
		}
		x, y := z.Of(f.X), z.Of(f.Y)
		switch f.Op {
		case token.LSS:
			add(y.add(x, -1).add(polyConst(1), -1))
		case token.LEQ:
			add(y.add(x, -1))
		case token.GTR:
			add(x.add(y, -1).add(polyConst(1), -1))
		case token.GEQ:
			add(x.add(y, -1))
		case token.EQL:
			add(x.add(y, -1))
			add(y.add(x, -1))
		case token.NEQ:
			// v != 0 for a value that cannot be negative: v >= 1
			for _, pr := range [][2]ssa.Value{{f.X, f.Y}, {f.Y, f.X}} {
				if isZeroConst(pr[1]) && nonNegative(pr[0]) {
					add(z.Of(pr[0]).add(polyConst(1), -1))
				}
			}
		}
	}
	return out
}

// nonNegative: an unsigned value, a len/cap, or a counter that starts at a
// non-negative constant and only counts up.
func nonNegative(v ssa.Value) bool {
	v = stripConv(v)
	if b, ok := v.Type().Underlying().(*types.Basic); ok && b.Info()&types.IsUnsigned != 0 {
		return true
	}
	if call, ok := v.(*ssa.Call); ok {
		if bi, ok := call.Common().Value.(*ssa.Builtin); ok && (bi.Name() == "len" || bi.Name() == "cap") {
			return true
		}
	}
	if lo, ok := ivLowerBound(v); ok && lo >= 0 {
		return true
	}
	if k, ok := constInt64(v); ok && k >= 0 {
		return true
	}
	return false
}

// atomFacts: atom >= lower bound for the values that occur in the goal.
func atomFacts(z *Polyizer, vals []ssa.Value) []linFact {
	var out []linFact
	seen := map[ssa.Value]bool{}
	var walk func(v ssa.Value, d int)
	walk = func(v ssa.Value, d int) {
		if v == nil || seen[v] || d > 6 {
			return
		}
		seen[v] = true
		if isIntegral(v.Type()) {
			if lo, ok := ivLowerBound(stripConv(v)); ok {
				out = append(out, linFact{z.Of(v).add(polyConst(lo), -1)})
			} else if nonNegative(v) {
				out = append(out, linFact{z.Of(v)})
			}
		}
		switch x := v.(type) {
		case *ssa.BinOp:
			walk(x.X, d+1)
			walk(x.Y, d+1)
		case *ssa.Convert:
			walk(x.X, d+1)
		case *ssa.ChangeType:
			walk(x.X, d+1)
		}
	}
	for _, v := range vals {
		walk(v, 0)
	}
	return out
}

// provable: goal >= 0 follows from at most three of the facts.
func provable(goal Poly, facts []linFact) bool {
	nonNegConst := func(p Poly) bool {
		k, ok := p.isConst()
		return ok && k >= 0
	}
	if nonNegConst(goal) {
		return true
	}
	for i := range facts {
		g1 := goal.add(facts[i].p, -1)
		if nonNegConst(g1) {
			return true
		}
		for j := i; j < len(facts); j++ {
			g2 := g1.add(facts[j].p, -1)
			if nonNegConst(g2) {
				return true
			}
			for k := j; k < len(facts); k++ {
				if nonNegConst(g2.add(facts[k].p, -1)) {
					return true
				}
			}
		}
	}
	return false
}

// indexObligations lists the element accesses and re-slicings of base (a slice
// or array value, or a pointer to an array) in the graph, with a verdict each.
type idxObl struct {
	n    int
	what string
	ok   bool
}

func (g *IG) indexObligations(z *Polyizer, isBase func(ssa.Value) bool, lenOf func(ssa.Value) (Poly, bool)) []idxObl {
	var out []idxObl
	for n, in := range g.Ins {
		switch x := in.(type) {
		case *ssa.IndexAddr:
			if !isBase(x.X) {
				continue
			}
			lp, ok := lenOf(x.X)
			if !ok {
				out = append(out, idxObl{n, "index " + x.Index.Name(), false})
				continue
			}
			facts := append(g.linearFacts(z, n), atomFacts(z, []ssa.Value{x.Index})...)
			facts = append(facts, linFact{lp})
			i := z.Of(x.Index)
			upper := provable(lp.add(i, -1).add(polyConst(1), -1), facts)
			lower := provable(i, facts)
			out = append(out, idxObl{n, "element " + i.String() + " of length " + lp.String(), upper && lower})
		case *ssa.Slice:
			if !isBase(x.X) {
				continue
			}
			lp, ok := lenOf(x.X)
			if !ok {
				out = append(out, idxObl{n, "slice", false})
				continue
			}
			var vals []ssa.Value
			if x.Low != nil {
				vals = append(vals, x.Low)
			}
			if x.High != nil {
				vals = append(vals, x.High)
			}
			facts := append(g.linearFacts(z, n), atomFacts(z, vals)...)
			facts = append(facts, linFact{lp})
			okAll := true
			lo := Poly{}
			if x.Low != nil {
				lo = z.Of(x.Low)
				okAll = okAll && provable(lo, facts)
			}
			hi := lp
			if x.High != nil {
				hi = z.Of(x.High)
				okAll = okAll && provable(lp.add(hi, -1), facts) // (cap >= len)
			}
			okAll = okAll && provable(hi.add(lo, -1), facts)
			out = append(out, idxObl{n, "slice [" + lo.String() + ":" + hi.String() + "] of length " + lp.String(), okAll})
		}
	}
	return out
}
