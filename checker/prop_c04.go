package main

import (
	"fmt"
	"go/token"
	"go/types"
	"strings"

	"golang.org/x/tools/go/ssa"
)

func init() {
	register(&Property{
		ID: "C04", NeedKernel: true, Run: runC04,
		Explanation: "Page-table operation structure decided on SSA: (R1) at the last level Map's walker does *pte = 0, SetFrame(frame), SetFlags(flags) with exactly " +
			"Map's own parameters and nothing else, Unmap's walker only ClearFlags(FlagPresent); (R2) every leaf-level entry write in Map, Unmap and the page-fault " +
			"handler is followed on all paths by a TLB flush of the address of the page being changed, and every write of the recursive entry in " +
			"PageDirectoryTable.Map/Unmap by a flush of that entry's address; (R3) with the two `active != pdt.pdtFrame` tests correlated: on the inactive scenario " +
			"every path does SetFrame(entry, pdt.pdtFrame), flush, inner operation, SetFrame(entry, active frame), flush; on the active scenario the entry is never " +
			"written; both return the inner operation's error; (R4) on the not-present path AllocFrame's error returns false with no entry write, otherwise " +
			"*pte = 0, SetFrame(new frame), SetFlags(Present|RW), Memset(next table, 0, PageSize), continue; (R5) Map/Unmap return the walker's error cell unmodified; " +
			"(R6) MapRegion/IdentityMapRegion map exactly cdiv(size, 4096) pages, page and frame advance together by one, flags pass unchanged, first error returned; " +
			"(R7) the paging geometry constants satisfy shifts[i] = 12 + bits of all lower levels, one page per table, 48 translated bits, the recursive slot 511/511/511/511 " +
			"and the temporary page 510/511/511/511, and walk computes entry = tableAddr + ((virt >> shifts[level]) & (2^bits[level] - 1)) * 8, next table = entry << bits[level], " +
			"starting at pdtVirtualAddr, stopping when the walker returns false.",
		EnumRule:    "obligations per rule and construct",
		Assumptions: []string{"that the structure R7 decides implements the x86-64 recursive-mapping scheme is the standard argument and is not mechanised; 'other pages unchanged' is not decided"},
		Controls: []Control{
			{Name: "a page of an identity region skipped", File: "kernel/mm/vmm/map.go", Old: "\tfor curPage := startPage; curPage < startPage+pageCount; curPage++ {\n\t\tif err := mapFn(curPage, mm.Frame(curPage), flags); err != nil {", New: "\tfor curPage := startPage; curPage < startPage+pageCount; curPage++ {\n\t\tif flags == 0 && curPage > startPage {\n\t\t\tcontinue\n\t\t}\n\t\tif err := mapFn(curPage, mm.Frame(curPage), flags); err != nil {", Expect: "C04.R6 region-helper mm/vmm.IdentityMapRegion"},
			{Name: "identity region with an inclusive last page (seed C07-13)", File: "kernel/mm/vmm/map.go", Old: "\tpageCount := mm.Page(((size + (mm.PageSize - 1)) & ^(mm.PageSize - 1)) >> mm.PageShift)\n\n\tfor curPage := startPage; curPage < startPage+pageCount; curPage++ {\n\t\tif err := mapFn(curPage, mm.Frame(curPage), flags); err != nil {", New: "\tlastPage := mm.PageFromAddress(startFrame.Address() + size - 1)\n\n\tfor curPage := startPage; curPage <= lastPage; curPage++ {\n\t\tif err := mapFn(curPage, mm.Frame(curPage), flags); err != nil {", Expect: "C04.R6 region-helper mm/vmm.IdentityMapRegion"},
			{Name: "identity page count as last page index plus one", File: "kernel/mm/vmm/map.go", Old: "\tpageCount := mm.Page(((size + (mm.PageSize - 1)) & ^(mm.PageSize - 1)) >> mm.PageShift)\n", New: "\tpageCount := mm.Page((size-1)>>mm.PageShift) + 1\n", Expect: "C04.R6"},
			{Name: "delete *pte = 0 at the leaf", File: "kernel/mm/vmm/map.go", Old: "\t\t\t*pte = 0\n\t\t\tpte.SetFrame(frame)\n", New: "\t\t\tpte.SetFrame(frame)\n", Expect: "C04.R1"},
			{Name: "delete the flush in Unmap", File: "kernel/mm/vmm/map.go", Old: "\t\t\tpte.ClearFlags(FlagPresent)\n\t\t\tflushTLBEntryFn(page.Address())\n", New: "\t\t\tpte.ClearFlags(FlagPresent)\n", Expect: "C04.R2"},
			{Name: "delete the restore block in PDT.Map", File: "kernel/mm/vmm/pdt.go",
				Old: "\terr := mapFn(page, frame, flags)\n\n\tif activePdtFrame != pdt.pdtFrame {\n\t\tlastPdtEntry.SetFrame(activePdtFrame)\n\t\tflushTLBEntryFn(lastPdtEntryAddr)\n\t}\n", New: "\terr := mapFn(page, frame, flags)\n", Expect: "C04.R3"},
			{Name: "restore with pdt.pdtFrame", File: "kernel/mm/vmm/pdt.go",
				Old: "\terr := unmapFn(page)\n\n\tif activePdtFrame != pdt.pdtFrame {\n\t\tlastPdtEntry.SetFrame(activePdtFrame)", New: "\terr := unmapFn(page)\n\n\tif activePdtFrame != pdt.pdtFrame {\n\t\tlastPdtEntry.SetFrame(pdt.pdtFrame)", Expect: "C04.R3"},
			{Name: "delete the Memset of a new table", File: "kernel/mm/vmm/map.go", Old: "\t\t\tkernel.Memset(nextAddrFn(nextTableAddr), 0, mm.PageSize)\n", New: "\t\t\t_ = nextTableAddr\n", Expect: "C04.R4"},
			{Name: "leaf flags forced RW", File: "kernel/mm/vmm/map.go", Old: "\t\t\tpte.SetFlags(flags)\n\t\t\tflushTLBEntryFn", New: "\t\t\tpte.SetFlags(flags | FlagRW)\n\t\t\tflushTLBEntryFn", Expect: "C04.R1"},
			{Name: "allocation error swallowed", File: "kernel/mm/vmm/map.go", Old: "\t\t\tnewTableFrame, err = mm.AllocFrame()\n\t\t\tif err != nil {\n\t\t\t\treturn false\n\t\t\t}\n", New: "\t\t\tnewTableFrame, err = mm.AllocFrame()\n\t\t\tif err != nil {\n\t\t\t\terr = nil\n\t\t\t\treturn false\n\t\t\t}\n", Expect: "C04.R"},
			{Name: "MapRegion frame not advanced", File: "kernel/mm/vmm/map.go", Old: "pageCount, page, frame = pageCount-1, page+1, frame+1 {", New: "pageCount, page = pageCount-1, page+1 {", Expect: "C04.R6"},
			{Name: "IdentityMapRegion rounds down", File: "kernel/mm/vmm/map.go", Old: "pageCount := mm.Page(((size + (mm.PageSize - 1)) & ^(mm.PageSize - 1)) >> mm.PageShift)", New: "pageCount := mm.Page(size >> mm.PageShift)", Expect: "C04.R6"},
			{Name: "flush of the wrong page", File: "kernel/mm/vmm/map.go", Old: "\t\t\tpte.SetFlags(flags)\n\t\t\tflushTLBEntryFn(page.Address())", New: "\t\t\tpte.SetFlags(flags)\n\t\t\tflushTLBEntryFn(frame.Address())", Expect: "C04.R2"},
			{Name: "level shift table off by one level", File: "kernel/mm/vmm/vmm_constants_amd64.go", Old: "\t\t39,\n\t\t30,\n\t\t21,\n\t\t12,\n", New: "\t\t39,\n\t\t30,\n\t\t20,\n\t\t12,\n", Expect: "C04.R7"},
			{Name: "walk scales the index by 4", File: "kernel/mm/vmm/pdt.go", Old: "entryAddr = tableAddr + (entryIndex << mm.PointerShift)", New: "entryAddr = tableAddr + (entryIndex << 2)", Expect: "C04.R7"},
			{Name: "temp mapping aliases the recursive slot", File: "kernel/mm/vmm/vmm_constants_amd64.go", Old: "tempMappingAddr = uintptr(0Xffffff7ffffff000)", New: "tempMappingAddr = uintptr(0Xfffffffffffff000)", Expect: "C04.R7"},
			{Name: "swap without flush", File: "kernel/mm/vmm/pdt.go", Old: "\t\tlastPdtEntry.SetFrame(pdt.pdtFrame)\n\t\tflushTLBEntryFn(lastPdtEntryAddr)\n\t}\n\n\terr := mapFn(page, frame, flags)", New: "\t\tlastPdtEntry.SetFrame(pdt.pdtFrame)\n\t}\n\n\terr := mapFn(page, frame, flags)", Expect: "C04.R"},
		},
	})
}

type c04 struct {
	*c06             // reuse anchors of C06 (same package)
	pdtMap, pdtUnmap *ssa.Function
	levels           uint64
	flagHuge         uint64
}

func runC04(c *Ctx) {
	m := c.K
	base := &c06{c: c, m: m, guardOK: map[*ssa.Function]bool{}}
	const vmm = "mm/vmm"
	base.mapFn, base.mapTemp, base.unmap, base.walk = m.lookupFunc(vmm, "Map"), m.lookupFunc(vmm, "MapTemporary"), m.lookupFunc(vmm, "Unmap"), m.lookupFunc(vmm, "walk")
	base.pfh = m.lookupFunc(vmm, "pageFaultHandler")
	base.setFrame, base.setFlags = m.lookupMethod(vmm, "pageTableEntry", "SetFrame"), m.lookupMethod(vmm, "pageTableEntry", "SetFlags")
	base.clearFlags, base.hasFlags = m.lookupMethod(vmm, "pageTableEntry", "ClearFlags"), m.lookupMethod(vmm, "pageTableEntry", "HasFlags")
	base.allocFrame, base.memset, base.flush = m.lookupFunc("mm", "AllocFrame"), m.lookupFunc("", "Memset"), m.lookupFunc("cpu", "FlushTLBEntry")
	base.activePDT = m.lookupFunc("cpu", "ActivePDT")
	base.pte = m.lookupType(vmm, "pageTableEntry")
	base.pdtFrameF = m.fieldOf(vmm, "PageDirectoryTable", "pdtFrame")
	x := &c04{c06: base}
	x.pdtMap, x.pdtUnmap = m.lookupMethod(vmm, "PageDirectoryTable", "Map"), m.lookupMethod(vmm, "PageDirectoryTable", "Unmap")
	for name, v := range map[string]interface{}{
		"vmm.Map": base.mapFn, "vmm.Unmap": base.unmap, "vmm.walk": base.walk, "vmm.pageFaultHandler": base.pfh, "pte.SetFrame": base.setFrame,
		"pte.SetFlags": base.setFlags, "pte.ClearFlags": base.clearFlags, "pte.HasFlags": base.hasFlags, "mm.AllocFrame": base.allocFrame,
		"kernel.Memset": base.memset, "cpu.FlushTLBEntry": base.flush, "cpu.ActivePDT": base.activePDT, "vmm.pageTableEntry": base.pte,
		"PageDirectoryTable.pdtFrame": base.pdtFrameF,
		"PageDirectoryTable.Map":      x.pdtMap, "PageDirectoryTable.Unmap": x.pdtUnmap,
	} {
		if isNilIface(v) {
			c.unresolved("C04.R1", name)
			return
		}
	}
	var ok [5]bool
	x.flagRW, ok[0] = namedConstUint(m, vmm, "FlagRW")
	x.flagPresent, ok[1] = namedConstUint(m, vmm, "FlagPresent")
	x.pageSize, ok[2] = namedConstUint(m, "mm", "PageSize")
	x.levels, ok[3] = namedConstUint(m, vmm, "pageLevels")
	x.flagHuge, ok[4] = namedConstUint(m, vmm, "FlagHugePage")
	for _, o := range ok {
		if !o {
			c.unresolved("C04.R1", "vmm flag / level constants")
			return
		}
	}
	x.r1r2r4r5()
	x.r3()
	x.r6()
	x.r7()
}

func (x *c04) walker(fn *ssa.Function) *ssa.Function {
	cl := x.m.closureArgOf(fn, x.walk, 1)
	if len(cl) == 1 {
		return cl[0]
	}
	return nil
}

// pteWrites lists the nodes of g that write through the pte parameter.
func (x *c04) isPteWrite(g *IG, n int, pte ssa.Value) (string, bool) {
	in := g.Ins[n]
	if st, ok := in.(*ssa.Store); ok && st.Addr == pte {
		return "store", true
	}
	for name, fn := range map[string]*ssa.Function{"SetFrame": x.setFrame, "SetFlags": x.setFlags, "ClearFlags": x.clearFlags} {
		if recv, _, ok := methodCall(x.m, in, fn); ok && recv == pte {
			return name, true
		}
	}
	return "", false
}

func (x *c04) leafEdge(g *IG, w *ssa.Function) (Edge, bool) {
	lvl := paramNamed(w, "pteLevel")
	for _, f := range g.AllEdgeFacts() {
		if lvl != nil && eqConstFact(f, lvl, int64(x.levels)-1) {
			return f.Edge, true
		}
	}
	return Edge{}, false
}

func (x *c04) r1r2r4r5() {
	c, m := x.c, x.m
	c.floor("C04.R1", 2)
	c.floor("C04.R2", 3)
	c.floor("C04.R4", 1)
	c.floor("C04.R5", 2)
	for _, outer := range []*ssa.Function{x.mapFn, x.unmap} {
		w := x.walker(outer)
		if w == nil {
			c.fail("C04.R1", "walker "+m.fnName(outer), "expected exactly one closure passed to walk", m.pos(outer.Pos()))
			continue
		}
		g := newIG(m, w, nil)
		pte := ssa.Value(paramNamed(w, "pte"))
		ret := isRet(g)
		leaf, ok := x.leafEdge(g, w)
		key := "leaf-entry " + m.fnName(w)
		if !ok || pte == nil {
			c.fail("C04.R1", key, "no test pteLevel == pageLevels-1 in the walker", m.pos(w.Pos()))
			continue
		}
		start := g.Succ[leaf.From][leaf.K]
		reach := g.Reach([]int{start}, nil, nil)
		var writes []int
		for n := range g.Ins {
			if _, ok := x.isPteWrite(g, n, pte); ok && reach[n] {
				writes = append(writes, n)
			}
		}
		pageP, frameP, flagsP := paramNamed(outer, "page"), paramNamed(outer, "frame"), paramNamed(outer, "flags")
		bad := ""
		if outer == x.mapFn {
			want := []func(n int) bool{
				func(n int) bool { st, ok := g.Ins[n].(*ssa.Store); return ok && st.Addr == pte && isZeroConst(st.Val) },
				func(n int) bool {
					_, a, ok := methodCall(m, g.Ins[n], x.setFrame)
					return ok && isParamValue(a[0], frameP)
				},
				func(n int) bool {
					_, a, ok := methodCall(m, g.Ins[n], x.setFlags)
					return ok && isParamValue(a[0], flagsP)
				},
			}
			names := []string{"*pte = 0", "SetFrame(frame)", "SetFlags(flags)"}
			if len(writes) != 3 {
				bad = fmt.Sprintf("%d entry writes at the last level, expected exactly *pte = 0, SetFrame(frame), SetFlags(flags)", len(writes))
			}
			for i, wn := range writes {
				if bad == "" && !want[i](wn) {
					bad = "entry write #" + fmt.Sprint(i+1) + " at the last level is not " + names[i] + " with Map's own parameter"
				}
			}
			for i := 0; bad == "" && i < 3; i++ {
				if p := g.Path([]int{start}, nil, want[i], func(n int) bool { return !want[i](n) && ret(n) }); p != nil {
					bad = "a last-level path returns without " + names[i]
				}
			}
			for i := 0; bad == "" && i+1 < len(writes); i++ {
				if ok, _ := g.MustPassBefore(writes[i+1], func(n int) bool { return n == writes[i] }); !ok {
					bad = names[i+1] + " can happen before " + names[i]
				}
			}
		} else {
			if len(writes) != 1 {
				bad = fmt.Sprintf("%d entry writes at the last level of Unmap, expected only ClearFlags(FlagPresent)", len(writes))
			} else if _, a, ok := methodCall(m, g.Ins[writes[0]], x.clearFlags); !ok {
				bad = "the last-level write of Unmap is not ClearFlags"
			} else if k, ok := constUint64(a[0]); !ok || k != x.flagPresent {
				bad = "Unmap does not clear exactly FlagPresent"
			} else if p := g.Path([]int{start}, nil, func(n int) bool { return n == writes[0] }, func(n int) bool { return n != writes[0] && ret(n) }); p != nil {
				bad = "a last-level path of Unmap returns without clearing FlagPresent"
			}
		}
		// leaf returns true
		for _, rc := range g.ReturnCases() {
			if reach[rc.At] {
				if b, ok := constBool(rc.Vals[0]); (!ok || !b) && bad == "" {
					bad = "the last level does not return true"
				}
			}
		}
		c.check(bad == "", "C04.R1", key, "exactly the requested (frame, flags) / only the present bit is written at the last level", bad, g.posOf(start))

		// R2: flush after leaf writes
		isFlush := func(n int) bool {
			if !m.callsTo(g.Ins[n], x.flush) {
				return false
			}
			// the address of the page: page << PageShift, however it is spelled
			zf := &Polyizer{}
			return zf.Of(through(g.callArgs(n)[0])).equal(zf.Of(pageP).mul(polyConst(int64(x.pageSize))))
		}
		bad = ""
		for _, wn := range writes {
			if ok, _ := g.MustPassAfter(wn, isFlush, ret); !ok {
				bad = "a last-level entry write is not followed by flushTLBEntryFn(page.Address()) on every path"
			}
		}
		for n := range g.Ins {
			if isFlush(n) {
				after := g.Reach(g.Succ[n], nil, nil)
				for _, wn := range writes {
					if after[wn] {
						bad = "the entry is written after the TLB flush"
					}
				}
			}
		}
		if len(writes) == 0 {
			bad = "no last-level write found"
		}
		c.check(bad == "", "C04.R2", "leaf-flush "+m.fnName(w), "every last-level entry write is followed by a flush of the mapped page's address", bad, g.posOf(start))

		// R5: the outer function returns the walker's error cell, unmodified after walk
		x.r5(outer, w)
		if outer == x.mapFn {
			x.r4(g, w, pte, leaf)
		} else {
			// Unmap: non-leaf paths never write the entry
			for n := range g.Ins {
				if _, ok := x.isPteWrite(g, n, pte); ok && !reach[n] {
					c.fail("C04.R1", "unmap-upper-levels "+m.fnName(w), "Unmap writes an upper-level entry", g.posOf(n))
				}
			}
		}
	}
	// page fault handler flush is covered by C06.R5; PDT.Map/Unmap flushes in r3
	gp := newIG(m, x.pfh, nil)
	var pw []int
	for n, in := range gp.Ins {
		for _, fn := range []*ssa.Function{x.setFrame, x.setFlags, x.clearFlags} {
			if _, _, ok := methodCall(m, in, fn); ok {
				pw = append(pw, n)
			}
		}
	}
	isFl := func(n int) bool { return m.callsTo(gp.Ins[n], x.flush) }
	bad := ""
	for _, wn := range pw {
		if p := gp.Path(gp.Succ[wn], nil, isFl, func(n int) bool { _, ok := gp.Ins[n].(*ssa.Return); return ok }); p != nil {
			bad = "the fault handler modifies an entry and returns without a TLB flush"
		}
	}
	c.check(bad == "" && len(pw) > 0, "C04.R2", "fault-flush "+m.fnName(x.pfh), fmt.Sprintf("%d entry write(s), each followed by a flush before the handler returns", len(pw)), bad, m.pos(x.pfh.Pos()))
}

func (x *c04) r4(g *IG, w *ssa.Function, pte ssa.Value, leaf Edge) {
	c, m := x.c, x.m
	key := "new-level " + m.fnName(w)
	ret := isRet(g)
	allocs := g.callNodes(x.allocFrame)
	if len(allocs) != 1 {
		c.fail("C04.R4", key, "expected exactly one mm.AllocFrame call in Map's walker", m.pos(w.Pos()))
		return
	}
	an := allocs[0]
	call := g.Ins[an].(*ssa.Call)
	bad := ""
	// dominated by !HasFlags(Present) on *pte and not huge
	notPresent := hasFact(g.FactsAt(an), func(f Fact) bool {
		r, ok := predicateFact(m, f, x.hasFlags, x.flagPresent, false)
		if !ok {
			return false
		}
		a, isLoad := loadAddr(r)
		return isLoad && a == pte
	})
	if !notPresent {
		bad = "a new table is allocated for an entry that has not been tested not-present (an existing table would be replaced)"
	}
	isErr := func(v ssa.Value) bool {
		if cc, ok := m.resultOf(v, x.allocFrame, 1); ok && cc == call {
			return true
		}
		if vals, _, ok := cellStoredValues(v); ok {
			for _, sv := range vals {
				if cc, ok := m.resultOf(sv, x.allocFrame, 1); ok && cc == call {
					return true
				}
			}
		}
		return false
	}
	var failE, okE []Edge
	for _, f := range g.AllEdgeFacts() {
		if isNilFact(f, token.NEQ, isErr) {
			failE = append(failE, f.Edge)
		}
		if isNilFact(f, token.EQL, isErr) {
			okE = append(okE, f.Edge)
		}
	}
	if bad == "" && (len(failE) == 0 || len(okE) == 0) {
		bad = "the error of mm.AllocFrame is not tested"
	}
	if bad == "" {
		// failure side: returns false, no pte write
		for _, e := range failE {
			r := g.ReachAssuming(e, nil)
			for n := range g.Ins {
				if !r[n] {
					continue
				}
				if _, ok := x.isPteWrite(g, n, pte); ok {
					bad = "the entry is written although the allocation of the new table failed"
				}
			}
			for _, rc := range g.ReturnCases() {
				if r[rc.At] {
					if b, ok := constBool(rc.Vals[0]); !ok || b {
						bad = "the walk continues although the allocation of the new table failed"
					}
				}
			}
		}
		// no pte write between alloc and the test
		cut := map[Edge]bool{}
		for _, e := range append(append([]Edge{}, failE...), okE...) {
			cut[e] = true
		}
		r := g.Reach(g.Succ[an], cut, nil)
		for n := range g.Ins {
			if _, ok := x.isPteWrite(g, n, pte); ok && r[n] {
				bad = "the entry is written before the allocation error is tested"
			}
		}
	}
	if bad == "" {
		steps := []struct {
			name string
			pred func(n int) bool
		}{
			{"*pte = 0", func(n int) bool { st, ok := g.Ins[n].(*ssa.Store); return ok && st.Addr == pte && isZeroConst(st.Val) }},
			{"SetFrame(new frame)", func(n int) bool {
				_, a, ok := methodCall(m, g.Ins[n], x.setFrame)
				if !ok {
					return false
				}
				cc, ok := m.resultOf(a[0], x.allocFrame, 0)
				return ok && cc == call
			}},
			{"SetFlags(FlagPresent|FlagRW)", func(n int) bool {
				_, a, ok := methodCall(m, g.Ins[n], x.setFlags)
				if !ok {
					return false
				}
				k, ok := constUint64(a[0])
				return ok && k == x.flagPresent|x.flagRW
			}},
			{"kernel.Memset(next table, 0, PageSize)", func(n int) bool {
				if !m.callsTo(g.Ins[n], x.memset) {
					return false
				}
				a := g.callArgs(n)
				v, ok1 := constUint64(a[1])
				sz, ok2 := constUint64(a[2])
				return ok1 && ok2 && v == 0 && sz == x.pageSize
			}},
		}
		for _, e := range okE {
			start := g.Succ[e.From][e.K]
			for i, s := range steps {
				if p := g.Path([]int{start}, nil, s.pred, func(n int) bool { return !s.pred(n) && ret(n) }); p != nil {
					bad = "after a successful allocation the walker can return without " + s.name
					break
				}
				if i > 0 {
					for n := range g.Ins {
						if s.pred(n) {
							if ok, _ := g.MustPassBefore(n, steps[i-1].pred); !ok && g.Reach([]int{start}, nil, nil)[n] {
								bad = s.name + " can happen before " + steps[i-1].name
							}
						}
					}
				}
			}
			r := g.Reach([]int{start}, nil, nil)
			for _, rc := range g.ReturnCases() {
				if r[rc.At] {
					if b, ok := constBool(rc.Vals[0]); !ok || !b {
						bad = "the walk stops after a new table was installed"
					}
				}
			}
		}
	}
	c.check(bad == "", "C04.R4", key, "not-present: AllocFrame; on error return false untouched; else *pte=0, SetFrame(new), SetFlags(Present|RW), Memset(next table, 0, PageSize), continue", bad, g.posOf(an))
	// huge pages are refused without writing
	hugeOK := false
	for _, f := range g.AllEdgeFacts() {
		if _, ok := predicateFact(m, f, x.hasFlags, x.flagHuge, true); ok {
			r := g.ReachAssuming(f.Edge, nil)
			hugeOK = true
			for n := range g.Ins {
				if _, ok := x.isPteWrite(g, n, pte); ok && r[n] {
					hugeOK = false
				}
			}
		}
	}
	c.check(hugeOK, "C04.R4", "huge-page "+m.fnName(w), "a huge-page entry is refused without being written", "huge-page entries are not refused before being modified", m.pos(w.Pos()))
}

func (x *c04) r5(outer, w *ssa.Function) {
	c, m := x.c, x.m
	g := newIG(m, outer, nil)
	key := "error-return " + m.fnName(outer)
	walks := g.callNodes(x.walk)
	bad := ""
	if len(walks) != 1 {
		bad = "expected exactly one walk call"
	}
	nret := 0
	for _, rn := range g.Returns() {
		if bad != "" {
			break
		}
		if ok, _ := g.MustPassBefore(rn, func(n int) bool { return n == walks[0] }); !ok {
			continue // guard return before the walk
		}
		nret++
		r0 := g.Ins[rn].(*ssa.Return).Results[0]
		a, ok := loadAddr(strip(r0))
		if !ok {
			bad = "the value returned after the walk is not the walker's error variable"
			break
		}
		cell, ok := cellOf(a)
		if !ok {
			bad = "the value returned after the walk is not a local error variable"
			break
		}
		stores, _, okc := cellAccesses(cell)
		if !okc {
			bad = "the error variable escapes"
			break
		}
		inWalker := 0
		for _, st := range stores {
			if st.Parent() == w {
				inWalker++
			} else if !(st.Parent() == outer && isNilConst(st.Val)) {
				// `return err` with a named result stores the variable's own value back
				if cellOfLoadAny(st.Val) == cell {
					continue
				}
				// a store in the outer function: must not lie between walk and return
				if g.Reach(g.Succ[walks[0]], nil, nil)[g.Idx[st]] {
					bad = "the error variable is overwritten between the walk and the return"
				}
			}
		}
		if inWalker == 0 {
			bad = "the walker never stores into the returned error variable"
		}
		// in the walker: every `return false` is preceded by a store of a non-nil-able error into the cell
		gw := newIG(m, w, nil)
		for _, wrc := range gw.ReturnCases() {
			if b, ok := constBool(wrc.Vals[0]); ok && !b {
				if okb := gw.CaseMustPassBefore(wrc, func(n int) bool {
					st, ok := gw.Ins[n].(*ssa.Store)
					if !ok {
						return false
					}
					cc, ok := cellOf(st.Addr)
					return ok && cc == cell && !isNilConst(st.Val)
				}); !okb {
					bad = "the walker aborts (return false) on a path that stores no error into the returned variable"
				}
			}
		}
		// no store of nil into the cell in the walker after an error store
		for _, st := range stores {
			if st.Parent() == w && isNilConst(st.Val) {
				bad = "the walker resets the error variable to nil"
			}
		}
	}
	if bad == "" && nret == 0 {
		bad = "no return after the walk"
	}
	c.check(bad == "", "C04.R5", key, "returns the walker's error variable; every aborting path of the walker stores an error into it", bad, m.pos(outer.Pos()))
}

func (x *c04) r3() {
	c, m := x.c, x.m
	c.floor("C04.R3", 4)
	z := &Polyizer{Inline: true}
	for _, pr := range []struct {
		fn    *ssa.Function
		inner *ssa.Function
	}{{x.pdtMap, x.mapFn}, {x.pdtUnmap, x.unmap}} {
		fn := pr.fn
		g := newIG(m, fn, nil)
		ret := isRet(g)
		// every test that compares the active root frame with this table's
		// frame, in either spelling (!= or ==, operands in either order); the
		// two scenarios cut the edges on which the comparison comes out the
		// other way
		grp := &corrGroup{}
		cutA, cutB := map[Edge]bool{}, map[Edge]bool{} // A: the table is not the active one, B: it is
		for _, cg := range correlatedIfs(g, z) {
			f, _ := condFact(g.Cond(cg.Ifs[0]), true)
			if (f.Op == token.NEQ || f.Op == token.EQL) && x.isPDTRoot(fn, f.X, 0) && x.isPDTRoot(fn, f.Y, 0) {
				for _, n := range cg.Ifs {
					grp.Ifs = append(grp.Ifs, n)
					differ := 0 // the branch taken when the frames differ
					if f.Op == token.EQL {
						differ = 1
					}
					cutA[Edge{n, 1 - differ}] = true
					cutB[Edge{n, differ}] = true
				}
			}
		}
		key := "swap-restore " + m.fnName(fn)
		if len(grp.Ifs) == 0 {
			c.fail("C04.R3", key, "no test `active frame != pdt.pdtFrame` was found", m.pos(fn.Pos()))
			c.fail("C04.R3", "active-untouched "+m.fnName(fn), "not evaluated", m.pos(fn.Pos()))
			continue
		}
		f0, _ := condFact(g.Cond(grp.Ifs[0]), true)
		var activeV ssa.Value // the operand derived from activePDTFn
		for _, v := range []ssa.Value{f0.X, f0.Y} {
			// the frame of the address activePDTFn() returns: that address / PageSize,
			// however it is spelled (a shift, FrameFromAddress, ...)
			root := stripConvShift(v)
			if _, ok := m.resultOf(root, x.activePDT, -1); ok {
				za := &Polyizer{}
				if sh, okSh := log2(x.pageSize); okSh && za.Of(v).equal(pFdiv(sh, za.Of(root))) {
					activeV = v
				}
			}
		}
		inner := g.callNodes(pr.inner)
		// ---- inactive scenario
		isInner := func(n int) bool { return contains(inner, n) }
		bad := ""
		if activeV == nil || len(inner) == 0 {
			bad = "expected one inner operation call and a test against the frame returned by activePDTFn()"
		}
		var entryAddr ssa.Value
		isSet := func(pred func(arg ssa.Value) bool) func(int) bool {
			return func(n int) bool {
				recv, a, ok := methodCall(m, g.Ins[n], x.setFrame)
				if !ok || !pred(a[0]) {
					return false
				}
				rv := resolvePhi(g, recv, cutA)
				if rv == nil {
					return false
				}
				addr := ptrFromUintptr(rv)
				if addr == nil {
					return false
				}
				if entryAddr == nil {
					entryAddr = addr
				}
				return addr == entryAddr
			}
		}
		isFlushEntry := func(n int) bool {
			if !m.callsTo(g.Ins[n], x.flush) {
				return false
			}
			av := resolvePhi(g, g.callArgs(n)[0], cutA)
			return av != nil && entryAddr != nil && av == entryAddr
		}
		isPdt := func(a ssa.Value) bool { return isLoadOfField(a, x.pdtFrameF) || x.isPDTRoot(fn, a, 0) && a != activeV }
		isAct := func(a ssa.Value) bool { return a == activeV }
		if bad == "" {
			steps := []struct {
				name string
				pred func(int) bool
			}{
				{"SetFrame(recursive entry, pdt.pdtFrame)", isSet(isPdt)},
				{"flush of the recursive entry", isFlushEntry},
				{"the inner " + pr.inner.Name() + " call", isInner},
				{"SetFrame(recursive entry, active frame) (restore)", isSet(isAct)},
				{"flush of the recursive entry after the restore", isFlushEntry},
			}
			// sequential matching along every path: walk the steps
			frontier := []int{0}
			for i, s := range steps {
				if p := g.Path(frontier, cutA, s.pred, func(n int) bool { return !s.pred(n) && ret(n) }); p != nil {
					bad = "when the table is not the active one, a path returns without " + s.name + " (step " + fmt.Sprint(i+1) + " of swap / flush / operate / restore / flush)"
					break
				}
				// next frontier: successors of all nodes matching this step reachable from the frontier
				r := g.Reach(frontier, cutA, s.pred)
				var next []int
				for n := range g.Ins {
					if r[n] && s.pred(n) {
						next = append(next, g.Succ[n]...)
					}
				}
				frontier = next
			}
			// the entry address is the last slot of the active table: Address(active) + const
			if bad == "" && entryAddr != nil {
				// address of the active frame plus a constant offset inside the page
				ze := &Polyizer{}
				base := ze.Of(activeV).mul(polyConst(int64(x.pageSize)))
				if add, ok := stripConv(entryAddr).(*ssa.BinOp); !ok || add.Op != token.ADD {
					bad = "the recursive entry address is not derived from the active table's address"
				} else if !ze.Of(add.X).equal(base) && !ze.Of(add.Y).equal(base) {
					bad = "the recursive entry address is not inside the active table"
				}
			}
		}
		c.check(bad == "", "C04.R3", key, "inactive table: swap, flush, operate, restore the active frame, flush on every path", bad, m.pos(fn.Pos()))
		// ---- active scenario: no entry write, no flush
		r := g.Reach([]int{0}, cutB, nil)
		bad = ""
		for n := range g.Ins {
			if !r[n] {
				continue
			}
			if _, _, ok := methodCall(m, g.Ins[n], x.setFrame); ok {
				bad = "the recursive entry is written although the table is the active one"
			}
		}
		// (on every path: no return is reachable without passing an inner call)
		if p := g.Path([]int{0}, cutB, isInner, func(n int) bool { return !isInner(n) && ret(n) }); p != nil || len(inner) == 0 {
			bad = "the inner operation is not performed for the active table"
		}
		// both scenarios return the inner result
		for _, rc := range g.ReturnCases() {
			isRes := false
			for _, k := range inner {
				if len(rc.Vals) > 0 && rc.Vals[0] == g.Ins[k].(ssa.Value) {
					isRes = true
				}
			}
			if len(rc.Vals) > 0 && !isRes {
				bad = "the result of the inner operation is not what is returned"
			}
		}
		c.check(bad == "", "C04.R3", "active-untouched "+m.fnName(fn), "active table: the recursive entry is never written; the inner result is returned", bad, m.pos(fn.Pos()))
		// inner call passes the parameters through unchanged
		if len(inner) > 0 {
			okArgs := true
			for _, k := range inner {
				for i, a := range g.callArgs(k) {
					if a != ssa.Value(fn.Params[i+1]) {
						okArgs = false
					}
				}
			}
			c.check(okArgs, "C04.R3", "pass-through "+m.fnName(fn), "the inner operation receives the caller's arguments unchanged", "the inner operation does not receive the caller's page/frame/flags unchanged", g.posOf(inner[0]))
		}
	}
}

// stripConvShift removes conversions and a constant right shift (address -> frame).
func stripConvShift(v ssa.Value) ssa.Value {
	v = stripConv(v)
	for i := 0; i < 3; i++ {
		b, ok := v.(*ssa.BinOp)
		if !ok || (b.Op != token.SHR && b.Op != token.AND && b.Op != token.AND_NOT && b.Op != token.QUO) {
			break
		}
		if _, ok := constUint64(b.Y); !ok {
			break
		}
		v = stripConv(b.X)
	}
	return v
}

func (x *c04) r6() { x.regionRule("C04.R6", []string{"MapRegion", "IdentityMapRegion"}) }

func (x *c04) regionRule(rule string, names []string) {
	c, m := x.c, x.m
	c.floor(rule, len(names))
	z := &Polyizer{Inline: true}
	for _, name := range names {
		fn := m.lookupFunc("mm/vmm", name)
		if fn == nil {
			c.unresolved(rule, "vmm."+name)
			continue
		}
		g := newIG(m, fn, nil)
		key := "region-helper " + m.fnName(fn)
		calls := g.callNodes(x.mapFn)
		bad := ""
		if len(calls) != 1 {
			c.fail(rule, key, "expected exactly one map call in the loop", m.pos(fn.Pos()))
			continue
		}
		cn := calls[0]
		args := g.callArgs(cn)
		flagsP := paramNamed(fn, "flags")
		if args[2] != ssa.Value(flagsP) {
			bad = "the flags are not passed to the map call unchanged"
		}
		// the loop in induction form: page and frame as functions of the
		// iteration number T, and the trip count
		// (merged values are taken as they are at the map call)
		z.Subst = g.substAt(cn)
		lf, inLoop := g.loopFormAt(z, g.Ins[cn].Block())
		if !inLoop {
			bad = "the map call is not in a loop"
		}
		// every page of the range is mapped: no way round the loop misses the call
		if bad == "" {
			if p, ok := g.loopBypass(cn); ok && p != nil {
				bad = "an iteration of the page loop can go on to the next page without mapping this one (" + strings.Join(g.where(p, 6), " ") + "): what was mapped there before stays in force"
			}
		}
		if bad == "" {
			_, pStep, okP := lf.affineInT(args[0])
			fFirst, fStep, okF := lf.affineInT(args[1])
			one := func(p Poly) bool { k, ok := p.isConst(); return ok && k == 1 }
			switch {
			case !okP || !one(pStep):
				bad = "the page does not advance by one per iteration"
			case z.Of(args[1]).equal(z.Of(args[0])):
				// identity mapping: frame == page
			case !okF || !one(fStep):
				bad = "the frame does not advance by one together with the page"
			default:
				lf.Done()
				if !fFirst.equal(z.Of(fn.Params[0])) {
					bad = "the first frame mapped is not the requested start frame"
				}
			}
			// number of iterations = cdiv12(size)
			if bad == "" && !(lf.TripsOK && lf.Trips.equal(pCdiv(12, polyAtom("size")))) {
				bad = "the number of pages mapped is not cdiv(size, 4096)" + fmt.Sprintf(" (trip count %v, known %v)", lf.Trips, lf.TripsOK)
			}
			// The polynomial forms are over the integers. The page count is also
			// computed in unsigned machine arithmetic: a subtraction in it must not
			// be able to wrap (size - 1 for size == 0 is 2^64-1).
			if bad == "" {
				for _, tv := range lf.tripValues(g) {
					if cv := narrowingConv(tv, 0); cv != nil {
						bad = "the page count passes through the narrowing conversion `" + cv.String() + "`: a region of 2^" + fmt.Sprint(intWidth(cv.Type())) + " pages or more is mapped only in part"
					}
					if sub := unguardedSub(g, tv, 0); sub != nil {
						bad = "the page count is computed with the unsigned subtraction `" + sub.String() + "` that is not guarded against wrap-around: a zero (or too small) size maps an enormous number of pages"
					}
				}
				// (an inclusive bound `page <= last` has no value that equals the count:
				// the operands of the exit test are looked at instead)
				for _, tv := range lf.exitOperands(g) {
					if sub := unguardedSub(g, tv, 0); sub != nil {
						bad = "the bound of the page loop is computed with the unsigned subtraction `" + sub.String() + "` that is not guarded against wrap-around: a zero (or too small) size maps an enormous number of pages"
					}
				}
			}
			lf.Done()
		}
		z.Subst = nil
		// first error returned
		if bad == "" {
			call := g.Ins[cn].(*ssa.Call)
			var failE []Edge
			for _, f := range g.AllEdgeFacts() {
				if isNilFact(f, token.NEQ, func(v ssa.Value) bool { return v == ssa.Value(call) }) {
					failE = append(failE, f.Edge)
				}
			}
			if len(failE) == 0 {
				bad = "the error of the map call is not tested"
			}
			// on the failure side the opposite outcome of a later test of the same
			// error (directly or through the error variable) cannot be taken
			contra := map[Edge]bool{}
			for _, f := range g.AllEdgeFacts() {
				if isNilFact(f, token.EQL, func(v ssa.Value) bool { return v == ssa.Value(call) }) {
					contra[f.Edge] = true
				}
			}
			_ = contra
			for _, e := range failE {
				r := g.ReachAssuming(e, nil)
				for n := range g.Ins {
					if r[n] && m.callsTo(g.Ins[n], x.mapFn) {
						bad = "mapping continues after a page failed to map"
					}
					if rt, ok := g.Ins[n].(*ssa.Return); ok && r[n] && rt.Parent() == fn {
						// the returned error is the map call's result, possibly through
						// an error variable that merges it with earlier (nil) values
						isCall := false
						for _, vc := range g.valueCases(rt.Results[len(rt.Results)-1], n) {
							if vc.Val == ssa.Value(call) {
								isCall = true
							}
						}
						if !isCall {
							bad = "the map error is not what is returned"
						}
					}
				}
			}
		}
		c.check(bad == "", rule, key, "maps exactly cdiv(size,4096) pages, page and frame advance together by one, flags unchanged, first error returned", bad, g.posOf(cn))
	}
}

// unguardedSub finds, in the expression tree of v (through arithmetic and
// conversions, not through merges or calls), an unsigned subtraction x - k
// whose operands are not known to satisfy x >= k where it is computed.
func unguardedSub(g *IG, v ssa.Value, depth int) *ssa.BinOp {
	if depth > 8 {
		return nil
	}
	switch x := v.(type) {
	case *ssa.Convert:
		return unguardedSub(g, x.X, depth+1)
	case *ssa.ChangeType:
		return unguardedSub(g, x.X, depth+1)
	case *ssa.Call:
		// a call of a function of the program is transparent: its result is
		// computed from its arguments (mm.PageFromAddress(a + size - 1))
		if x.Call.StaticCallee() != nil && !x.Call.IsInvoke() {
			for _, a := range x.Call.Args {
				if isIntegral(a.Type()) {
					if s := unguardedSub(g, a, depth+1); s != nil {
						return s
					}
				}
			}
		}
		return nil
	case *ssa.BinOp:
		if x.Op == token.SUB {
			if bt, ok := x.Type().Underlying().(*types.Basic); ok && bt.Info()&types.IsUnsigned != 0 {
				guarded := false
				if n, ok := g.Idx[x]; ok {
					for _, f := range g.FactsAt(n) {
						if f.Y == nil {
							continue
						}
						// x.X >= x.Y, x.X > c with c >= x.Y - 1, x.X != 0 when x.Y == 1
						if cmpMatch(f, token.GEQ, func(a ssa.Value) bool { return a == x.X }, func(b ssa.Value) bool { return b == x.Y }) {
							guarded = true
						}
						if k, isK := constUint64(x.Y); isK {
							if cmpMatch(f, token.GEQ, func(a ssa.Value) bool { return a == x.X }, func(b ssa.Value) bool { c, ok := constUint64(b); return ok && c >= k }) ||
								cmpMatch(f, token.GTR, func(a ssa.Value) bool { return a == x.X }, func(b ssa.Value) bool { c, ok := constUint64(b); return ok && c+1 >= k }) ||
								k == 1 && cmpMatch(f, token.NEQ, func(a ssa.Value) bool { return a == x.X }, isZeroConst) {
								guarded = true
							}
						}
					}
				}
				if sum, ok := stripConv(x.X).(*ssa.BinOp); ok && sum.Op == token.ADD && !guarded {
					if n, ok := g.Idx[x]; ok {
						if k, isK := constUint64(x.Y); isK {
							for _, f := range g.FactsAt(n) {
								for _, t := range []ssa.Value{sum.X, sum.Y} {
									t := t
									is := func(a ssa.Value) bool { return a == t || stripConv(a) == stripConv(t) }
									if cmpMatch(f, token.GEQ, is, func(b ssa.Value) bool { c, ok := constUint64(b); return ok && c >= k }) ||
										cmpMatch(f, token.GTR, is, func(b ssa.Value) bool { c, ok := constUint64(b); return ok && c+1 >= k }) ||
										k == 1 && cmpMatch(f, token.NEQ, is, isZeroConst) {
										guarded = true
									}
								}
							}
						}
					}
				}
				if !guarded {
					return x
				}
			}
		}
		if s := unguardedSub(g, x.X, depth+1); s != nil {
			return s
		}
		return unguardedSub(g, x.Y, depth+1)
	}
	return nil
}

// narrowingConv finds, in the expression tree of v (through arithmetic and
// conversions, not through merges or calls), a conversion of an integer to a
// narrower integer type. The polynomial forms treat integer conversions as the
// identity; where a count is concerned a narrowing one is not.
func narrowingConv(v ssa.Value, depth int) *ssa.Convert {
	if depth > 8 {
		return nil
	}
	switch x := v.(type) {
	case *ssa.Convert:
		if isIntegral(x.Type()) && isIntegral(x.X.Type()) && intWidth(x.Type()) < intWidth(x.X.Type()) {
			// (a value that is known to fit: a constant, or masked / shifted into range)
			if !fitsWidth(x.X, intWidth(x.Type())) {
				return x
			}
		}
		return narrowingConv(x.X, depth+1)
	case *ssa.ChangeType:
		return narrowingConv(x.X, depth+1)
	case *ssa.BinOp:
		if r := narrowingConv(x.X, depth+1); r != nil {
			return r
		}
		return narrowingConv(x.Y, depth+1)
	}
	return nil
}

// fitsWidth: v is certainly below 2^w (a constant, x & mask, x >> k of a wide
// enough shift, a conversion from a type that narrow).
func fitsWidth(v ssa.Value, w int) bool {
	if w >= 64 {
		return true
	}
	limit := uint64(1) << uint(w)
	if k, ok := constUint64(v); ok {
		return k < limit
	}
	switch x := v.(type) {
	case *ssa.Convert:
		if isIntegral(x.X.Type()) && intWidth(x.X.Type()) <= w && isUnsignedInt(x.X.Type()) {
			return true
		}
		return fitsWidth(x.X, w)
	case *ssa.BinOp:
		switch x.Op {
		case token.AND:
			if k, ok := constUint64(x.Y); ok && k < limit {
				return true
			}
			if k, ok := constUint64(x.X); ok && k < limit {
				return true
			}
		case token.SHR:
			if k, ok := constUint64(x.Y); ok && intWidth(x.X.Type())-int(k) <= w {
				return true
			}
		case token.REM:
			if k, ok := constUint64(x.Y); ok && k <= limit {
				return true
			}
		}
	}
	return false
}
