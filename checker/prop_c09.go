package main

import (
	"fmt"
	"go/token"
	"go/types"
	"sort"
	"strings"

	"golang.org/x/tools/go/ssa"
)

func init() {
	register(&Property{
		ID:         "C09",
		NeedKernel: true,
		Run:        runC09,
		Explanation: "Static lock discipline of the physical frame allocator, decided on the SSA control-flow graph of every function that " +
			"uses BitmapAllocator.mutex or the state it guards: (R1) Acquire/Release typestate on every path of every concurrent entry " +
			"point (exported allocator methods and the function published through mm.SetFrameAllocator), with callee summaries; " +
			"(R2) every load/store of the guarded state {framePool.freeBitmap elements, framePool.freeCount, BitmapAllocator.reservedPages} " +
			"reachable from those entry points happens with the lock held; (R3) functions touching guarded or immutable-after-init state " +
			"without the lock are reachable only from (*BitmapAllocator).init, which pmm.Init calls once and strictly before publication; " +
			"(R4) no re-acquisition while held. Decides the lock discipline (a necessary condition), not the dynamic outcome over schedules.",
		EnumRule: "obligations are enumerated per rule and construct (function / role / guarded item); an obligation is non-trivial when at least one SSA site matched it",
		Assumptions: []string{
			"sync.Spinlock provides mutual exclusion (C08)",
			"sequential correctness of the bitmap arithmetic (C01/C03, only partly decided)",
			"_test.go files are not part of the analysed program",
			"implicit run-time panics (index out of range) are not modelled as exits",
		},
		Controls: []Control{
			{Name: "delete the release before the double-free return", File: "kernel/mm/pmm/bitmap_allocator.go",
				Old: "\t\talloc.mutex.Release()\n\t\treturn errBitmapAllocDoubleFree", New: "\t\treturn errBitmapAllocDoubleFree", Expect: "C09.R1"},
			{Name: "delete the acquire in FreeFrame", File: "kernel/mm/pmm/bitmap_allocator.go",
				Old: "\talloc.mutex.Acquire()\n\n\tpoolIndex := alloc.poolForFrame(frame)", New: "\tpoolIndex := alloc.poolForFrame(frame)", Expect: "C09.R"},
			{Name: "move reservedPages++ after the release", File: "kernel/mm/pmm/bitmap_allocator.go",
				Old: "\t\t\t\talloc.reservedPages++\n\t\t\t\talloc.mutex.Release()", New: "\t\t\t\talloc.mutex.Release()\n\t\t\t\talloc.reservedPages++", Expect: "C09.R2"},
			{Name: "call FreeFrame from inside AllocFrame while locked", File: "kernel/mm/pmm/bitmap_allocator.go",
				Old: "\t\t\t\talloc.reservedPages++\n\t\t\t\talloc.mutex.Release()", New: "\t\t\t\talloc.reservedPages++\n\t\t\t\talloc.FreeFrame(0)\n\t\t\t\talloc.mutex.Release()", Expect: "C09.R4"},
			{Name: "read freeCount before taking the lock", File: "kernel/mm/pmm/bitmap_allocator.go",
				Old: "func (alloc *BitmapAllocator) AllocFrame() (mm.Frame, *kernel.Error) {\n\talloc.mutex.Acquire()\n", New: "func (alloc *BitmapAllocator) AllocFrame() (mm.Frame, *kernel.Error) {\n\tif len(alloc.pools) > 0 && alloc.pools[0].freeCount == 12345 {\n\t\treturn mm.InvalidFrame, errBitmapAllocOutOfMemory\n\t}\n\talloc.mutex.Acquire()\n", Expect: "C09.R2"},
			{Name: "exported helper marks frames without the lock", File: "kernel/mm/pmm/bitmap_allocator.go",
				Old: "func (alloc *BitmapAllocator) printStats() {", New: "func (alloc *BitmapAllocator) MarkReserved(frame mm.Frame) {\n\talloc.markFrame(alloc.poolForFrame(frame), frame, markReserved)\n}\n\nfunc (alloc *BitmapAllocator) printStats() {", Expect: "C09.R"},
			{Name: "re-run init after publication", File: "kernel/mm/pmm/pmm.go",
				Old: "\tmm.SetFrameAllocator(bitmapAllocFrame)\n", New: "\tmm.SetFrameAllocator(bitmapAllocFrame)\n\tbitmapAllocator.reserveKernelFrames()\n", Expect: "C09.R3"},
		},
	})
}

func runC09(c *Ctx) {
	m := c.K
	const pmm = "mm/pmm"
	allocT := m.lookupType(pmm, "BitmapAllocator")
	mutexF := m.fieldOf(pmm, "BitmapAllocator", "mutex")
	acquire := m.lookupMethod("sync", "Spinlock", "Acquire")
	release := m.lookupMethod("sync", "Spinlock", "Release")
	try := m.lookupMethod("sync", "Spinlock", "TryToAcquire")
	freeBitmap := m.fieldOf(pmm, "framePool", "freeBitmap")
	freeCount := m.fieldOf(pmm, "framePool", "freeCount")
	reserved := m.fieldOf(pmm, "BitmapAllocator", "reservedPages")
	initFn := m.lookupMethod(pmm, "BitmapAllocator", "init")
	pmmInit := m.lookupFunc(pmm, "Init")
	// The initialisation routine is not named by the property: when it has been
	// inlined into pmm.Init, pmm.Init itself plays its role and the call that
	// stands for "initialisation succeeded" is the pool setup.
	initDone := initFn
	if initFn == nil && pmmInit != nil {
		if setup := m.lookupMethod(pmm, "BitmapAllocator", "setupPoolBitmaps"); setup != nil {
			for _, cs := range m.callSites(setup) {
				if cs.Parent() == pmmInit {
					initFn, initDone = pmmInit, setup
				}
			}
		}
	}
	setFA := m.lookupFunc("mm", "SetFrameAllocator")
	for name, v := range map[string]interface{}{
		"pmm.BitmapAllocator": allocT, "BitmapAllocator.mutex": mutexF, "sync.Spinlock.Acquire": acquire,
		"sync.Spinlock.Release": release, "sync.Spinlock.TryToAcquire": try, "framePool.freeBitmap": freeBitmap,
		"framePool.freeCount": freeCount, "BitmapAllocator.reservedPages": reserved, "BitmapAllocator.init": initFn,
		"pmm.Init": pmmInit, "mm.SetFrameAllocator": setFA,
	} {
		if isNilIface(v) {
			c.unresolved("C09.R1", name)
			return
		}
	}
	// the lock is sync.Spinlock resolved by type
	if n, ok := mutexF.Type().(*types.Named); !ok || n.Obj().Name() != "Spinlock" || n.Obj().Pkg().Path() != kernelMod+"/sync" {
		c.fail("C09.R1", "lock-type BitmapAllocator.mutex", "the allocator's mutex is no longer a kernel/sync.Spinlock: "+mutexF.Type().String())
		return
	}
	c.ok("C09.R1", "lock-type BitmapAllocator.mutex", "field is kernel/sync.Spinlock (links to C08)")

	cg := buildCG(m)
	la := &lockAnalysis{m: m, cg: cg, lockField: mutexF, acquire: acquire, release: release, try: try,
		memo: map[[2]interface{}]*lockResult{}}
	la.guarded = func(p []PE) (string, bool) {
		f, rest := lastField(p)
		switch {
		case f == freeBitmap && strings.HasPrefix(rest, "[]"):
			return "framePool.freeBitmap[i]", true
		case f == freeCount && rest == "":
			return "framePool.freeCount", true
		case f == reserved && rest == "":
			return "BitmapAllocator.reservedPages", true
		}
		return "", false
	}
	la.computeTouching()

	// ---- concurrent entry points ----
	entries := map[*ssa.Function]string{}
	// (a) exported methods of the allocator type
	for _, t := range []types.Type{allocT, types.NewPointer(allocT)} {
		ms := m.Prog.MethodSets.MethodSet(t)
		for i := 0; i < ms.Len(); i++ {
			f, _ := ms.At(i).Obj().(*types.Func)
			if f == nil || !f.Exported() {
				continue
			}
			if d := m.Prog.FuncValue(f); d != nil && d.Blocks != nil {
				entries[d] = "exported allocator method"
			}
		}
	}
	// (b) functions published through mm.SetFrameAllocator after init succeeded
	var publishSites []ssa.Instruction
	g := newIG(m, pmmInit, nil)
	var initCalls, publishNodes []int
	for n, in := range g.Ins {
		if m.callsTo(in, initDone) {
			initCalls = append(initCalls, n)
		}
		if m.callsTo(in, setFA) {
			if f, ok := strip(callCommon(in).Args[0]).(*ssa.Function); ok && la.touching[f] {
				entries[f] = "published through mm.SetFrameAllocator"
				publishSites = append(publishSites, in)
				publishNodes = append(publishNodes, n)
			}
		}
	}
	if len(publishSites) == 0 {
		c.fail("C09.R3", "publication pmm.Init", "no call mm.SetFrameAllocator(<function reaching the bitmap allocator>) found in pmm.Init")
	}
	// (c) any other function that references an entry-like value: every
	// non-call reference to a lock-touching function publishes it
	for f := range la.touching {
		for _, e := range cg.Callers[f] {
			if e.Kind == "ref" {
				if _, ok := entries[f]; !ok {
					entries[f] = "address taken in " + m.fnName(e.From)
				}
			}
		}
	}

	entryList := []*ssa.Function{}
	for f := range entries {
		entryList = append(entryList, f)
	}
	sort.Slice(entryList, func(i, j int) bool { return entryList[i].String() < entryList[j].String() })

	// ---- R1/R2/R4 on every entry point ----
	c.floor("C09.R1", 3) // lock type + at least two locked entry points
	totalAcq, totalRel := 0, 0
	reported := map[string]bool{}
	analysed := map[*ssa.Function]bool{}
	la.isEntry = func(f *ssa.Function) bool { _, ok := entries[f]; return ok }
	for _, fn := range entryList {
		res := la.analyze(fn, stU)
		analysed[fn] = true
		_ = res
	}
	// collect results of all analysed (fn, entry) pairs
	type pair struct {
		fn    *ssa.Function
		entry int
		r     *lockResult
	}
	var pairs []pair
	for k, r := range la.memo {
		pairs = append(pairs, pair{k[0].(*ssa.Function), k[1].(int), r})
	}
	sort.Slice(pairs, func(i, j int) bool {
		if pairs[i].fn.String() != pairs[j].fn.String() {
			return pairs[i].fn.String() < pairs[j].fn.String()
		}
		return pairs[i].entry < pairs[j].entry
	})
	stateName := []string{"Unlocked", "Locked", "Locked+deferred-release"}
	concurrent := map[*ssa.Function]bool{}
	for _, p := range pairs {
		concurrent[p.fn] = true
		fnm := m.fnName(p.fn)
		byKind := map[string][]lockErr{}
		for _, e := range p.r.errs {
			byKind[e.Kind] = append(byKind[e.Kind], e)
		}
		ruleOf := map[string]string{"acquire-while-held": "C09.R4", "release-while-free": "C09.R1", "return-while-held": "C09.R1",
			"guarded-unlocked": "C09.R2", "undecided": "C09.R1"}
		for kind, errs := range byKind {
			sort.Slice(errs, func(i, j int) bool { return errs[i].Node < errs[j].Node })
			for _, e := range errs {
				key := fmt.Sprintf("%s %s entry=%s", kind, fnm, stateName[p.entry])
				where := p.r.g.posOf(e.Node)
				if reported[key+where] {
					continue
				}
				reported[key+where] = true
				status := "violation"
				if kind == "undecided" {
					status = "undecided"
				}
				o := c.add(ruleOf[kind], key, status, e.Text+" (instruction: "+p.r.g.Ins[e.Node].String()+")", where)
				if kind == "return-while-held" {
					// witness: a path from an acquire to this return that avoids every release
					isRel := func(n int) bool {
						cc := callCommon(p.r.g.Ins[n])
						return cc != nil && m.callee(cc) == release && la.lockOpOn(cc)
					}
					var acq []int
					for n, in := range p.r.g.Ins {
						if cc := callCommon(in); cc != nil && m.callee(cc) == acquire && la.lockOpOn(cc) {
							acq = append(acq, p.r.g.Succ[n]...)
						}
					}
					if len(acq) == 0 {
						acq = []int{0}
					}
					if path := p.r.g.Path(acq, nil, isRel, func(n int) bool { return n == e.Node }); path != nil {
						o.Where = p.r.g.where(path, 12)
						o.Witness = "path from Acquire to the return without Release"
					}
				}
			}
		}
		if _, isEntry := entries[p.fn]; isEntry && p.entry == stU {
			balanced := p.r.exits&^(1<<stU) == 0
			if p.r.acquires > 0 {
				totalAcq += p.r.acquires
				totalRel += p.r.releases
			}
			if balanced && len(byKind["return-while-held"])+len(byKind["release-while-free"])+len(byKind["undecided"]) == 0 {
				c.ok("C09.R1", "lock-balance "+fnm,
					fmt.Sprintf("%s: entered Unlocked, every one of %d return(s) is reached Unlocked; %d acquire / %d release site(s) on this lock", entries[p.fn], p.r.returns, p.r.acquires, p.r.releases))
			}
			if len(byKind["acquire-while-held"]) == 0 {
				c.ok("C09.R4", "no-reacquire "+fnm, "no Acquire of the lock and no call to a function acquiring it is reachable in state Locked")
			}
		}
		if p.r.guardedN > 0 && len(byKind["guarded-unlocked"]) == 0 {
			c.ok("C09.R2", fmt.Sprintf("guarded-by %s entry=%s", fnm, stateName[p.entry]),
				fmt.Sprintf("%d load/store site(s) of guarded state, all reached only in state Locked", p.r.guardedN))
		}
	}
	c.Evals += la.evals
	c.floor("C09.R2", 2)
	c.note("lock operations on entry points: %d acquire site(s), %d release site(s)", totalAcq, totalRel)

	// ---- R3: unlocked users are init-only ----
	// every function that touches guarded state directly but is not analysed
	// as part of a concurrent entry's call tree must be reachable only through
	// (*BitmapAllocator).init.
	immutable := map[*types.Var]string{}
	for _, fn := range []struct{ typ, fld string }{
		{"BitmapAllocator", "pools"}, {"BitmapAllocator", "poolsHdr"}, {"BitmapAllocator", "totalPages"},
		{"framePool", "startFrame"}, {"framePool", "endFrame"}, {"framePool", "freeBitmap"}, {"framePool", "freeBitmapHdr"},
	} {
		f := m.fieldOf(pmm, fn.typ, fn.fld)
		if f == nil {
			c.unresolved("C09.R3", fn.typ+"."+fn.fld)
			continue
		}
		immutable[f] = fn.typ + "." + fn.fld
	}
	direct := map[*ssa.Function][]string{}
	m.eachInstr(func(fn *ssa.Function, in ssa.Instruction) {
		if name, ok := la.guardedAccess(in); ok && !concurrent[fn] {
			direct[fn] = append(direct[fn], "uses "+name)
		}
		if st, ok := in.(*ssa.Store); ok {
			p := accessPath(st.Addr)
			lf, rest := lastField(p)
			if lf == freeBitmap && strings.HasPrefix(rest, "[]") {
				return // element stores of freeBitmap are guarded state, handled above
			}
			// whole-field stores and stores to components (slice header fields)
			for _, f := range storedFields(p) {
				if name, ok := immutable[f]; ok {
					direct[fn] = append(direct[fn], "stores "+name)
				}
			}
		}
	})
	stop := map[*ssa.Function]bool{initFn: true}
	users := sortedFuncs(funcSet(direct))
	c.floor("C09.R3", 3)
	for _, fn := range users {
		if fn == initFn {
			continue
		}
		callers := cg.transitiveCallers(fn, stop)
		bad := []string{}
		for _, cf := range sortedFuncs(callers) {
			if cf == initFn {
				continue
			}
			// every function in the chain must be unexported, called (not
			// referenced), and have at least one caller leading to init
			if cf.Object() != nil && cf.Object().Exported() && cf.Parent() == nil {
				bad = append(bad, m.fnName(cf)+" is exported")
			}
			if concurrent[cf] {
				bad = append(bad, m.fnName(cf)+" is part of a concurrent entry point's call tree")
			}
			hasCaller := false
			for _, e := range cg.Callers[cf] {
				if e.Kind == "ref" {
					bad = append(bad, m.fnName(cf)+" has its address taken in "+m.fnName(e.From))
				}
				hasCaller = true
			}
			if !hasCaller {
				bad = append(bad, m.fnName(cf)+" has no caller (cannot be shown to run only during init)")
			}
		}
		if !callers[initFn] {
			bad = append(bad, "not reachable from (*BitmapAllocator).init")
		}
		what := strings.Join(uniq(direct[fn]), ", ")
		if len(bad) == 0 {
			c.ok("C09.R3", "init-only "+m.fnName(fn), what+" without the lock; reachable only through (*BitmapAllocator).init")
		} else {
			c.fail("C09.R3", "init-only "+m.fnName(fn), what+" without the lock, but: "+strings.Join(uniq(bad), "; "), m.pos(fn.Pos()))
		}
	}
	// init is called only from pmm.Init, before publication, never after
	initCallers := cg.Callers[initFn]
	okCallers := len(initCallers) > 0
	for _, e := range initCallers {
		if e.From != pmmInit || e.Kind != "call" {
			okCallers = false
		}
	}
	if initFn == pmmInit {
		okCallers = true // inlined: the routine is pmm.Init
	}
	c.check(okCallers, "C09.R3", "init-callers (*BitmapAllocator).init",
		"called only from pmm.Init", "(*BitmapAllocator).init must be called (not referenced) only from pmm.Init")
	for _, pn := range publishNodes {
		// every path to the publication passes a call of init whose error was nil
		okBefore, path := g.MustPassBefore(pn, func(n int) bool { return contains(initCalls, n) })
		facts := g.FactsAt(pn)
		nilErr := hasFact(facts, func(f Fact) bool {
			return cmpMatch(f, token.EQL, func(v ssa.Value) bool { return derivesFromCall(v, initDone, m) }, isNilConst)
		})
		after := g.Reach(g.Succ[pn], nil, nil)
		reinit := false
		for n, in := range g.Ins {
			if after[n] {
				if cc := callCommon(in); cc != nil {
					if cal := m.callee(cc); cal != nil && cal != setFA && la.touching[cal] && !concurrent[cal] {
						reinit = true
					}
				}
			}
		}
		switch {
		case !okBefore:
			c.fail("C09.R3", "publication pmm.Init", "a path reaches the publication of the allocator without running (*BitmapAllocator).init", g.where(path, 10)...)
		case !nilErr:
			c.fail("C09.R3", "publication pmm.Init", "the publication of the allocator is not dominated by the nil side of init()'s error", g.posOf(pn))
		case reinit:
			c.fail("C09.R3", "publication pmm.Init", "an init-only function of the allocator is called after the allocator has been published", g.posOf(pn))
		default:
			c.ok("C09.R3", "publication pmm.Init", "mm.SetFrameAllocator(<bitmap allocator>) is reached only after init() returned nil; no init-only function runs after it", g.posOf(pn))
		}
	}
}

func isNilIface(v interface{}) bool {
	switch x := v.(type) {
	case nil:
		return true
	case *ssa.Function:
		return x == nil
	case *ssa.Global:
		return x == nil
	case *types.Var:
		return x == nil
	case *types.Named:
		return x == nil
	case *ssa.NamedConst:
		return x == nil
	}
	return false
}

func funcSet(m map[*ssa.Function][]string) map[*ssa.Function]bool {
	out := map[*ssa.Function]bool{}
	for f := range m {
		out[f] = true
	}
	return out
}

func uniq(in []string) []string {
	seen := map[string]bool{}
	var out []string
	for _, s := range in {
		if !seen[s] {
			seen[s] = true
			out = append(out, s)
		}
	}
	sort.Strings(out)
	return out
}

func contains(xs []int, x int) bool {
	for _, y := range xs {
		if x == y {
			return true
		}
	}
	return false
}

// derivesFromCall: v is the result of a call to fn (possibly through Extract
// or a phi whose edges all are).
func derivesFromCall(v ssa.Value, fn *ssa.Function, m *Module) bool {
	switch x := strip(v).(type) {
	case *ssa.Call:
		return m.callee(x.Common()) == fn
	case *ssa.Extract:
		return derivesFromCall(x.Tuple, fn, m)
	}
	return false
}
