package main

import (
	"fmt"
	"go/token"
	"go/types"

	"golang.org/x/tools/go/ssa"
)

// C04.R7: constant relations of the paging geometry and the structure of the
// recursive-mapping walk.
func (x *c04) r7() {
	c, m := x.c, x.m
	c.floor("C04.R7", 3)
	const vmm = "mm/vmm"
	pkg := m.pkg(vmm)
	ip := &Interp{m: m, Limit: 100000}
	tables, err := loadTables(m, pkg, ip)
	shiftsG, bitsG := pkg.Var("pageLevelShifts"), pkg.Var("pageLevelBits")
	pdtVA := pkg.Var("pdtVirtualAddr")
	if err != nil || shiftsG == nil || bitsG == nil || pdtVA == nil {
		c.unresolved("C04.R7", "vmm.pageLevelShifts / pageLevelBits / pdtVirtualAddr")
		return
	}
	shifts, bits := tables.scalars[shiftsG], tables.scalars[bitsG]
	pageShift, _ := namedConstUint(m, "mm", "PageShift")
	ptrShift, _ := namedConstUint(m, "mm", "PointerShift")
	tempAddr, _ := namedConstUint(m, vmm, "tempMappingAddr")
	physMask, _ := namedConstUint(m, vmm, "ptePhysPageMask")
	var bad []string
	n := int(x.levels)
	if len(shifts) != n || len(bits) != n {
		bad = append(bad, fmt.Sprintf("pageLevelShifts/pageLevelBits have %d/%d entries for %d levels", len(shifts), len(bits), n))
	} else {
		sum := pageShift
		for i := n - 1; i >= 0; i-- {
			s, _ := ivUint(shifts[i])
			b, _ := ivUint(bits[i])
			if s != sum {
				bad = append(bad, fmt.Sprintf("pageLevelShifts[%d] = %d, expected %d (page shift plus the bits of all lower levels)", i, s, sum))
			}
			if (uint64(1)<<b)<<ptrShift != x.pageSize {
				bad = append(bad, fmt.Sprintf("a level-%d table has %d entries of %d bytes, which is not one page", i, 1<<b, 1<<ptrShift))
			}
			sum += b
		}
		if sum != 48 {
			bad = append(bad, fmt.Sprintf("the levels translate %d address bits, expected 48", sum))
		}
		// recursive slot: last index at every level, sign-extended
		last := func(i int) uint64 { b, _ := ivUint(bits[i]); return 1<<b - 1 }
		rec := uint64(0xffff) << 48
		for i := 0; i < n; i++ {
			s, _ := ivUint(shifts[i])
			rec |= last(i) << s
		}
		var pv uint64
		okp := false
		if sts := m.storesToGlobal(pdtVA); len(sts) == 1 {
			pv, okp = constUint64(sts[0].Val)
		}
		if !okp || pv != rec {
			bad = append(bad, fmt.Sprintf("pdtVirtualAddr = %#x, expected %#x (the last entry at every level: the recursive mapping)", pv, rec))
		}
		s0, _ := ivUint(shifts[0])
		wantTemp := rec&^(last(0)<<s0) | (last(0)-1)<<s0
		if tempAddr != wantTemp {
			bad = append(bad, fmt.Sprintf("tempMappingAddr = %#x, expected %#x (entry 510 of the top level, last entry below): it must not alias the recursive slot", tempAddr, wantTemp))
		}
		if physMask != (uint64(1)<<52-1)&^(uint64(1)<<pageShift-1) {
			bad = append(bad, fmt.Sprintf("ptePhysPageMask = %#x, expected bits 12..51", physMask))
		}
	}
	c.check(len(bad) == 0, "C04.R7", "paging-geometry vmm", "shifts = 12 + bits of lower levels, one page per table, 48 translated bits, recursive slot 511/511/511/511, temp page 510/511/511/511, frame mask bits 12..51",
		fmt.Sprint(bad))

	// ---- structure of walk
	g := newIG(m, x.walk, nil)
	virt := x.walk.Params[0]
	wfn := x.walk.Params[1]
	msg := ""
	// the loop variables by role: the level is what walkFn receives as its first
	// argument; the table address is the other pointer-sized variable of that loop
	// (the level may be the loop's own variable or a conversion of another
	// counter, `level = uint8(i)`: what matters is its value per iteration)
	var levelPhi ssa.Value
	var tablePhi *ssa.Phi
	var call *ssa.Call
	for _, in := range g.Ins {
		if cl, ok := in.(*ssa.Call); ok && cl.Common().Value == ssa.Value(wfn) {
			call = cl
		}
	}
	if call != nil && len(call.Common().Args) > 1 {
		levelPhi = stripConv(call.Common().Args[0])
		var ea ssa.Value
		if pc, ok := ptrSource(call.Common().Args[1]).(*ssa.Call); ok && len(pc.Common().Args) > 0 {
			ea = pc.Common().Args[0]
		} else {
			ea = ptrFromUintptr(call.Common().Args[1])
		}
		if ea != nil {
			if add, ok := stripConv(ea).(*ssa.BinOp); ok && add.Op == token.ADD {
				for _, op := range []ssa.Value{add.X, add.Y} { // (the sum in either order)
					if phi, ok := stripConv(op).(*ssa.Phi); ok && tablePhi == nil {
						if bt, ok := phi.Type().Underlying().(*types.Basic); ok && bt.Kind() == types.Uintptr {
							tablePhi = phi
						}
					}
				}
			}
		}
	}
	loadsTable := func(v ssa.Value, gl *ssa.Global, idx ssa.Value) bool {
		ld, ok := stripConv(v).(*ssa.UnOp)
		if !ok || ld.Op != token.MUL {
			return false
		}
		ia, ok := ld.X.(*ssa.IndexAddr)
		return ok && ia.X == ssa.Value(gl) && stripConv(ia.Index) == idx
	}
	switch {
	case levelPhi == nil || tablePhi == nil || call == nil:
		msg = "walk no longer has the level / tableAddr loop calling walkFn"
	default:
		// in induction form: level = T, for pageLevels iterations (whichever way the
		// loop is written: a header test level < pageLevels, `for level := range n`)
		tripsOK := false
		zl := &Polyizer{}
		if lf, ok := g.loopFormAt(zl, call.Block()); ok {
			first, step, okA := lf.affineInT(levelPhi)
			f0, c0 := first.isConst()
			s1, c1 := step.isConst()
			tk, ct := lf.Trips.isConst()
			tripsOK = okA && c0 && f0 == 0 && c1 && s1 == 1 && lf.TripsOK && ct && uint64(tk) == x.levels
			lf.Done()
		}
		if !tripsOK {
			msg = "the walk does not visit levels 0..pageLevels-1 in order"
		}
		// entry address passed to walkFn: tableAddr + (((virt >> shifts[level]) & ((1<<bits[level])-1)) << PointerShift)
		var entryAddr ssa.Value
		if pc, ok := ptrSource(call.Common().Args[1]).(*ssa.Call); ok {
			entryAddr = pc.Common().Args[0] // through the ptePtrFn seam
			if f := m.callee(pc.Common()); f == nil || !isIdentityPtr(f) {
				msg = "the entry pointer is not produced by the identity seam ptePtrFn"
			}
		} else {
			entryAddr = ptrFromUintptr(call.Common().Args[1])
		}
		add, ok := stripConv(entryAddr).(*ssa.BinOp)
		var idxOp ssa.Value
		if ok && add.Op == token.ADD {
			switch {
			case stripConv(add.X) == ssa.Value(tablePhi):
				idxOp = add.Y
			case stripConv(add.Y) == ssa.Value(tablePhi):
				idxOp = add.X
			}
		}
		if msg == "" && idxOp == nil {
			msg = "the entry address is not tableAddr + index*8"
		}
		if msg == "" {
			sh, ok := stripConv(idxOp).(*ssa.BinOp)
			if !ok || sh.Op != token.SHL {
				msg = "the entry index is not scaled by the pointer size"
			} else if k, ok := constUint64(sh.Y); !ok || k != ptrShift {
				msg = "the entry index is not scaled by 1 << PointerShift"
			} else if and, ok := stripConv(sh.X).(*ssa.BinOp); !ok || and.Op != token.AND {
				msg = "the entry index is not masked to the level's width"
			} else {
				shr, ok1 := stripConv(and.X).(*ssa.BinOp)
				sub, ok2 := stripConv(and.Y).(*ssa.BinOp)
				if !ok1 || shr.Op != token.SHR || stripConv(shr.X) != ssa.Value(virt) || !loadsTable(shr.Y, shiftsG, levelPhi) {
					msg = "the entry index is not virtAddr >> pageLevelShifts[level]"
				} else if !ok2 || sub.Op != token.SUB {
					msg = "the index mask is not (1 << pageLevelBits[level]) - 1"
				} else if one, ok := constInt64(sub.Y); !ok || one != 1 {
					msg = "the index mask is not (1 << pageLevelBits[level]) - 1"
				} else if shl, ok := stripConv(sub.X).(*ssa.BinOp); !ok || shl.Op != token.SHL || !loadsTable(shl.Y, bitsG, levelPhi) {
					msg = "the index mask is not (1 << pageLevelBits[level]) - 1"
				} else if k, ok := constInt64(shl.X); !ok || k != 1 {
					msg = "the index mask is not (1 << pageLevelBits[level]) - 1"
				}
			}
		}
		// next table address = entryAddr << bits[level]; initial = pdtVirtualAddr
		if msg == "" {
			init, next := false, false
			for _, e := range tablePhi.Edges {
				if isLoadOfGlobal(e, pdtVA) {
					init = true
				} else if b, ok := stripConv(e).(*ssa.BinOp); ok && b.Op == token.SHL && stripConv(b.X) == stripConv(entryAddr) && loadsTable(b.Y, bitsG, levelPhi) {
					next = true
				} else {
					msg = "unexpected table address update " + describe(e)
				}
			}
			if msg == "" && (!init || !next) {
				msg = "the table address does not start at pdtVirtualAddr and become entryAddr << pageLevelBits[level]"
			}
		}
		// abort on !ok
		if msg == "" {
			stop := false
			for _, f := range g.AllEdgeFacts() {
				if f.Y == nil && f.Op == token.NEQ && f.X == ssa.Value(call) {
					r := g.ReachAssuming(f.Edge, nil)
					stop = !r[g.Idx[call]]
				}
			}
			if !stop {
				msg = "the walk continues although the walker returned false"
			}
		}
		// level passed to walkFn
		if msg == "" && stripConv(call.Common().Args[0]) != ssa.Value(levelPhi) {
			msg = "walkFn does not receive the current level"
		}
	}
	c.check(msg == "", "C04.R7", "walk-structure "+m.fnName(x.walk), "entry = tableAddr + ((virt >> shifts[level]) & (2^bits[level]-1)) * 8; next table = entry << bits[level]; from pdtVirtualAddr; stops on false", msg, m.pos(x.walk.Pos()))
	// the seam is stored only by its initialiser
	if gl := pkg.Var("ptePtrFn"); gl != nil {
		_, ok := m.seamInit(gl)
		c.check(ok, "C04.R7", "entry-pointer-seam vmm.ptePtrFn", "single non-test initialiser (identity)", "ptePtrFn is reassigned in non-test code")
	}
}

// ptrSource strips pointer conversions down to the value the pointer was made from.
func ptrSource(v ssa.Value) ssa.Value {
	for i := 0; i < 6; i++ {
		switch t := v.(type) {
		case *ssa.Convert:
			v = t.X
		case *ssa.ChangeType:
			v = t.X
		default:
			return v
		}
	}
	return v
}

// isIdentityPtr: fn returns unsafe.Pointer(param).
func isIdentityPtr(fn *ssa.Function) bool {
	if len(fn.Blocks) != 1 || len(fn.Params) != 1 {
		return false
	}
	for _, in := range fn.Blocks[0].Instrs {
		if r, ok := in.(*ssa.Return); ok && len(r.Results) == 1 {
			return ptrSource(r.Results[0]) == ssa.Value(fn.Params[0])
		}
	}
	return false
}
