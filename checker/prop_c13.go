package main

import (
	"fmt"
	"go/token"
	"go/types"
	"strings"

	"golang.org/x/tools/go/ssa"
)

func init() {
	register(&Property{
		ID: "C13", NeedKernel: true, Run: runC13,
		Explanation: "Namespace tree list surgery decided on SSA: (R1) the five link fields, the object index and the free-list head are stored only by ObjectTree's " +
			"newObject/append/appendAfter/detach/free (and the constructor): the parser never writes a link; (R2) every store of a sibling link belongs to one of the " +
			"enumerated idioms and has its partner on every path: mutual link (A.next = B.index with B.prev = A.index), splice-in (A.next = C.next with " +
			"ObjectAt(A.next).prev = A.index), bypass (ObjectAt(A.prev).next = A.next under A.prev != Invalid together with ObjectAt(A.next).prev = A.prev under " +
			"A.next != Invalid), reset to InvalidIndex, free-list push/pop; the parent's first/last indices are updated under the matching first/last tests and the " +
			"moved node's parent index is set (detach resets all three links); (R3) newObject grows the pool only on the empty-free-list side, otherwise pops the head; it " +
			"resets all five links; free detaches first when a parent exists, refuses objects with children, marks the freed opcode and pushes; ObjectAt returns nil for " +
			"out-of-range and freed slots; (R4) Find resolves absolute paths downward from the root, moves one parent up per '^', resolves caret remainders and multi-segment names " +
			"downward only (findRelative, never its own upward search) and uses the parent-chain search only for single-segment names.",
		EnumRule:    "obligations per rule and construct (function + store / idiom)",
		Assumptions: []string{"segment matching inside findRelative, crash-freedom of Find on malformed expressions and the global induction over histories are not decided"},
		Controls: []Control{
			{Name: "findRelative falls back to Find", File: "kernel/device/acpi/aml/obj_tree.go", Old: "func (tree *ObjectTree) findRelative(scopeIndex uint32, expr []byte) uint32 {\n\texprLen := len(expr)\n", New: "func (tree *ObjectTree) findRelative(scopeIndex uint32, expr []byte) uint32 {\n\texprLen := len(expr)\n\tif exprLen == amlNameLen {\n\t\treturn tree.Find(scopeIndex, expr)\n\t}\n", Expect: "C13.R4 downward-only"},
			{Name: "digits stop the prefix skipping", File: "kernel/device/acpi/aml/obj_tree.go", Old: "(expr[segIndex] < 'A' || expr[segIndex] > 'Z'); segIndex++ {", New: "(expr[segIndex] < 'A' || expr[segIndex] > 'Z') && (expr[segIndex] < '0' || expr[segIndex] > '9'); segIndex++ {", Expect: "C13.R4"},
			{Name: "short last segment accepted", File: "kernel/device/acpi/aml/obj_tree.go", Old: "\t\tif exprLen-segIndex < amlNameLen {", New: "\t\tif segIndex >= exprLen {", Expect: "C13.R5"},
			{Name: "successor looked up after the link was overwritten", File: "kernel/device/acpi/aml/obj_tree.go", Old: "\ttree.ObjectAt(arg.nextSiblingIndex).prevSiblingIndex = arg.index\n\tnextTo.nextSiblingIndex = arg.index\n", New: "\tnextTo.nextSiblingIndex = arg.index\n\ttree.ObjectAt(nextTo.nextSiblingIndex).prevSiblingIndex = arg.index\n", Expect: "C13.R2"},
			{Name: "drop arg.prevSiblingIndex in append", File: "kernel/device/acpi/aml/obj_tree.go", Old: "\tLastArg.nextSiblingIndex = arg.index\n\targ.prevSiblingIndex = LastArg.index\n", New: "\tLastArg.nextSiblingIndex = arg.index\n", Expect: "C13.R2"},
			{Name: "parser writes nextSiblingIndex", File: "kernel/device/acpi/aml/parser.go", Old: "\t\ttermObj = p.objTree.ObjectAt(curObj.lastArgIndex)\n\t\t\tp.objTree.detach(curObj, termObj)", New: "\t\ttermObj = p.objTree.ObjectAt(curObj.lastArgIndex)\n\t\t\ttermObj.nextSiblingIndex = InvalidIndex\n\t\t\tp.objTree.detach(curObj, termObj)", Expect: "C13.R1"},
			{Name: "grow the pool before consulting the free list", File: "kernel/device/acpi/aml/obj_tree.go",
				Old: "\tif tree.freeListHeadIndex != InvalidIndex {\n\t\tobj = tree.objPool[tree.freeListHeadIndex]\n\t\ttree.freeListHeadIndex = obj.nextSiblingIndex\n\t} else {", New: "\tif tree.freeListHeadIndex != InvalidIndex && len(tree.objPool) > 1024 {\n\t\tobj = tree.objPool[tree.freeListHeadIndex]\n\t\ttree.freeListHeadIndex = obj.nextSiblingIndex\n\t} else {", Expect: "C13.R3"},
			{Name: "detach forgets the parent's last index", File: "kernel/device/acpi/aml/obj_tree.go", Old: "\tif obj.lastArgIndex == arg.index {\n\t\tobj.lastArgIndex = arg.prevSiblingIndex\n\t}\n\n", New: "", Expect: "C13.R2"},
			{Name: "detach bypass without the successor fix-up", File: "kernel/device/acpi/aml/obj_tree.go", Old: "\tif arg.nextSiblingIndex != InvalidIndex {\n\t\ttree.ObjectAt(arg.nextSiblingIndex).prevSiblingIndex = arg.prevSiblingIndex\n\t}\n\n", New: "", Expect: "C13.R2"},
			{Name: "appendAfter does not fix the successor's prev", File: "kernel/device/acpi/aml/obj_tree.go", Old: "\ttree.ObjectAt(arg.nextSiblingIndex).prevSiblingIndex = arg.index\n", New: "", Expect: "C13.R2"},
			{Name: "free does not mark the slot", File: "kernel/device/acpi/aml/obj_tree.go", Old: "\tobj.opcode = pOpIntFreedObject\n\tobj.nextSiblingIndex = tree.freeListHeadIndex", New: "\tobj.nextSiblingIndex = tree.freeListHeadIndex", Expect: "C13.R3"},
			{Name: "ObjectAt returns freed objects", File: "kernel/device/acpi/aml/obj_tree.go", Old: "\tif obj.opcode == pOpIntFreedObject {\n\t\treturn nil\n\t}\n\n\treturn obj", New: "\treturn obj", Expect: "C13.R3"},
			{Name: "free keeps children reachable", File: "kernel/device/acpi/aml/obj_tree.go", Old: "\tif obj.firstArgIndex != InvalidIndex || obj.lastArgIndex != InvalidIndex {\n\t\tpanic(\"aml.ObjectTree: attempted to free object that still contains argument references\")\n\t}\n", New: "", Expect: "C13.R3"},
			{Name: "reused slot keeps its old parent link", File: "kernel/device/acpi/aml/obj_tree.go", Old: "\tobj.parentIndex = InvalidIndex\n\tobj.prevSiblingIndex = InvalidIndex\n\tobj.nextSiblingIndex = InvalidIndex\n\tobj.firstArgIndex", New: "\tobj.prevSiblingIndex = InvalidIndex\n\tobj.nextSiblingIndex = InvalidIndex\n\tobj.firstArgIndex", Expect: "C13.R3"},
			{Name: "caret remainder searched upward", File: "kernel/device/acpi/aml/obj_tree.go", Old: "\t\t\t\treturn tree.findRelative(scopeIndex, expr[startIndex:])", New: "\t\t\t\treturn tree.Find(scopeIndex, expr[startIndex:])", Expect: "C13.R4"},
			{Name: "absolute paths resolved from the current scope", File: "kernel/device/acpi/aml/obj_tree.go", Old: "\t\treturn tree.findRelative(0, expr[1:])", New: "\t\treturn tree.findRelative(scopeIndex, expr[1:])", Expect: "C13.R4"},
			{Name: "append does not set the parent", File: "kernel/device/acpi/aml/obj_tree.go", Old: "func (tree *ObjectTree) append(obj, arg *Object) {\n\targ.parentIndex = obj.index\n", New: "func (tree *ObjectTree) append(obj, arg *Object) {\n", Expect: "C13.R2"},
		},
	})
}

type c13 struct {
	c *Ctx
	m *Module

	parent, prev, next, first, last, index, opcode, pool, head *types.Var
	newObject, appendM, appendAfter, detach, free, objectAt    *ssa.Function
	invalid, freed                                             uint64
	objT                                                       *types.Named
}

// objExpr renders the identity of an Object pointer: a parameter name, or
// ObjectAt(<link expression>).
func (x *c13) objExpr(v ssa.Value) string {
	v = strip(v)
	switch t := v.(type) {
	case *ssa.Parameter:
		// the role of an *Object parameter of a tree method is its position
		// (container, element, neighbour); its name is free
		if fn := t.Parent(); fn != nil && fn.Signature.Recv() != nil {
			roles := []string{"obj", "arg", "nextTo"}
			k := 0
			for _, p := range fn.Params[1:] {
				if !typeIs(p.Type(), x.objT) {
					continue
				}
				if p == t && k < len(roles) {
					return roles[k]
				}
				k++
			}
		}
		return t.Name()
	case *ssa.Call:
		if x.m.callee(t.Common()) == x.objectAt {
			return "ObjectAt(" + x.valExpr(t.Common().Args[1]) + ")"
		}
	case *ssa.UnOp:
		if t.Op == token.MUL {
			return "*" + pathString(accessPath(t.X))
		}
	case *ssa.Alloc:
		return "new"
	}
	return "?" + v.Name()
}

// valExpr renders an index value: InvalidIndex, X.field, or other.
func (x *c13) valExpr(v ssa.Value) string {
	v = stripConv(v)
	if k, ok := constUint64(v); ok {
		if k == x.invalid {
			return "Invalid"
		}
		return fmt.Sprint(k)
	}
	if base, f, ok := loadedField(v); ok {
		return x.objExpr(base) + "." + f.Name()
	}
	return "?" + v.Name()
}

type linkStore struct {
	n     int
	obj   string
	field *types.Var
	val   string
	st    *ssa.Store
}

func (x *c13) linkStores(g *IG) []linkStore {
	var out []linkStore
	for n, in := range g.Ins {
		st, ok := in.(*ssa.Store)
		if !ok {
			continue
		}
		base, f, ok := fieldOfAddr(st.Addr)
		if !ok {
			continue
		}
		switch f {
		case x.parent, x.prev, x.next, x.first, x.last:
			out = append(out, linkStore{n, x.objExpr(base), f, x.valExpr(st.Val), st})
		}
	}
	// Store forwarding: after `X.f = E` the link X.f holds E, so an object
	// named ObjectAt(E) afterwards is ObjectAt(X.f). The canonical name uses
	// the link (as if the code re-read X.f), provided the store precedes on
	// every path and X.f is not written in between.
	for i := range out {
		s := &out[i]
		if !strings.HasPrefix(s.obj, "ObjectAt(") {
			continue
		}
		e := strings.TrimSuffix(strings.TrimPrefix(s.obj, "ObjectAt("), ")")
		// the index value ObjectAt was called with (a link read at another time has
		// the same name but is another value)
		var sArg ssa.Value
		if sb, _, ok := fieldOfAddr(s.st.Addr); ok {
			if call, ok := strip(sb).(*ssa.Call); ok && m2callee(x.m, call) == x.objectAt && len(call.Common().Args) == 2 {
				sArg = stripConv(call.Common().Args[1])
			}
		}
		for _, t := range out {
			if t.n == s.n || t.val != e || strings.HasPrefix(t.obj, "ObjectAt(") || t.obj+"."+t.field.Name() == e {
				continue
			}
			if sArg == nil || stripConv(t.st.Val) != sArg {
				continue
			}
			if ok, _ := g.MustPassBefore(s.n, func(k int) bool { return k == t.n }); !ok {
				continue
			}
			clobbered := false
			for _, u := range out {
				if u.n != t.n && u.obj == t.obj && u.field == t.field && g.Reach(g.Succ[t.n], nil, nil)[u.n] && g.Reach(g.Succ[u.n], nil, nil)[s.n] {
					clobbered = true
				}
			}
			if !clobbered {
				s.obj = "ObjectAt(" + t.obj + "." + t.field.Name() + ")"
				break
			}
		}
	}
	return out
}

func runC13(c *Ctx) {
	m := c.K
	const aml = "device/acpi/aml"
	x := &c13{c: c, m: m}
	x.objT = m.lookupType(aml, "Object")
	f := func(t, n string) *types.Var { return m.fieldOf(aml, t, n) }
	x.parent, x.prev, x.next, x.first, x.last = f("Object", "parentIndex"), f("Object", "prevSiblingIndex"), f("Object", "nextSiblingIndex"), f("Object", "firstArgIndex"), f("Object", "lastArgIndex")
	x.index, x.opcode, x.pool, x.head = f("Object", "index"), f("Object", "opcode"), f("ObjectTree", "objPool"), f("ObjectTree", "freeListHeadIndex")
	mt := func(n string) *ssa.Function { return m.lookupMethod(aml, "ObjectTree", n) }
	x.newObject, x.appendM, x.appendAfter, x.detach, x.free, x.objectAt = mt("newObject"), mt("append"), mt("appendAfter"), mt("detach"), mt("free"), mt("ObjectAt")
	for name, v := range map[string]interface{}{"Object.parentIndex": x.parent, "Object.prevSiblingIndex": x.prev, "Object.nextSiblingIndex": x.next, "Object.firstArgIndex": x.first,
		"Object.lastArgIndex": x.last, "Object.index": x.index, "Object.opcode": x.opcode, "ObjectTree.objPool": x.pool, "ObjectTree.freeListHeadIndex": x.head,
		"ObjectTree.newObject": x.newObject, "ObjectTree.append": x.appendM, "ObjectTree.appendAfter": x.appendAfter, "ObjectTree.detach": x.detach,
		"ObjectTree.free": x.free, "ObjectTree.ObjectAt": x.objectAt} {
		if isNilIface(v) {
			c.unresolved("C13.R1", name)
			return
		}
	}
	var ok1, ok2 bool
	x.invalid, ok1 = namedConstUint(m, aml, "InvalidIndex")
	x.freed, ok2 = namedConstUint(m, aml, "pOpIntFreedObject")
	if !ok1 || !ok2 {
		c.unresolved("C13.R1", "aml.InvalidIndex / pOpIntFreedObject")
		return
	}

	// ================= R1 =================
	c.floor("C13.R1", 7)
	surgeons := map[*ssa.Function]bool{x.newObject: true, x.appendM: true, x.appendAfter: true, x.detach: true, x.free: true}
	ctor := m.lookupFunc(aml, "NewObjectTree")
	for _, fld := range []*types.Var{x.parent, x.prev, x.next, x.first, x.last, x.index, x.head} {
		stores := m.storesToField(fld)
		bad := ""
		var where []string
		for _, fs := range stores {
			c.Evals++
			if surgeons[fs.Fn] || (fld == x.head && fs.Fn == ctor && freshBase(fs.Store)) {
				continue
			}
			bad = fld.Name() + " is written by " + m.fnName(fs.Fn) + ", outside ObjectTree's list-surgery methods"
			where = []string{m.pos(fs.Store.Pos())}
		}
		if len(stores) == 0 {
			bad = "no store found (rule shape lost)"
		}
		c.check(bad == "", "C13.R1", "link-writers "+fld.Name(), fmt.Sprintf("%d store(s), all inside newObject/append/appendAfter/detach/free", len(stores)), bad, where...)
	}

	// ================= R2 =================
	c.floor("C13.R2", 8)
	x.pairing(x.appendM)
	x.pairing(x.appendAfter)
	x.pairing(x.detach)
	x.parentUpdates()

	// ================= R3 =================
	x.freeList()

	// ================= R4 =================
	x.findDispatch()
	x.lookupBounds()
	x.prefixSkipSet()
}

// pairing checks the sibling-link idioms of one function.
func (x *c13) pairing(fn *ssa.Function) {
	c, m := x.c, x.m
	g := newIG(m, fn, nil)
	ret := isRet(g)
	ls := x.linkStores(g)
	// partner: a store satisfying pred that lies on every path through node n (before or after it)
	hasPartner := func(n int, pred func(linkStore) bool) bool {
		isP := func(k int) bool {
			for _, s := range ls {
				if s.n == k && pred(s) {
					return true
				}
			}
			return false
		}
		if ok, _ := g.MustPassBefore(n, isP); ok {
			return true
		}
		ok, _ := g.MustPassAfter(n, isP, ret)
		return ok
	}
	guardNE := func(n int, link string) bool {
		// dominated by <link> != Invalid
		return hasFact(g.FactsAt(n), func(f Fact) bool {
			if f.Y == nil || f.Op != token.NEQ {
				return false
			}
			return x.valExpr(f.X) == link && x.valExpr(f.Y) == "Invalid" || x.valExpr(f.Y) == link && x.valExpr(f.X) == "Invalid"
		})
	}
	seq := 0
	for _, s := range ls {
		if s.field != x.next && s.field != x.prev {
			continue
		}
		c.Evals++
		key := fmt.Sprintf("sibling-link %s %s.%s = %s", m.fnName(fn), s.obj, s.field.Name(), s.val)
		seq++
		other := x.prev
		if s.field == x.prev {
			other = x.next
		}
		switch {
		case s.val == "Invalid":
			c.ok("C13.R2", key, "reset to InvalidIndex", g.posOf(s.n))
		case strings.HasSuffix(s.val, ".index"):
			// mutual link: A.f = B.index  <->  B.other = A.index
			b := strings.TrimSuffix(s.val, ".index")
			okp := hasPartner(s.n, func(p linkStore) bool { return p.field == other && p.obj == b && p.val == s.obj+".index" })
			// appendAfter's successor fix-up: ObjectAt(arg.next).prev = arg.index pairs with arg.next = nextTo.next
			if !okp && strings.HasPrefix(s.obj, "ObjectAt(") {
				inner := strings.TrimSuffix(strings.TrimPrefix(s.obj, "ObjectAt("), ")")
				// inner is "<b>.<field>": the object found through b's own link must point back to b
				okp = inner == b+"."+other.Name() && hasPartner(s.n, func(p linkStore) bool { return p.field == other && p.obj == b })
				if okp {
					c.ok("C13.R2", key, "splice-in: the neighbour found through "+inner+" points back to "+b, g.posOf(s.n))
					continue
				}
			}
			c.check(okp, "C13.R2", key, "mutual link: "+b+"."+other.Name()+" = "+s.obj+".index on every path",
				"one-sided link: "+s.obj+"."+s.field.Name()+" is set to "+b+" but "+b+"."+other.Name()+" is not set to "+s.obj+" on every path (the list reads differently forwards and backwards)", g.posOf(s.n))
		default:
			// value is another object's link (X.next / X.prev)
			dot := strings.LastIndex(s.val, ".")
			if dot < 0 {
				c.undecided("C13.R2", key, "link store outside the idiom table: value "+s.val, g.posOf(s.n))
				continue
			}
			src, srcField := s.val[:dot], s.val[dot+1:]
			switch {
			case strings.HasPrefix(s.obj, "ObjectAt(") && src != "":
				// bypass: ObjectAt(A.prev).next = A.next (guarded A.prev != Invalid) with partner ObjectAt(A.next).prev = A.prev (guarded)
				inner := strings.TrimSuffix(strings.TrimPrefix(s.obj, "ObjectAt("), ")")
				wantInner := src + "." + other.Name()
				if inner != wantInner || srcField != s.field.Name() {
					c.fail("C13.R2", key, "bypass store does not have the form ObjectAt(A."+other.Name()+")."+s.field.Name()+" = A."+s.field.Name(), g.posOf(s.n))
					continue
				}
				guarded := guardNE(s.n, inner)
				// the symmetric bypass exists somewhere in the function, guarded by its own link test
				sym := false
				for _, p := range ls {
					if p.field == other && p.obj == "ObjectAt("+src+"."+s.field.Name()+")" && p.val == src+"."+other.Name() && guardNE(p.n, src+"."+s.field.Name()) {
						sym = true
					}
				}
				// the guard must be the only reason to skip: the false side of the guard skips only this store
				switch {
				case !guarded:
					c.fail("C13.R2", key, "the neighbour is dereferenced without testing "+inner+" != InvalidIndex", g.posOf(s.n))
				case !sym:
					c.fail("C13.R2", key, "one-sided bypass: the "+other.Name()+" side of the removed node is not re-linked (ObjectAt("+src+"."+s.field.Name()+")."+other.Name()+" = "+src+"."+other.Name()+" under its own != InvalidIndex test)", g.posOf(s.n))
				default:
					// every path on which inner != Invalid performs the store
					var skip []Edge
					for _, f := range g.AllEdgeFacts() {
						if f.Y != nil && f.Op == token.EQL && (x.valExpr(f.X) == inner && x.valExpr(f.Y) == "Invalid" || x.valExpr(f.Y) == inner && x.valExpr(f.X) == "Invalid") {
							skip = append(skip, f.Edge)
						}
					}
					cut := map[Edge]bool{}
					for _, e := range skip {
						cut[e] = true
					}
					if p := g.Path([]int{0}, cut, func(k int) bool { return k == s.n }, func(k int) bool { return k != s.n && ret(k) }); p != nil {
						c.fail("C13.R2", key, "a path on which "+inner+" != InvalidIndex returns without re-linking the neighbour", g.where(p, 8)...)
					} else {
						c.ok("C13.R2", key, "bypass, guarded by "+inner+" != InvalidIndex, with its symmetric partner", g.posOf(s.n))
					}
				}
			default:
				// splice-in: A.next = C.next requires ObjectAt(A.next).prev = A.index
				okp := hasPartner(s.n, func(p linkStore) bool {
					return p.field == other && p.val == s.obj+".index" && (p.obj == "ObjectAt("+s.obj+"."+s.field.Name()+")" || p.obj == "ObjectAt("+s.val+")")
				})
				c.check(okp, "C13.R2", key, "splice-in: the node reached through the copied link points back to "+s.obj,
					"one-sided splice: "+s.obj+" takes over "+s.val+" but that neighbour's "+other.Name()+" link is not set to "+s.obj, g.posOf(s.n))
			}
		}
	}
	if seq == 0 {
		c.fail("C13.R2", "sibling-link "+m.fnName(fn), "no sibling-link store found (rule shape lost)", m.pos(fn.Pos()))
	}
}

func (x *c13) parentUpdates() {
	c, m := x.c, x.m
	// append: parent set on every path; last = arg.index on every path; first = arg.index exactly on the empty side
	for _, fn := range []*ssa.Function{x.appendM, x.appendAfter} {
		g := newIG(m, fn, nil)
		ret := isRet(g)
		ls := x.linkStores(g)
		isSt := func(fld *types.Var, obj, val string) func(int) bool {
			return func(k int) bool {
				for _, s := range ls {
					if s.n == k && s.field == fld && s.obj == obj && s.val == val {
						return true
					}
				}
				return false
			}
		}
		delegates := func(k int) bool { return fn == x.appendAfter && m.callsTo(g.Ins[k], x.appendM) }
		bad := ""
		for _, rn := range g.Returns() {
			p := isSt(x.parent, "arg", "obj.index")
			if ok, _ := g.MustPassBefore(rn, func(k int) bool { return p(k) || delegates(k) }); !ok {
				bad = "a path returns without arg.parentIndex = obj.index"
			}
		}
		_ = ret
		if fn == x.appendM {
			lastSt := isSt(x.last, "obj", "arg.index")
			firstSt := isSt(x.first, "obj", "arg.index")
			for _, rn := range g.Returns() {
				if ok, _ := g.MustPassBefore(rn, lastSt); !ok && bad == "" {
					bad = "a path returns without obj.lastArgIndex = arg.index"
				}
			}
			nfirst := 0
			for k := range g.Ins {
				if firstSt(k) {
					nfirst++
					if !hasFact(g.FactsAt(k), func(f Fact) bool {
						return f.Y != nil && f.Op == token.EQL && (x.valExpr(f.X) == "obj.lastArgIndex" || x.valExpr(f.X) == "obj.firstArgIndex") && x.valExpr(f.Y) == "Invalid"
					}) && bad == "" {
						bad = "obj.firstArgIndex is overwritten although the list is not empty"
					}
				}
			}
			// on the empty side every path stores first
			var emptyE []Edge
			for _, f := range g.AllEdgeFacts() {
				if f.Y != nil && f.Op == token.EQL && (x.valExpr(f.X) == "obj.lastArgIndex" || x.valExpr(f.X) == "obj.firstArgIndex") && x.valExpr(f.Y) == "Invalid" {
					emptyE = append(emptyE, f.Edge)
				}
			}
			for _, e := range emptyE {
				if p := g.Path([]int{g.Succ[e.From][e.K]}, nil, firstSt, func(k int) bool { return !firstSt(k) && isRet(g)(k) }); p != nil && bad == "" {
					bad = "appending to an empty list does not set obj.firstArgIndex"
				}
			}
			if (nfirst == 0 || len(emptyE) == 0) && bad == "" {
				bad = "append has no empty-list case that sets obj.firstArgIndex"
			}
		} else {
			// appendAfter: delegates to append exactly when nextTo is the last one
			for k := range g.Ins {
				if delegates(k) {
					if !hasFact(g.FactsAt(k), func(f Fact) bool {
						return f.Y != nil && f.Op == token.EQL && x.valExpr(f.X) == "nextTo.nextSiblingIndex" && x.valExpr(f.Y) == "Invalid"
					}) && bad == "" {
						bad = "appendAfter delegates to append although nextTo is not the last argument"
					}
					a := g.callArgs(k)
					if x.objExpr(a[1]) != "obj" || x.objExpr(a[2]) != "arg" {
						bad = "appendAfter delegates to append with the wrong objects"
					}
				}
			}
			// on the non-last side the parent's lastArgIndex must not change and no delegate
			for _, s := range ls {
				// (a tail case written out in place of the call to append updates them
				// under nextTo.nextSiblingIndex == Invalid)
				if hasFact(g.FactsAt(s.n), func(f Fact) bool {
					return f.Y != nil && f.Op == token.EQL && x.valExpr(f.X) == "nextTo.nextSiblingIndex" && x.valExpr(f.Y) == "Invalid"
				}) {
					continue
				}
				if (s.field == x.last || s.field == x.first) && bad == "" {
					bad = "appendAfter changes the parent's first/last index although the new node is inserted in the middle"
				}
			}
		}
		c.check(bad == "", "C13.R2", "parent-update "+m.fnName(fn), "parent index set on every path; first/last updated exactly when the node becomes first/last", bad, m.pos(fn.Pos()))
	}
	// detach
	g := newIG(m, x.detach, nil)
	ls := x.linkStores(g)
	bad := ""
	for _, rn := range g.Returns() {
		for _, fld := range []*types.Var{x.prev, x.next, x.parent} {
			fld := fld
			if ok, _ := g.MustPassBefore(rn, func(k int) bool {
				for _, s := range ls {
					if s.n == k && s.field == fld && s.obj == "arg" && s.val == "Invalid" {
						return true
					}
				}
				return false
			}); !ok && bad == "" {
				bad = "detach returns without resetting arg." + fld.Name() + " to InvalidIndex"
			}
		}
	}
	// first/last updates under the matching tests, and performed on every path where the test holds
	for _, spec := range []struct {
		fld      *types.Var
		val, tst string
	}{{x.first, "arg.nextSiblingIndex", "obj.firstArgIndex"}, {x.last, "arg.prevSiblingIndex", "obj.lastArgIndex"}} {
		found := false
		for _, s := range ls {
			if s.field != spec.fld || s.obj != "obj" {
				continue
			}
			found = true
			if s.val != spec.val && bad == "" {
				bad = "obj." + spec.fld.Name() + " is set to " + s.val + ", expected " + spec.val
			}
			if !hasFact(g.FactsAt(s.n), func(f Fact) bool {
				return f.Y != nil && f.Op == token.EQL && (x.valExpr(f.X) == spec.tst && x.valExpr(f.Y) == "arg.index" || x.valExpr(f.Y) == spec.tst && x.valExpr(f.X) == "arg.index")
			}) && bad == "" {
				bad = "obj." + spec.fld.Name() + " is changed although the detached node is not the " + strings.TrimSuffix(spec.fld.Name(), "ArgIndex") + " argument"
			}
			// the resets of arg's links must come after this read of arg's link
			for _, r := range ls {
				if r.obj == "arg" && r.val == "Invalid" && (r.field == x.next || r.field == x.prev) && g.Reach(g.Succ[r.n], nil, nil)[s.n] && bad == "" {
					bad = "arg's sibling links are reset before the parent's first/last index is derived from them"
				}
			}
		}
		if !found && bad == "" {
			bad = "detach never updates obj." + spec.fld.Name() + ": removing the " + strings.TrimSuffix(spec.fld.Name(), "ArgIndex") + " argument leaves the parent pointing at it"
		}
	}
	// resets come after the bypass stores
	for _, r := range ls {
		if r.obj == "arg" && r.val == "Invalid" {
			for _, s := range ls {
				if strings.HasPrefix(s.obj, "ObjectAt(") && g.Reach(g.Succ[r.n], nil, nil)[s.n] && bad == "" {
					bad = "arg's links are reset before its neighbours are re-linked"
				}
			}
		}
	}
	c.check(bad == "", "C13.R2", "parent-update "+m.fnName(x.detach), "first/last follow the removed node under the matching tests; all three links of the node are reset last", bad, m.pos(x.detach.Pos()))
}

func (x *c13) freeList() {
	c, m := x.c, x.m
	c.floor("C13.R3", 4)
	// ---- newObject
	g := newIG(m, x.newObject, nil)
	bad := ""
	emptyFact := func(f Fact, op token.Token) bool {
		return f.Y != nil && f.Op == op && (isLoadOfField(f.X, x.head) && x.valExpr(f.Y) == "Invalid" || isLoadOfField(f.Y, x.head) && x.valExpr(f.X) == "Invalid")
	}
	grow := 0
	for n, in := range g.Ins {
		st, ok := in.(*ssa.Store)
		if !ok {
			continue
		}
		lf, rest := lastField(accessPath(st.Addr))
		switch {
		case lf == x.pool && rest == "":
			grow++
			if !hasFact(g.FactsAt(n), func(f Fact) bool { return emptyFact(f, token.EQL) }) {
				bad = "the object pool grows although the free list is not empty: freed slots are not reused first"
			}
		case lf == x.head && rest == "":
			if !hasFact(g.FactsAt(n), func(f Fact) bool { return emptyFact(f, token.NEQ) }) {
				bad = "the free-list head is moved on a path on which the list has not been tested non-empty"
			}
			// new head = popped object's next
			if v := x.valExpr(st.Val); !strings.HasSuffix(v, ".nextSiblingIndex") {
				bad = "the free-list head is not advanced to the popped slot's next link (" + v + ")"
			}
		case lf == x.index && rest == "":
			if !hasFact(g.FactsAt(n), func(f Fact) bool { return emptyFact(f, token.EQL) }) {
				bad = "a reused slot gets a new index"
			}
			// index = len(pool) before the append
			if call, ok := stripConv(st.Val).(*ssa.Call); !ok {
				bad = "a new object's index is not len(objPool)"
			} else if bi, ok := call.Common().Value.(*ssa.Builtin); !ok || bi.Name() != "len" || !isLoadOfField(call.Common().Args[0], x.pool) {
				bad = "a new object's index is not len(objPool)"
			}
		}
	}
	if grow == 0 {
		bad = "newObject never grows the pool"
	}
	// popped object is pool[head]
	popOK := false
	for _, in := range g.Ins {
		if ia, ok := in.(*ssa.IndexAddr); ok && isLoadOfField(ia.X, x.pool) && isLoadOfField(ia.Index, x.head) {
			popOK = true
		}
	}
	if !popOK && bad == "" {
		bad = "the reused object is not objPool[freeListHeadIndex]"
	}
	// all five links reset on every path
	ls := x.linkStores(g)
	for _, rn := range g.Returns() {
		for _, fld := range []*types.Var{x.parent, x.prev, x.next, x.first, x.last} {
			fld := fld
			if ok, _ := g.MustPassBefore(rn, func(k int) bool {
				for _, s := range ls {
					if s.n == k && s.field == fld && s.val == "Invalid" {
						return true
					}
				}
				return false
			}); !ok && bad == "" {
				bad = "newObject returns an object whose " + fld.Name() + " is not reset to InvalidIndex (a reused slot keeps a stale link)"
			}
		}
		// opcode set from the parameter on every path (un-marks a reused slot)
		if ok, _ := g.MustPassBefore(rn, func(k int) bool {
			st, ok := g.Ins[k].(*ssa.Store)
			if !ok {
				return false
			}
			_, f, ok := fieldOfAddr(st.Addr)
			return ok && f == x.opcode && st.Val == ssa.Value(paramNamed(x.newObject, "opcode"))
		}); !ok && bad == "" {
			bad = "newObject does not store the requested opcode on every path (a reused slot stays marked as freed)"
		}
	}
	c.check(bad == "", "C13.R3", "allocate "+m.fnName(x.newObject), "pool grows only when the free list is empty, otherwise objPool[head] is popped; links reset, opcode set", bad, m.pos(x.newObject.Pos()))

	// ---- free
	gf := newIG(m, x.free, nil)
	bad = ""
	lf := x.linkStores(gf)
	var pushes []int
	for n, in := range gf.Ins {
		st, ok := in.(*ssa.Store)
		if !ok {
			continue
		}
		base, f, ok := fieldOfAddr(st.Addr)
		if !ok {
			continue
		}
		switch {
		case f == x.head:
			pushes = append(pushes, n)
			if x.valExpr(st.Val) != "obj.index" {
				bad = "the free-list head is not set to the freed object's index"
			}
		case f == x.opcode && x.objExpr(base) == "obj":
			if k, ok := constUint64(st.Val); !ok || k != x.freed {
				bad = "the freed object is not marked with pOpIntFreedObject"
			}
		}
	}
	marked := func(k int) bool {
		st, ok := gf.Ins[k].(*ssa.Store)
		if !ok {
			return false
		}
		base, f, ok := fieldOfAddr(st.Addr)
		if !ok || f != x.opcode || x.objExpr(base) != "obj" {
			return false
		}
		v, ok := constUint64(st.Val)
		return ok && v == x.freed
	}
	linked := func(k int) bool {
		for _, s := range lf {
			if s.n == k && s.field == x.next && s.obj == "obj" && strings.HasSuffix(s.val, ".freeListHeadIndex") {
				return true
			}
		}
		return false
	}
	if len(pushes) != 1 && bad == "" {
		bad = "free does not push exactly once"
	}
	for _, pn := range pushes {
		facts := gf.FactsAt(pn)
		noKids := func(fld string) bool {
			return hasFact(facts, func(f Fact) bool {
				return f.Y != nil && f.Op == token.EQL && x.valExpr(f.X) == "obj."+fld && x.valExpr(f.Y) == "Invalid"
			})
		}
		switch {
		case bad != "":
		case !noKids("firstArgIndex") || !noKids("lastArgIndex"):
			bad = "an object that still has children can be pushed on the free list: its children stay reachable from a freed slot"
		default:
			if ok, _ := gf.MustPassBefore(pn, marked); !ok {
				bad = "an object is pushed on the free list without being marked as freed: ObjectAt keeps returning it"
			} else if ok, _ := gf.MustPassBefore(pn, linked); !ok {
				bad = "the freed object's next link is not set to the old free-list head before the head moves"
			}
		}
	}
	// detach first when a parent exists
	dcalls := gf.callNodes(x.detach)
	if bad == "" {
		if len(dcalls) != 1 {
			bad = "free does not detach the object from its parent"
		} else {
			dn := dcalls[0]
			a := gf.callArgs(dn)
			if !hasFact(gf.FactsAt(dn), func(f Fact) bool {
				return f.Y != nil && f.Op == token.NEQ && x.valExpr(f.X) == "obj.parentIndex" && x.valExpr(f.Y) == "Invalid"
			}) || x.objExpr(a[1]) != "ObjectAt(obj.parentIndex)" || x.objExpr(a[2]) != "obj" {
				bad = "free does not call detach(ObjectAt(obj.parentIndex), obj) under obj.parentIndex != InvalidIndex"
			}
			// every path with a parent detaches before pushing
			var skip = map[Edge]bool{}
			for _, f := range gf.AllEdgeFacts() {
				if f.Y != nil && f.Op == token.EQL && x.valExpr(f.X) == "obj.parentIndex" && x.valExpr(f.Y) == "Invalid" {
					skip[f.Edge] = true
				}
			}
			for _, pn := range pushes {
				if p := gf.Path([]int{0}, skip, func(k int) bool { return k == dn }, func(k int) bool { return k == pn }); p != nil && bad == "" {
					bad = "an object with a parent can be freed without being detached: the parent keeps a freed child"
				}
			}
		}
	}
	c.check(bad == "", "C13.R3", "release "+m.fnName(x.free), "detach when attached, refuse objects with children, mark freed, link to the old head, move the head", bad, m.pos(x.free.Pos()))

	// ---- ObjectAt
	go_ := newIG(m, x.objectAt, nil)
	bad = ""
	nonNil := 0
	for _, rn := range go_.Returns() {
		r := go_.Ins[rn].(*ssa.Return).Results[0]
		if isNilConst(r) {
			continue
		}
		nonNil++
		facts := go_.FactsAt(rn)
		inRange := hasFact(facts, func(f Fact) bool {
			if f.Y == nil || f.Op != token.LSS {
				return false
			}
			call, ok := stripConv(f.Y).(*ssa.Call)
			if !ok || f.X != ssa.Value(paramNamed(x.objectAt, "index")) {
				return false
			}
			bi, ok := call.Common().Value.(*ssa.Builtin)
			return ok && bi.Name() == "len" && isLoadOfField(call.Common().Args[0], x.pool)
		})
		notFreed := hasFact(facts, func(f Fact) bool {
			return cmpMatch(f, token.NEQ, func(v ssa.Value) bool { return isLoadOfField(v, x.opcode) }, func(v ssa.Value) bool { k, ok := constUint64(v); return ok && k == x.freed })
		})
		if !inRange {
			bad = "ObjectAt can index the pool with an index that has not been tested < len(objPool)"
		} else if !notFreed {
			bad = "ObjectAt can return an object whose opcode has not been tested != pOpIntFreedObject: freed objects are reachable"
		}
	}
	if nonNil == 0 {
		bad = "ObjectAt never returns an object"
	}
	c.check(bad == "", "C13.R3", "lookup "+m.fnName(x.objectAt), "returns objPool[index] only under index < len(objPool) and opcode != freed", bad, m.pos(x.objectAt.Pos()))
	// the freed opcode is stored only by free
	for _, fs := range m.storesToField(x.opcode) {
		if k, ok := constUint64(fs.Store.Val); ok && k == x.freed && fs.Fn != x.free {
			c.fail("C13.R3", "freed-mark-writers "+m.fnName(fs.Fn), "the freed marker is stored outside ObjectTree.free", m.pos(fs.Store.Pos()))
		}
	}
	c.ok("C13.R3", "freed-mark-writers aml", "pOpIntFreedObject is stored only by ObjectTree.free")
}

// C13.R4: dispatch structure of ObjectTree.Find. Absolute paths are resolved
// downward from the root, each '^' moves one parent up (InvalidIndex ends the
// lookup), the remainder after the carets and multi-segment names are resolved
// downward only (findRelative), and only single-segment names use the upward
// search through the parent chain.
func (x *c13) findDispatch() {
	c, m := x.c, x.m
	c.floor("C13.R4", 3)
	const aml = "device/acpi/aml"
	find := m.lookupMethod(aml, "ObjectTree", "Find")
	rel := m.lookupMethod(aml, "ObjectTree", "findRelative")
	if find == nil || rel == nil {
		c.unresolved("C13.R4", "ObjectTree.Find / findRelative")
		return
	}
	g := newIG(m, find, nil)
	exprP, scopeP := paramNamed(find, "expr"), paramNamed(find, "scopeIndex")
	nameLen, _ := namedConstUint(m, aml, "amlNameLen")
	// facts about expr[k]
	isExprByte := func(v ssa.Value, idxConst int64) bool {
		ld, ok := stripConv(v).(*ssa.UnOp)
		if !ok || ld.Op != token.MUL {
			return false
		}
		ia, ok := ld.X.(*ssa.IndexAddr)
		if !ok || ia.X != ssa.Value(exprP) {
			return false
		}
		if idxConst < 0 {
			return true
		}
		k, ok := constInt64(ia.Index)
		return ok && k == idxConst
	}
	firstIs := func(facts []Fact, ch int64) bool {
		return hasFact(facts, func(f Fact) bool {
			return cmpMatch(f, token.EQL, func(v ssa.Value) bool { return isExprByte(v, 0) }, func(v ssa.Value) bool { k, ok := constInt64(v); return ok && k == ch })
		})
	}
	firstIsNot := func(facts []Fact, ch int64) bool {
		return hasFact(facts, func(f Fact) bool {
			return cmpMatch(f, token.NEQ, func(v ssa.Value) bool { return isExprByte(v, 0) }, func(v ssa.Value) bool { k, ok := constInt64(v); return ok && k == ch })
		})
	}
	// self recursion is only acceptable on the absolute-path side
	bad := ""
	for _, n := range g.callNodes(find) {
		facts := g.FactsAt(n)
		if !firstIs(facts, '\\') {
			bad = "Find calls itself outside the absolute-path case: a name that must be resolved downward only (after '^' prefixes or with several segments) falls back to the upward search of single-segment names"
		}
	}
	relCalls := g.callNodes(rel)
	var rootCall, caretCall, multiCall int = -1, -1, -1
	for _, n := range relCalls {
		facts := g.FactsAt(n)
		switch {
		case firstIs(facts, '\\'):
			rootCall = n
		case firstIs(facts, '^') || hasFact(facts, func(f Fact) bool {
			return cmpMatch(f, token.NEQ, func(v ssa.Value) bool { return isExprByte(v, -1) }, func(v ssa.Value) bool { k, ok := constInt64(v); return ok && k == '^' })
		}) && firstIsNot(facts, '\\') && !hasFact(facts, func(f Fact) bool { return f.Y != nil && f.Op == token.GTR }):
			caretCall = n
		default:
			multiCall = n
		}
	}
	if bad == "" {
		switch {
		case rootCall < 0:
			bad = "no downward lookup from the root for absolute paths"
		case !isZeroConst(g.callArgs(rootCall)[1]):
			bad = "absolute paths are not resolved from the root scope (index 0)"
		case caretCall < 0:
			bad = "the remainder after '^' prefixes is not resolved with findRelative"
		case multiCall < 0:
			bad = "multi-segment names are not resolved with findRelative"
		case g.callArgs(multiCall)[1] != ssa.Value(scopeP):
			bad = "multi-segment names are not resolved from the starting scope"
		}
	}
	// the downward lookup itself never falls back to Find (whose single-segment
	// case searches the enclosing scopes)
	if bad == "" {
		gr := newIG(m, rel, nil)
		if cs := gr.callNodes(find); len(cs) > 0 {
			bad = "findRelative calls Find (" + gr.posOf(cs[0]) + "): a segment that must be looked up in the designated scope only is searched in the enclosing scopes as well"
		}
	}
	c.check(bad == "", "C13.R4", "downward-only "+m.fnName(find), "absolute paths from the root, caret remainders and multi-segment names through findRelative only", bad, m.pos(find.Pos()))
	// multi-segment case is guarded by len(expr) > amlNameLen; single segment by == amlNameLen
	bad = ""
	if multiCall >= 0 {
		if !hasFact(g.FactsAt(multiCall), func(f Fact) bool {
			if f.Y == nil || f.Op != token.GTR {
				return false
			}
			k, ok := constUint64(f.Y)
			call, isCall := f.X.(*ssa.Call)
			if !ok || !isCall || k != nameLen {
				return false
			}
			bi, isB := call.Common().Value.(*ssa.Builtin)
			return isB && bi.Name() == "len" && call.Common().Args[0] == ssa.Value(exprP)
		}) {
			bad = "the downward-only lookup of multi-segment names is not selected by len(expr) > amlNameLen"
		}
	}
	// each caret moves to the parent: scope = ObjectAt(scope).parentIndex, Invalid ends the lookup
	parentStep := false
	for _, in := range g.Ins {
		if phi, ok := in.(*ssa.Phi); ok && isIntegral(phi.Type()) {
			for _, e := range phi.Edges {
				if b, f, ok := loadedField(e); ok && f == x.parent {
					if call, ok := b.(*ssa.Call); ok && m.callee(call.Common()) == x.objectAt {
						if a := call.Common().Args[1]; a == ssa.Value(phi) || a == ssa.Value(scopeP) {
							parentStep = true
						}
					}
				}
			}
		}
	}
	if bad == "" && !parentStep {
		bad = "a '^' prefix does not move the scope to ObjectAt(scope).parentIndex"
	}
	c.check(bad == "", "C13.R4", "caret-and-length "+m.fnName(find), "'^' moves to the parent scope; len(expr) > amlNameLen selects the downward-only lookup", bad, m.pos(find.Pos()))
	// the single-segment search walks the parent chain and compares all amlNameLen bytes
	// a scope variable that steps to ObjectAt(scope).parentIndex in a loop that
	// contains the comparison of all amlNameLen name bytes
	upward, cmpAll := false, false
	var cmpNodes []int
	// a loop that runs amlNameLen times (however it counts: i < amlNameLen, range
	// over the name array)
	seenH := map[*ssa.BasicBlock]bool{}
	for _, fn2 := range g.Funcs {
		for _, b := range fn2.Blocks {
			h, _ := loopOf(b)
			if h == nil || seenH[h] {
				continue
			}
			seenH[h] = true
			zl := &Polyizer{}
			if lf, ok := g.loopFormAt(zl, h); ok {
				if k, isK := lf.Trips.isConst(); lf.TripsOK && isK && uint64(k) == nameLen && lf.Exit >= 0 {
					cmpAll = true
					cmpNodes = append(cmpNodes, lf.Exit)
				}
				lf.Done()
			}
		}
	}
	for _, in := range g.Ins {
		phi, ok := in.(*ssa.Phi)
		if !ok || !isIntegral(phi.Type()) {
			continue
		}
		steps := false
		for _, e := range phi.Edges {
			if b, f, ok := loadedField(e); ok && f == x.parent {
				if call, ok := b.(*ssa.Call); ok && m.callee(call.Common()) == x.objectAt && call.Common().Args[1] == ssa.Value(phi) {
					steps = true
				}
			}
		}
		if !steps {
			continue
		}
		hn := g.Idx[phi]
		fromH := g.Reach([]int{hn}, nil, nil)
		for _, cn := range cmpNodes {
			if fromH[cn] && g.Reach(g.Succ[cn], nil, nil)[hn] {
				upward = true
			}
		}
	}
	c.check(upward && cmpAll, "C13.R4", "upward-search "+m.fnName(find), "single-segment names are searched in the scope and then each enclosing scope, comparing all amlNameLen bytes",
		"the single-segment search does not walk the parent chain comparing all name bytes", m.pos(find.Pos()))
}

func hasFactAnywhere(g *IG, pred func(Fact) bool) bool {
	for _, f := range g.AllEdgeFacts() {
		if pred(f) {
			return true
		}
	}
	return false
}

// C13.R5: the name lookups never index their path expression (or an object's
// name) out of range: every element access and re-slicing of the expr argument
// in ObjectTree.Find and findRelative is proved in range from the tests that
// dominate it.
func (x *c13) lookupBounds() {
	c, m := x.c, x.m
	c.floor("C13.R5", 6)
	const aml = "device/acpi/aml"
	for _, name := range []string{"Find", "findRelative"} {
		fn := m.lookupMethod(aml, "ObjectTree", name)
		if fn == nil {
			c.unresolved("C13.R5", "ObjectTree."+name)
			continue
		}
		exprP := paramNamed(fn, "expr")
		if exprP == nil {
			for _, p := range fn.Params {
				if sl, ok := p.Type().Underlying().(*types.Slice); ok {
					if bt, ok := sl.Elem().Underlying().(*types.Basic); ok && bt.Kind() == types.Uint8 {
						exprP = p
					}
				}
			}
		}
		if exprP == nil {
			c.undecided("C13.R5", "lookup-index-bounds "+m.fnName(fn), "no byte-slice path parameter")
			continue
		}
		g := newIG(m, fn, nil)
		z := &Polyizer{Atom: func(v ssa.Value) string {
			if call, ok := v.(*ssa.Call); ok {
				if bi, ok := call.Common().Value.(*ssa.Builtin); ok && bi.Name() == "len" && call.Common().Args[0] == ssa.Value(exprP) {
					return "len(expr)"
				}
			}
			return ""
		}}
		isBase := func(v ssa.Value) bool {
			if v == ssa.Value(exprP) {
				return true
			}
			// the fixed-size name of an object
			if pt, ok := v.Type().Underlying().(*types.Pointer); ok {
				if _, isArr := pt.Elem().Underlying().(*types.Array); isArr {
					if fa, ok := v.(*ssa.FieldAddr); ok {
						_, f, _ := fieldOfAddr(fa)
						return f != nil && f.Name() == "name"
					}
				}
			}
			return false
		}
		lenOf := func(v ssa.Value) (Poly, bool) {
			if v == ssa.Value(exprP) {
				return polyAtom("len(expr)"), true
			}
			if pt, ok := v.Type().Underlying().(*types.Pointer); ok {
				if at, ok := pt.Elem().Underlying().(*types.Array); ok {
					return polyConst(at.Len()), true
				}
			}
			return nil, false
		}
		seq := 0
		for _, o := range g.indexObligations(z, isBase, lenOf) {
			key := fmt.Sprintf("lookup-index-bounds %s #%d", m.fnName(fn), seq)
			seq++
			c.check(o.ok, "C13.R5", key, o.what+": in range by the dominating tests", "a path expression (or name) access is not proved in range ("+o.what+"): a truncated or malformed name makes the lookup panic instead of failing", g.posOf(o.n))
		}
		if seq == 0 {
			c.fail("C13.R5", "lookup-index-bounds "+m.fnName(fn), "no access of the path expression found (rule shape lost)", m.pos(fn.Pos()))
		}
	}
}

func m2callee(m *Module, call *ssa.Call) *ssa.Function { return m.callee(call.Common()) }

// C13.R4 (prefix-skip-set): before each name segment findRelative skips the
// bytes the parser left in a raw multi-name path (dual/multi prefixes, the
// segment count). The skipping must stop exactly at a lead name character
// ('A'..'Z', '_'): a digit is a legal segment count (48..57 segments), any other
// stop set makes some well-formed path unresolvable. Decided for all 256 byte
// values: the byte is touched only through comparisons with constants, so one
// evaluation per value is exact.
func (x *c13) prefixSkipSet() {
	c, m := x.c, x.m
	const aml = "device/acpi/aml"
	rel := m.lookupMethod(aml, "ObjectTree", "findRelative")
	if rel == nil {
		c.unresolved("C13.R4", "ObjectTree.findRelative")
		return
	}
	key := "prefix-skip-set " + m.fnName(rel)
	g := newIG(m, rel, nil)
	exprP := paramNamed(rel, "expr")
	// the skip loop: the innermost loop whose header variable indexes expr in
	// comparisons with constants and whose body does nothing but advance it
	type cand struct {
		phi   *ssa.Phi
		latch int
	}
	var cands []cand
	for _, b := range rel.Blocks {
		h, body := loopOf(b)
		if h != b {
			continue
		}
		for _, in := range h.Instrs {
			phi, ok := in.(*ssa.Phi)
			if !ok {
				break
			}
			if !isIntegral(phi.Type()) {
				continue
			}
			// a back edge phi+1 from a block that contains nothing else
			for i, e := range phi.Edges {
				p := h.Preds[i]
				if !body[p] {
					continue
				}
				if s, ok := stepOf(e, phi); !ok || s != 1 {
					continue
				}
				pure := true
				for _, pin := range p.Instrs {
					switch pin.(type) {
					case *ssa.BinOp, *ssa.Jump, *ssa.DebugRef, *ssa.Convert:
					default:
						pure = false
					}
				}
				nBody := 0
				for bb := range body {
					for _, bin := range bb.Instrs {
						switch bin.(type) {
						case *ssa.Call, *ssa.Store, *ssa.Return:
							nBody++
						}
					}
				}
				if pure && nBody == 0 {
					cands = append(cands, cand{phi, g.First[p]})
				}
			}
		}
	}
	// (of those, the one that compares expr[its variable] with constants)
	if exprP != nil {
		var keep []cand
		for _, cd := range cands {
			cd := cd
			isB := func(v ssa.Value) bool {
				ld, ok := stripConv(v).(*ssa.UnOp)
				if !ok || ld.Op != token.MUL {
					return false
				}
				ia, ok := ld.X.(*ssa.IndexAddr)
				return ok && ia.X == ssa.Value(exprP) && stripConv(ia.Index) == ssa.Value(cd.phi)
			}
			if len(comparedConstants(g, isB)) > 0 {
				keep = append(keep, cd)
			}
		}
		cands = keep
	}
	if len(cands) != 1 || exprP == nil {
		c.undecided("C13.R4", key, fmt.Sprintf("expected one prefix-skipping loop in findRelative, found %d", len(cands)))
		return
	}
	sk := cands[0]
	isByte := func(v ssa.Value) bool {
		ld, ok := stripConv(v).(*ssa.UnOp)
		if !ok || ld.Op != token.MUL {
			return false
		}
		ia, ok := ld.X.(*ssa.IndexAddr)
		return ok && ia.X == ssa.Value(exprP) && stripConv(ia.Index) == ssa.Value(sk.phi)
	}
	if len(comparedConstants(g, isByte)) == 0 {
		c.fail("C13.R4", key, "the skipping loop does not look at the path bytes", g.posOf(sk.latch))
		return
	}
	var wrong []string
	for v := uint64(0); v < 256; v++ {
		skips := reachableForValue(g, sk.latch, isByte, v)
		lead := v == '_' || (v >= 'A' && v <= 'Z')
		if skips == lead {
			if len(wrong) < 6 {
				what := "is skipped although it starts a name segment"
				if !skips {
					what = "stops the skipping although it is not a lead name character"
				}
				wrong = append(wrong, fmt.Sprintf("byte %#x %s", v, what))
			}
		}
	}
	c.check(len(wrong) == 0, "C13.R4", key, "256 byte values evaluated: skipping continues exactly for the bytes that are not 'A'..'Z' or '_'",
		strings.Join(wrong, "; ")+" (a raw multi-name path with such a byte before a segment is resolved wrongly)", g.posOf(sk.latch))
}
