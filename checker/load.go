package main

// E0: loading. Every run loads the current working tree of /repo through
// go/packages (type-checked syntax) and builds go/ssa for it. Nothing is
// cached between runs and nothing of the analysed program is executed.

import (
	"fmt"
	"go/token"
	"go/types"
	"os"
	"path/filepath"
	"sort"
	"strings"

	"golang.org/x/tools/go/packages"
	"golang.org/x/tools/go/ssa"
	"golang.org/x/tools/go/ssa/ssautil"
)

const (
	kernelMod = "github.com/ProjectSerenity/firefly/kernel"
	kbuildMod = "github.com/ProjectSerenity/firefly/kbuild"
)

// repoRoot is the tree that is analysed. It can be overridden for the
// checker's own regression tests (scratch copies) with FIREFLY_REPO.
func repoRoot() string {
	if r := os.Getenv("FIREFLY_REPO"); r != "" {
		return r
	}
	return "/repo"
}

var loadedModules []*Module

// Module is one loaded Go module of the repository.
type Module struct {
	// wrapCache: wrapper function -> the function it delegates to (nil: none)
	wrapCache map[*ssa.Function]*ssa.Function
	Dir       string
	ModPath   string
	Fset      *token.FileSet
	Pkgs      []*packages.Package
	Prog      *ssa.Program
	SSAPkgs   map[string]*ssa.Package // by import path
	// Funcs lists every source-level function of the module (declared
	// functions, methods, closures and package initialisers), sorted by
	// position, synthetic wrappers excluded.
	Funcs  []*ssa.Function
	NInstr int

	seamCache map[*ssa.Global]*ssa.Function

	// helper splicing (inl.go)
	anchors    map[*ssa.Function]bool
	inlineOn   bool
	anchorOff  bool
	helperSite map[*ssa.Function]*ssa.Call
	// deferClosure: deferred function literals whose body is spliced at RunDefers
	deferClosure map[*ssa.Defer]*ssa.Function
	deferSite    map[*ssa.Function]*ssa.Defer
	// NArith: calls of arithmetic helpers replaced by their expression
	NArith int
}

func loadEnv() []string {
	env := []string{}
	for _, kv := range os.Environ() {
		if strings.HasPrefix(kv, "GOWORK=") || strings.HasPrefix(kv, "GOFLAGS=") ||
			strings.HasPrefix(kv, "GOPROXY=") || strings.HasPrefix(kv, "GOSUMDB=") ||
			strings.HasPrefix(kv, "GOTOOLCHAIN=") || strings.HasPrefix(kv, "GOOS=") ||
			strings.HasPrefix(kv, "GOARCH=") || strings.HasPrefix(kv, "CGO_ENABLED=") {
			continue
		}
		env = append(env, kv)
	}
	return append(env, "GOWORK=off", "GOFLAGS=-mod=mod", "GOPROXY=off", "GOSUMDB=off",
		"GOTOOLCHAIN=local", "GOOS=linux", "GOARCH=amd64", "CGO_ENABLED=0")
}

// loadModule loads <repo>/<sub> (sub is "kernel" or "kbuild"). overlay maps
// absolute file names to replacement contents (used only by the positive
// controls of the thorough tier).
// selfStores: stores of a variable's own, just loaded, value (recorded when a
// module is loaded, before any value is rewritten).
var selfStores = map[*ssa.Store]bool{}

func loadModule(sub string, minPkgs int, overlay map[string][]byte) (*Module, error) {
	dir := filepath.Join(repoRoot(), sub)
	fset := token.NewFileSet()
	cfg := &packages.Config{
		Mode:    packages.LoadAllSyntax,
		Dir:     dir,
		Fset:    fset,
		Env:     loadEnv(),
		Tests:   false,
		Overlay: overlay,
	}
	pkgs, err := packages.Load(cfg, "./...")
	if err != nil {
		return nil, fmt.Errorf("load %s: %v", dir, err)
	}
	var errs []string
	packages.Visit(pkgs, nil, func(p *packages.Package) {
		for _, e := range p.Errors {
			errs = append(errs, e.Error())
		}
	})
	if len(errs) > 0 {
		sort.Strings(errs)
		if len(errs) > 10 {
			errs = errs[:10]
		}
		return nil, fmt.Errorf("load %s: %d package error(s):\n  %s", dir, len(errs), strings.Join(errs, "\n  "))
	}
	if len(pkgs) < minPkgs {
		return nil, fmt.Errorf("load %s: only %d packages (expected at least %d)", dir, len(pkgs), minPkgs)
	}
	m := &Module{Dir: dir, Fset: fset, Pkgs: pkgs, SSAPkgs: map[string]*ssa.Package{}}
	if sub == "kernel" {
		m.ModPath = kernelMod
	} else {
		m.ModPath = kbuildMod
	}
	prog, _ := ssautil.AllPackages(pkgs, ssa.BuilderMode(0))
	prog.Build()
	m.Prog = prog
	for _, p := range prog.AllPackages() {
		if strings.HasPrefix(p.Pkg.Path(), m.ModPath) {
			m.SSAPkgs[p.Pkg.Path()] = p
		}
	}
	for fn := range ssautil.AllFunctions(prog) {
		if fn.Pkg == nil || !strings.HasPrefix(fn.Pkg.Pkg.Path(), m.ModPath) {
			continue
		}
		if fn.Synthetic != "" && fn.Synthetic != "package initializer" {
			continue
		}
		if fn.Blocks == nil {
			continue // external (assembly) function
		}
		m.Funcs = append(m.Funcs, fn)
	}
	sort.Slice(m.Funcs, func(i, j int) bool {
		a, b := m.Funcs[i], m.Funcs[j]
		pa, pb := fset.Position(a.Pos()), fset.Position(b.Pos())
		if pa.Filename != pb.Filename {
			return pa.Filename < pb.Filename
		}
		if pa.Offset != pb.Offset {
			return pa.Offset < pb.Offset
		}
		return a.String() < b.String()
	})
	for _, fn := range m.Funcs {
		for _, b := range fn.Blocks {
			m.NInstr += len(b.Instrs)
			// `return` in a function with named results that a closure captures is
			// built as `*r = *r` for each of them: such a store changes nothing
			for i, in := range b.Instrs {
				st, ok := in.(*ssa.Store)
				if !ok || i == 0 {
					continue
				}
				if ld, ok := b.Instrs[i-1].(*ssa.UnOp); ok && ld.Op == token.MUL && ld.X == st.Addr && st.Val == ssa.Value(ld) {
					selfStores[st] = true
				}
			}
		}
	}
	loadedModules = append(loadedModules, m)
	return m, nil
}

// pkg returns the ssa package with the given path relative to the module
// ("" is the module root package).
func (m *Module) pkg(rel string) *ssa.Package {
	p := m.ModPath
	if rel != "" {
		p += "/" + rel
	}
	return m.SSAPkgs[p]
}

// pos renders a position relative to the repository root.
func (m *Module) pos(p token.Pos) string {
	if !p.IsValid() {
		return "-"
	}
	ps := m.Fset.Position(p)
	if l, ok := mapDupPos(ps.Filename, ps.Line); ok {
		ps.Line = l
	}
	rel, err := filepath.Rel(repoRoot(), ps.Filename)
	if err != nil {
		rel = ps.Filename
	}
	return fmt.Sprintf("%s:%d:%d", rel, ps.Line, ps.Column)
}

// origPosition is Fset.Position with positions inside a helper copy (dup.go)
// mapped back to the helper in the working tree.
func (m *Module) origPosition(p token.Pos) token.Position {
	ps := m.Fset.Position(p)
	if l, ok := mapDupPos(ps.Filename, ps.Line); ok {
		ps.Line = l
	}
	return ps
}

// fnName renders a function name relative to the module ("mm/pmm.(*BitmapAllocator).AllocFrame").
func (m *Module) fnName(fn *ssa.Function) string {
	if fn == nil {
		return "<nil>"
	}
	s := fn.String()
	s = strings.ReplaceAll(s, m.ModPath+"/", "")
	s = strings.ReplaceAll(s, m.ModPath+".", filepath.Base(m.ModPath)+".")
	return s
}

// ---- lookup (anchor resolution; fail-closed through Ctx.anchor*) ----

func (m *Module) lookupFunc(rel, name string) *ssa.Function {
	p := m.pkg(rel)
	if p == nil {
		return nil
	}
	named := p.Func(name)
	m.anchor(named) // (the wrapper keeps its name: it is neither duplicated nor spliced)
	fn := m.unwrap(named)
	m.anchor(fn)
	return fn
}

// unwrap: a function that does nothing but hand its own parameters, in order,
// to one unexported function of its package and return that function's results
// is a wrapper; the rules then look at the function that has the body. (Only
// when the wrapper is that function's only caller.)
func (m *Module) unwrap(fn *ssa.Function) *ssa.Function {
	for i := 0; i < 2 && fn != nil; i++ {
		g := m.wrappedBody(fn)
		if g == nil {
			break
		}
		fn = g
	}
	return fn
}

func (m *Module) wrappedBody(fn *ssa.Function) *ssa.Function {
	if fn == nil || len(fn.Blocks) != 1 || fn.Pkg == nil {
		return nil
	}
	if g, ok := m.wrapCache[fn]; ok {
		return g
	}
	if m.wrapCache == nil {
		m.wrapCache = map[*ssa.Function]*ssa.Function{}
	}
	m.wrapCache[fn] = nil
	var call *ssa.Call
	var ret *ssa.Return
	extracts := map[ssa.Value]int{}
	for _, in := range fn.Blocks[0].Instrs {
		switch x := in.(type) {
		case *ssa.DebugRef:
		case *ssa.Call:
			if call != nil {
				return nil
			}
			call = x
		case *ssa.Extract:
			if call == nil || x.Tuple != ssa.Value(call) {
				return nil
			}
			extracts[x] = x.Index
		case *ssa.Return:
			ret = x
		default:
			return nil
		}
	}
	if call == nil || ret == nil || call.Common().IsInvoke() {
		return nil
	}
	g := call.Common().StaticCallee()
	if g == nil || g == fn || g.Pkg != fn.Pkg || token.IsExported(g.Name()) || len(g.Blocks) == 0 || g.Parent() != nil {
		return nil
	}
	args := call.Common().Args
	if len(args) != len(fn.Params) {
		return nil
	}
	for i, a := range args {
		if a != ssa.Value(fn.Params[i]) {
			return nil
		}
	}
	switch len(ret.Results) {
	case 0:
	case 1:
		if ret.Results[0] != ssa.Value(call) {
			return nil
		}
	default:
		for i, r := range ret.Results {
			if k, ok := extracts[r]; !ok || k != i {
				return nil
			}
		}
	}
	// the wrapper is the only caller, and nothing else mentions the function
	uses := 0
	for _, f := range m.Funcs {
		for _, b := range f.Blocks {
			for _, in := range b.Instrs {
				for _, op := range in.Operands(nil) {
					if *op == ssa.Value(g) {
						uses++
					}
				}
			}
		}
	}
	if uses != 1 {
		return nil
	}
	m.wrapCache[fn] = g
	return g
}

func (m *Module) lookupType(rel, name string) *types.Named {
	p := m.pkg(rel)
	if p == nil {
		return nil
	}
	t := p.Type(name)
	if t == nil {
		return nil
	}
	n, _ := t.Type().(*types.Named)
	return n
}

// lookupMethod finds method `name` on type `typ` (pointer or value receiver).
func (m *Module) lookupMethod(rel, typ, name string) *ssa.Function {
	n := m.lookupType(rel, typ)
	if n == nil {
		return nil
	}
	for _, t := range []types.Type{n, types.NewPointer(n)} {
		ms := m.Prog.MethodSets.MethodSet(t)
		for i := 0; i < ms.Len(); i++ {
			sel := ms.At(i)
			if sel.Obj().Name() == name {
				fn := m.Prog.MethodValue(sel)
				if fn != nil && fn.Synthetic == "" {
					m.anchor(fn)
					fn = m.unwrap(fn)
					m.anchor(fn)
					return fn
				}
				// wrapper around a value-receiver method: find the declared one
				if f, ok := sel.Obj().(*types.Func); ok {
					if d := m.Prog.FuncValue(f); d != nil {
						m.anchor(d)
						d = m.unwrap(d)
						m.anchor(d)
						return d
					}
				}
			}
		}
	}
	return nil
}

func (m *Module) lookupGlobal(rel, name string) *ssa.Global {
	p := m.pkg(rel)
	if p == nil {
		return nil
	}
	return p.Var(name)
}

func (m *Module) lookupConst(rel, name string) *ssa.NamedConst {
	p := m.pkg(rel)
	if p == nil {
		return nil
	}
	return p.Const(name)
}

// fieldOf returns the *types.Var of field `name` of struct type `typ`.
func (m *Module) fieldOf(rel, typ, name string) *types.Var {
	n := m.lookupType(rel, typ)
	if n == nil {
		return nil
	}
	st, ok := n.Underlying().(*types.Struct)
	if !ok {
		return nil
	}
	for i := 0; i < st.NumFields(); i++ {
		if st.Field(i).Name() == name {
			return st.Field(i)
		}
	}
	return nil
}

// ---- anchors by role ----
//
// A helper that the properties do not name can be renamed freely. Such a
// helper is looked up by name first and, when the name is gone, by the role
// that made it an anchor (given as a predicate that exactly one function of
// the package / method of the type satisfies).

func (m *Module) funcByRole(rel, name string, role func(*ssa.Function) bool) *ssa.Function {
	if fn := m.lookupFunc(rel, name); fn != nil {
		return fn
	}
	p := m.pkg(rel)
	if p == nil {
		return nil
	}
	var found []*ssa.Function
	for _, fn := range m.Funcs {
		if fn.Pkg == p && fn.Parent() == nil && fn.Signature.Recv() == nil && role(fn) {
			found = append(found, fn)
		}
	}
	if len(found) == 1 {
		m.anchor(found[0])
		return found[0]
	}
	return nil
}

func (m *Module) methodByRole(rel, typ, name string, role func(*ssa.Function) bool) *ssa.Function {
	if fn := m.lookupMethod(rel, typ, name); fn != nil {
		return fn
	}
	n := m.lookupType(rel, typ)
	if n == nil {
		return nil
	}
	var found []*ssa.Function
	for _, fn := range m.Funcs {
		if fn.Parent() != nil || fn.Signature.Recv() == nil || !typeIs(fn.Signature.Recv().Type(), n) {
			continue
		}
		if role(fn) {
			found = append(found, fn)
		}
	}
	if len(found) == 1 {
		m.anchor(found[0])
		return found[0]
	}
	return nil
}

// storesField: fn contains a store whose address ends in field f.
func storesField(fn *ssa.Function, f *types.Var) bool {
	for _, b := range fn.Blocks {
		for _, in := range b.Instrs {
			if st, ok := in.(*ssa.Store); ok {
				if lf, rest := lastField(accessPath(st.Addr)); lf == f && rest == "" {
					return true
				}
			}
		}
	}
	return false
}

// nParams: number of parameters without the receiver.
func nParams(fn *ssa.Function) int {
	n := len(fn.Params)
	if fn.Signature.Recv() != nil {
		n--
	}
	return n
}
