package main

import (
	"fmt"
	"go/token"
	"go/types"
	"strings"

	"golang.org/x/tools/go/ssa"
)

func init() {
	register(&Property{
		ID:         "C14",
		NeedKernel: true,
		Run:        runC14,
		Explanation: "ACPI table discovery decided on SSA: (R1) every insert into acpiDriver.tableMap stores the header returned by a mapACPITable call whose error is nil on " +
			"every path to the insert, and in mapACPITable every return whose error may be nil crosses the true edge of validTable(header address, header.Length) " +
			"(phi operands examined per incoming edge); (R2) from each checksum-mismatch branch a log write is passed and no return is reachable before the loop " +
			"header; (R3) both nil-error returns of locateRSDT cross a validTable true edge over exactly the bytes of the structure they read (packed size: no " +
			"padding), return (RSDTAddr,false) on the revision-0 side and (XSDTAddr,true) otherwise, and the scan steps by rsdpAlignment; (R4) in each arm of the " +
			"useXSDT switch, shift, pointer step and load width agree (8 bytes in the true arm, 4 otherwise); (R5) mapACPITable maps the header, reads Length, maps " +
			"that length, then checksums that length; the DSDT address comes from Ext.Dsdt on the revision >= 2 side and Dsdt otherwise, and only under a header " +
			"whose signature compared equal to the FADT signature.",
		EnumRule: "obligations per rule and construct (function + role of the insert / return / arm)",
		Assumptions: []string{
			"error globals initialised with &kernel.Error{...} and never reassigned are non-nil",
			"firmware structures are packed: the bytes of a structure are the sum of its field sizes (trailing Go alignment padding is not part of it)",
		},
		Controls: []Control{
			{Name: "search window ends early", File: "kernel/device/acpi/acpi.go", Old: "rsdpLocationHi  uintptr = 0xfffff", New: "rsdpLocationHi  uintptr = 0xfffdf", Expect: "C14.R3 search-window"},
			{Name: "table map kept across enumerations (seed C14-13)", File: "kernel/device/acpi/acpi.go", Old: "\tdrv.tableMap = make(map[string]*table.SDTHeader)\n", New: "\tif drv.tableMap == nil {\n\t\tdrv.tableMap = make(map[string]*table.SDTHeader)\n\t}\n", Expect: "C14.R1 fresh-map"},
			{Name: "insert before the error test", File: "kernel/device/acpi/acpi.go",
				Old: "\t\tif header, _, err = mapACPITable(addr); err != nil {\n", New: "\t\tif header, _, err = mapACPITable(addr); header != nil {\n\t\t\tdrv.tableMap[string(header.Signature[:])] = header\n\t\t}\n\t\tif err != nil {\n", Expect: "C14.R1"},
			{Name: "checksum result ignored in mapACPITable", File: "kernel/device/acpi/acpi.go",
				Old: "\tif !validTable(headerPageAddr, header.Length) {\n\t\terr = errTableChecksumMismatch\n\t}\n", New: "\tif !validTable(headerPageAddr, header.Length) && header.Length > 1<<20 {\n\t\terr = errTableChecksumMismatch\n\t}\n", Expect: "C14.R1"},
			{Name: "return instead of continue on a bad table", File: "kernel/device/acpi/acpi.go",
				Old: "\t\t\t\t\theader.Length,\n\t\t\t\t)\n\t\t\t\tcontinue\n\t\t\tdefault:\n\t\t\t\treturn err\n\t\t\t}\n\t\t}\n\n\t\tsignature :=", New: "\t\t\t\t\theader.Length,\n\t\t\t\t)\n\t\t\t\treturn nil\n\t\t\tdefault:\n\t\t\t\treturn err\n\t\t\t}\n\t\t}\n\n\t\tsignature :=", Expect: "C14.R2"},
			{Name: ">>2 in the XSDT arm", File: "kernel/device/acpi/acpi.go",
				Old: "sdtAddresses = make([]uintptr, payloadLen>>3)", New: "sdtAddresses = make([]uintptr, payloadLen>>2)", Expect: "C14.R4"},
			{Name: "skip validTable for revision 0", File: "kernel/device/acpi/acpi.go",
				Old: "\t\t\tif !validTable(curPtr, uint32(unsafe.Sizeof(*rsdp))) {\n\t\t\t\tcontinue\n\t\t\t}\n", New: "", Expect: "C14.R3"},
			{Name: "XSDT for every revision", File: "kernel/device/acpi/acpi.go",
				Old: "\t\tif rsdp.Revision == acpiRev1 {", New: "\t\tif rsdp.Revision == acpiRev1 && rsdp.RSDTAddr != 0 {", Expect: "C14.R3"},
			{Name: "checksum over the header only", File: "kernel/device/acpi/acpi.go",
				Old: "\tif !validTable(headerPageAddr, header.Length) {", New: "\tif !validTable(headerPageAddr, uint32(sizeofHeader)) {", Expect: "C14.R"},
			{Name: "DSDT pointer selection inverted", File: "kernel/device/acpi/acpi.go",
				Old: "\t\t\tif acpiRev >= acpiRev2Plus {", New: "\t\t\tif acpiRev < acpiRev2Plus {", Expect: "C14.R5"},
			{Name: "scan step hard-coded to 32", File: "kernel/device/acpi/acpi.go",
				Old: "curPtr < rsdpLocationHi; curPtr += rsdpAlignment {", New: "curPtr < rsdpLocationHi; curPtr += 32 {", Expect: "C14.R3"},
		},
	})
}

var sizesAMD64 = types.SizesFor("gc", "amd64")

// packedSize is the sum of the sizes of all (recursively flattened) fields.
func packedSize(t types.Type) int64 {
	switch u := t.Underlying().(type) {
	case *types.Struct:
		var s int64
		for i := 0; i < u.NumFields(); i++ {
			s += packedSize(u.Field(i).Type())
		}
		return s
	case *types.Array:
		return u.Len() * packedSize(u.Elem())
	}
	return sizesAMD64.Sizeof(t)
}

// nonNilErrorGlobal: v is a load of a package-level *kernel.Error variable
// that is initialised with a composite literal address and never reassigned.
func (m *Module) nonNilErrorGlobal(v ssa.Value) bool {
	g, ok := loadedGlobal(v)
	if !ok {
		return false
	}
	stores := m.storesToGlobal(g)
	if len(stores) != 1 || stores[0].Parent().Synthetic != "package initializer" {
		return false
	}
	_, isAlloc := strip(stores[0].Val).(*ssa.Alloc)
	return isAlloc
}

func runC14(c *Ctx) {
	m := c.K
	const acpi = "device/acpi"
	enum := m.lookupMethod(acpi, "acpiDriver", "enumerateTables")
	mapTable := m.lookupFunc(acpi, "mapACPITable")
	locate := m.lookupFunc(acpi, "locateRSDT")
	valid := m.lookupFunc(acpi, "validTable")
	tableMapF := m.fieldOf(acpi, "acpiDriver", "tableMap")
	useXSDTF := m.fieldOf(acpi, "acpiDriver", "useXSDT")
	lengthF := m.fieldOf(acpi+"/table", "SDTHeader", "Length")
	revisionF := m.fieldOf(acpi+"/table", "SDTHeader", "Revision")
	sigF := m.fieldOf(acpi+"/table", "SDTHeader", "Signature")
	rsdpRevF := m.fieldOf(acpi+"/table", "RSDPDescriptor", "Revision")
	rsdtAddrF := m.fieldOf(acpi+"/table", "RSDPDescriptor", "RSDTAddr")
	xsdtAddrF := m.fieldOf(acpi+"/table", "ExtRSDPDescriptor", "XSDTAddr")
	dsdtF := m.fieldOf(acpi+"/table", "FADT", "Dsdt")
	extF := m.fieldOf(acpi+"/table", "FADT", "Ext")
	dsdt64F := m.fieldOf(acpi+"/table", "FADT64", "Dsdt")
	mismatch := m.lookupGlobal(acpi, "errTableChecksumMismatch")
	fadtSig := m.lookupGlobal(acpi, "fadtSignature")
	align := m.lookupGlobal(acpi, "rsdpAlignment")
	identityMap := m.lookupFunc("mm/vmm", "IdentityMapRegion")
	fprintf := m.lookupFunc("kfmt", "Fprintf")
	for name, v := range map[string]interface{}{
		"acpiDriver.enumerateTables": enum, "acpi.mapACPITable": mapTable, "acpi.locateRSDT": locate, "acpi.validTable": valid,
		"acpiDriver.tableMap": tableMapF, "acpiDriver.useXSDT": useXSDTF, "SDTHeader.Length": lengthF, "SDTHeader.Revision": revisionF,
		"SDTHeader.Signature": sigF, "RSDPDescriptor.Revision": rsdpRevF, "RSDPDescriptor.RSDTAddr": rsdtAddrF,
		"ExtRSDPDescriptor.XSDTAddr": xsdtAddrF, "FADT.Dsdt": dsdtF, "FADT.Ext": extF, "FADT64.Dsdt": dsdt64F,
		"acpi.errTableChecksumMismatch": mismatch, "acpi.fadtSignature": fadtSig, "acpi.rsdpAlignment": align,
		"vmm.IdentityMapRegion": identityMap, "kfmt.Fprintf": fprintf,
	} {
		if isNilIface(v) {
			c.unresolved("C14.R1", name)
			return
		}
	}

	// validTable true edges in a function
	validTrueEdges := func(g *IG, argOK func(args []ssa.Value) bool) []Edge {
		var out []Edge
		for _, f := range g.AllEdgeFacts() {
			if f.Y != nil || f.Op != token.EQL {
				continue
			}
			call, ok := f.X.(*ssa.Call)
			if !ok || m.callee(call.Common()) != valid {
				continue
			}
			if argOK == nil || argOK(call.Common().Args) {
				out = append(out, f.Edge)
			}
		}
		return out
	}

	// ================= R1 =================
	c.floor("C14.R1", 3)
	ge := newIG(m, enum, nil)
	ninserts := 0
	for n, in := range ge.Ins {
		mu, ok := in.(*ssa.MapUpdate)
		if !ok {
			continue
		}
		c.Evals++
		if !isLoadOfField(mu.Map, tableMapF) {
			continue
		}
		key := fmt.Sprintf("insert %s #%d", m.fnName(enum), ninserts)
		ninserts++
		call, ok := m.resultOf(mu.Value, mapTable, 0)
		if !ok {
			c.fail("C14.R1", key, "the value registered in tableMap is not the header returned by mapACPITable: "+describe(mu.Value), ge.posOf(n))
			continue
		}
		facts := ge.FactsAt(n)
		nilErr := hasFact(facts, func(f Fact) bool {
			return cmpMatch(f, token.EQL, func(v ssa.Value) bool {
				cc, ok := m.resultOf(v, mapTable, 2)
				return ok && cc == call
			}, isNilConst)
		})
		c.check(nilErr, "C14.R1", key, "stores the header of a mapACPITable call whose error is nil on every path to the insert",
			"a table is registered on a path on which the error of the mapACPITable call that produced it has not been tested nil (bad-checksum tables can be registered)", ge.posOf(n))
	}
	// a table is registered only if it is valid now: every enumeration starts
	// from an empty map (a table whose checksum has gone bad since an earlier
	// enumeration is not found in it any more). Not decided when the function
	// removes entries itself (delete), which is another way to the same end.
	{
		isFresh := func(k int) bool {
			st, ok := ge.Ins[k].(*ssa.Store)
			if !ok {
				return false
			}
			if f, rest := lastField(accessPath(st.Addr)); f != tableMapF || rest != "" {
				return false
			}
			_, ok = strip(st.Val).(*ssa.MakeMap)
			return ok
		}
		deletes := false
		for _, in := range ge.Ins {
			if call, ok := in.(*ssa.Call); ok {
				if bi, ok := call.Common().Value.(*ssa.Builtin); ok && bi.Name() == "delete" && isLoadOfField(call.Common().Args[0], tableMapF) {
					deletes = true
				}
			}
		}
		for n, in := range ge.Ins {
			mu, ok := in.(*ssa.MapUpdate)
			if !ok || !isLoadOfField(mu.Map, tableMapF) {
				continue
			}
			fresh, _ := ge.MustPassBefore(n, isFresh)
			c.check(fresh || deletes, "C14.R1", "fresh-map "+m.fnName(enum), "every path to an insert passes tableMap = make(...): an enumeration starts from an empty map",
				"an insert is reachable without tableMap having been replaced by a new map in this enumeration: tables registered by an earlier enumeration stay registered although their bytes may no longer sum to zero", ge.posOf(n))
		}
	}
	// any MapUpdate on tableMap elsewhere in the kernel
	m.eachInstr(func(fn *ssa.Function, in ssa.Instruction) {
		if mu, ok := in.(*ssa.MapUpdate); ok && fn != enum && isLoadOfField(mu.Map, tableMapF) {
			c.fail("C14.R1", "insert "+m.fnName(fn), "tableMap is written outside enumerateTables", m.pos(in.Pos()))
		}
	})
	// mapACPITable: every may-be-nil error return crosses validTable(addr, header.Length) true
	gm := newIG(m, mapTable, nil)
	lengthArgOK := func(args []ssa.Value) bool {
		// arg1 is a load of SDTHeader.Length of the header located at arg0
		base, f, ok := loadedField(stripConv(args[1]))
		if !ok || f != lengthF {
			return false
		}
		return ptrFromUintptr(base) == args[0]
	}
	vEdges := validTrueEdges(gm, lengthArgOK)
	if len(vEdges) == 0 {
		c.fail("C14.R1", "checksum-gate "+m.fnName(mapTable), "no test of validTable(<header address>, <that header's Length>) found", m.pos(mapTable.Pos()))
	} else {
		errIdx := mapTable.Signature.Results().Len() - 1
		nret := 0
		for _, rn := range gm.Returns() {
			ret := gm.Ins[rn].(*ssa.Return)
			ev := ret.Results[errIdx]
			key := fmt.Sprintf("checksum-gate %s return#%d", m.fnName(mapTable), nret)
			nret++
			// value cases
			type cse struct {
				v    ssa.Value
				edge *Edge // incoming edge for phi operands
			}
			var cases []cse
			if phi, ok := ev.(*ssa.Phi); ok && phi.Block() == ret.Block() {
				pe := gm.predEdges(phi.Block())
				for i, e := range phi.Edges {
					ed := pe[i]
					cases = append(cases, cse{e, &ed})
				}
			} else {
				cases = []cse{{ev, nil}}
			}
			bad := ""
			for _, cs := range cases {
				c.Evals++
				if m.nonNilErrorGlobal(cs.v) {
					continue
				}
				// known non-nil by dominance?
				node := rn
				if cs.edge != nil {
					node = cs.edge.From
				}
				if hasFact(gm.FactsAt(node), func(f Fact) bool {
					return cmpMatch(f, token.NEQ, func(v ssa.Value) bool { return v == cs.v }, isNilConst)
				}) {
					continue
				}
				// may be nil: the path must cross a validTable true edge
				crosses := false
				if cs.edge != nil {
					crosses = gm.edgeCrosses(*cs.edge, vEdges)
				} else {
					crosses = gm.UnreachableWithout(rn, vEdges)
				}
				if !crosses {
					bad = "a return whose error may be nil (" + describe(cs.v) + ") is reachable without crossing the true edge of validTable(header, header.Length)"
				}
			}
			c.check(bad == "", "C14.R1", key, "every possibly-nil error value of this return crosses the true edge of validTable(header address, header.Length)", bad, gm.posOf(rn))
		}
	}

	// ================= R2 =================
	c.floor("C14.R2", 2)
	nmis := 0
	for _, f := range ge.AllEdgeFacts() {
		if !cmpMatch(f, token.EQL, func(v ssa.Value) bool { _, ok := m.resultOf(v, mapTable, 2); return ok }, func(v ssa.Value) bool { return isLoadOfGlobal(v, mismatch) }) {
			continue
		}
		key := fmt.Sprintf("skip-not-stop %s #%d", m.fnName(enum), nmis)
		nmis++
		start := ge.Succ[f.Edge.From][f.Edge.K]
		hdr, _ := loopOf(ge.Ins[f.Edge.From].Block())
		if hdr == nil {
			c.fail("C14.R2", key, "the checksum-mismatch branch is not inside the table loop", ge.posOf(f.Edge.From))
			continue
		}
		h := ge.First[hdr]
		isRet := func(n int) bool { _, ok := ge.Ins[n].(*ssa.Return); return ok }
		if p := ge.Path([]int{start}, nil, func(n int) bool { return n == h }, isRet); p != nil {
			c.fail("C14.R2", key, "a return is reachable from the checksum-mismatch branch before the loop continues: enumeration stops at a bad table", ge.where(p, 10)...)
			continue
		}
		// a report: kfmt.Fprintf, or a call of a function (literal) that reports on
		// every path through it
		isLog := func(n int) bool {
			if m.callsTo(ge.Ins[n], fprintf) {
				return true
			}
			if cc := callCommon(ge.Ins[n]); cc != nil {
				if cal := m.callee(cc); cal != nil && cal != fprintf {
					return m.alwaysCalls(cal, fprintf, 0)
				}
			}
			return false
		}
		if p := ge.Path([]int{start}, nil, isLog, func(n int) bool { return n == h }); p != nil {
			c.fail("C14.R2", key, "the loop continues from the checksum-mismatch branch without reporting the table on the log", ge.where(p, 10)...)
			continue
		}
		c.ok("C14.R2", key, "the mismatch branch writes to the log and reaches only the loop header (no return)", ge.posOf(f.Edge.From))
	}

	// ================= R3 =================
	c.floor("C14.R3", 3)
	gl := newIG(m, locate, nil)
	nilRets := 0
	// (by return case: a return of merged variables is one case per way of
	// reaching it, with the values and the tests of that way)
	for _, rc := range gl.ReturnCases() {
		rn := rc.Ret
		ret := gl.Ins[rn].(*ssa.Return)
		if ret.Block() == locate.Recover || len(rc.Vals) < 3 {
			continue
		}
		vals := make([]ssa.Value, len(rc.Vals))
		for i, r := range rc.Vals {
			vals[i] = spilledResult(gl, rn, r)
		}
		if vals[2] == nil || !isNilConst(vals[2]) {
			if vals[2] == nil {
				c.undecided("C14.R3", fmt.Sprintf("root-pointer %s return@%s", m.fnName(locate), gl.posOf(rn)), "cannot determine the returned error value")
			}
			continue
		}
		key := fmt.Sprintf("root-pointer %s success#%d", m.fnName(locate), nilRets)
		nilRets++
		base, fld, ok := loadedField(stripConv(vals[0]))
		xs, okb := constBool(vals[1])
		if !ok || !okb || (fld != rsdtAddrF && fld != xsdtAddrF) {
			c.fail("C14.R3", key, "a nil-error return does not return RSDTAddr/XSDTAddr of the descriptor with a constant table kind", gl.posOf(rn))
			continue
		}
		ptr := ptrFromUintptr(base)
		var structT types.Type
		if pt, ok := base.Type().Underlying().(*types.Pointer); ok {
			structT = pt.Elem()
		}
		facts := gl.CaseFacts(rc)
		want := packedSize(structT)
		gotLen := int64(-1)
		okValid := hasFact(facts, func(f Fact) bool {
			if f.Y != nil || f.Op != token.EQL {
				return false
			}
			call, ok := f.X.(*ssa.Call)
			if !ok || m.callee(call.Common()) != valid {
				return false
			}
			a := call.Common().Args
			l, ok := constInt64(a[1])
			if ok && a[0] == ptr {
				gotLen = l
			}
			return ok && a[0] == ptr && l == want
		})
		revFact := func(op token.Token) bool {
			return hasFact(facts, func(f Fact) bool {
				return cmpMatch(f, op, func(v ssa.Value) bool {
					b, fl, ok := loadedField(v)
					return ok && fl == rsdpRevF && ptrFromUintptr(b) == ptr
				}, isZeroConst)
			})
		}
		switch {
		case ptr == nil:
			c.fail("C14.R3", key, "the descriptor pointer is not derived from the scan cursor", gl.posOf(rn))
		case !okValid && gotLen >= 0:
			c.fail("C14.R3", key, fmt.Sprintf("the descriptor is accepted after a checksum over %d bytes, but the structure it reads (%s) occupies %d bytes (sum of its fields; Go's trailing alignment padding is not part of the firmware structure)", gotLen, structT.String(), want), gl.posOf(rn))
		case !okValid:
			c.fail("C14.R3", key, "a nil-error return is reachable without crossing the true edge of validTable over the descriptor that is read", gl.posOf(rn))
		case fld == rsdtAddrF && (xs || !revFact(token.EQL)):
			c.fail("C14.R3", key, "the 32-bit root table must be returned with kind=false and only on the Revision == 0 side", gl.posOf(rn))
		case fld == xsdtAddrF && (!xs || !revFact(token.NEQ)):
			c.fail("C14.R3", key, "the 64-bit root table must be returned with kind=true and only on the Revision != 0 side", gl.posOf(rn))
		default:
			c.ok("C14.R3", key, fmt.Sprintf("returns %s (useXSDT=%v) after validTable(cursor, %d) == true on the matching revision side", fld.Name(), xs, want), gl.posOf(rn))
		}
	}
	// scan step
	stepOK := false
	for _, in := range gl.Ins {
		if phi, ok := in.(*ssa.Phi); ok && phi.Comment == "curPtr" {
			for _, e := range phi.Edges {
				if b, ok := e.(*ssa.BinOp); ok && b.Op == token.ADD && b.X == ssa.Value(phi) && isLoadOfGlobal(b.Y, align) {
					stepOK = true
				}
			}
		}
	}
	if !stepOK {
		// fall back: any phi of type uintptr advanced by rsdpAlignment that feeds validTable
		for _, in := range gl.Ins {
			if phi, ok := in.(*ssa.Phi); ok {
				for _, e := range phi.Edges {
					if b, ok := e.(*ssa.BinOp); ok && b.Op == token.ADD && b.X == ssa.Value(phi) && isLoadOfGlobal(b.Y, align) {
						stepOK = true
					}
				}
			}
		}
	}
	c.check(stepOK, "C14.R3", "scan-step "+m.fnName(locate), "the scan cursor advances by a load of rsdpAlignment",
		"the scan cursor does not advance by rsdpAlignment", m.pos(locate.Pos()))
	// the search window, by role: the cursor starts at a package variable and is
	// compared with another one; their initialisers are the BIOS area 0xe0000 ..
	// 0xfffff of the ACPI specification
	{
		var lowG, hiG *ssa.Global
		globalOf := func(v ssa.Value) *ssa.Global {
			if ld, ok := stripConv(v).(*ssa.UnOp); ok && ld.Op == token.MUL {
				if gg, ok := ld.X.(*ssa.Global); ok {
					return gg
				}
			}
			return nil
		}
		for n, in := range gl.Ins {
			phi, ok := in.(*ssa.Phi)
			if !ok {
				continue
			}
			adv := false
			for _, e := range phi.Edges {
				if b, ok := e.(*ssa.BinOp); ok && b.Op == token.ADD && b.X == ssa.Value(phi) && isLoadOfGlobal(b.Y, align) {
					adv = true
				}
			}
			if !adv {
				continue
			}
			for _, e := range phi.Edges {
				if gg := globalOf(e); gg != nil {
					lowG = gg
				}
			}
			_ = n
			for k := range gl.Ins {
				if _, isIf := gl.Ins[k].(*ssa.If); !isIf {
					continue
				}
				if f, ok := condFact(gl.Cond(k), true); ok && f.Y != nil {
					if stripConv(f.X) == ssa.Value(phi) && globalOf(f.Y) != nil {
						hiG = globalOf(f.Y)
					} else if stripConv(f.Y) == ssa.Value(phi) && globalOf(f.X) != nil {
						hiG = globalOf(f.X)
					}
				}
			}
		}
		if lowG == nil || hiG == nil {
			c.fail("C14.R3", "search-window "+m.fnName(locate), "the scan cursor does not run from one package variable to another (rule shape lost)", m.pos(locate.Pos()))
		} else {
			lo, ok1 := m.globalConstInit(lowG)
			hi, ok2 := m.globalConstInit(hiG)
			c.check(ok1 && ok2 && lo == 0xe0000 && hi == 0xfffff, "C14.R3", "search-window "+m.fnName(locate), "the scan covers the BIOS area 0xe0000 .. 0xfffff",
				fmt.Sprintf("the scan window is %s=%#x .. %s=%#x (single constant initialiser: %v/%v), not the BIOS area 0xe0000 .. 0xfffff: a root pointer in the part that is left out is not found", lowG.Name(), lo, hiG.Name(), hi, ok1, ok2), m.pos(locate.Pos()))
		}
	}
	if av, ok := m.globalConstInit(align); ok {
		c.check(av == 16, "C14.R3", "scan-alignment acpi.rsdpAlignment", "rsdpAlignment is initialised to 16", fmt.Sprintf("rsdpAlignment is initialised to %d, not 16", av))
	}

	// ================= R4 =================
	c.floor("C14.R4", 2)
	narms := 0
	for n, in := range ge.Ins {
		ms, ok := in.(*ssa.MakeSlice)
		if !ok {
			continue
		}
		// count = payload / 2^k, however the division is written
		zl := &Polyizer{}
		lenP := zl.Of(ms.Len)
		var fi fdivInfo
		nf := 0
		for mono, cf := range lenP {
			if info, isF := fdivAtoms[mono]; isF && cf == 1 {
				fi = info
				nf++
			}
		}
		if nf != 1 {
			continue
		}
		k := int64(fi.k)
		facts := ge.FactsAt(n)
		arm := ""
		for _, f := range facts {
			if f.Y == nil && isLoadOfField(f.X, useXSDTF) {
				arm = map[bool]string{true: "true", false: "false"}[f.Op == token.EQL]
			}
		}
		if arm == "" {
			continue
		}
		key := fmt.Sprintf("entry-width %s useXSDT=%s", m.fnName(enum), arm)
		narms++
		// the element store into this slice: value converted from a load through a pointer built from a uintptr phi
		var width, step int64 = -1, -1
		for _, in2 := range ge.Ins {
			st, ok := in2.(*ssa.Store)
			if !ok {
				continue
			}
			ia, ok := st.Addr.(*ssa.IndexAddr)
			if !ok || ia.X != ssa.Value(ms) {
				continue
			}
			ld, ok := stripConv(st.Val).(*ssa.UnOp)
			if !ok || ld.Op != token.MUL {
				continue
			}
			width = sizesAMD64.Sizeof(ld.Type())
			// the pointer's advance per iteration (induction form of the loop)
			if pv := ptrFromUintptr(ld.X); pv != nil && isIntegral(pv.Type()) {
				if lf, ok := ge.loopFormAt(zl, st.Block()); ok {
					if _, per, ok := lf.affineInT(pv); ok {
						if s, isC := per.isConst(); isC {
							step = s
						}
					}
					lf.Done()
				}
			}
		}
		wantW := int64(4)
		if arm == "true" {
			wantW = 8
		}
		okArm := width == wantW && step == wantW && int64(1)<<uint(k) == wantW
		c.check(okArm, "C14.R4", key, fmt.Sprintf("count = payload >> %d, pointer step %d, load width %d bytes", k, step, width),
			fmt.Sprintf("entry width disagreement: count = payload >> %d, pointer step %d, load width %d bytes (expected %d-byte entries in this arm)", k, step, width, wantW), ge.posOf(n))
	}

	// ================= R5 =================
	c.floor("C14.R5", 3)
	// order in mapACPITable
	idCalls := gm.callNodes(identityMap)
	key := "mapping-order " + m.fnName(mapTable)
	hdrSize := packedSize(lengthF.Type()) // placeholder, replaced below
	if st := m.lookupType(acpi+"/table", "SDTHeader"); st != nil {
		hdrSize = sizesAMD64.Sizeof(st)
	}
	var first, second = -1, -1
	for _, n := range idCalls {
		a := gm.callArgs(n)
		if v, ok := constInt64(a[1]); ok && v == hdrSize {
			first = n
		} else if _, f, ok := loadedField(stripConv(a[1])); ok && f == lengthF {
			second = n
		}
	}
	vnodes := gm.callNodes(valid)
	switch {
	case first < 0 || second < 0 || len(vnodes) == 0:
		c.fail("C14.R5", key, "expected identity mapping of the header (constant header size), identity mapping of header.Length bytes and a validTable call", m.pos(mapTable.Pos()))
	default:
		ok1, _ := gm.MustPassBefore(second, func(n int) bool { return n == first })
		// error of both mappings is checked before going on
		errChecked := func(call int, before int) bool {
			return hasFact(gm.FactsAt(before), func(f Fact) bool {
				return cmpMatch(f, token.EQL, func(v ssa.Value) bool {
					ex, ok := strip(v).(*ssa.Extract)
					return ok && ex.Tuple == gm.Ins[call].(ssa.Value) && ex.Index == 1
				}, isNilConst)
			})
		}
		ok2 := errChecked(first, second)
		ok3 := true
		for _, v := range vnodes {
			if okb, _ := gm.MustPassBefore(v, func(n int) bool { return n == second }); !okb || !errChecked(second, v) {
				ok3 = false
			}
		}
		c.check(ok1 && ok2 && ok3, "C14.R5", key, "header mapping (error checked) precedes the Length-sized mapping (error checked), which precedes the checksum",
			"the order map header -> read Length -> map Length bytes -> checksum is not respected on every path, or a mapping error is not checked", gm.posOf(second))
	}
	// DSDT provenance
	nd := 0
	for n, in := range ge.Ins {
		if !m.callsTo(in, mapTable) {
			continue
		}
		arg := callCommon(in).Args[0]
		phi, ok := arg.(*ssa.Phi)
		if !ok {
			if _, f, ok := loadedField(stripConv(arg)); ok && (f == dsdtF || f == dsdt64F) {
				c.fail("C14.R5", "dsdt-pointer "+m.fnName(enum), "the DSDT address is taken from a single FADT field regardless of the ACPI revision", ge.posOf(n))
				nd++
			}
			continue
		}
		dkey := fmt.Sprintf("dsdt-pointer %s #%d", m.fnName(enum), nd)
		pe := ge.predEdges(phi.Block())
		seen32, seen64, bad := false, false, ""
		for i, e := range phi.Edges {
			b, f, ok := loadedField(stripConv(e))
			if !ok {
				bad = "an operand of the DSDT address is not a FADT field: " + describe(e)
				continue
			}
			// which side of the revision test does this edge come from?
			ef := ge.FactsAt(pe[i].From)
			if fct, ok := ge.EdgeFact(pe[i].From, pe[i].K); ok {
				ef = append(ef, fct)
			}
			isRevCmp := func(op token.Token) bool {
				return hasFact(ef, func(ft Fact) bool {
					return cmpMatch(ft, op, func(v ssa.Value) bool { return isLoadOfField(v, revisionF) }, func(v ssa.Value) bool { k, ok := constInt64(v); return ok && k == 2 })
				})
			}
			switch {
			case f == dsdt64F:
				if _, pf, ok := fieldOfAddr(b); !ok || pf != extF {
					bad = "64-bit DSDT pointer not read from FADT.Ext"
				}
				seen64 = true
				if !isRevCmp(token.GEQ) {
					bad = "the 64-bit DSDT pointer (Ext.Dsdt) is used on a path not dominated by revision >= 2"
				}
			case f == dsdtF:
				seen32 = true
				if !isRevCmp(token.LSS) {
					bad = "the 32-bit DSDT pointer is used on a path not dominated by revision < 2"
				}
			default:
				bad = "an operand of the DSDT address is not FADT.Dsdt / FADT.Ext.Dsdt: " + f.Name()
			}
		}
		if !seen32 || !seen64 {
			continue // not the DSDT call
		}
		nd++
		// only under signature == FADT signature
		sigOK := hasFact(ge.FactsAt(n), func(f Fact) bool {
			return cmpMatch(f, token.EQL, func(v ssa.Value) bool { return derivedFromField(v, sigF) }, func(v ssa.Value) bool { return isLoadOfGlobal(v, fadtSig) })
		})
		if bad == "" && !sigOK {
			bad = "the DSDT pointer is followed from a header whose signature was not compared equal to the FADT signature"
		}
		c.check(bad == "", "C14.R5", dkey, "Ext.Dsdt on the revision >= 2 side, Dsdt otherwise, only under signature == \"FACP\"", bad, ge.posOf(n))
	}
	if nd == 0 {
		c.fail("C14.R5", "dsdt-pointer "+m.fnName(enum), "no mapACPITable call whose address selects between FADT.Dsdt and FADT.Ext.Dsdt was found", m.pos(enum.Pos()))
	}
	if v, ok := m.globalStringInit(fadtSig); ok {
		c.check(v == "FACP", "C14.R5", "fadt-signature acpi.fadtSignature", "initialised to \"FACP\"", "FADT signature is "+v)
	}
	_ = strings.Join
}

// ptrFromUintptr: p is a pointer converted (through unsafe.Pointer) from a
// uintptr value; returns that value. Embedded-struct field addresses are
// followed to their base pointer.
func ptrFromUintptr(p ssa.Value) ssa.Value {
	for i := 0; i < 8; i++ {
		switch x := p.(type) {
		case *ssa.Convert:
			p = x.X
			if isIntegral(p.Type()) {
				return p
			}
		case *ssa.ChangeType:
			p = x.X
		case *ssa.FieldAddr:
			p = x.X
		default:
			return nil
		}
	}
	return nil
}

// derivedFromField: v is computed from a load/slice of field f (string
// conversions of byte arrays).
func derivedFromField(v ssa.Value, f *types.Var) bool {
	for i := 0; i < 6; i++ {
		switch x := v.(type) {
		case *ssa.Convert:
			v = x.X
		case *ssa.ChangeType:
			v = x.X
		case *ssa.Slice:
			v = x.X
		case *ssa.FieldAddr:
			_, fl, ok := fieldOfAddr(x)
			return ok && fl == f
		case *ssa.UnOp:
			v = x.X
		default:
			return false
		}
	}
	return false
}

// spilledResult resolves a return operand that was spilled to a result local
// because the function has a defer: the value last stored to the local in the
// return's block.
func spilledResult(g *IG, rn int, r ssa.Value) ssa.Value {
	ld, ok := r.(*ssa.UnOp)
	if !ok || ld.Op != token.MUL {
		return r
	}
	al, ok := ld.X.(*ssa.Alloc)
	if !ok {
		return r
	}
	b := g.Ins[rn].Block()
	var last ssa.Value
	for _, in := range b.Instrs {
		if st, ok := in.(*ssa.Store); ok && st.Addr == ssa.Value(al) {
			last = st.Val
		}
	}
	return last
}

// globalConstInit: the package initialiser stores an integer constant into g
// and nothing else stores to it.
func (m *Module) globalConstInit(g *ssa.Global) (int64, bool) {
	st := m.storesToGlobal(g)
	if len(st) != 1 {
		return 0, false
	}
	return constInt64(st[0].Val)
}

func (m *Module) globalStringInit(g *ssa.Global) (string, bool) {
	st := m.storesToGlobal(g)
	if len(st) != 1 {
		return "", false
	}
	c, ok := st[0].Val.(*ssa.Const)
	if !ok || c.Value == nil {
		return "", false
	}
	s := c.Value.ExactString()
	return strings.Trim(s, "\""), true
}
