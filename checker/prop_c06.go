package main

import (
	"fmt"
	"go/token"
	"go/types"
	"os"
	"strings"

	"golang.org/x/tools/go/ssa"
)

func init() {
	register(&Property{
		ID:         "C06",
		NeedKernel: true,
		Run:        runC06,
		Explanation: "Copy-on-write fault handling and protection of the shared zero frame, decided on SSA: (R1) in Map and MapTemporary the page-table walk " +
			"is unreachable once the false edges of the guard conjuncts (armed flag, frame == ReservedZeroedFrame, flags&FlagRW != 0) are removed; " +
			"(R2) every SetFrame / RW-capable SetFlags call and every direct store through a *pageTableEntry in the kernel is classified as guarded, " +
			"freshly allocated, page-directory root or zero; (R3) the guard is armed only with true, only in reserveZeroedFrame, after zeroing, and " +
			"every caller passing ReservedZeroedFrame to a mapping function passes constant flags without FlagRW; (R4) the panic handlers diverge and the " +
			"only reachable return of pageFaultHandler is dominated by present && !RW && CoW && allocation ok && temporary mapping ok; (R5) the recovery " +
			"sequence copy -> unmap -> clear CoW / set RW / set frame -> flush occurs in that order with the right operands. Decides code shape, not page contents.",
		EnumRule: "obligations per rule and construct (function + role of the call/store site)",
		Assumptions: []string{
			"ssa.Panic and calls to functions from which no return is reachable end a path (E2)",
			"test seams (func-valued package variables) are resolved through their single non-test initialiser",
			"the pageTableEntry accessor methods are the write primitives and are exempt from R2 by role",
		},
		Controls: []Control{
			{Name: "drop the flags conjunct of Map's guard", File: "kernel/mm/vmm/map.go",
				Old: "if protectReservedZeroedPage && frame == ReservedZeroedFrame && (flags&FlagRW) != 0 {", New: "if protectReservedZeroedPage && frame == ReservedZeroedFrame && (flags&FlagRW) != 0 && page == 0 {", Expect: "C06.R1"},
			{Name: "guard on the wrong flag", File: "kernel/mm/vmm/map.go",
				Old: "if protectReservedZeroedPage && frame == ReservedZeroedFrame && (flags&FlagRW) != 0 {", New: "if protectReservedZeroedPage && frame == ReservedZeroedFrame && (flags&FlagUserAccessible) != 0 {", Expect: "C06.R1"},
			{Name: "MapTemporary guard removed", File: "kernel/mm/vmm/map.go",
				Old: "\tif protectReservedZeroedPage && frame == ReservedZeroedFrame {\n\t\treturn 0, errAttemptToRWMapReservedFrame\n\t}\n", New: "", Expect: "C06.R1"},
			{Name: "nonRecoverablePageFault returns", File: "kernel/mm/vmm/fault_amd64.go",
				Old: "\t// TODO: Revisit this when user-mode tasks are implemented\n\tpanic(err)\n}", New: "\tif err != nil {\n\t\tpanic(err)\n\t}\n}", Expect: "C06.R4"},
			{Name: "swap Memcopy arguments", File: "kernel/mm/vmm/fault_amd64.go",
				Old: "kernel.Memcopy(faultPage.Address(), tmpPage.Address(), mm.PageSize)", New: "kernel.Memcopy(tmpPage.Address(), faultPage.Address(), mm.PageSize)", Expect: "C06.R5"},
			{Name: "map the zero frame RW in sysMap", File: "kernel/goruntime/bootstrap.go",
				Old: "mapFlags := vmm.FlagPresent | vmm.FlagNoExecute | vmm.FlagCopyOnWrite\n", New: "mapFlags := vmm.FlagPresent | vmm.FlagNoExecute | vmm.FlagCopyOnWrite | vmm.FlagRW\n", Expect: "C06.R3"},
			{Name: "recover without checking CoW", File: "kernel/mm/vmm/fault_amd64.go",
				Old: "if pageEntry != nil && !pageEntry.HasFlags(FlagRW) && pageEntry.HasFlags(FlagCopyOnWrite) {", New: "if pageEntry != nil && !pageEntry.HasFlags(FlagRW) {", Expect: "C06.R4"},
			{Name: "flush dropped from recovery", File: "kernel/mm/vmm/fault_amd64.go",
				Old: "\t\t\tpageEntry.SetFrame(copy)\n\t\t\tflushTLBEntryFn(faultPage.Address())\n", New: "\t\t\tpageEntry.SetFrame(copy)\n", Expect: "C06.R5"},
			{Name: "new unguarded mapping path", File: "kernel/mm/vmm/map.go",
				Old: "// PageOffset returns the offset within the page specified by a virtual\n", New: "func remapEntry(pte *pageTableEntry, frame mm.Frame) {\n\tpte.SetFrame(frame)\n\tpte.SetFlags(FlagPresent | FlagRW)\n}\n\n// PageOffset returns the offset within the page specified by a virtual\n", Expect: "C06.R2"},
			{Name: "arming moved before zeroing", File: "kernel/mm/vmm/vmm.go",
				Old: "\tkernel.Memset(tempPage.Address(), 0, mm.PageSize)\n\t_ = unmapFn(tempPage)\n", New: "\tprotectReservedZeroedPage = true\n\tkernel.Memset(tempPage.Address(), 0, mm.PageSize)\n\t_ = unmapFn(tempPage)\n", Expect: "C06.R3"},
			{Name: "keep CoW flag after recovery", File: "kernel/mm/vmm/fault_amd64.go",
				Old: "\t\t\tpageEntry.ClearFlags(FlagCopyOnWrite)\n", New: "", Expect: "C06.R5"},
		},
	})
}

type c06 struct {
	c *Ctx
	m *Module

	mapFn, mapTemp, unmap, walk, pfh, nrpf, gpf, rzf *ssa.Function
	setFrame, setFlags, clearFlags, hasFlags         *ssa.Function
	allocFrame, memset, memcopy, flush, activePDT    *ssa.Function
	protect, zeroFrame                               *ssa.Global
	pte                                              *types.Named
	pdtFrameF                                        *types.Var
	flagRW, flagCoW, flagPresent, pageSize           uint64
	guardOK                                          map[*ssa.Function]bool
	igs                                              map[*ssa.Function]*IG
}

func runC06(c *Ctx) {
	m := c.K
	x := &c06{c: c, m: m, guardOK: map[*ssa.Function]bool{}}
	const vmm = "mm/vmm"
	x.mapFn = m.lookupFunc(vmm, "Map")
	x.mapTemp = m.lookupFunc(vmm, "MapTemporary")
	x.unmap = m.lookupFunc(vmm, "Unmap")
	x.walk = m.lookupFunc(vmm, "walk")
	x.pfh = m.lookupFunc(vmm, "pageFaultHandler")
	x.nrpf = m.lookupFunc(vmm, "nonRecoverablePageFault")
	x.gpf = m.lookupFunc(vmm, "generalProtectionFaultHandler")
	x.rzf = m.lookupFunc(vmm, "reserveZeroedFrame")
	x.setFrame = m.lookupMethod(vmm, "pageTableEntry", "SetFrame")
	x.setFlags = m.lookupMethod(vmm, "pageTableEntry", "SetFlags")
	x.clearFlags = m.lookupMethod(vmm, "pageTableEntry", "ClearFlags")
	x.hasFlags = m.lookupMethod(vmm, "pageTableEntry", "HasFlags")
	x.allocFrame = m.lookupFunc("mm", "AllocFrame")
	x.memset = m.lookupFunc("", "Memset")
	x.memcopy = m.lookupFunc("", "Memcopy")
	x.flush = m.lookupFunc("cpu", "FlushTLBEntry")
	x.activePDT = m.lookupFunc("cpu", "ActivePDT")
	x.protect = m.lookupGlobal(vmm, "protectReservedZeroedPage")
	x.zeroFrame = m.lookupGlobal(vmm, "ReservedZeroedFrame")
	x.pte = m.lookupType(vmm, "pageTableEntry")
	x.pdtFrameF = m.fieldOf(vmm, "PageDirectoryTable", "pdtFrame")
	for name, v := range map[string]interface{}{
		"vmm.Map": x.mapFn, "vmm.MapTemporary": x.mapTemp, "vmm.Unmap": x.unmap, "vmm.walk": x.walk, "vmm.pageFaultHandler": x.pfh,
		"vmm.nonRecoverablePageFault": x.nrpf, "vmm.generalProtectionFaultHandler": x.gpf, "vmm.reserveZeroedFrame": x.rzf,
		"pageTableEntry.SetFrame": x.setFrame, "pageTableEntry.SetFlags": x.setFlags, "pageTableEntry.ClearFlags": x.clearFlags,
		"pageTableEntry.HasFlags": x.hasFlags, "mm.AllocFrame": x.allocFrame, "kernel.Memset": x.memset, "kernel.Memcopy": x.memcopy,
		"cpu.FlushTLBEntry": x.flush, "cpu.ActivePDT": x.activePDT, "vmm.protectReservedZeroedPage": x.protect,
		"vmm.ReservedZeroedFrame": x.zeroFrame, "vmm.pageTableEntry": x.pte, "PageDirectoryTable.pdtFrame": x.pdtFrameF,
	} {
		if isNilIface(v) {
			c.unresolved("C06.R1", name)
			return
		}
	}
	var ok1, ok2, ok3, ok4 bool
	x.flagRW, ok1 = namedConstUint(m, vmm, "FlagRW")
	x.flagCoW, ok2 = namedConstUint(m, vmm, "FlagCopyOnWrite")
	x.flagPresent, ok3 = namedConstUint(m, vmm, "FlagPresent")
	x.pageSize, ok4 = namedConstUint(m, "mm", "PageSize")
	if !ok1 || !ok2 || !ok3 || !ok4 {
		c.unresolved("C06.R1", "vmm.FlagRW / FlagCopyOnWrite / FlagPresent / mm.PageSize")
		return
	}
	x.r1()
	x.r2()
	x.r3()
	x.r4r5()
}

// ---- R1 ----

func (x *c06) isZeroFrameLoad(v ssa.Value) bool { return isLoadOfGlobal(v, x.zeroFrame) }

// guardEdges finds the false edges of the guard conjuncts in fn.
func (x *c06) guardEdges(g *IG, fn *ssa.Function, needFlags bool) (edges []Edge, missing []string) {
	frameP := paramNamed(fn, "frame")
	flagsP := paramNamed(fn, "flags")
	var armed, frameEq, rw []Edge
	for _, f := range g.AllEdgeFacts() {
		x.c.Evals++
		// armed flag is false
		if f.Y == nil && f.Op == token.NEQ && isLoadOfGlobal(f.X, x.protect) {
			armed = append(armed, f.Edge)
		}
		// frame != ReservedZeroedFrame
		if frameP != nil && cmpMatch(f, token.NEQ, func(v ssa.Value) bool { return isParamValue(v, frameP) }, x.isZeroFrameLoad) {
			frameEq = append(frameEq, f.Edge)
		}
		// flags & FlagRW == 0
		if flagsP != nil && f.Y != nil && f.Op == token.EQL {
			for _, pair := range [][2]ssa.Value{{f.X, f.Y}, {f.Y, f.X}} {
				if v, mask, ok := maskTest(pair[0]); ok && mask == x.flagRW && isParamValue(v, flagsP) && isZeroConst(pair[1]) {
					rw = append(rw, f.Edge)
				}
			}
		}
	}
	if len(armed) == 0 {
		missing = append(missing, "test of protectReservedZeroedPage")
	}
	if len(frameEq) == 0 {
		missing = append(missing, "comparison of the frame parameter with ReservedZeroedFrame")
	}
	if needFlags && len(rw) == 0 {
		missing = append(missing, "test flags&FlagRW != 0 on the flags parameter")
	}
	edges = append(edges, armed...)
	edges = append(edges, frameEq...)
	if needFlags {
		edges = append(edges, rw...)
	}
	return
}

func (x *c06) r1() {
	c, m := x.c, x.m
	c.floor("C06.R1", 2)
	check := func(fn, target *ssa.Function, needFlags bool, what string) {
		g := newIG(m, fn, nil)
		key := "guard-cut " + m.fnName(fn)
		targets := g.callNodes(target)
		if len(targets) == 0 {
			c.fail("C06.R1", key, "no call to "+what+" found (the function no longer has the shape the rule decides)", m.pos(fn.Pos()))
			return
		}
		edges, missing := x.guardEdges(g, fn, needFlags)
		if len(missing) > 0 {
			c.fail("C06.R1", key, "guard conjunct(s) not found: "+strings.Join(missing, "; "), m.pos(fn.Pos()))
			return
		}
		for _, t := range targets {
			if !g.UnreachableWithout(t, edges) {
				cut := map[Edge]bool{}
				for _, e := range edges {
					cut[e] = true
				}
				p := g.Path([]int{0}, cut, nil, func(n int) bool { return n == t })
				c.fail("C06.R1", key, "the call to "+what+" is reachable on a path on which the armed flag is set, frame == ReservedZeroedFrame"+
					map[bool]string{true: " and flags has FlagRW", false: ""}[needFlags], g.where(p, 10)...)
				return
			}
		}
		// the guarded exit returns the dedicated error
		x.guardOK[fn] = true
		c.ok("C06.R1", key, fmt.Sprintf("every path to the %d call(s) of %s crosses the false edge of one of the %d guard conjunct edges", len(targets), what, len(edges)), g.posOf(targets[0]))
	}
	check(x.mapFn, x.walk, true, "walk")
	check(x.mapTemp, x.mapFn, false, "Map")
}

// ---- R2 ----

func (x *c06) classifyFrameArg(fn *ssa.Function, a ssa.Value, at ssa.Instruction) (string, bool) {
	m := x.m
	a = strip(a)
	// (G) the guarded parameter of Map, seen from its walker closure or Map itself
	if outer := outermost(fn); x.guardOK[outer] {
		if p := paramNamedOpt(outer, "frame", false); p != nil && isParamValue(a, p) {
			return "G: guarded frame parameter of " + m.fnName(outer), true
		}
	}
	// (A) freshly allocated
	// the values the argument can have here: through a local it was stored in,
	// and through the returns of a spliced helper that can lead here
	var vals []ssa.Value
	if x.igs == nil {
		x.igs = map[*ssa.Function]*IG{}
	}
	g := x.igs[fn]
	if g == nil {
		g = scanIG(m, fn, nil)
		x.igs[fn] = g
	}
	cases := []ValCase{{Val: a}}
	if n, ok := g.Idx[at]; ok {
		cases = g.valueCasesAt(a, n)
	}
	for _, vc := range cases {
		if vs, _, ok := cellStoredValues(vc.Val); ok {
			vals = append(vals, vs...)
		} else {
			vals = append(vals, vc.Val)
		}
	}
	allAlloc := len(vals) > 0
	for _, v := range vals {
		if _, ok := m.resultOf(v, x.allocFrame, 0); !ok {
			allAlloc = false
		}
	}
	if allAlloc {
		return "A: result of mm.AllocFrame", true
	}
	// (P) page-directory root
	if x.isPDTRoot(fn, a, 0) {
		return "P: page-directory root frame", true
	}
	return "", false
}

func (x *c06) isPDTRoot(fn *ssa.Function, a ssa.Value, depth int) bool {
	if depth > 6 {
		return false
	}
	a = stripConv(a)
	if isLoadOfField(a, x.pdtFrameF) {
		return true
	}
	if _, f, ok := loadedField(a); ok && f == x.pdtFrameF {
		return true
	}
	// value receiver spilled to a local: load of field of alloc holding the receiver
	if ad, ok := loadAddr(a); ok {
		if _, f, ok := fieldOfAddr(ad); ok && f == x.pdtFrameF {
			return true
		}
	}
	// parameter that the same function stores into pdt.pdtFrame
	if p, ok := a.(*ssa.Parameter); ok {
		for _, b := range x.m.blocksOf(fn) {
			for _, in := range b.Instrs {
				if st, ok := in.(*ssa.Store); ok && strip(st.Val) == ssa.Value(p) {
					if f, rest := lastField(accessPath(st.Addr)); f == x.pdtFrameF && rest == "" {
						return true
					}
				}
			}
		}
	}
	// derived from activePDTFn()
	if _, ok := x.m.resultOf(a, x.activePDT, -1); ok {
		return true
	}
	if b, ok := a.(*ssa.BinOp); ok && (b.Op == token.SHR || b.Op == token.SHL || b.Op == token.AND || b.Op == token.AND_NOT || b.Op == token.QUO || b.Op == token.MUL) {
		// shifted, or masked with a constant (address <-> frame number)
		if _, isC := b.Y.(*ssa.Const); isC || b.Op == token.SHR || b.Op == token.SHL {
			return x.isPDTRoot(fn, b.X, depth+1)
		}
	}
	return false
}

func (x *c06) r2() {
	c, m := x.c, x.m
	c.floor("C06.R2", 4)
	exempt := map[*ssa.Function]bool{x.setFrame: true, x.setFlags: true, x.clearFlags: true}
	ptePtr := types.NewPointer(x.pte)
	type site struct {
		fn *ssa.Function
		in ssa.Instruction
	}
	setFrameRecv := map[*ssa.Function]map[ssa.Value]bool{} // receivers that get a classified SetFrame
	var flagSites []site
	count := map[string]int{}
	m.eachInstr(func(fn *ssa.Function, in ssa.Instruction) {
		if exempt[fn] {
			return
		}
		c.Evals++
		key := m.fnName(fn)
		if recv, args, ok := methodCall(m, in, x.setFrame); ok {
			count["SetFrame"]++
			cls, ok := x.classifyFrameArg(fn, args[0], in)
			k := fmt.Sprintf("SetFrame %s #%d", key, count["SetFrame "+key])
			count["SetFrame "+key]++
			if ok {
				if setFrameRecv[fn] == nil {
					setFrameRecv[fn] = map[ssa.Value]bool{}
				}
				setFrameRecv[fn][recv] = true
				c.ok("C06.R2", k, cls, m.pos(in.Pos()))
			} else {
				c.fail("C06.R2", k, "SetFrame installs a frame that is neither the guarded parameter of Map, a fresh mm.AllocFrame result, nor a page-directory root: "+describe(args[0])+
					" (a mapping path that bypasses the ReservedZeroedFrame guard)", m.pos(in.Pos()))
			}
			return
		}
		if _, _, ok := methodCall(m, in, x.setFlags); ok {
			flagSites = append(flagSites, site{fn, in})
			return
		}
		if st, ok := in.(*ssa.Store); ok && types.Identical(st.Addr.Type(), ptePtr) {
			k := fmt.Sprintf("store %s #%d", key, count["store "+key])
			count["store "+key]++
			if isZeroConst(st.Val) {
				c.ok("C06.R2", k, "Z: direct store of constant 0 through *pageTableEntry", m.pos(in.Pos()))
			} else {
				c.fail("C06.R2", k, "direct store of a non-zero value through *pageTableEntry outside the accessor methods: "+describe(st.Val), m.pos(in.Pos()))
			}
		}
	})
	for _, s := range flagSites {
		recv, args, _ := methodCall(m, s.in, x.setFlags)
		key := m.fnName(s.fn)
		k := fmt.Sprintf("SetFlags %s #%d", key, count["SetFlags "+key])
		count["SetFlags "+key]++
		if cv, ok := constUint64(args[0]); ok {
			if cv&x.flagRW == 0 {
				c.ok("C06.R2", k, "constant flags without FlagRW", m.pos(s.in.Pos()))
				continue
			}
			paired := false
			for r := range setFrameRecv[s.fn] {
				if r == recv || sameCell(r, recv) {
					paired = true
				}
			}
			if paired {
				c.ok("C06.R2", k, "constant flags with FlagRW on an entry that receives a classified (fresh / root) frame in the same function", m.pos(s.in.Pos()))
			} else {
				c.fail("C06.R2", k, "SetFlags adds FlagRW to an entry whose frame is not installed (as fresh or root frame) in the same function", m.pos(s.in.Pos()))
			}
			continue
		}
		outer := outermost(s.fn)
		if p := paramNamedOpt(outer, "flags", false); p != nil && x.guardOK[outer] && isParamValue(args[0], p) {
			c.ok("C06.R2", k, "G: guarded flags parameter of "+m.fnName(outer), m.pos(s.in.Pos()))
			continue
		}
		c.fail("C06.R2", k, "SetFlags with non-constant flags that are not the guarded flags parameter of Map: "+describe(args[0]), m.pos(s.in.Pos()))
	}
}

// ---- R3 ----

func (x *c06) r3() {
	c, m := x.c, x.m
	c.floor("C06.R3", 3)
	// arming flag: only `true`, only in reserveZeroedFrame, after Memset(_,0,PageSize)
	stores := m.storesToGlobal(x.protect)
	if len(stores) == 0 {
		c.fail("C06.R3", "arming protectReservedZeroedPage", "the guard flag is never set: the guard of R1 is dead")
	}
	for i, st := range stores {
		fn := st.Parent()
		key := fmt.Sprintf("arming %s #%d", m.fnName(fn), i)
		if fn.Synthetic == "package initializer" {
			if b, ok := constBool(st.Val); ok && !b {
				c.ok("C06.R3", key, "zero-value initialiser")
				continue
			}
		}
		b, isConst := constBool(st.Val)
		if fn != x.rzf || !isConst || !b {
			c.fail("C06.R3", key, "protectReservedZeroedPage must be stored only the constant true and only in reserveZeroedFrame", m.pos(st.Pos()))
			continue
		}
		g := newIG(m, fn, nil)
		n := g.Idx[st]
		isMemset := func(k int) bool {
			if !m.callsTo(g.Ins[k], x.memset) {
				return false
			}
			a := g.callArgs(k)
			v, ok1 := constUint64(a[1])
			sz, ok2 := constUint64(a[2])
			return ok1 && ok2 && v == 0 && sz == x.pageSize
		}
		okB, path := g.MustPassBefore(n, isMemset)
		c.check(okB, "C06.R3", key, "stored the constant true in reserveZeroedFrame after kernel.Memset(_, 0, PageSize) on every path",
			"the guard is armed on a path on which the frame has not been zeroed with kernel.Memset(_, 0, PageSize)", g.where(path, 8)...)
	}
	zs := m.storesToGlobal(x.zeroFrame)
	for i, st := range zs {
		fn := st.Parent()
		key := fmt.Sprintf("zero-frame-store %s #%d", m.fnName(fn), i)
		if fn.Synthetic == "package initializer" {
			continue
		}
		_, fromAlloc := m.resultOf(st.Val, x.allocFrame, 0)
		c.check(fn == x.rzf && fromAlloc, "C06.R3", key, "ReservedZeroedFrame is assigned only in reserveZeroedFrame, from mm.AllocFrame",
			"ReservedZeroedFrame must be assigned only in reserveZeroedFrame from a fresh mm.AllocFrame result", m.pos(st.Pos()))
	}
	// every mapping call that passes ReservedZeroedFrame
	type mapper struct {
		fn         *ssa.Function
		frame, flg int // argument indices (receiver counted)
	}
	mappers := []mapper{{x.mapFn, 1, 2}, {x.mapTemp, 0, -1}}
	if f := m.lookupMethod("mm/vmm", "PageDirectoryTable", "Map"); f != nil {
		mappers = append(mappers, mapper{f, 2, 3})
	}
	if f := m.lookupFunc("mm/vmm", "MapRegion"); f != nil {
		mappers = append(mappers, mapper{f, 0, 2})
	}
	if f := m.lookupFunc("mm/vmm", "IdentityMapRegion"); f != nil {
		mappers = append(mappers, mapper{f, 0, 2})
	}
	nsites := 0
	m.eachInstr(func(fn *ssa.Function, in ssa.Instruction) {
		cc := callCommon(in)
		if cc == nil {
			return
		}
		callee := m.callee(cc)
		for _, mp := range mappers {
			if callee != mp.fn || mp.frame >= len(cc.Args) {
				continue
			}
			c.Evals++
			if !x.isZeroFrameLoad(cc.Args[mp.frame]) {
				continue
			}
			nsites++
			key := "zero-frame-mapping " + m.fnName(fn) + " -> " + mp.fn.Name()
			if fn == x.rzf && mp.fn == x.mapTemp {
				// the zeroing step itself: must precede arming
				g := newIG(m, fn, nil)
				armed := false
				for _, st := range stores {
					if st.Parent() == fn {
						if r := g.Reach(g.Succ[g.Idx[st]], nil, nil); r[g.Idx[in]] {
							armed = true
						}
					}
				}
				c.check(!armed, "C06.R3", key, "temporary RW mapping used to zero the frame, not reachable after arming",
					"the zero frame is mapped RW (MapTemporary) after the guard has been armed", m.pos(in.Pos()))
				continue
			}
			if mp.flg < 0 {
				c.fail("C06.R3", key, "ReservedZeroedFrame is passed to MapTemporary, which always maps RW", m.pos(in.Pos()))
				continue
			}
			fl, ok := constUint64(cc.Args[mp.flg])
			switch {
			case !ok:
				c.fail("C06.R3", key, "ReservedZeroedFrame is mapped with flags that are not a compile-time constant: "+describe(cc.Args[mp.flg]), m.pos(in.Pos()))
			case fl&x.flagRW != 0:
				c.fail("C06.R3", key, fmt.Sprintf("ReservedZeroedFrame is mapped with constant flags %#x that include FlagRW", fl), m.pos(in.Pos()))
			default:
				c.ok("C06.R3", key, fmt.Sprintf("constant flags %#x without FlagRW", fl), m.pos(in.Pos()))
			}
		}
	})
	c.note("C06.R3: %d call site(s) pass ReservedZeroedFrame to a mapping function", nsites)
}

// ---- R4 / R5 ----

func (x *c06) r4r5() {
	c, m := x.c, x.m
	c.floor("C06.R4", 3)
	c.floor("C06.R5", 5)
	div := divergingFuncs(m, nil)
	for _, f := range []*ssa.Function{x.nrpf, x.gpf} {
		c.check(div[f], "C06.R4", "diverges "+m.fnName(f), "no return instruction is reachable (every path ends in panic)",
			"a return is reachable: the handler can resume the faulting code", m.pos(f.Pos()))
	}
	g := newIG(m, x.pfh, div)
	reach := g.Reach([]int{0}, nil, nil)
	var rets []int
	for _, n := range g.Returns() {
		if reach[n] {
			rets = append(rets, n)
		}
	}
	key := "recovered-return " + m.fnName(x.pfh)
	if len(rets) == 0 {
		c.fail("C06.R4", key, "no return is reachable: a copy-on-write fault can never resume", m.pos(x.pfh.Pos()))
		return
	}
	// the page entry variable: cell stored by the walker closure
	for _, rn := range rets {
		facts := g.FactsAt(rn)
		var entryCell ssa.Value
		has := func(pred func(Fact) bool) bool { return hasFact(facts, pred) }
		notNil := has(func(f Fact) bool {
			if cmpMatch(f, token.NEQ, func(v ssa.Value) bool {
				if _, ok := loadAddr(strip(v)); ok && types.Identical(v.Type(), types.NewPointer(x.pte)) {
					entryCell = v
					return true
				}
				return false
			}, isNilConst) {
				return true
			}
			return false
		})
		recvOK := func(recv ssa.Value) bool {
			// receiver is *pageEntry (value receiver): load of load of the same cell
			a, ok := loadAddr(strip(recv))
			return ok && entryCell != nil && sameCell(a, entryCell)
		}
		notRW := has(func(f Fact) bool { r, ok := predicateFact(m, f, x.hasFlags, x.flagRW, false); return ok && recvOK(r) })
		cow := has(func(f Fact) bool { r, ok := predicateFact(m, f, x.hasFlags, x.flagCoW, true); return ok && recvOK(r) })
		allocOK := has(func(f Fact) bool {
			return cmpMatch(f, token.EQL, func(v ssa.Value) bool { _, ok := m.resultOf(v, x.allocFrame, 1); return ok }, isNilConst)
		})
		mapTmpOK := has(func(f Fact) bool {
			return cmpMatch(f, token.EQL, func(v ssa.Value) bool { _, ok := m.resultOf(v, x.mapTemp, 1); return ok }, isNilConst)
		})
		var miss []string
		for name, ok := range map[string]bool{"pageEntry != nil": notNil, "!HasFlags(FlagRW)": notRW, "HasFlags(FlagCopyOnWrite)": cow,
			"mm.AllocFrame error == nil": allocOK, "MapTemporary error == nil": mapTmpOK} {
			if !ok {
				miss = append(miss, name)
			}
		}
		if len(miss) > 0 {
			p := g.Path([]int{0}, nil, nil, func(n int) bool { return n == rn })
			c.fail("C06.R4", key, "a return of the page-fault handler is reachable without: "+strings.Join(uniq(miss), ", "), g.where(p, 12)...)
			continue
		}
		c.ok("C06.R4", key, "the reachable return is dominated by pageEntry != nil, !RW, CoW, allocation ok and temporary mapping ok", g.posOf(rn))

		// the entry variable is set only for a present last-level entry
		x.entryProvenance(entryCell)

		// R5: recovery sequence before this return
		x.recovery(g, rn)
	}
}

func (x *c06) entryProvenance(entryLoad ssa.Value) {
	c, m := x.c, x.m
	key := "entry-provenance " + m.fnName(x.pfh)
	vals, cell, ok := cellStoredValues(entryLoad)
	if !ok || cell == nil {
		c.undecided("C06.R4", key, "the page entry variable is not a local cell with analysable stores")
		return
	}
	stores, _, _ := cellAccesses(cell)
	_ = vals
	levels, okL := namedConstUint(m, "mm/vmm", "pageLevels")
	good := 0
	for _, st := range stores {
		if isNilConst(st.Val) {
			good++
			continue
		}
		fn := st.Parent()
		g := newIG(m, fn, nil)
		facts := g.FactsAt(g.Idx[st])
		lvl := paramNamed(fn, "pteLevel")
		pteP := paramNamed(fn, "pte")
		lastLevel := okL && lvl != nil && hasFact(facts, func(f Fact) bool {
			return eqConstFact(f, lvl, int64(levels)-1)
		})
		present := pteP != nil && hasFact(facts, func(f Fact) bool {
			r, ok := predicateFact(m, f, x.hasFlags, x.flagPresent, true)
			if !ok {
				return false
			}
			a, isLoad := loadAddr(strip(r))
			return isLoad && a == ssa.Value(pteP)
		})
		fromWalk := pteP != nil && strip(st.Val) == ssa.Value(pteP) && len(m.closureArgOfAny(x.pfh, x.walk, fn)) > 0
		// or: the most recent level's pte, kept while every level is present - the
		// walker records pte on every present level, records nil and stops the walk
		// (returns false) on a level that is not present, and otherwise goes on
		// (returns true): a non-nil entry after the walk is the last level's
		trail := false
		if present && fromWalk && !lastLevel {
			trail = true
			sn := g.Idx[st]
			isNilStore := func(k int) bool {
				s2, ok := g.Ins[k].(*ssa.Store)
				if !ok || !isNilConst(s2.Val) {
					return false
				}
				c2, ok := cellOf(s2.Addr)
				return ok && c2 == cell
			}
			isPteStore := func(k int) bool { return k == sn }
			for _, rc := range g.ReturnCases() {
				if len(rc.Vals) != 1 {
					trail = false
					continue
				}
				b, isC := constBool(rc.Vals[0])
				switch {
				case !isC:
					trail = false
				case b && !g.CaseMustPassBefore(rc, isPteStore):
					trail = false // goes on without recording this level
				case !b && !g.CaseMustPassBefore(rc, isNilStore):
					trail = false // stops and leaves an earlier level's entry behind
				}
			}
		}
		if (lastLevel || trail) && present && fromWalk {
			good++
		} else {
			c.fail("C06.R4", key, "the page entry is recorded without the tests pteLevel == pageLevels-1 and HasFlags(FlagPresent) on the walker's pte", m.pos(st.Pos()))
			return
		}
	}
	c.ok("C06.R4", key, fmt.Sprintf("%d store(s): nil, or the walker's pte at the last level with FlagPresent", good))
}

// closureArgOfAny: fn (a closure of parent) is passed to callee from parent.
func (m *Module) closureArgOfAny(parent, callee, fn *ssa.Function) []*ssa.Function {
	var out []*ssa.Function
	for _, b := range m.blocksOf(parent) {
		for _, in := range b.Instrs {
			if !m.callsTo(in, callee) {
				continue
			}
			for _, a := range callCommon(in).Args {
				if mc, ok := strip(a).(*ssa.MakeClosure); ok && mc.Fn == ssa.Value(fn) {
					out = append(out, fn)
				}
			}
		}
	}
	return out
}

func (x *c06) recovery(g *IG, ret int) {
	c, m := x.c, x.m
	fn := x.pfh
	fnm := m.fnName(fn)
	readCR2 := m.lookupFunc("cpu", "ReadCR2")
	if readCR2 == nil {
		c.unresolved("C06.R5", "cpu.ReadCR2")
		return
	}
	// faultPage.Address(): Address(PageFromAddress(uintptr(readCR2())))
	// the address of the faulting page: the fault address (CR2) rounded down to
	// a page, however it is written (Page.Address(PageFromAddress(a)), a &^ 4095, ...)
	zf := &Polyizer{Inline: true}
	var cr2 []Poly
	for _, n := range g.callNodes(readCR2) {
		if v, ok := g.Ins[n].(ssa.Value); ok {
			cr2 = append(cr2, pDown(12, zf.Of(v)))
		}
	}
	isFaultAddr := func(v ssa.Value) bool {
		if !isIntegral(v.Type()) {
			return false
		}
		p := zf.Of(through(v))
		for _, want := range cr2 {
			if p.equal(want) {
				return true
			}
		}
		return false
	}
	// the address of the page that MapTemporary returned: that page << PageShift
	var tmpAddrs []Poly
	for _, in := range g.Ins {
		if v, ok := in.(ssa.Value); ok && isIntegral(v.Type()) {
			if _, ok := m.resultOf(v, x.mapTemp, 0); ok {
				tmpAddrs = append(tmpAddrs, zf.Of(v).mul(polyConst(int64(x.pageSize))))
			}
		}
	}
	isTmpAddr := func(v ssa.Value) bool {
		if !isIntegral(v.Type()) {
			return false
		}
		p := zf.Of(through(v))
		for _, want := range tmpAddrs {
			if p.equal(want) {
				return true
			}
		}
		return false
	}
	isCopy := func(v ssa.Value) bool { _, ok := m.resultOf(v, x.allocFrame, 0); return ok }
	type step struct {
		name string
		pred func(n int) bool
	}
	steps := []step{
		{"Memcopy(fault page, temporary mapping of the new frame, PageSize)", func(n int) bool {
			if !m.callsTo(g.Ins[n], x.memcopy) {
				return false
			}
			a := g.callArgs(n)
			sz, ok := constUint64(a[2])
			// (a merged page variable is taken as what it can be at the call)
			tmpOK := isTmpAddr(a[1])
			if !tmpOK && isIntegral(a[1].Type()) {
				base := g.substAt(n)
				zs := &Polyizer{Inline: true, Subst: func(v ssa.Value) ssa.Value {
					if r := base(v); r != nil {
						return r
					}
					if phi, ok := v.(*ssa.Phi); ok {
						if cs := g.valueCasesAt(phi, n); len(cs) == 1 {
							return cs[0].Val
						}
					}
					return nil
				}}
				p := zs.Of(through(a[1]))
				for _, want := range tmpAddrs {
					if p.equal(want) {
						tmpOK = true
					}
				}
			}
			return isFaultAddr(a[0]) && tmpOK && ok && sz == x.pageSize
		}},
		{"unmap of the temporary page", func(n int) bool {
			if !m.callsTo(g.Ins[n], x.unmap) {
				return false
			}
			if _, ok := m.resultOf(g.callArgs(n)[0], x.mapTemp, 0); ok {
				return true
			}
			cases := g.valueCasesAt(g.callArgs(n)[0], n)
			for _, vc := range cases {
				if _, ok := m.resultOf(vc.Val, x.mapTemp, 0); !ok {
					return false
				}
			}
			return len(cases) > 0
		}},
		{"ClearFlags(FlagCopyOnWrite)", func(n int) bool {
			_, a, ok := methodCall(m, g.Ins[n], x.clearFlags)
			if !ok {
				return false
			}
			v, ok := constUint64(a[0])
			return ok && v == x.flagCoW
		}},
		{"SetFlags(FlagRW...)", func(n int) bool {
			_, a, ok := methodCall(m, g.Ins[n], x.setFlags)
			if !ok {
				return false
			}
			v, ok := constUint64(a[0])
			return ok && v&x.flagRW != 0 && v&x.flagCoW == 0
		}},
		{"SetFrame(new frame)", func(n int) bool {
			_, a, ok := methodCall(m, g.Ins[n], x.setFrame)
			if !ok {
				return false
			}
			// every value the argument can have here (through a helper's returns)
			cases := g.valueCasesAt(a[0], n)
			for _, vc := range cases {
				if !isCopy(vc.Val) {
					return false
				}
			}
			return len(cases) > 0
		}},
		{"TLB flush of the fault page", func(n int) bool {
			return m.callsTo(g.Ins[n], x.flush) && isFaultAddr(g.callArgs(n)[0])
		}},
	}
	// the temporary mapping maps the new frame
	mapTmpArgOK := true
	for _, n := range g.callNodes(x.mapTemp) {
		if !isCopy(g.callArgs(n)[0]) {
			mapTmpArgOK = false
		}
	}
	c.check(mapTmpArgOK, "C06.R5", "temporary-mapping-target "+fnm, "the temporary mapping maps the frame returned by mm.AllocFrame",
		"the temporary mapping does not map the freshly allocated frame")
	if os.Getenv("FFC_DBG") != "" {
		for n, in := range g.Ins {
			if cc := callCommon(in); cc != nil {
				fmt.Fprintf(os.Stderr, "DBG node %d %T %v callee=%v succ=%v reach=%v\n", n, in, in, m.callee(cc), g.Succ[n], g.Reach([]int{0}, nil, nil)[n])
			}
		}
	}
	// each step occurs on every path to the return, in order
	for i, s := range steps {
		key := fmt.Sprintf("step %d %s", i+1, fnm)
		okB, path := g.MustPassBefore(ret, s.pred)
		if !okB {
			c.fail("C06.R5", key, "a path reaches the recovered return without "+s.name, g.where(path, 12)...)
			continue
		}
		if i+1 < len(steps) && (i == 0 || i == 1 || i == 4) {
			// order constraints: copy before unmap, unmap before entry update, SetFrame before flush
			next := steps[i+1]
			if i == 1 {
				next = step{"entry update", func(n int) bool { return steps[2].pred(n) || steps[3].pred(n) || steps[4].pred(n) }}
			}
			bad := false
			for _, n := range g.Nodes(func(in ssa.Instruction) bool { return true }) {
				if !s.pred(n) {
					continue
				}
				if ok, p := g.MustPassAfter(n, next.pred, func(k int) bool { return k == ret }); !ok {
					c.fail("C06.R5", key, s.name+" is not followed by "+next.name+" before the return", g.where(p, 12)...)
					bad = true
				}
			}
			if bad {
				continue
			}
		}
		c.ok("C06.R5", key, s.name+" on every path to the recovered return")
	}
	// no entry update before the copy: the flush must come after all three entry writes
	for _, n := range g.Nodes(func(in ssa.Instruction) bool { return true }) {
		if steps[5].pred(n) {
			after := g.Reach(g.Succ[n], nil, nil)
			for k := range g.Ins {
				if after[k] && (steps[2].pred(k) || steps[3].pred(k) || steps[4].pred(k)) {
					c.fail("C06.R5", "flush-last "+fnm, "the page-table entry is modified after the TLB flush", g.posOf(k))
					return
				}
			}
		}
	}
	c.ok("C06.R5", "flush-last "+fnm, "no write to the page-table entry is reachable after the TLB flush")
}
