package main

// E9 support: a small abstract interpreter that *folds* pure table-lookup
// functions of the analysed program over constants (it evaluates SSA
// instructions of go/ssa on go/constant values and on the constant
// initialisers of package-level tables). Nothing of firefly is compiled or
// run: this is constant folding through control flow, bounded by a step limit.

import (
	"fmt"
	"go/constant"
	"go/token"
	"go/types"

	"golang.org/x/tools/go/ssa"
)

// iv is an interpreter value.
type iv interface{}

type iAddr struct { // address of an element / field of a package-level table
	g     *ssa.Global
	index int // -1: the variable itself
	field int // -1: whole element
}

type iSlice struct{ g *ssa.Global } // slice or array value backed by global g

type iTuple []iv

// Tables holds the constant initialisers of package-level arrays/slices.
type Tables struct {
	m *Module
	// scalar element tables: g -> values
	scalars map[*ssa.Global][]constant.Value
	// struct element tables: g -> rows -> field values (nil if not constant)
	structs map[*ssa.Global][][]iv
	backing map[*ssa.Alloc]*ssa.Global
}

// loadTables extracts, from the package initialiser of pkg, the constant
// contents of every package-level array and slice literal.
func loadTables(m *Module, pkg *ssa.Package, ip *Interp) (*Tables, error) {
	t := &Tables{m: m, scalars: map[*ssa.Global][]constant.Value{}, structs: map[*ssa.Global][][]iv{}, backing: map[*ssa.Alloc]*ssa.Global{}}
	init := pkg.Func("init")
	if init == nil {
		return nil, fmt.Errorf("no package initialiser")
	}
	// slice literals: new [N]T -> slice -> store into global
	for _, b := range init.Blocks {
		for _, in := range b.Instrs {
			st, ok := in.(*ssa.Store)
			if !ok {
				continue
			}
			g, ok := st.Addr.(*ssa.Global)
			if !ok {
				continue
			}
			if sl, ok := st.Val.(*ssa.Slice); ok {
				if al, ok := sl.X.(*ssa.Alloc); ok {
					t.backing[al] = g
				}
			}
		}
	}
	ensure := func(g *ssa.Global, n int, elem types.Type) {
		if st, ok := elem.Underlying().(*types.Struct); ok {
			if t.structs[g] == nil {
				rows := make([][]iv, n)
				for i := range rows {
					rows[i] = make([]iv, st.NumFields())
				}
				t.structs[g] = rows
			}
			return
		}
		if t.scalars[g] == nil {
			vals := make([]constant.Value, n)
			for i := range vals {
				vals[i] = constant.MakeInt64(0)
			}
			t.scalars[g] = vals
		}
	}
	rootOf := func(v ssa.Value) (*ssa.Global, types.Type, bool) {
		switch x := v.(type) {
		case *ssa.Global:
			if at, ok := x.Type().(*types.Pointer).Elem().Underlying().(*types.Array); ok {
				ensure(x, int(at.Len()), at.Elem())
				return x, at.Elem(), true
			}
		case *ssa.Alloc:
			if g, ok := t.backing[x]; ok {
				at := x.Type().(*types.Pointer).Elem().Underlying().(*types.Array)
				ensure(g, int(at.Len()), at.Elem())
				return g, at.Elem(), true
			}
		}
		return nil, nil, false
	}
	var firstErr error
	for _, b := range init.Blocks {
		for _, in := range b.Instrs {
			st, ok := in.(*ssa.Store)
			if !ok {
				continue
			}
			addr := st.Addr
			field := -1
			if fa, ok := addr.(*ssa.FieldAddr); ok {
				field = fa.Field
				addr = fa.X
			}
			ia, ok := addr.(*ssa.IndexAddr)
			if !ok {
				continue
			}
			g, _, ok := rootOf(ia.X)
			if !ok {
				continue
			}
			idx, ok := constInt64(ia.Index)
			if !ok {
				continue
			}
			var val iv
			if c, ok := constEval(st.Val); ok {
				val = c
			} else if call, ok := st.Val.(*ssa.Call); ok && ip != nil {
				// a pure helper applied to constants (makeArgN)
				r, err := ip.Call(call.Common().StaticCallee(), ip.constArgs(call.Common().Args))
				if err != nil {
					if firstErr == nil {
						firstErr = fmt.Errorf("initialiser of %s[%d]: %v", g.Name(), idx, err)
					}
					continue
				}
				val = r
			} else if c, ok := st.Val.(*ssa.Const); ok && c.Value != nil {
				val = c.Value
			}
			if rows, ok := t.structs[g]; ok && field >= 0 && int(idx) < len(rows) {
				rows[idx][field] = val
			} else if vals, ok := t.scalars[g]; ok && field < 0 && int(idx) < len(vals) {
				if cv, ok := val.(constant.Value); ok {
					vals[idx] = cv
				}
			}
		}
	}
	return t, firstErr
}

// Interp folds functions over constants.
type Interp struct {
	m      *Module
	tables *Tables
	steps  int
	Limit  int
}

func (ip *Interp) constArgs(args []ssa.Value) []iv {
	out := make([]iv, len(args))
	for i, a := range args {
		if c, ok := constEval(a); ok {
			out[i] = c
		} else if c, ok := a.(*ssa.Const); ok && c.Value != nil {
			out[i] = c.Value
		}
	}
	return out
}

func (ip *Interp) Call(fn *ssa.Function, args []iv) (res iv, err error) {
	return ip.callIn(fn, args, nil)
}

// callIn folds a call. A spliced helper (inl.go) shares the caller's
// environment: its parameters are the caller's argument values and the values
// it computes are used by the caller directly.
func (ip *Interp) callIn(fn *ssa.Function, args []iv, shared map[ssa.Value]iv) (res iv, err error) {
	if fn == nil || fn.Blocks == nil {
		return nil, fmt.Errorf("cannot fold a call to a function without body")
	}
	defer func() {
		if r := recover(); r != nil {
			err = fmt.Errorf("fold %s: %v", fn.Name(), r)
		}
	}()
	env := map[ssa.Value]iv{}
	if shared != nil {
		env = shared
	}
	for i, p := range fn.Params {
		if i < len(args) {
			env[p] = args[i]
		}
	}
	var prev *ssa.BasicBlock
	b := fn.Blocks[0]
	for {
		// phis first (parallel)
		phiVals := map[ssa.Value]iv{}
		for _, in := range b.Instrs {
			phi, ok := in.(*ssa.Phi)
			if !ok {
				break
			}
			for i, p := range b.Preds {
				if p == prev {
					phiVals[phi] = ip.val(env, phi.Edges[i])
				}
			}
		}
		for k, v := range phiVals {
			env[k] = v
		}
		for _, in := range b.Instrs {
			ip.steps++
			if ip.Limit > 0 && ip.steps > ip.Limit {
				return nil, fmt.Errorf("step limit exceeded")
			}
			switch x := in.(type) {
			case *ssa.Phi, *ssa.DebugRef:
			case *ssa.BinOp:
				env[x] = ip.binop(x, ip.val(env, x.X), ip.val(env, x.Y))
			case *ssa.UnOp:
				env[x] = ip.unop(x, ip.val(env, x.X))
			case *ssa.Convert:
				v := ip.val(env, x.X)
				if c, ok := v.(constant.Value); ok && isIntegral(x.Type()) {
					env[x] = wrapTo(c, x.Type())
				} else {
					env[x] = v
				}
			case *ssa.ChangeType:
				env[x] = ip.val(env, x.X)
			case *ssa.IndexAddr:
				base := ip.val(env, x.X)
				idx := ip.intOf(ip.val(env, x.Index))
				switch bv := base.(type) {
				case iSlice:
					env[x] = iAddr{bv.g, idx, -1}
				case iAddr:
					env[x] = iAddr{bv.g, idx, -1}
				default:
					panic("index of a non-table value")
				}
			case *ssa.Index:
				base := ip.val(env, x.X)
				idx := ip.intOf(ip.val(env, x.Index))
				sl, ok := base.(iSlice)
				if !ok {
					panic("index of a non-table value")
				}
				env[x] = ip.load(iAddr{sl.g, idx, -1})
			case *ssa.FieldAddr:
				a, ok := ip.val(env, x.X).(iAddr)
				if !ok {
					panic("field of a non-table value")
				}
				a.field = x.Field
				env[x] = a
			case *ssa.Call:
				env[x] = ip.call(env, x)
			case *ssa.Extract:
				env[x] = ip.val(env, x.Tuple).(iTuple)[x.Index]
			case *ssa.If:
				c, ok := ip.val(env, x.Cond).(constant.Value)
				if !ok || c.Kind() != constant.Bool {
					panic("condition does not fold to a constant")
				}
				prev = b
				if constant.BoolVal(c) {
					b = b.Succs[0]
				} else {
					b = b.Succs[1]
				}
			case *ssa.Jump:
				prev = b
				b = b.Succs[0]
			case *ssa.Return:
				if len(x.Results) == 1 {
					return ip.val(env, x.Results[0]), nil
				}
				t := iTuple{}
				for _, r := range x.Results {
					t = append(t, ip.val(env, r))
				}
				return t, nil
			default:
				panic(fmt.Sprintf("instruction %T is outside the foldable subset", in))
			}
			if _, isTerm := in.(*ssa.If); isTerm {
				break
			}
			if _, isTerm := in.(*ssa.Jump); isTerm {
				break
			}
		}
	}
}

func (ip *Interp) val(env map[ssa.Value]iv, v ssa.Value) iv {
	if r, ok := env[v]; ok {
		return r
	}
	switch x := v.(type) {
	case *ssa.Const:
		if x.Value == nil {
			return nil
		}
		return wrapConst(x)
	case *ssa.Global:
		if ip.tables != nil {
			if _, ok := ip.tables.scalars[x]; ok {
				return iAddr{x, -1, -1}
			}
			if _, ok := ip.tables.structs[x]; ok {
				return iAddr{x, -1, -1}
			}
		}
	}
	if c, ok := constEval(v); ok {
		return c
	}
	panic("value " + v.Name() + " does not fold to a constant")
}

func wrapConst(c *ssa.Const) constant.Value {
	if c.Value.Kind() == constant.Int && isIntegral(c.Type()) {
		return wrapTo(c.Value, c.Type())
	}
	return c.Value
}

func (ip *Interp) intOf(v iv) int {
	c, ok := v.(constant.Value)
	if !ok {
		panic("non-constant index")
	}
	i, ok := constant.Int64Val(c)
	if !ok {
		panic("index out of range")
	}
	return int(i)
}

func (ip *Interp) load(a iAddr) iv {
	if a.index < 0 {
		return iSlice{a.g}
	}
	if vals, ok := ip.tables.scalars[a.g]; ok {
		if a.index >= len(vals) {
			panic(fmt.Sprintf("index %d out of range of %s (len %d)", a.index, a.g.Name(), len(vals)))
		}
		return vals[a.index]
	}
	rows := ip.tables.structs[a.g]
	if a.index >= len(rows) {
		panic(fmt.Sprintf("index %d out of range of %s (len %d)", a.index, a.g.Name(), len(rows)))
	}
	if a.field < 0 {
		panic("load of a whole struct element")
	}
	return rows[a.index][a.field]
}

func (ip *Interp) unop(x *ssa.UnOp, v iv) iv {
	switch x.Op {
	case token.MUL:
		a, ok := v.(iAddr)
		if !ok {
			panic("load through a non-table pointer")
		}
		return ip.load(a)
	case token.NOT:
		return constant.MakeBool(!constant.BoolVal(v.(constant.Value)))
	case token.SUB, token.XOR:
		return wrapTo(constant.UnaryOp(x.Op, v.(constant.Value), 0), x.Type())
	}
	panic("unsupported unary operator")
}

func (ip *Interp) binop(x *ssa.BinOp, a, b iv) iv {
	ca, ok1 := a.(constant.Value)
	cb, ok2 := b.(constant.Value)
	if !ok1 || !ok2 {
		panic("operand does not fold to a constant")
	}
	switch x.Op {
	case token.EQL, token.NEQ, token.LSS, token.LEQ, token.GTR, token.GEQ:
		return constant.MakeBool(constant.Compare(ca, x.Op, cb))
	case token.SHL, token.SHR:
		s, _ := constant.Uint64Val(cb)
		if s >= 64 {
			return wrapTo(constant.MakeInt64(0), x.Type())
		}
		return wrapTo(constant.Shift(ca, x.Op, uint(s)), x.Type())
	case token.QUO:
		return wrapTo(constant.BinaryOp(ca, token.QUO_ASSIGN, cb), x.Type())
	case token.LAND, token.LOR:
		panic("unexpected logical operator")
	}
	return wrapTo(constant.BinaryOp(ca, x.Op, cb), x.Type())
}

func (ip *Interp) call(env map[ssa.Value]iv, x *ssa.Call) iv {
	cc := x.Common()
	if bi, ok := cc.Value.(*ssa.Builtin); ok && bi.Name() == "len" {
		switch v := ip.val(env, cc.Args[0]).(type) {
		case iSlice:
			if vals, ok := ip.tables.scalars[v.g]; ok {
				return constant.MakeInt64(int64(len(vals)))
			}
			return constant.MakeInt64(int64(len(ip.tables.structs[v.g])))
		case constant.Value:
			if v.Kind() == constant.String {
				return constant.MakeInt64(int64(len(constant.StringVal(v))))
			}
		}
		panic("len of a non-table value")
	}
	fn := cc.StaticCallee()
	if fn == nil {
		panic("dynamic call")
	}
	args := make([]iv, len(cc.Args))
	for i, a := range cc.Args {
		args[i] = ip.val(env, a)
	}
	var shared map[ssa.Value]iv
	for _, m := range loadedModules {
		if m.helperSite[fn] == x {
			shared = env
		}
	}
	r, err := ip.callIn(fn, args, shared)
	if err != nil {
		panic(err.Error())
	}
	return r
}

func ivUint(v iv) (uint64, bool) {
	c, ok := v.(constant.Value)
	if !ok || c.Kind() != constant.Int {
		return 0, false
	}
	if constant.Sign(c) < 0 {
		i, ok := constant.Int64Val(c)
		return uint64(i), ok
	}
	return constant.Uint64Val(c)
}
