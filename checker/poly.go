package main

// E5: polynomial normal form of integer SSA values. A value becomes a
// polynomial with integer coefficients over atoms (parameters, field loads,
// call results, phis, and rounding atoms up/down/cdiv/fdiv recognised from the
// mask-and-shift idioms). Integer conversions are transparent: the form
// describes the mathematical expression the code writes down, not its wrapped
// value; two computations agree when their forms are identical.

import (
	"fmt"
	"go/constant"
	"go/token"
	"go/types"
	"sort"
	"strings"

	"golang.org/x/tools/go/ssa"
)

// Poly maps a monomial (atoms joined by '×', sorted; "" for the constant term)
// to its coefficient.
type Poly map[string]int64

func polyConst(k int64) Poly {
	if k == 0 {
		return Poly{}
	}
	return Poly{"": k}
}

func polyAtom(name string) Poly { return Poly{name: 1} }

func (p Poly) add(q Poly, sign int64) Poly {
	r := Poly{}
	for k, v := range p {
		r[k] = v
	}
	for k, v := range q {
		r[k] += sign * v
		if r[k] == 0 {
			delete(r, k)
		}
	}
	return r
}

func mulMono(a, b string) string {
	if a == "" {
		return b
	}
	if b == "" {
		return a
	}
	parts := append(strings.Split(a, "×"), strings.Split(b, "×")...)
	sort.Strings(parts)
	return strings.Join(parts, "×")
}

func (p Poly) mul(q Poly) Poly {
	r := Poly{}
	for ka, va := range p {
		for kb, vb := range q {
			k := mulMono(ka, kb)
			r[k] += va * vb
			if r[k] == 0 {
				delete(r, k)
			}
		}
	}
	return r
}

func (p Poly) isConst() (int64, bool) {
	switch len(p) {
	case 0:
		return 0, true
	case 1:
		if v, ok := p[""]; ok {
			return v, true
		}
	}
	return 0, false
}

// singleAtom: p is exactly 1*atom.
func (p Poly) singleAtom() (string, bool) {
	if len(p) != 1 {
		return "", false
	}
	for k, v := range p {
		if v == 1 && k != "" && !strings.Contains(k, "×") {
			return k, true
		}
	}
	return "", false
}

func (p Poly) String() string {
	if len(p) == 0 {
		return "0"
	}
	keys := make([]string, 0, len(p))
	for k := range p {
		keys = append(keys, k)
	}
	sort.Strings(keys)
	var sb strings.Builder
	for i, k := range keys {
		v := p[k]
		if i > 0 {
			if v >= 0 {
				sb.WriteString(" + ")
			} else {
				sb.WriteString(" - ")
				v = -v
			}
		} else if v < 0 {
			sb.WriteString("-")
			v = -v
		}
		switch {
		case k == "":
			fmt.Fprintf(&sb, "%d", v)
		case v == 1:
			sb.WriteString(k)
		default:
			fmt.Fprintf(&sb, "%d*%s", v, k)
		}
	}
	return sb.String()
}

func (p Poly) equal(q Poly) bool {
	if len(p) != len(q) {
		return false
	}
	for k, v := range p {
		if q[k] != v {
			return false
		}
	}
	return true
}

// Polyizer converts SSA values to polynomials.
type Polyizer struct {
	// Atom optionally names a leaf value; return "" to use the default
	// naming.
	Atom func(v ssa.Value) string
	// Subst optionally replaces a value by another before conversion (used
	// to see through phis or cells a rule has resolved).
	Subst func(v ssa.Value) ssa.Value
	// Inline makes calls to pure single-block functions (no loads, stores or
	// calls; e.g. mm.PageFromAddress, Frame.Address) transparent.
	Inline bool
	// NoInline switches that off (it is the default)
	NoInline bool
	env      map[ssa.Value]Poly
	depth    int
	// tMax: while a loop's induction form is in use and its trip count is a
	// constant, the largest value of the iteration number T (-1: unknown)
	tMax    int64
	tMaxSet bool
}

// pureBody returns the returned values of fn if fn is a single block that only
// computes on its parameters and reads memory through them (no stores, no calls
// other than to functions of the same kind).
func pureBody(fn *ssa.Function) ([]ssa.Value, bool) {
	return pureBodyD(fn, 0)
}

func pureBodyD(fn *ssa.Function, depth int) ([]ssa.Value, bool) {
	if fn == nil || len(fn.Blocks) != 1 || len(fn.FreeVars) != 0 || depth > 2 {
		return nil, false
	}
	var ret []ssa.Value
	for _, in := range fn.Blocks[0].Instrs {
		switch x := in.(type) {
		case *ssa.BinOp, *ssa.Convert, *ssa.ChangeType, *ssa.DebugRef, *ssa.FieldAddr, *ssa.Field, *ssa.Extract:
		case *ssa.UnOp:
			if x.Op == token.ARROW {
				return nil, false
			}
		case *ssa.Call:
			cal := x.Common().StaticCallee()
			if cal == nil || cal.Pkg == nil || fn.Pkg == nil {
				return nil, false
			}
			if _, ok := pureBodyD(cal, depth+1); !ok {
				return nil, false
			}
		case *ssa.Return:
			ret = x.Results
		default:
			return nil, false
		}
	}
	return ret, len(ret) > 0
}

func log2(m uint64) (int, bool) {
	if m == 0 || m&(m-1) != 0 {
		return 0, false
	}
	k := 0
	for m > 1 {
		m >>= 1
		k++
	}
	return k, true
}

func (z *Polyizer) Of(v ssa.Value) Poly {
	z.depth++
	defer func() { z.depth-- }()
	if z.depth > 40 {
		return polyAtom("deep:" + v.Name())
	}
	if z.env != nil {
		if p, ok := z.env[v]; ok {
			return p
		}
	}
	if a := resolveAlias(v); a != v {
		return z.Of(a)
	}
	if z.Subst != nil {
		if r := z.Subst(v); r != nil && r != v {
			return z.Of(r)
		}
	}
	if z.Inline || !z.NoInline {
		var call *ssa.Call
		idx := 0
		if c, ok := v.(*ssa.Call); ok && isIntegral(c.Type()) {
			call = c
		} else if ex, ok := v.(*ssa.Extract); ok && isIntegral(ex.Type()) {
			if c, ok := ex.Tuple.(*ssa.Call); ok {
				call, idx = c, ex.Index
			}
		}
		if call != nil {
			if fn := call.Common().StaticCallee(); fn != nil && fn.Pkg != nil && !strings.HasPrefix(fn.Pkg.Pkg.Path(), "sync/atomic") {
				if ret, ok := pureBody(fn); ok && idx < len(ret) && isIntegral(ret[idx].Type()) {
					env := map[ssa.Value]Poly{}
					for k, vv := range z.env {
						env[k] = vv
					}
					for i, p := range fn.Params {
						if i < len(call.Common().Args) && isIntegral(p.Type()) {
							env[p] = z.Of(call.Common().Args[i])
						}
					}
					old := z.env
					z.env = env
					r := z.Of(ret[idx])
					z.env = old
					return r
				}
			}
		}
	}
	if c, ok := constEval(v); ok && c.Kind() == constant.Int {
		if i, ok := constant.Int64Val(c); ok {
			return polyConst(i)
		}
		if u, ok := constant.Uint64Val(c); ok {
			return polyConst(int64(u))
		}
	}
	if z.Atom != nil {
		if n := z.Atom(v); n != "" {
			return polyAtom(n)
		}
	}
	// len(x[lo:hi]) is hi - lo (hi defaults to len(x))
	if call, ok := v.(*ssa.Call); ok {
		if bi, ok := call.Common().Value.(*ssa.Builtin); ok && bi.Name() == "len" && len(call.Common().Args) == 1 {
			if sl, ok := call.Common().Args[0].(*ssa.Slice); ok {
				if _, isSlice := sl.X.Type().Underlying().(*types.Slice); isSlice && sl.Max == nil {
					var hi Poly
					if sl.High != nil {
						hi = z.Of(sl.High)
					} else {
						hi = polyAtom("len(" + z.defaultAtom(sl.X) + ")")
					}
					if sl.Low != nil {
						return hi.add(z.Of(sl.Low), -1)
					}
					return hi
				}
			}
			// (the same name for every len of the same slice value)
			if _, isSlice := call.Common().Args[0].Type().Underlying().(*types.Slice); isSlice {
				return polyAtom("len(" + z.defaultAtom(call.Common().Args[0]) + ")")
			}
		}
	}
	switch x := v.(type) {
	case *ssa.ChangeType:
		return z.Of(x.X)
	case *ssa.Convert:
		if isIntegral(x.Type()) && isIntegral(x.X.Type()) {
			return z.Of(x.X)
		}
	case *ssa.BinOp:
		switch x.Op {
		case token.ADD:
			return z.Of(x.X).add(z.Of(x.Y), 1)
		case token.SUB:
			return z.Of(x.X).add(z.Of(x.Y), -1)
		case token.MUL:
			return z.Of(x.X).mul(z.Of(x.Y))
		case token.SHL:
			if k, ok := constUint64(x.Y); ok && k < 63 {
				return z.Of(x.X).mul(polyConst(1 << k))
			}
		case token.SHR:
			if k, ok := constUint64(x.Y); ok && k < 63 {
				return pFdiv(int(k), z.Of(x.X))
			}
		case token.REM:
			// x % 2^k (unsigned) == x - 2^k*fdiv_k(x)
			if c, ok := constUint64(x.Y); ok {
				if k, ok := log2(c); ok && k > 0 {
					inner := z.Of(x.X)
					return inner.add(pFdiv(k, inner).mul(polyConst(int64(c))), -1)
				}
			}
		case token.QUO:
			if c, ok := constUint64(x.Y); ok {
				if k, ok := log2(c); ok && k > 0 {
					return pFdiv(k, z.Of(x.X))
				}
			}
		case token.OR:
			// a | b == a + b when no bit is set in both: a is a multiple of 2^k
			// (every coefficient is) and 0 <= b < 2^k
			pa, pb := z.Of(x.X), z.Of(x.Y)
			for _, pr := range [][2]Poly{{pa, pb}, {pb, pa}} {
				if hi, ok := z.upperBound(pr[1]); ok && len(pr[0]) > 0 {
					fits := true
					for _, cf := range pr[0] {
						if cf == 0 {
							continue
						}
						tz := 0
						for c := cf; c&1 == 0 && tz < 63; c >>= 1 {
							tz++
						}
						if tz >= 63 || hi >= int64(1)<<uint(tz) {
							fits = false
						}
					}
					if fits {
						return pr[0].add(pr[1], 1)
					}
				}
			}
		case token.AND_NOT, token.AND:
			// x & (2^k - 1)  ==  x - 2^k*fdiv_k(x)   (low-bits mask: the remainder)
			if x.Op == token.AND {
				for _, pair := range [][2]ssa.Value{{x.X, x.Y}, {x.Y, x.X}} {
					if c, ok := constUint64(pair[1]); ok && c != 0 {
						if k, ok := log2(c + 1); ok && k > 0 && k < 63 {
							inner := z.Of(pair[0])
							return inner.add(pFdiv(k, inner).mul(polyConst(int64(c+1))), -1)
						}
					}
				}
			}
			// x &^ m  or  x & ^m  with m = 2^k-1: 2^k * fdiv_k(x). The round-up
			// idiom (e + m) &^ m is the same form with x = e + m.
			var mask uint64
			var arg ssa.Value
			found := false
			for _, pair := range [][2]ssa.Value{{x.X, x.Y}, {x.Y, x.X}} {
				if c, ok := constUint64(pair[1]); ok {
					mm := c
					if x.Op == token.AND {
						mm = ^c
						// mask wider than the operand: only the low bits matter
						if w := intWidth(x.Type()); w > 0 && w < 64 {
							mm &= (1 << uint(w)) - 1
						}
					}
					if _, ok := log2(mm + 1); ok && mm != 0 {
						mask, arg, found = mm, pair[0], true
						break
					}
				}
				if x.Op == token.AND_NOT {
					break // not commutative
				}
			}
			if found {
				k, _ := log2(mask + 1)
				return pDown(k, z.Of(arg))
			}
		}
	case *ssa.UnOp:
		if x.Op == token.SUB {
			return Poly{}.add(z.Of(x.X), -1)
		}
		if x.Op == token.MUL {
			// load of a local / capture cell that is stored exactly once
			// with a parameter or a constant (a pure capture)
			if val, ok := singleStoreValue(x.X); ok && isIntegral(val.Type()) {
				if _, isParam := strip(val).(*ssa.Parameter); isParam {
					return z.Of(val)
				}
				if _, isConst := constEval(val); isConst {
					return z.Of(val)
				}
			}
		}
	}
	return polyAtom(z.defaultAtom(v))
}

// upperBound: p is a constant, or c0 + c1*T with non-negative coefficients
// while the range of T is known; its largest value.
func (z *Polyizer) upperBound(p Poly) (int64, bool) {
	hi := int64(0)
	for mono, cf := range p {
		if cf < 0 {
			return 0, false
		}
		switch mono {
		case "":
			hi += cf
		case loopT:
			if !z.tMaxSet {
				return 0, false
			}
			hi += cf * z.tMax
		default:
			return 0, false
		}
	}
	return hi, true
}

// hasStructuralAdd: v is (through conversions) an addition, i.e. the constant
// part of its polynomial was added in this expression rather than being part
// of an operand's own value.
func hasStructuralAdd(v ssa.Value) bool {
	b, ok := stripConv(v).(*ssa.BinOp)
	return ok && b.Op == token.ADD
}

func (z *Polyizer) defaultAtom(v ssa.Value) string {
	switch x := v.(type) {
	case *ssa.Parameter:
		if r, ok := paramRoleName[x]; ok {
			return r
		}
		return x.Name()
	case *ssa.Phi:
		if x.Comment != "" {
			return "phi:" + x.Comment
		}
		return "phi:" + x.Name()
	case *ssa.Call:
		cc := x.Common()
		args := []string{}
		for _, a := range cc.Args {
			if isIntegral(a.Type()) {
				args = append(args, z.Of(a).String())
			} else {
				args = append(args, pathString(accessPath(a)))
			}
		}
		return callName(cc) + "(" + strings.Join(args, ",") + ")"
	case *ssa.Extract:
		if call, ok := x.Tuple.(*ssa.Call); ok {
			return fmt.Sprintf("%s#%d", z.defaultAtom(call), x.Index)
		}
	case *ssa.UnOp:
		if x.Op == token.MUL {
			return pathString(accessPath(x.X))
		}
	case *ssa.Field:
		return pathString(accessPath(x))
	case *ssa.BinOp:
		return fmt.Sprintf("(%s %s %s)", z.Of(x.X).String(), x.Op, z.Of(x.Y).String())
	}
	return "v:" + v.Name()
}

// ---- rounding in canonical form ----
//
// All power-of-two rounding is expressed through one atom family, the floor
// division fdiv_k(r) = floor(r / 2^k), in a canonical shape: the argument r has
// every coefficient in [0, 2^k) (multiples of 2^k are moved out of the floor,
// which is exact for integers) and nested floors are merged
// (floor(floor(x/2^j)/2^k) = floor(x/2^(j+k))). Ceiling division and rounding
// up/down are written with it:
//
//	cdiv_k(p) = fdiv_k(p + 2^k - 1)    up_k(p) = 2^k*cdiv_k(p)    down_k(p) = 2^k*fdiv_k(p)
//
// so ((n+63) &^ 63) >> 3, ((n+63) >> 6) << 3 and 8*((n+63)/64) are one form.

type fdivInfo struct {
	k     int
	inner Poly
}

var fdivAtoms = map[string]fdivInfo{}

func pFdiv(k int, p Poly) Poly {
	if k <= 0 {
		return p
	}
	m := int64(1) << uint(k)
	q, r := Poly{}, Poly{}
	for mono, c := range p {
		a := c >> uint(k) // floor division
		b := c - a*m
		if a != 0 {
			q[mono] += a
		}
		if b != 0 {
			r[mono] += b
		}
	}
	if len(r) == 0 {
		return q
	}
	if _, isC := r.isConst(); isC {
		return q // 0 <= r < 2^k
	}
	// r = fdiv_j(inner) + c: merge the floors
	c0 := r[""]
	rest := r.add(polyConst(c0), -1)
	if a, ok := rest.singleAtom(); ok {
		if fi, ok := fdivAtoms[a]; ok {
			merged := pFdiv(fi.k+k, fi.inner.add(polyConst(c0<<uint(fi.k)), 1))
			return q.add(merged, 1)
		}
	}
	name := fmt.Sprintf("fdiv%d(%s)", k, r.String())
	fdivAtoms[name] = fdivInfo{k, r}
	return q.add(polyAtom(name), 1)
}

func pCdiv(k int, p Poly) Poly { return pFdiv(k, p.add(polyConst(int64(1)<<uint(k)-1), 1)) }
func pUp(k int, p Poly) Poly   { return pCdiv(k, p).mul(polyConst(int64(1) << uint(k))) }
func pDown(k int, p Poly) Poly { return pFdiv(k, p).mul(polyConst(int64(1) << uint(k))) }

// matchUp: p is up_k(inner) = 2^k * fdiv_k(inner + 2^k - 1); returns inner.
func matchUp(k int, p Poly) (Poly, bool) {
	if len(p) != 1 {
		return nil, false
	}
	for mono, c := range p {
		if c != int64(1)<<uint(k) {
			return nil, false
		}
		fi, ok := fdivAtoms[mono]
		if !ok || fi.k != k {
			return nil, false
		}
		m := int64(1)<<uint(k) - 1
		if fi.inner[""] != m {
			return nil, false
		}
		return fi.inner.add(polyConst(m), -1), true
	}
	return nil, false
}
