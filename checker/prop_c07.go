package main

import (
	"fmt"
	"go/token"
	"os"

	"golang.org/x/tools/go/ssa"
)

func init() {
	register(&Property{
		ID: "C07", NeedKernel: true, Run: runC07,
		Explanation: "Virtual-region reservation structure decided on SSA: (R1) earlyReserveLastUsed is initialised to the page-aligned tempMappingAddr and stored only in " +
			"EarlyReserveRegion, as cursor - up4096(size) on a path dominated by up4096(size) <= cursor; the nil-error return passes that store and returns the new cursor; " +
			"no store lies on a path to an error return (so, by induction, the cursor only decreases, stays page aligned and never wraps); (R2) in EarlyReserveRegion " +
			"and MapRegion the round-up addition on the caller-supplied size is followed by the wrap test rounded < size whose true side leads only to error returns and " +
			"whose false side dominates every other use of the rounded value (found F4); (R3) MapRegion reserves up4096(size), maps exactly cdiv(size,4096) pages from " +
			"the reserved page, consecutive frames, and returns the reserved page.",
		EnumRule:    "obligations per rule and construct",
		Assumptions: []string{"callers honour the returned region; IdentityMapRegion performs the same unchecked round-up but maps without a reservation, which C07 does not cover (reported as a note)"},
		Controls: []Control{
			{Name: "page count kept in 32 bits", File: "kernel/mm/vmm/map.go", Old: "\tpageCount := size >> mm.PageShift\n\tfor page := mm.PageFromAddress(startPage); pageCount > 0;", New: "\tpageCount := uint32(size >> mm.PageShift)\n\tfor page := mm.PageFromAddress(startPage); pageCount > 0;", Expect: "C07.R3"},
			{Name: "page count from size-1 (wraps for size 0)", File: "kernel/mm/vmm/map.go", Old: "\tpageCount := size >> mm.PageShift\n\tfor page := mm.PageFromAddress(startPage)", New: "\tpageCount := ((size - 1) >> mm.PageShift) + 1\n\tfor page := mm.PageFromAddress(startPage)", Expect: "C07.R3"},
			{Name: "drop the > cursor test", File: "kernel/mm/vmm/addr_space.go", Old: "\tif roundedSize > earlyReserveLastUsed {\n\t\treturn 0, errEarlyReserveNoSpace\n\t}\n", New: "", Expect: "C07.R1"},
			{Name: "subtract the unrounded size", File: "kernel/mm/vmm/addr_space.go", Old: "\tearlyReserveLastUsed -= roundedSize\n", New: "\tearlyReserveLastUsed -= size\n", Expect: "C07.R1"},
			{Name: "re-introduce in-place rounding in EarlyReserveRegion (F4)", File: "kernel/mm/vmm/addr_space.go", Old: "\tif roundedSize < size {\n\t\treturn 0, errEarlyReserveNoSpace\n\t}\n", New: "", Expect: "C07.R2"},
			{Name: "re-introduce in-place rounding in MapRegion (F4)", File: "kernel/mm/vmm/map.go", Old: "\tif roundedSize < size {\n\t\t// rounding up wrapped around; the request can never be satisfied\n\t\treturn 0, errEarlyReserveNoSpace\n\t}\n", New: "", Expect: "C07.R2"},
			{Name: "cursor moved before the fit test", File: "kernel/mm/vmm/addr_space.go", Old: "\tif roundedSize > earlyReserveLastUsed {\n\t\treturn 0, errEarlyReserveNoSpace\n\t}\n\n\tearlyReserveLastUsed -= roundedSize\n", New: "\tearlyReserveLastUsed -= roundedSize\n\tif roundedSize > earlyReserveLastUsed {\n\t\treturn 0, errEarlyReserveNoSpace\n\t}\n", Expect: "C07.R1"},
			{Name: "return the old cursor", File: "kernel/mm/vmm/addr_space.go", Old: "\tearlyReserveLastUsed -= roundedSize\n\treturn earlyReserveLastUsed, nil", New: "\told := earlyReserveLastUsed\n\tearlyReserveLastUsed -= roundedSize\n\treturn old, nil", Expect: "C07.R1"},
			{Name: "cursor reset by another function", File: "kernel/mm/vmm/vmm.go", Old: "\t// From this point on, ReservedZeroedFrame cannot be mapped with a RW flag\n", New: "\tearlyReserveLastUsed = tempMappingAddr\n", Expect: "C07.R1"},
			{Name: "MapRegion reserves the unrounded size", File: "kernel/mm/vmm/map.go", Old: "\tsize = roundedSize\n\tstartPage, err := earlyReserveRegionFn(size)", New: "\tstartPage, err := earlyReserveRegionFn(size >> 1)\n\tsize = roundedSize", Expect: "C07.R3"},
			{Name: "wrap test after use", File: "kernel/mm/vmm/addr_space.go", Old: "\tif roundedSize < size {\n\t\treturn 0, errEarlyReserveNoSpace\n\t}\n\n\t// reserving a region of the requested size will cause an underflow\n\tif roundedSize > earlyReserveLastUsed {\n\t\treturn 0, errEarlyReserveNoSpace\n\t}\n\n\tearlyReserveLastUsed -= roundedSize\n",
				New: "\t// reserving a region of the requested size will cause an underflow\n\tif roundedSize > earlyReserveLastUsed {\n\t\treturn 0, errEarlyReserveNoSpace\n\t}\n\n\tearlyReserveLastUsed -= roundedSize\n\tif roundedSize < size {\n\t\treturn 0, errEarlyReserveNoSpace\n\t}\n", Expect: "C07.R"},
		},
	})
}

func runC07(c *Ctx) {
	m := c.K
	const vmm = "mm/vmm"
	reserve := m.lookupFunc(vmm, "EarlyReserveRegion")
	mapRegion := m.lookupFunc(vmm, "MapRegion")
	cursor := m.lookupGlobal(vmm, "earlyReserveLastUsed")
	mapFn := m.lookupFunc(vmm, "Map")
	for name, v := range map[string]interface{}{"vmm.EarlyReserveRegion": reserve, "vmm.MapRegion": mapRegion, "vmm.earlyReserveLastUsed": cursor, "vmm.Map": mapFn} {
		if isNilIface(v) {
			c.unresolved("C07.R1", name)
			return
		}
	}
	temp, ok1 := namedConstUint(m, vmm, "tempMappingAddr")
	pageSize, ok2 := namedConstUint(m, "mm", "PageSize")
	if !ok1 || !ok2 {
		c.unresolved("C07.R1", "vmm.tempMappingAddr / mm.PageSize")
		return
	}
	z := &Polyizer{Inline: true, Atom: func(v ssa.Value) string {
		if isLoadOfGlobal(v, cursor) {
			return "cursor"
		}
		return ""
	}}
	upP := pUp(12, polyAtom("size"))
	up := upP.String()

	// ================= R1 =================
	c.floor("C07.R1", 4)
	g := newIG(m, reserve, nil)
	ninit, nstore := 0, 0
	var storeNodes []int
	for _, st := range m.storesToGlobal(cursor) {
		fn := st.Parent()
		switch {
		case fn.Synthetic == "package initializer":
			ninit++
			k, ok := constUint64(st.Val)
			c.check(ok && k == temp && temp%pageSize == 0, "C07.R1", "cursor-init vmm.earlyReserveLastUsed", fmt.Sprintf("initialised to tempMappingAddr = %#x (page aligned)", temp),
				"the cursor is not initialised to the page-aligned tempMappingAddr", m.pos(st.Pos()))
		case fn == reserve:
			nstore++
			n := g.Idx[st]
			storeNodes = append(storeNodes, n)
			val := z.Of(st.Val)
			want := polyAtom("cursor").add(upP, -1)
			fits := hasFact(g.FactsAt(n), func(f Fact) bool {
				if f.Y == nil {
					return false
				}
				l, r := z.Of(f.X), z.Of(f.Y)
				cur := polyAtom("cursor")
				return f.Op == token.LEQ && l.equal(upP) && r.equal(cur) || f.Op == token.GEQ && r.equal(upP) && l.equal(cur)
			})
			// no other store to the cursor between the test and this store is possible (single store), and the
			// load used in the subtraction follows the test
			switch {
			case !val.equal(want):
				c.fail("C07.R1", "cursor-store "+m.fnName(fn), "the cursor becomes "+val.String()+", expected "+want.String()+" (the page-rounded size subtracted from the old cursor)", g.posOf(n))
			case !fits:
				c.fail("C07.R1", "cursor-store "+m.fnName(fn), "the cursor is moved on a path not dominated by up4096(size) <= cursor: the subtraction can wrap and the region can overlap everything above it", g.posOf(n))
			default:
				c.ok("C07.R1", "cursor-store "+m.fnName(fn), "cursor = cursor - up4096(size) under up4096(size) <= cursor", g.posOf(n))
			}
		default:
			c.fail("C07.R1", "cursor-writers "+m.fnName(fn), "earlyReserveLastUsed is written outside EarlyReserveRegion: earlier reservations can be handed out again", m.pos(st.Pos()))
		}
	}
	if ninit != 1 || nstore == 0 {
		c.fail("C07.R1", "cursor-stores vmm.earlyReserveLastUsed", fmt.Sprintf("expected one initialiser and at least one store in EarlyReserveRegion, found %d / %d", ninit, nstore), m.pos(reserve.Pos()))
	}
	isStore := func(n int) bool { return contains(storeNodes, n) }
	// (by return case: with a single exit the result variables merge the cases)
	for i, rc := range g.ReturnCases() {
		rn := rc.Ret
		key := fmt.Sprintf("reserve-return %s #%d", m.fnName(reserve), i)
		if len(rc.Vals) != 2 {
			c.fail("C07.R1", key, "EarlyReserveRegion does not return (address, error)", g.posOf(rn))
			continue
		}
		if isNil, _ := g.caseNil(rc, rc.Vals[1]); isNil {
			okB := g.CaseMustPassBefore(rc, isStore)
			// returned value: the cursor loaded after the store, or the stored value itself
			okVal := false
			if ld, ok := rc.Vals[0].(*ssa.UnOp); ok && isLoadOfGlobal(ld, cursor) {
				if okL, _ := g.MustPassBefore(g.Idx[ld], isStore); okL {
					okVal = true
				}
			}
			for _, sn := range storeNodes {
				if g.Ins[sn].(*ssa.Store).Val == rc.Vals[0] {
					okVal = true
				}
			}
			switch {
			case !okB:
				c.fail("C07.R1", key, "success is returned on a path that reserves nothing", g.posOf(rn))
			case !okVal:
				c.fail("C07.R1", key, "the address returned on success is not the new cursor (the start of the region just reserved)", g.posOf(rn))
			default:
				c.ok("C07.R1", key, "success: passes the cursor store and returns the new cursor", g.posOf(rn))
			}
			continue
		}
		dirty := false
		for _, sn := range storeNodes {
			if g.CaseReachedFrom(sn, rc) {
				dirty = true
			}
		}
		_, okErr := g.caseNil(rc, rc.Vals[1])
		c.check(!dirty && okErr, "C07.R1", key, "failure: a non-nil error and no cursor store on any path to it", "a failing request moves the cursor (it reserves something) or does not return a definite error", g.posOf(rn))
	}

	// ================= R2 =================
	c.floor("C07.R2", 2)
	for _, fn := range []*ssa.Function{reserve, mapRegion} {
		x := newIG(m, fn, nil)
		sizeP := paramNamed(fn, "size")
		key := "round-up-wrap " + m.fnName(fn)
		if sizeP == nil {
			c.undecided("C07.R2", key, "no parameter named size")
			continue
		}
		// the rounded value: every value whose polynomial is up12(size), however the
		// rounding is spelled ((s+4095)&^4095, PageFromAddress(s+4095).Address(), ...)
		isR := map[ssa.Value]bool{}
		var rounded []ssa.Value
		for _, in := range x.Ins {
			switch in.(type) {
			case *ssa.BinOp, *ssa.Convert, *ssa.ChangeType:
				if v := in.(ssa.Value); isIntegral(v.Type()) && z.Of(v).equal(upP) {
					isR[v] = true
					rounded = append(rounded, v)
				}
			}
		}
		if len(rounded) == 0 {
			c.fail("C07.R2", key, "no page round-up of the size parameter found (rule shape lost)", m.pos(fn.Pos()))
			continue
		}
		bad := ""
		var where []string
		c.Evals++
		isSize := func(v ssa.Value) bool { return stripConv(v) == ssa.Value(sizeP) }
		isRv := func(v ssa.Value) bool { return isR[v] || isR[stripConv(v)] }
		// W1: test rounded < size
		var wrapTrue, wrapFalse []Edge
		for _, f := range x.AllEdgeFacts() {
			if cmpMatch(f, token.LSS, isRv, isSize) {
				wrapTrue = append(wrapTrue, f.Edge)
			}
			if cmpMatch(f, token.GEQ, isRv, isSize) {
				wrapFalse = append(wrapFalse, f.Edge)
			}
		}
		if len(wrapTrue) == 0 {
			bad = "the size is rounded up with (size + 4095) &^ 4095 in its own width and never tested for wrap-around (rounded < size): for size > 2^64-4096 the rounded size is 0 and the call succeeds reserving nothing"
			where = []string{m.pos(rounded[0].(ssa.Instruction).Pos())}
		}
		// true side: only error returns
		for _, e := range wrapTrue {
			start := x.Succ[e.From][e.K]
			r := x.Reach([]int{start}, nil, nil)
			for n, in := range x.Ins {
				if r[n] {
					if _, ok := in.(*ssa.Store); ok {
						bad = "state is modified on the wrapped side of the test"
					}
				}
			}
			for _, rc := range x.ReturnCases() {
				if !x.CaseReachedFrom(start, rc) && rc.At != start {
					continue
				}
				if !m.nonNilErrorGlobal(rc.Vals[len(rc.Vals)-1]) {
					bad = "the wrapped side of the test does not end in an error return"
				}
			}
		}
		// every use of the rounded value (and of what is computed from it) other than
		// the wrap test is dominated by the not-wrapped edge
		seen := map[ssa.Value]bool{}
		work := append([]ssa.Value(nil), rounded...)
		for len(work) > 0 && bad == "" {
			rv := work[len(work)-1]
			work = work[:len(work)-1]
			if seen[rv] {
				continue
			}
			seen[rv] = true
			for _, u := range usersOf(rv) {
				if _, ok := u.(*ssa.DebugRef); ok {
					continue
				}
				if _, ok := u.(*ssa.Return); ok && u.Parent() != fn {
					continue // the return of a spliced helper hands the value on, it does not use it
				}
				if m.helperOf(u) != nil {
					continue // passing the value to a spliced helper: the helper's own uses are in this list
				}
				if b, ok := u.(*ssa.BinOp); ok && (b.Op == token.LSS || b.Op == token.GEQ || b.Op == token.GTR || b.Op == token.LEQ) {
					if (isRv(b.X) && isSize(b.Y)) || (isRv(b.Y) && isSize(b.X)) {
						continue // the wrap test itself
					}
				}
				switch uv := u.(type) {
				case *ssa.BinOp, *ssa.Convert, *ssa.ChangeType:
					// arithmetic: what matters is where its result is used
					work = append(work, uv.(ssa.Value))
					continue
				}
				un, ok := x.Idx[u]
				if !ok {
					continue
				}
				if phi, isPhi := u.(*ssa.Phi); isPhi {
					// a phi use: the incoming edge must be dominated
					pe := x.predEdges(phi.Block())
					for i, e := range phi.Edges {
						if e == rv && !x.edgeCrosses(pe[i], wrapFalse) {
							bad = "the rounded size is used before the wrap test"
						}
					}
					continue
				}
				if !x.UnreachableWithout(un, wrapFalse) {
					bad = "the rounded size is used on a path that has not passed the wrap test (rounded >= size)"
					where = []string{x.posOf(un)}
				}
			}
		}
		c.check(bad == "", "C07.R2", key, "(size + 4095) &^ 4095 is followed by rounded < size => error, and used only on the not-wrapped side", bad, where...)
	}
	if f := m.lookupFunc(vmm, "IdentityMapRegion"); f != nil {
		c.note("observation (not claimed): vmm.IdentityMapRegion rounds its size up without a wrap test; it maps without a reservation, which C07's statement does not cover")
	}

	// ================= R3 =================
	x4 := &c04{c06: &c06{c: c, m: m, mapFn: mapFn}}
	x4.regionRule("C07.R3", []string{"MapRegion"})
	gm := newIG(m, mapRegion, nil)
	var rc []int
	for n, in := range gm.Ins {
		if m.callsTo(in, reserve) {
			rc = append(rc, n)
		}
	}
	bad := ""
	if len(rc) != 1 {
		bad = "MapRegion does not reserve exactly once"
	} else {
		call := gm.Ins[rc[0]].(*ssa.Call)
		if !z.Of(call.Common().Args[0]).equal(upP) {
			bad = "MapRegion reserves " + z.Of(call.Common().Args[0]).String() + " bytes, not the page-rounded size it maps (" + up + ")"
		}
		// reservation error returned before mapping
		for _, mn := range gm.callNodes(mapFn) {
			if !hasFact(gm.FactsAt(mn), func(f Fact) bool {
				return isNilFact(f, token.EQL, func(v ssa.Value) bool { cc, ok := m.resultOf(v, reserve, 1); return ok && cc == call })
			}) {
				bad = "pages are mapped although the reservation failed"
			}
			// first page = page of the reserved address (the page argument in the
			// first iteration of the mapping loop)
			oldSubst := z.Subst
			z.Subst = gm.substAt(mn)
			if lf, inLoop := gm.loopFormAt(z, gm.Ins[mn].Block()); inLoop {
				first, _, okA := lf.affineInT(gm.callArgs(mn)[0])
				lf.Done()
				if (!okA || !first.equal(pFdiv(12, polyAtom(z.defaultAtom(call)+"#0")))) && bad == "" {
					bad = "the first page mapped is not the page of the reserved address"
				}
			}
			z.Subst = oldSubst
		}
		for _, rc := range gm.ReturnCases() {
			if len(rc.Vals) != 2 {
				continue
			}
			isNil, _ := gm.caseNil(rc, rc.Vals[1])
			if !isNil {
				continue
			}
			oldSubst := z.Subst
			z.Subst = gm.substAt(rc.At)
			if os.Getenv("FFC_DBG") != "" {
				fmt.Fprintf(os.Stderr, "DBG ret poly %s want %s\n", z.Of(rc.Vals[0]), pFdiv(12, polyAtom(z.defaultAtom(call)+"#0")))
			}
			if !z.Of(rc.Vals[0]).equal(pFdiv(12, polyAtom(z.defaultAtom(call)+"#0"))) && bad == "" {
				bad = "MapRegion does not return the page of the reserved address"
			}
			z.Subst = oldSubst
		}
	}
	c.check(bad == "", "C07.R3", "reserve-then-map "+m.fnName(mapRegion), "reserves up4096(size), maps from the reserved page only after the reservation succeeded, returns that page", bad, m.pos(mapRegion.Pos()))
}
