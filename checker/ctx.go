package main

import (
	"encoding/json"
	"fmt"
	"os"
	"path/filepath"
	"sort"
	"strings"
	"time"
)

// An Obligation is one thing a rule has to establish about one construct of
// the analysed tree. It is keyed by rule + construct (function / role), never
// by line.
type Obligation struct {
	Rule    string   `json:"rule"`
	Key     string   `json:"key"`             // construct the obligation is about
	Status  string   `json:"status"`          // ok | violation | undecided | anchor-unresolved | not-implemented
	Detail  string   `json:"detail"`          // what was established / what fails
	Where   []string `json:"where,omitempty"` // file:line:col of the instructions involved
	Witness string   `json:"witness,omitempty"`
}

func (o *Obligation) id() string { return o.Rule + " " + o.Key }

// Ctx collects the obligations of one property run.
type Ctx struct {
	Prop   string
	Tier   string
	K      *Module // kernel module (nil when not needed)
	B      *Module // kbuild module
	Obls   []*Obligation
	Evals  int // SSA instructions / AST nodes / paths examined by the rules
	Notes  []string
	Assume []string
	// OverlayFiles maps absolute file names to replacement files (control mode only).
	OverlayFiles map[string]string
	floors       map[string]int
	counts       map[string]int
}

func (c *Ctx) add(rule, key, status, detail string, where ...string) *Obligation {
	o := &Obligation{Rule: rule, Key: key, Status: status, Detail: detail, Where: where}
	c.Obls = append(c.Obls, o)
	c.counts[rule]++
	return o
}

func (c *Ctx) ok(rule, key, detail string, where ...string) {
	c.add(rule, key, "ok", detail, where...)
}

func (c *Ctx) fail(rule, key, detail string, where ...string) *Obligation {
	return c.add(rule, key, "violation", detail, where...)
}

// undecided: the construct is outside the rule's idiom table. Counts as a
// failure (never silently passed).
func (c *Ctx) undecided(rule, key, detail string, where ...string) {
	c.add(rule, key, "undecided", detail, where...)
}

func (c *Ctx) unresolved(rule, what string) {
	c.add(rule, what, "anchor-unresolved", "anchor could not be resolved in the current tree (renamed or removed); the rule cannot be evaluated and fails closed")
}

// check records ok or violation depending on cond.
func (c *Ctx) check(cond bool, rule, key, okDetail, failDetail string, where ...string) bool {
	if cond {
		c.ok(rule, key, okDetail, where...)
	} else {
		c.fail(rule, key, failDetail, where...)
	}
	return cond
}

// floor declares the structural minimum number of obligations a rule must
// produce to mean anything (vacuity guard).
func (c *Ctx) floor(rule string, n int) { c.floors[rule] = n }

func (c *Ctx) note(format string, a ...interface{}) {
	c.Notes = append(c.Notes, fmt.Sprintf(format, a...))
}

func (c *Ctx) assume(s string) { c.Assume = append(c.Assume, s) }

// ---- known findings ----

type knownFinding struct {
	Kind string // "known" or "fixed"
	Prop string
	Key  string // rule + " " + construct (known only)
	Text string
}

func verifRoot() string {
	if r := os.Getenv("VERIF_ROOT"); r != "" {
		return r
	}
	return "/verif"
}

func loadKnownFindings() ([]knownFinding, error) {
	data, err := os.ReadFile(filepath.Join(verifRoot(), "known_findings.txt"))
	if err != nil {
		if os.IsNotExist(err) {
			return nil, nil
		}
		return nil, err
	}
	var out []knownFinding
	for _, line := range strings.Split(string(data), "\n") {
		line = strings.TrimSpace(line)
		if line == "" || strings.HasPrefix(line, "#") {
			continue
		}
		var kf knownFinding
		switch {
		case strings.HasPrefix(line, "fixed:"):
			kf.Kind = "fixed"
			line = strings.TrimSpace(strings.TrimPrefix(line, "fixed:"))
		case strings.HasPrefix(line, "known:"):
			kf.Kind = "known"
			line = strings.TrimSpace(strings.TrimPrefix(line, "known:"))
		default:
			return nil, fmt.Errorf("known_findings.txt: unrecognised line %q", line)
		}
		fields := strings.Fields(line)
		if len(fields) == 0 || !strings.HasPrefix(fields[0], "property=") {
			return nil, fmt.Errorf("known_findings.txt: missing property= in %q", line)
		}
		kf.Prop = strings.TrimPrefix(fields[0], "property=")
		rest := strings.TrimSpace(strings.TrimPrefix(line, fields[0]))
		if kf.Kind == "known" {
			// known: property=C12 key="<rule> <construct>" what fails
			if !strings.HasPrefix(rest, "key=\"") {
				return nil, fmt.Errorf("known_findings.txt: known entry needs key=\"...\": %q", line)
			}
			rest = strings.TrimPrefix(rest, "key=\"")
			i := strings.Index(rest, "\"")
			if i < 0 {
				return nil, fmt.Errorf("known_findings.txt: unterminated key in %q", line)
			}
			kf.Key = rest[:i]
			rest = strings.TrimSpace(rest[i+1:])
		}
		kf.Text = rest
		out = append(out, kf)
	}
	return out, nil
}

// ---- finishing: verdict, evidence, replay files ----

type evidence struct {
	PropertyID  string                 `json:"property_id"`
	Tier        string                 `json:"tier"`
	Seed        int                    `json:"seed"`
	Level       string                 `json:"level"`
	Coverage    map[string]interface{} `json:"coverage"`
	Assumptions []string               `json:"assumptions"`
	WallS       float64                `json:"wall_s"`
	Violations  int                    `json:"violations"`
}

func (c *Ctx) finish(start time.Time, explanation, enumRule string, controls map[string]interface{}) int {
	// vacuity floors
	rules := make([]string, 0, len(c.floors))
	for r := range c.floors {
		rules = append(rules, r)
	}
	sort.Strings(rules)
	for _, r := range rules {
		if c.counts[r] < c.floors[r] {
			c.add(r, "vacuity-floor", "violation",
				fmt.Sprintf("rule matched %d construct(s), fewer than the structural minimum %d: the code the rule is anchored in no longer has the shape the rule can decide", c.counts[r], c.floors[r]))
		}
	}

	known, err := loadKnownFindings()
	if err != nil {
		fmt.Fprintln(os.Stderr, "fireflycheck:", err)
		return 2
	}
	knownKeys := map[string]knownFinding{}
	for _, k := range known {
		if k.Kind == "known" && k.Prop == c.Prop {
			knownKeys[k.Key] = k
		}
	}

	outDir := filepath.Join(verifRoot(), "out", c.Prop)
	os.RemoveAll(outDir)
	os.MkdirAll(outDir, 0o755)

	discharged, bad, knownHit := 0, 0, 0
	distinct := map[string]bool{}
	perRule := map[string][2]int{}
	for _, o := range c.Obls {
		distinct[o.id()] = true
		pr := perRule[o.Rule]
		pr[0]++
		if o.Status == "ok" {
			discharged++
			pr[1]++
		}
		perRule[o.Rule] = pr
	}
	nviol := 0
	for _, o := range c.Obls {
		if o.Status == "ok" || o.Status == "not-implemented" {
			continue
		}
		if kf, ok := knownKeys[o.id()]; ok && o.Status == "violation" {
			fmt.Printf("KNOWN-FINDING: property=%s %s: %s\n", c.Prop, o.id(), kf.Text)
			knownHit++
			continue
		}
		bad++
		nviol++
		rp := filepath.Join(outDir, fmt.Sprintf("violation-%d.json", nviol))
		data, _ := json.MarshalIndent(map[string]interface{}{
			"property": c.Prop, "rule": o.Rule, "construct": o.Key, "status": o.Status,
			"detail": o.Detail, "where": o.Where, "witness": o.Witness,
			"replay": fmt.Sprintf("bin/fireflycheck -property %s -tier quick -only %s", c.Prop, o.Rule),
		}, "", " ")
		os.WriteFile(rp, data, 0o644)
		fmt.Printf("%s: %s %s [%s]: %s\n", strings.ToUpper(o.Status), o.Rule, o.Key, strings.Join(o.Where, " "), o.Detail)
		fmt.Printf("VIOLATION property=%s replay=%s\n", c.Prop, rp)
	}

	// summary per rule
	rs := make([]string, 0, len(perRule))
	for r := range perRule {
		rs = append(rs, r)
	}
	sort.Strings(rs)
	ruleSummary := map[string]interface{}{}
	for _, r := range rs {
		fmt.Printf("%s: %d obligation(s), %d discharged\n", r, perRule[r][0], perRule[r][1])
		ruleSummary[r] = map[string]int{"obligations": perRule[r][0], "discharged": perRule[r][1]}
	}

	samples := make([]interface{}, 0, len(c.Obls))
	for _, o := range c.Obls {
		samples = append(samples, o)
	}
	analysed := map[string]interface{}{}
	for name, m := range map[string]*Module{"kernel": c.K, "kbuild": c.B} {
		if m != nil {
			analysed[name] = map[string]int{"packages": len(m.SSAPkgs), "functions": len(m.Funcs), "ssa_instructions": m.NInstr}
		}
	}
	cov := map[string]interface{}{
		"explanation":         explanation,
		"obligations":         len(c.Obls),
		"discharged":          discharged,
		"evaluations":         c.Evals,
		"distinct_nontrivial": len(distinct),
		"rule":                enumRule,
		"samples":             samples,
		"per_rule":            ruleSummary,
		"analysed":            analysed,
		"known_findings_hit":  knownHit,
		"notes":               c.Notes,
		"exhaustive":          false,
	}
	if controls != nil {
		cov["controls"] = controls
	}
	seed := 0
	fmt.Sscanf(os.Getenv("VERIF_SEED"), "%d", &seed)
	ev := evidence{
		PropertyID: c.Prop, Tier: c.Tier, Seed: seed, Level: "other", Coverage: cov,
		Assumptions: c.Assume, WallS: time.Since(start).Seconds(), Violations: bad,
	}
	if ev.Assumptions == nil {
		ev.Assumptions = []string{}
	}
	data, _ := json.MarshalIndent(ev, "", " ")
	evDir := filepath.Join(verifRoot(), "evidence")
	os.MkdirAll(evDir, 0o755)
	if err := os.WriteFile(filepath.Join(evDir, c.Prop+".json"), data, 0o644); err != nil {
		fmt.Fprintln(os.Stderr, "fireflycheck: writing evidence:", err)
		return 2
	}
	fmt.Printf("property %s tier %s: %d obligations, %d discharged, %d violating, %d known finding(s); %.1fs\n",
		c.Prop, c.Tier, len(c.Obls), discharged, bad, knownHit, time.Since(start).Seconds())
	if bad > 0 {
		return 1
	}
	return 0
}
