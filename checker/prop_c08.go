package main

import (
	"fmt"
	"go/token"
	"os"
	"path/filepath"
	"regexp"
	"strconv"
	"strings"

	"golang.org/x/tools/go/ssa"
)

func init() {
	register(&Property{
		ID: "C08", NeedKernel: true, Run: runC08,
		Explanation: "Spinlock access protocol decided statically on the Go SSA and on a control-flow graph of the Plan 9 assembly: (R1) every use of Spinlock.state in Go code is " +
			"&l.state passed directly to a sync/atomic function or to archAcquireSpinlock (no plain load/store, no other escape); (R2) TryToAcquire returns " +
			"atomic.SwapUint32(&state, c) == 0 with constant c != 0 (or CompareAndSwapUint32(&state, 0, c)), Release is atomic.StoreUint32(&state, 0), Acquire passes " +
			"&l.state to the assembly routine; (R3) in archAcquireSpinlock the only instruction that writes memory is an exchange (XCHGL, or LOCK CMPXCHGL) through the " +
			"register that holds the state argument on every path, the exchanged-in value is a non-zero immediate, the exchange is immediately followed by a test of " +
			"the received register and a conditional jump, and RET is reachable only through the zero side of that jump: every spin path re-enters through the exchange. " +
			"Decides the access protocol (a necessary condition), not mutual exclusion over all interleavings.",
		EnumRule:    "obligations per rule and construct (Go use site / assembly instruction)",
		Assumptions: []string{"XCHG with a memory operand is atomic and a full barrier on amd64; sync/atomic functions are atomic", "liveness and the memory model beyond 'all accesses are atomic' are not decided"},
		Controls: []Control{
			{Name: "dirty read compares eight bytes", File: "kernel/sync/spinlock_amd64.s", Old: "\tMOVL 0(AX), BX\n\tTESTL BX, BX\n\tJZ try_acquire\n", New: "\tCMPQ 0(AX), $0\n\tJEQ try_acquire\n", Expect: "C08.R3"},
			{Name: "plain store in Release", File: "kernel/sync/spinlock.go", Old: "\tatomic.StoreUint32(&l.state, 0)", New: "\tl.state = 0", Expect: "C08.R"},
			{Name: "!= 0 in TryToAcquire", File: "kernel/sync/spinlock.go", Old: "return atomic.SwapUint32(&l.state, 1) == 0", New: "return atomic.SwapUint32(&l.state, 1) != 0", Expect: "C08.R2"},
			{Name: "MOVL instead of XCHGL", File: "kernel/sync/spinlock_amd64.s", Old: "\tXCHGL 0(AX), BX\n", New: "\tMOVL 0(AX), DX\n\tMOVL BX, 0(AX)\n\tMOVL DX, BX\n", Expect: "C08.R3"},
			{Name: "try-acquire swaps in zero", File: "kernel/sync/spinlock.go", Old: "return atomic.SwapUint32(&l.state, 1) == 0", New: "return atomic.SwapUint32(&l.state, 0) == 0", Expect: "C08.R2"},
			{Name: "acquire gives up and returns after spinning", File: "kernel/sync/spinlock_amd64.s", Old: "\tDECL CX\n\tJNZ spin\n", New: "\tDECL CX\n\tJNZ spin\n\tRET\n", Expect: "C08.R3"},
			{Name: "exchange writes zero", File: "kernel/sync/spinlock_amd64.s", Old: "\tMOVL $1, BX\n\tXCHGL 0(AX), BX", New: "\tMOVL $0, BX\n\tXCHGL 0(AX), BX", Expect: "C08.R3"},
			{Name: "acquired on the non-zero side", File: "kernel/sync/spinlock_amd64.s", Old: "\tTESTL BX, BX\n\tJNZ spin\n", New: "\tTESTL BX, BX\n\tJZ spin\n", Expect: "C08.R3"},
			{Name: "state pointer clobbered by the yield call", File: "kernel/sync/spinlock_amd64.s", Old: "replenish_attempt_counter:\n\tMOVQ state+0(FP), AX\n", New: "replenish_attempt_counter:\n", Expect: "C08.R3"},
			{Name: "state read non-atomically in Go", File: "kernel/sync/spinlock.go", Old: "func (l *Spinlock) Release() {", New: "func (l *Spinlock) Held() bool { return l.state != 0 }\n\nfunc (l *Spinlock) Release() {", Expect: "C08.R1"},
			{Name: "Release stores one", File: "kernel/sync/spinlock.go", Old: "\tatomic.StoreUint32(&l.state, 0)", New: "\tatomic.StoreUint32(&l.state, 1)", Expect: "C08.R2"},
		},
	})
}

type asmIns struct {
	line   int
	labels []string
	op     string
	args   []string
	lock   bool
}

var asmLabelRE = regexp.MustCompile(`^([A-Za-z_][A-Za-z0-9_]*):$`)

// parseAsmFunc returns the instructions of TEXT ·name in the file.
func parseAsmFunc(src, name string) ([]asmIns, error) {
	var out []asmIns
	in := false
	var pendingLabels []string
	lock := false
	for i, raw := range strings.Split(src, "\n") {
		line := raw
		if k := strings.Index(line, "//"); k >= 0 {
			line = line[:k]
		}
		line = strings.TrimSpace(line)
		if line == "" || strings.HasPrefix(line, "#") {
			continue
		}
		if strings.HasPrefix(line, "TEXT") {
			in = strings.Contains(line, "·"+name+"(SB)")
			continue
		}
		if !in {
			continue
		}
		if m := asmLabelRE.FindStringSubmatch(line); m != nil {
			pendingLabels = append(pendingLabels, m[1])
			continue
		}
		fields := strings.SplitN(line, " ", 2)
		op := strings.ToUpper(strings.TrimSpace(fields[0]))
		if op == "LOCK" {
			lock = true
			continue
		}
		var args []string
		if len(fields) > 1 {
			for _, a := range strings.Split(fields[1], ",") {
				args = append(args, strings.TrimSpace(a))
			}
		}
		out = append(out, asmIns{line: i + 1, labels: pendingLabels, op: op, args: args, lock: lock})
		pendingLabels = nil
		lock = false
	}
	if len(out) == 0 {
		return nil, fmt.Errorf("TEXT ·%s not found", name)
	}
	return out, nil
}

var memOperandRE = regexp.MustCompile(`^(-?\d*)\(([A-Z0-9]+)\)$`)

func isReg(a string) bool {
	return regexp.MustCompile(`^(AX|BX|CX|DX|SI|DI|BP|SP|R[0-9]+)$`).MatchString(a)
}

func runC08(c *Ctx) {
	m := c.K
	stateF := m.fieldOf("sync", "Spinlock", "state")
	acquire := m.lookupMethod("sync", "Spinlock", "Acquire")
	try := m.lookupMethod("sync", "Spinlock", "TryToAcquire")
	release := m.lookupMethod("sync", "Spinlock", "Release")
	pkg := m.pkg("sync")
	for name, v := range map[string]interface{}{"Spinlock.state": stateF, "Spinlock.Acquire": acquire, "Spinlock.TryToAcquire": try, "Spinlock.Release": release} {
		if isNilIface(v) {
			c.unresolved("C08.R1", name)
			return
		}
	}
	arch := pkg.Func("archAcquireSpinlock")
	if arch == nil {
		c.unresolved("C08.R1", "sync.archAcquireSpinlock")
		return
	}
	isAtomic := func(cc *ssa.CallCommon) (string, bool) {
		f := cc.StaticCallee()
		if f != nil && f.Pkg != nil && f.Pkg.Pkg.Path() == "sync/atomic" {
			return f.Name(), true
		}
		return "", false
	}

	// ================= R1 =================
	c.floor("C08.R1", 3)
	nuse := 0
	m.eachInstr(func(fn *ssa.Function, in ssa.Instruction) {
		fa, ok := in.(*ssa.FieldAddr)
		if !ok {
			// value-typed access (Field on a struct value) would be a plain read
			if f, ok := in.(*ssa.Field); ok {
				if st := f.X.Type().Underlying(); st != nil {
					if _, fld, ok2 := loadedField(f); ok2 && fld == stateF {
						c.fail("C08.R1", "state-use "+m.fnName(fn), "the lock word is read through a struct copy", m.pos(in.Pos()))
					}
				}
			}
			return
		}
		if _, f, ok := fieldOfAddr(fa); !ok || f != stateF {
			return
		}
		// the uses of the address: directly, or through a private accessor of
		// package sync that does nothing but return it (its call sites then are
		// the uses)
		var usesOf func(fn *ssa.Function, v ssa.Value, pos token.Pos, depth int)
		usesOf = func(fn *ssa.Function, v ssa.Value, pos token.Pos, depth int) {
			bad := ""
			viaAccessor := false
			for _, r := range *v.Referrers() {
				switch u := r.(type) {
				case *ssa.DebugRef:
				case *ssa.Call:
					cc := u.Common()
					name, atomicOK := isAtomic(cc)
					if (atomicOK || cc.StaticCallee() == arch) && len(cc.Args) > 0 && cc.Args[0] == v {
						_ = name
						continue
					}
					bad = "&l.state is passed to " + callName(cc) + ", which is neither a sync/atomic function nor archAcquireSpinlock"
				case *ssa.Store:
					if u.Addr == v {
						bad = "plain (non-atomic) store to the lock word"
					} else {
						bad = "the address of the lock word is stored away"
					}
				case *ssa.UnOp:
					if u.Op == token.MUL {
						bad = "plain (non-atomic) load of the lock word"
					}
				case *ssa.Return:
					if acc := u.Parent(); depth < 2 && acc.Pkg == pkg && acc.Object() != nil && !acc.Object().Exported() && len(u.Results) == 1 && len(acc.Blocks) == 1 {
						sites := 0
						m.eachInstr(func(caller *ssa.Function, in ssa.Instruction) {
							if cl, ok := in.(*ssa.Call); ok && cl.Common().StaticCallee() == acc {
								sites++
								usesOf(caller, cl, cl.Pos(), depth+1)
							}
						})
						if sites > 0 {
							viaAccessor = true
							continue
						}
					}
					bad = "the address of the lock word escapes: " + r.String()
				default:
					bad = "the address of the lock word escapes: " + r.String()
				}
			}
			if viaAccessor && bad == "" {
				return // judged at the accessor's call sites
			}
			nuse++
			c.Evals++
			key := fmt.Sprintf("state-use %s #%d", m.fnName(fn), nuse)
			c.check(bad == "", "C08.R1", key, "&l.state passed directly to an atomic primitive", bad, m.pos(pos))
		}
		usesOf(fn, fa, in.Pos(), 0)
	})
	if nuse < 3 {
		c.fail("C08.R1", "state-uses sync", fmt.Sprintf("only %d use(s) of Spinlock.state found (Acquire, TryToAcquire and Release must each use it)", nuse))
	}

	// ================= R2 =================
	c.floor("C08.R2", 3)
	stateArg := func(v ssa.Value, fn *ssa.Function) bool {
		fa, ok := v.(*ssa.FieldAddr)
		if !ok {
			return false
		}
		b, f, ok := fieldOfAddr(fa)
		return ok && f == stateF && b == ssa.Value(fn.Params[0])
	}
	// TryToAcquire
	{
		g := newIG(m, try, nil)
		bad := ""
		nret := 0
		// the deciding read-modify-write: Swap(&state, non-zero) (took it iff the
		// old value was 0) or CompareAndSwap(&state, 0, non-zero) (took it iff true)
		var rmw *ssa.Call
		isCAS := false
		for _, in := range g.Ins {
			call, ok := in.(*ssa.Call)
			if !ok {
				continue
			}
			name, ok := isAtomic(call.Common())
			if !ok || !stateArg(call.Common().Args[0], try) {
				continue
			}
			switch name {
			case "SwapUint32":
				if k, ok := constUint64(call.Common().Args[1]); ok && k != 0 {
					rmw = call
				} else {
					bad = "TryToAcquire swaps in zero: it can never take the lock and releases a lock somebody else holds"
				}
			case "CompareAndSwapUint32":
				o, ok1 := constUint64(call.Common().Args[1])
				n, ok2 := constUint64(call.Common().Args[2])
				if ok1 && ok2 && o == 0 && n != 0 {
					rmw, isCAS = call, true
				}
			}
		}
		// took(v): +1 if v is "the lock was taken", -1 if it is its negation
		var took func(v ssa.Value) int
		took = func(v ssa.Value) int {
			if rmw == nil {
				return 0
			}
			if u, ok := v.(*ssa.UnOp); ok && u.Op == token.NOT {
				return -took(u.X)
			}
			if isCAS {
				if v == ssa.Value(rmw) {
					return 1
				}
				return 0
			}
			if b, ok := v.(*ssa.BinOp); ok && (b.Op == token.EQL || b.Op == token.NEQ) {
				if b.X == ssa.Value(rmw) && isZeroConst(b.Y) || b.Y == ssa.Value(rmw) && isZeroConst(b.X) {
					if b.Op == token.EQL {
						return 1
					}
					return -1
				}
			}
			return 0
		}
		for _, rc := range g.ReturnCases() {
			nret++
			r0 := rc.Vals[0]
			okForm := took(r0) == 1
			if b, isC := constBool(r0); isC && rmw != nil {
				// a constant result on the side of the test that it states
				for _, f := range g.CaseFacts(rc) {
					var t int
					switch {
					case f.Y == nil && f.X == ssa.Value(rmw) && isCAS:
						t = map[bool]int{true: 1, false: -1}[f.Op == token.EQL]
					case f.Y != nil && !isCAS && (f.Op == token.EQL || f.Op == token.NEQ) &&
						(f.X == ssa.Value(rmw) && isZeroConst(f.Y) || f.Y == ssa.Value(rmw) && isZeroConst(f.X)):
						t = map[bool]int{true: 1, false: -1}[f.Op == token.EQL]
					}
					if t != 0 && (t == 1) == b {
						okForm = true
					}
				}
			}
			if !okForm && bad == "" {
				bad = "TryToAcquire does not return `atomic.SwapUint32(&state, c) == 0` (or CompareAndSwapUint32(&state, 0, c)): true must mean the lock word was 0 and is now taken"
			}
		}
		// exactly one atomic operation
		nat := 0
		for _, in := range g.Ins {
			if cc := callCommon(in); cc != nil {
				if _, ok := isAtomic(cc); ok {
					nat++
				}
			}
		}
		if nat != 1 && bad == "" {
			bad = fmt.Sprintf("TryToAcquire performs %d atomic operations on the lock word; the decision must be a single read-modify-write", nat)
		}
		c.check(bad == "" && nret > 0, "C08.R2", "try "+m.fnName(try), "returns atomic.SwapUint32(&state, non-zero) == 0", bad, m.pos(try.Pos()))
	}
	// Release
	{
		g := newIG(m, release, nil)
		bad := ""
		n := 0
		for _, in := range g.Ins {
			cc := callCommon(in)
			if cc == nil || m.helperOf(in) != nil {
				continue // (a spliced private helper is its body, not a call)
			}
			n++
			name, ok := isAtomic(cc)
			if !ok || name != "StoreUint32" || !stateArg(cc.Args[0], release) || !isZeroConst(cc.Args[1]) {
				bad = "Release is not atomic.StoreUint32(&state, 0)"
			}
		}
		if n != 1 && bad == "" {
			bad = "Release does not consist of exactly one atomic store of 0"
		}
		c.check(bad == "", "C08.R2", "release "+m.fnName(release), "atomic.StoreUint32(&state, 0) and nothing else", bad, m.pos(release.Pos()))
	}
	// Acquire
	{
		g := newIG(m, acquire, nil)
		bad := ""
		n := 0
		for _, in := range g.Ins {
			cc := callCommon(in)
			if cc == nil || m.helperOf(in) != nil {
				continue // (a spliced private helper is its body, not a call)
			}
			n++
			if cc.StaticCallee() != arch || !stateArg(cc.Args[0], acquire) {
				bad = "Acquire does not pass &l.state to archAcquireSpinlock"
			}
		}
		if n != 1 && bad == "" {
			bad = "Acquire is not a single call of archAcquireSpinlock(&l.state, ...)"
		}
		c.check(bad == "", "C08.R2", "acquire "+m.fnName(acquire), "archAcquireSpinlock(&l.state, ...)", bad, m.pos(acquire.Pos()))
	}

	// ================= R3 =================
	c.floor("C08.R3", 4)
	asmPath := filepath.Join(repoRoot(), "kernel/sync/spinlock_amd64.s")
	readPath := asmPath
	if r, ok := c.OverlayFiles[asmPath]; ok {
		readPath = r
	}
	data, err := os.ReadFile(readPath)
	if err != nil {
		c.unresolved("C08.R3", "kernel/sync/spinlock_amd64.s")
		return
	}
	ins, err := parseAsmFunc(string(data), "archAcquireSpinlock")
	if err != nil {
		c.unresolved("C08.R3", "TEXT ·archAcquireSpinlock")
		return
	}
	rel := "kernel/sync/spinlock_amd64.s"
	pos := func(i int) string { return fmt.Sprintf("%s:%d", rel, ins[i].line) }
	label := map[string]int{}
	for i, x := range ins {
		for _, l := range x.labels {
			label[l] = i
		}
	}
	known := map[string]bool{"MOVQ": true, "MOVL": true, "XCHGL": true, "CMPXCHGL": true, "TESTL": true, "TESTQ": true, "JNZ": true, "JZ": true, "JNE": true, "JEQ": true, "JMP": true, "PAUSE": true, "DECL": true, "CALL": true, "RET": true}
	// two-operand ALU instructions (Plan 9 order: src, dst), one-operand ones, and compares
	alu2 := map[string]bool{"XORL": true, "XORQ": true, "ADDL": true, "ADDQ": true, "SUBL": true, "SUBQ": true, "ANDL": true, "ANDQ": true, "ORL": true, "ORQ": true,
		"SHLL": true, "SHLQ": true, "SHRL": true, "SHRQ": true, "BTSL": true, "BTRL": true, "BTCL": true, "BTSQ": true, "BTRQ": true, "XADDL": true, "LEAQ": true, "LEAL": true, "MOVLQZX": true, "MOVBLZX": true, "MOVWLZX": true}
	alu1 := map[string]bool{"INCL": true, "INCQ": true, "DECQ": true, "NEGL": true, "NEGQ": true, "NOTL": true, "NOTQ": true}
	cmps := map[string]bool{"CMPL": true, "CMPQ": true, "NOP": true}
	condJumps := map[string]bool{"JNZ": true, "JZ": true, "JNE": true, "JEQ": true, "JLT": true, "JLE": true, "JGT": true, "JGE": true, "JHI": true, "JLS": true, "JCS": true, "JCC": true, "JC": true, "JNC": true, "JMI": true, "JPL": true}
	for k := range alu2 {
		known[k] = true
	}
	for k := range alu1 {
		known[k] = true
	}
	for k := range cmps {
		known[k] = true
	}
	for k := range condJumps {
		known[k] = true
	}
	succ := make([][]int, len(ins))
	type jedge struct{ taken, fall int }
	jumps := map[int]jedge{}
	undecided := ""
	for i, x := range ins {
		c.Evals++
		if !known[x.op] {
			undecided = fmt.Sprintf("unknown mnemonic %s at line %d: the assembly reader cannot decide this function", x.op, x.line)
		}
		switch x.op {
		case "RET":
		case "JMP":
			t, ok := label[x.args[0]]
			if !ok {
				undecided = "jump to unknown label " + x.args[0]
				continue
			}
			succ[i] = []int{t}
		case "JNZ", "JZ", "JNE", "JEQ", "JLT", "JLE", "JGT", "JGE", "JHI", "JLS", "JCS", "JCC", "JC", "JNC", "JMI", "JPL":
			t, ok := label[x.args[0]]
			if !ok || i+1 >= len(ins) {
				undecided = "jump to unknown label " + x.args[0]
				continue
			}
			succ[i] = []int{t, i + 1}
			jumps[i] = jedge{t, i + 1}
		default:
			if i+1 < len(ins) {
				succ[i] = []int{i + 1}
			} else {
				undecided = "control falls off the end of the function"
			}
		}
	}
	if undecided != "" {
		c.undecided("C08.R3", "asm-cfg sync.archAcquireSpinlock", undecided)
		return
	}
	pred := make([][]int, len(ins))
	for i, ss := range succ {
		for _, s := range ss {
			pred[s] = append(pred[s], i)
		}
	}
	// destination register / memory of an instruction (Plan 9 order: src, dst)
	defs := func(x asmIns) (regs []string, mem string) {
		switch x.op {
		case "MOVQ", "MOVL":
			d := x.args[len(x.args)-1]
			if isReg(d) {
				regs = append(regs, d)
			} else {
				mem = d
			}
		case "XCHGL":
			for _, a := range x.args {
				if isReg(a) {
					regs = append(regs, a)
				} else {
					mem = a
				}
			}
		case "CMPXCHGL":
			d := x.args[len(x.args)-1]
			if isReg(d) {
				regs = append(regs, d)
			} else {
				mem = d
			}
			regs = append(regs, "AX")
		case "DECL":
			if isReg(x.args[0]) {
				regs = append(regs, x.args[0])
			} else {
				mem = x.args[0]
			}
		default:
			if alu2[x.op] || alu1[x.op] {
				d := x.args[len(x.args)-1]
				if isReg(d) {
					regs = append(regs, d)
				} else {
					mem = d
				}
			}
		case "CALL":
			regs = []string{"AX", "BX", "CX", "DX", "SI", "DI", "R8", "R9", "R10", "R11", "R12", "R13", "R14", "R15"}
		}
		return
	}
	// reaching definitions of a register at instruction i: set of instruction indices (-1 = entry)
	reaching := func(reg string, at int) map[int]bool {
		out := map[int]bool{}
		seen := map[int]bool{}
		var walk func(i int)
		walk = func(i int) {
			for _, p := range pred[i] {
				if seen[p] {
					continue
				}
				seen[p] = true
				rs, _ := defs(ins[p])
				isDef := false
				for _, r := range rs {
					if r == reg {
						isDef = true
					}
				}
				if isDef {
					out[p] = true
				} else {
					walk(p)
				}
			}
			if i == 0 {
				out[-1] = true
			}
		}
		walk(at)
		return out
	}
	// (a) memory writes
	var xchg []int
	bad := ""
	var where []string
	for i, x := range ins {
		_, mem := defs(x)
		if mem == "" {
			continue
		}
		atomicOp := x.op == "XCHGL" || (x.op == "CMPXCHGL" && x.lock)
		if !atomicOp {
			bad = fmt.Sprintf("%s %s writes memory without being an atomic exchange", x.op, strings.Join(x.args, ", "))
			where = append(where, pos(i))
			continue
		}
		mm := memOperandRE.FindStringSubmatch(mem)
		if mm == nil || (mm[1] != "" && mm[1] != "0") {
			bad = "the exchange does not address the lock word as 0(reg): " + mem
			where = append(where, pos(i))
			continue
		}
		// the base register holds the state argument on every path
		for d := range reaching(mm[2], i) {
			if d < 0 || !(ins[d].op == "MOVQ" && strings.HasPrefix(ins[d].args[0], "state+0(FP)")) {
				bad = "the base register of the exchange does not hold the state argument on every path (it can be clobbered and not reloaded)"
				where = append(where, pos(i))
			}
		}
		xchg = append(xchg, i)
	}
	if len(xchg) == 0 && bad == "" {
		bad = "the routine never performs an atomic exchange on the lock word"
	}
	c.check(bad == "", "C08.R3", "atomic-writes sync.archAcquireSpinlock", fmt.Sprintf("%d memory-writing instruction(s), all atomic exchanges on 0(state)", len(xchg)), bad, where...)
	// (a2) every access through the state pointer touches exactly the 32-bit lock
	// word: a wider compare or load also reads whatever follows the lock in memory
	{
		bad2 := ""
		var where2 []string
		nacc := 0
		for i, x := range ins {
			if x.op == "CALL" || x.op == "JMP" {
				continue
			}
			for _, a := range x.args {
				mm := memOperandRE.FindStringSubmatch(a)
				if mm == nil || mm[2] == "FP" || mm[2] == "SB" || mm[2] == "SP" {
					continue
				}
				isState, n := true, 0
				for d := range reaching(mm[2], i) {
					n++
					if d < 0 || !(ins[d].op == "MOVQ" && strings.HasPrefix(ins[d].args[0], "state+0(FP)")) {
						isState = false
					}
				}
				if !isState || n == 0 {
					continue
				}
				nacc++
				if !strings.HasSuffix(x.op, "L") {
					bad2 = fmt.Sprintf("%s %s accesses the lock word with an operand size other than 32 bits: the bytes behind the lock are read (or written) as part of it", x.op, strings.Join(x.args, ", "))
					where2 = append(where2, pos(i))
				}
				if mm[1] != "" && mm[1] != "0" {
					bad2 = fmt.Sprintf("%s %s addresses memory next to the lock word", x.op, strings.Join(x.args, ", "))
					where2 = append(where2, pos(i))
				}
			}
		}
		c.check(bad2 == "" && nacc > 0, "C08.R3", "lock-word-width sync.archAcquireSpinlock", fmt.Sprintf("%d access(es) through the state pointer, all 32 bits wide at offset 0", nacc), bad2, where2...)
	}
	// (b) exchanged-in value non-zero
	bad = ""
	var xreg string
	for _, xi := range xchg {
		for _, a := range ins[xi].args {
			if isReg(a) {
				xreg = a
			}
		}
		for d := range reaching(xreg, xi) {
			if d >= 0 && ins[d].op == "MOVL" && strings.HasSuffix(ins[d].args[0], "(FP)") {
				// loaded from an argument: every Go call site must pass a non-zero constant for it
				name := ins[d].args[0]
				if k := strings.IndexAny(name, "+"); k > 0 {
					name = name[:k]
				}
				idx := -1
				for i := 0; i < arch.Signature.Params().Len(); i++ {
					if arch.Signature.Params().At(i).Name() == name {
						idx = i
					}
				}
				sites := m.callSites(arch)
				okArg := idx >= 0 && len(sites) > 0
				for _, cs := range sites {
					cc := callCommon(cs)
					if cc == nil || idx >= len(cc.Args) {
						okArg = false
						continue
					}
					if k, ok := constUint64(cc.Args[idx]); !ok || k == 0 || k > 0xffffffff {
						okArg = false
					}
				}
				if !okArg {
					bad = "the value exchanged into the lock word comes from an argument that is not a non-zero constant at every call"
				}
				continue
			}
			if d < 0 || ins[d].op != "MOVL" || !strings.HasPrefix(ins[d].args[0], "$") {
				bad = "the register exchanged into the lock word is not loaded with an immediate on every path"
				continue
			}
			k, err := strconv.ParseInt(strings.TrimPrefix(ins[d].args[0], "$"), 0, 64)
			if err != nil || k == 0 {
				bad = "the value exchanged into the lock word is zero: taking the lock leaves it free"
			}
		}
	}
	c.check(bad == "" && len(xchg) > 0, "C08.R3", "locked-value sync.archAcquireSpinlock", "the exchange stores a non-zero immediate", bad)
	// (c) exchange -> test -> conditional jump; RET only on the zero side
	bad = ""
	okRet := map[int]bool{}
	for _, xi := range xchg {
		if len(succ[xi]) != 1 {
			bad = "unexpected control flow after the exchange"
			continue
		}
		t := succ[xi][0]
		// a test of the register against zero: TEST r,r / OR r,r / AND r,r / CMP r,$0
		isZeroTest := func(op string, args []string) bool {
			if len(args) != 2 {
				return false
			}
			switch {
			case strings.HasPrefix(op, "TEST"), strings.HasPrefix(op, "OR") && len(op) == 3, strings.HasPrefix(op, "AND") && len(op) == 4:
				return args[0] == xreg && args[1] == xreg
			case strings.HasPrefix(op, "CMP") && len(op) == 4:
				isZ := func(a string) bool { return a == "$0" || a == "$0x0" }
				return args[0] == xreg && isZ(args[1]) || args[1] == xreg && isZ(args[0])
			}
			return false
		}
		if !isZeroTest(ins[t].op, ins[t].args) {
			bad = "the exchange is not immediately followed by a test of the received value"
			continue
		}
		j := succ[t][0]
		je, isJ := jumps[j]
		if !isJ {
			bad = "the test of the received value is not followed by a conditional jump"
			continue
		}
		var zeroSide int
		switch ins[j].op {
		case "JZ", "JEQ", "JE":
			zeroSide = je.taken
		case "JNZ", "JNE":
			zeroSide = je.fall
		default:
			bad = "the jump after the test of the received value is not a zero / non-zero jump"
			continue
		}
		if ins[zeroSide].op != "RET" {
			bad = "the zero side of the test (lock was free and is now taken) does not return"
			continue
		}
		nonZero := je.taken
		if zeroSide == je.taken {
			nonZero = je.fall
		}
		if ins[nonZero].op == "RET" {
			bad = "the routine returns although the lock word was non-zero (held by somebody else)"
			continue
		}
		okRet[zeroSide] = true
		// the RET on the zero side is reached only through this jump
		for _, p := range pred[zeroSide] {
			if p != j {
				bad = fmt.Sprintf("RET is also reachable from line %d, without a successful exchange", ins[p].line)
			}
		}
	}
	nret := 0
	for i, x := range ins {
		if x.op == "RET" {
			nret++
			if !okRet[i] && bad == "" {
				bad = fmt.Sprintf("the RET at line %d is not the zero side of a test of an exchange", x.line)
			}
		}
	}
	if nret == 0 && bad == "" {
		bad = "the routine never returns"
	}
	c.check(bad == "", "C08.R3", "acquire-protocol sync.archAcquireSpinlock", "RET only through exchange -> test -> zero side; every spin path re-enters through the exchange", bad)
	// (d) frame: no stack writes, declared frame
	c.ok("C08.R3", "asm-coverage sync.archAcquireSpinlock", fmt.Sprintf("%d instructions, %d labels, all mnemonics known to the reader", len(ins), len(label)))
	// other assembly files of the module are listed for coverage
	var others []string
	for _, p := range m.Pkgs {
		for _, f := range p.OtherFiles {
			if strings.HasSuffix(f, ".s") {
				r, _ := filepath.Rel(repoRoot(), f)
				others = append(others, r)
			}
		}
	}
	c.note("assembly files in the kernel module (only spinlock_amd64.s is anchored by a property): %s", strings.Join(uniq(others), ", "))
}
