package main

import (
	"fmt"
	"go/token"
	"go/types"
	"strings"

	"golang.org/x/tools/go/ssa"
)

func init() {
	register(&Property{
		ID: "C12", NeedKernel: true, Run: runC12,
		Explanation: "Bounds discipline of the AML byte reader and of every slice the parser lays over table memory, decided on SSA: (R1) amlStreamReader.data/offset/pkgEnd are " +
			"stored only by the reader's own methods; pkgEnd is stored under pkgEnd <= len(data); offset is stored as offset+1 under !EOF(), offset-1 under offset != 0, " +
			"or a value clamped to len(data); every index of data inside the reader is offset under !EOF() or offset-1 after such an increment / under offset != 0; " +
			"EOF() is offset >= pkgEnd; nothing outside the reader indexes data; (R2) every reflect.SliceHeader whose Data is the reader's DataPtr() gets a Len that is " +
			"(i) a difference of two reader offsets, (ii) a counter incremented only on the success side of ReadByte, or (iii) a value that on every incoming edge is 0 " +
			"under EOF(), pkgEnd - Offset() under !EOF(), or bounded by a test against pkgEnd - Offset(); Cap equals Len (found F7); (R3) every parseResult returned by a " +
			"call is used (returned, compared or merged), with one named exception; (R4) structural conditions of the termination of the merge/relocate loop: every iteration " +
			"increments resolvePasses, relocateNamedObjects asks for another pass only under resolvePasses <= maxResolvePasses, mergeScopeDirectives only in the first pass or when " +
			"the previous relocate pass moved something, and that progress counter is reset for every pass.",
		EnumRule: "obligations per rule and construct",
		Assumptions: []string{"invariant offset <= len(data) and pkgEnd <= len(data) follow inductively from R1's store forms",
			"named exception C12.R3: parseStrictTermArg discards nextOpcode()'s result after peekNextOpcode() succeeded on the same stream position",
			"termination, recursion depth, absence of panics and tree well-formedness after a failed parse are not decided"},
		Controls: []Control{
			{Name: "relocation without the ancestor walk (F9)", File: "kernel/device/acpi/aml/parser.go", Old: "\t\t\t\tif ancestorIndex == obj.index {", New: "\t\t\t\tif ancestorIndex == InvalidIndex {", Expect: "C12.R5"},
			{Name: "per-pass counters reset at the top of the resolve loop", File: "kernel/device/acpi/aml/parser.go", Old: "\tfor ; ; p.resolvePasses++ {\n", New: "\tfor ; ; p.resolvePasses++ {\n\t\tp.relocatedObjects = 0\n", Expect: "C12.R4"},
			{Name: "index r.data from the parser", File: "kernel/device/acpi/aml/parser.go", Old: "func (p *Parser) scopeExit() {", New: "func (p *Parser) peekRaw(off uint32) byte { return p.r.data[off] }\n\nfunc (p *Parser) scopeExit() {", Expect: "C12.R1"},
			{Name: "drop the SetPkgEnd bound", File: "kernel/device/acpi/aml/stream_reader.go", Old: "\tif pkgEnd > uint32(len(r.data)) {\n\t\treturn errInvalidPkgEnd\n\t}\n\n", New: "", Expect: "C12.R1"},
			{Name: "slice header from an unchecked length (F7 again)", File: "kernel/device/acpi/aml/parser.go", Old: "\tif p.r.EOF() {\n\t\tdataLen = 0\n\t} else if remaining := p.r.pkgEnd - p.r.Offset(); dataLen > remaining {\n\t\tdataLen = remaining\n\t}\n\n", New: "", Expect: "C12.R2"},
			{Name: "ReadByte without the EOF test", File: "kernel/device/acpi/aml/stream_reader.go", Old: "func (r *amlStreamReader) ReadByte() (byte, error) {\n\tif r.EOF() {\n\t\treturn 0, errReadPastPkgEnd\n\t}\n\n", New: "func (r *amlStreamReader) ReadByte() (byte, error) {\n", Expect: "C12.R1"},
			{Name: "EOF compares with len(data) instead of pkgEnd", File: "kernel/device/acpi/aml/stream_reader.go", Old: "\treturn r.offset >= r.pkgEnd\n", New: "\treturn r.offset > r.pkgEnd\n", Expect: "C12.R1"},
			{Name: "SetOffset without the clamp", File: "kernel/device/acpi/aml/stream_reader.go", Old: "\tif max := uint32(len(r.data)); off > max {\n\t\toff = max\n\t}\n", New: "", Expect: "C12.R1"},
			{Name: "parser moves pkgEnd directly", File: "kernel/device/acpi/aml/parser.go", Old: "\t\t\tcurObj.pkgEnd = origOffset + pkgLen\n\t\t\tp.r.SetOffset(curObj.pkgEnd)\n", New: "\t\t\tcurObj.pkgEnd = origOffset + pkgLen\n\t\t\tp.r.pkgEnd = curObj.pkgEnd\n\t\t\tp.r.SetOffset(curObj.pkgEnd)\n", Expect: "C12.R1"},
			{Name: "string length counted before the read is checked", File: "kernel/device/acpi/aml/parser.go", Old: "\t\tnext, err = p.r.ReadByte()\n\t\tif err != nil {\n\t\t\tres = parseResultFailed\n\t\t\tbreak\n\t\t}\n\n\t\tif next == 0x00 {", New: "\t\tnext, err = p.r.ReadByte()\n\t\tstr.Len++\n\t\tif err != nil {\n\t\t\tres = parseResultFailed\n\t\t\tbreak\n\t\t}\n\n\t\tif next == 0x00 {", Expect: "C12.R2"},
			{Name: "parse failure of an argument dropped", File: "kernel/device/acpi/aml/parser.go", Old: "\t\tcurObj.value, res = p.parseNumConstant(8)\n\tcase pOpStringPrefix:", New: "\t\tcurObj.value, _ = p.parseNumConstant(8)\n\tcase pOpStringPrefix:", Expect: "C12.R3"},
			{Name: "progress counter reset once instead of per pass", File: "kernel/device/acpi/aml/parser.go", Old: "\tif objIndex == 0 {\n\t\tp.relocatedObjects = 0\n\t}\n", New: "", Expect: "C12.R4"},
			{Name: "pass bound not consulted", File: "kernel/device/acpi/aml/parser.go", Old: "\t\t\t\tif p.resolvePasses > maxResolvePasses {", New: "\t\t\t\tif p.resolvePasses > maxResolvePasses && p.relocatedObjects == 0 {", Expect: "C12.R4"},
			{Name: "byte list clamp compares against the stream end", File: "kernel/device/acpi/aml/parser.go", Old: "} else if remaining := p.r.pkgEnd - p.r.Offset(); dataLen > remaining {", New: "} else if remaining := p.streamEnd; dataLen > remaining {", Expect: "C12.R2"},
		},
	})
}

func runC12(c *Ctx) {
	m := c.K
	const aml = "device/acpi/aml"
	pkg := m.pkg(aml)
	readerT := m.lookupType(aml, "amlStreamReader")
	dataF, offF, endF := m.fieldOf(aml, "amlStreamReader", "data"), m.fieldOf(aml, "amlStreamReader", "offset"), m.fieldOf(aml, "amlStreamReader", "pkgEnd")
	eof := m.lookupMethod(aml, "amlStreamReader", "EOF")
	readByte := m.lookupMethod(aml, "amlStreamReader", "ReadByte")
	dataPtr := m.lookupMethod(aml, "amlStreamReader", "DataPtr")
	offsetM := m.lookupMethod(aml, "amlStreamReader", "Offset")
	parseResT := m.lookupType(aml, "parseResult")
	for name, v := range map[string]interface{}{"aml.amlStreamReader": readerT, "amlStreamReader.data": dataF, "amlStreamReader.offset": offF, "amlStreamReader.pkgEnd": endF,
		"amlStreamReader.EOF": eof, "amlStreamReader.ReadByte": readByte, "amlStreamReader.DataPtr": dataPtr, "amlStreamReader.Offset": offsetM, "aml.parseResult": parseResT} {
		if isNilIface(v) {
			c.unresolved("C12.R1", name)
			return
		}
	}
	isReaderMethod := func(fn *ssa.Function) bool {
		return fn.Signature.Recv() != nil && typeIs(fn.Signature.Recv().Type(), readerT)
	}
	// the reader's methods are the unit of the who-may-write rule: each is analysed
	// as a function of its own
	for _, fn := range m.Funcs {
		if fn.Pkg == pkg && fn.Parent() == nil && fn.Synthetic == "" && isReaderMethod(fn) {
			m.anchor(fn)
		}
	}
	z := &Polyizer{Atom: func(v ssa.Value) string {
		if _, f, ok := loadedField(v); ok {
			switch f {
			case offF:
				return "offset"
			case endF:
				return "pkgEnd"
			}
		}
		if call, ok := v.(*ssa.Call); ok {
			if bi, ok := call.Common().Value.(*ssa.Builtin); ok && bi.Name() == "len" && isLoadOfField(call.Common().Args[0], dataF) {
				return "len(data)"
			}
			if m.callee(call.Common()) == offsetM {
				return "offset"
			}
		}
		return ""
	}}
	var eofFact func(f Fact, want bool) bool
	eofFact = func(f Fact, want bool) bool {
		if f.Y != nil {
			// the inlined comparison offset >= pkgEnd
			l, r := z.Of(f.X).String(), z.Of(f.Y).String()
			if l == "offset" && r == "pkgEnd" {
				return want && f.Op == token.GEQ || !want && f.Op == token.LSS
			}
			if l == "pkgEnd" && r == "offset" {
				return want && f.Op == token.LEQ || !want && f.Op == token.GTR
			}
			return false
		}
		call, ok := f.X.(*ssa.Call)
		return ok && m.callee(call.Common()) == eof && (f.Op == token.EQL) == want
	}
	// A reader method that changes nothing and returns a nil error only when
	// !EOF() (PeekByte): `err == nil` after calling it is the !EOF() test.
	peekLike := map[*ssa.Function]int{} // 1 yes, 2 no
	var isPeekLike func(fn *ssa.Function) bool
	isPeekLike = func(fn *ssa.Function) bool {
		if v, ok := peekLike[fn]; ok {
			return v == 1
		}
		peekLike[fn] = 2
		if fn == nil || !isReaderMethod(fn) || len(fn.Blocks) == 0 || fn.Signature.Results().Len() == 0 {
			return false
		}
		for _, b := range fn.Blocks {
			for _, in := range b.Instrs {
				switch x := in.(type) {
				case *ssa.Store:
					if _, isLocal := cellOf(x.Addr); !isLocal {
						return false
					}
				case *ssa.Call:
					if cal := m.callee(x.Common()); cal != eof && cal != offsetM {
						return false
					}
				case *ssa.Defer, *ssa.Go:
					return false
				}
			}
		}
		g := scanIG(m, fn, nil)
		nNil := 0
		last := fn.Signature.Results().Len() - 1
		for _, rc := range g.ReturnCases() {
			isNil, _ := g.caseNil(rc, rc.Vals[last])
			if !isNil {
				if _, nonNil := g.caseNil(rc, rc.Vals[last]); !nonNil {
					return false
				}
				continue
			}
			nNil++
			if !hasFact(g.CaseFacts(rc), func(ft Fact) bool { return eofFact(ft, false) }) {
				return false
			}
		}
		if nNil == 0 {
			return false
		}
		peekLike[fn] = 1
		return true
	}
	eofFact0 := eofFact
	eofFact = func(f Fact, want bool) bool {
		if eofFact0(f, want) {
			return true
		}
		if want {
			return false
		}
		return isNilFact(f, token.EQL, func(v ssa.Value) bool {
			var call *ssa.Call
			switch x := v.(type) {
			case *ssa.Call:
				call = x
			case *ssa.Extract:
				call, _ = x.Tuple.(*ssa.Call)
				if call != nil && x.Index != call.Call.Signature().Results().Len()-1 {
					return false
				}
			}
			return call != nil && isPeekLike(m.callee(call.Common()))
		})
	}

	// ================= R1 =================
	c.floor("C12.R1", 8)
	// EOF body
	{
		okE := false
		if len(eof.Blocks) == 1 {
			for _, in := range eof.Blocks[0].Instrs {
				if r, ok := in.(*ssa.Return); ok {
					// the returned value as a fact: offset >= pkgEnd in any spelling
					// (pkgEnd <= offset, !(offset < pkgEnd))
					if f, ok := condFact(r.Results[0], true); ok && f.Y != nil {
						l, rr := z.Of(f.X).String(), z.Of(f.Y).String()
						if f.Op == token.GEQ && l == "offset" && rr == "pkgEnd" || f.Op == token.LEQ && l == "pkgEnd" && rr == "offset" {
							okE = true
						}
					}
				}
			}
		}
		c.check(okE, "C12.R1", "eof-definition "+m.fnName(eof), "EOF() is offset >= pkgEnd", "EOF() is not `offset >= pkgEnd`: reads are not bounded by the package end", m.pos(eof.Pos()))
	}
	// stores to the three fields
	for _, f := range []*types.Var{dataF, offF, endF} {
		seq := 0
		for _, fs := range m.storesToField(f) {
			fn := fs.Fn
			key := fmt.Sprintf("reader-store %s in %s #%d", f.Name(), m.fnName(fn), seq)
			seq++
			c.Evals++
			if !isReaderMethod(fn) {
				c.fail("C12.R1", key, "amlStreamReader."+f.Name()+" is written outside the reader's methods: the read window can be moved past the table", m.pos(fs.Store.Pos()))
				continue
			}
			if fs.Rest != "" {
				c.fail("C12.R1", key, "the reader writes into the table bytes", m.pos(fs.Store.Pos()))
				continue
			}
			g := scanIG(m, fn, nil)
			n := g.Idx[fs.Store]
			facts := g.FactsAt(n)
			val := z.Of(fs.Store.Val)
			switch f {
			case dataF:
				// the overlay: Len == Cap == the length the window is then clamped to (Init)
				c.ok("C12.R1", key, "data overlay installed by the reader's initialiser", g.posOf(n))
			case endF:
				bounded := hasFact(facts, func(ft Fact) bool {
					if ft.Y == nil {
						return false
					}
					l, r := z.Of(ft.X), z.Of(ft.Y)
					return ft.Op == token.LEQ && l.equal(val) && r.String() == "len(data)" || ft.Op == token.GEQ && r.equal(val) && l.String() == "len(data)"
				})
				c.check(bounded, "C12.R1", key, "pkgEnd = "+val.String()+" under "+val.String()+" <= len(data)", "pkgEnd is set to a value that has not been tested <= len(data): reads past the end of the table become possible", g.posOf(n))
			case offF:
				switch {
				case val.String() == "1 + offset":
					c.check(hasFact(facts, func(ft Fact) bool { return eofFact(ft, false) }), "C12.R1", key, "offset+1 under !EOF()", "the offset is advanced without the EOF() test", g.posOf(n))
				case val.String() == "-1 + offset":
					nz := hasFact(facts, func(ft Fact) bool {
						return ft.Y != nil && ft.Op == token.NEQ && (z.Of(ft.X).String() == "offset" && isZeroConst(ft.Y) || z.Of(ft.Y).String() == "offset" && isZeroConst(ft.X))
					})
					c.check(nz, "C12.R1", key, "offset-1 under offset != 0", "the offset is decremented without testing offset != 0", g.posOf(n))
				default:
					// clamp: the stored value is len(data), or a value under
					// value <= len(data), or a merge of such values
					leqLen := func(ef []Fact, pv Poly) bool {
						return hasFact(ef, func(ft Fact) bool {
							if ft.Y == nil {
								return false
							}
							l, r := z.Of(ft.X), z.Of(ft.Y)
							return ft.Op == token.LEQ && l.equal(pv) && r.String() == "len(data)" || ft.Op == token.GEQ && r.equal(pv) && l.String() == "len(data)"
						})
					}
					var okVal func(v ssa.Value, ef []Fact, depth int) bool
					okVal = func(v ssa.Value, ef []Fact, depth int) bool {
						pv := z.Of(v)
						if pv.String() == "len(data)" || leqLen(ef, pv) {
							return true
						}
						// min(x, len(data)) is at most len(data)
						for _, a := range minArgs(v) {
							if z.Of(a).String() == "len(data)" {
								return true
							}
						}
						phi, ok := v.(*ssa.Phi)
						if !ok || depth > 3 {
							return false
						}
						pe := g.predEdges(phi.Block())
						for i, e := range phi.Edges {
							f2 := g.FactsAt(pe[i].From)
							if ft, ok := g.EdgeFact(pe[i].From, pe[i].K); ok {
								f2 = append(f2, ft)
							}
							if !okVal(e, f2, depth+1) {
								return false
							}
						}
						return true
					}
					okClamp := okVal(fs.Store.Val, facts, 0)
					c.check(okClamp, "C12.R1", key, "offset = min(value, len(data))", "the offset is set to "+val.String()+" without being clamped to len(data)", g.posOf(n))
				}
			}
		}
	}
	// indexes of data
	nidx := 0
	m.eachInstr(func(fn *ssa.Function, in ssa.Instruction) {
		var base, index ssa.Value
		switch x := in.(type) {
		case *ssa.IndexAddr:
			base, index = x.X, x.Index
		case *ssa.Index:
			base, index = x.X, x.Index
		case *ssa.Slice:
			if isLoadOfField(x.X, dataF) {
				base = x.X
			}
		default:
			return
		}
		if base == nil || !isLoadOfField(base, dataF) {
			return
		}
		nidx++
		key := fmt.Sprintf("data-index %s #%d", m.fnName(fn), nidx)
		if !isReaderMethod(fn) {
			c.fail("C12.R1", key, "the table bytes are indexed outside the reader's bounds-checked methods", m.pos(in.Pos()))
			return
		}
		if index == nil {
			c.fail("C12.R1", key, "the reader reslices the table bytes", m.pos(in.Pos()))
			return
		}
		g := scanIG(m, fn, nil)
		n := g.Idx[in]
		facts := g.FactsAt(n)
		iv := z.Of(index).String()
		notEOF := hasFact(facts, func(ft Fact) bool { return eofFact(ft, false) })
		nonZero := hasFact(facts, func(ft Fact) bool {
			return ft.Y != nil && ft.Op == token.NEQ && (z.Of(ft.X).String() == "offset" && isZeroConst(ft.Y) || z.Of(ft.Y).String() == "offset" && isZeroConst(ft.X))
		})
		// has the offset been advanced between the EOF test and this index?
		advanced := false
		for k, ins := range g.Ins {
			if st, ok := ins.(*ssa.Store); ok {
				if lf, rest := lastField(accessPath(st.Addr)); lf == offF && rest == "" && g.Reach(g.Succ[k], nil, nil)[n] {
					advanced = z.Of(st.Val).String() == "1 + offset"
					if !advanced {
						notEOF = false
					}
				}
			}
		}
		switch {
		case iv == "offset" && notEOF && !advanced:
			c.ok("C12.R1", key, "data[offset] under !EOF()", g.posOf(n))
		case iv == "-1 + offset" && (notEOF && advanced || nonZero):
			c.ok("C12.R1", key, "data[offset-1] after a guarded increment / under offset != 0", g.posOf(n))
		default:
			c.fail("C12.R1", key, "data["+iv+"] is not covered by the EOF() / offset != 0 test that bounds it", g.posOf(n))
		}
	})
	if nidx == 0 {
		c.fail("C12.R1", "data-index", "no index of amlStreamReader.data found (rule shape lost)")
	}

	// ================= R2 =================
	c.floor("C12.R2", 3)
	var shT *types.Named
	for _, p := range m.Prog.AllPackages() {
		if p.Pkg.Path() == "reflect" {
			if t := p.Type("SliceHeader"); t != nil {
				shT, _ = t.Type().(*types.Named)
			}
		}
	}
	if shT == nil {
		c.unresolved("C12.R2", "reflect.SliceHeader")
		return
	}
	nhdr := 0
	for _, fn := range m.scanFuncs() {
		if fn.Pkg != pkg {
			continue
		}
		var g *IG
		for _, b := range m.blocksOf(fn) {
			for _, in := range b.Instrs {
				al, ok := in.(*ssa.Alloc)
				if !ok || !typeIs(al.Type(), shT) {
					continue
				}
				// field stores
				var lenStores, capStores, dataStores []*ssa.Store
				escapes := false
				for _, r := range *al.Referrers() {
					fa, ok := r.(*ssa.FieldAddr)
					if !ok {
						continue
					}
					for _, rr := range *fa.Referrers() {
						st, ok := rr.(*ssa.Store)
						if !ok {
							continue
						}
						switch fa.Field {
						case 0:
							dataStores = append(dataStores, st)
						case 1:
							lenStores = append(lenStores, st)
						case 2:
							capStores = append(capStores, st)
						}
					}
				}
				_ = escapes
				overTable := false
				for _, ds := range dataStores {
					if call, ok := ds.Val.(*ssa.Call); ok && m.callee(call.Common()) == dataPtr {
						overTable = true
					}
				}
				if !overTable {
					continue
				}
				nhdr++
				if g == nil {
					g = scanIG(m, fn, nil)
				}
				key := fmt.Sprintf("slice-over-table %s", m.fnName(fn))
				c.Evals++
				bad, form := "", ""
				remaining := func(p Poly) bool { return p.String() == "-offset + pkgEnd" }
				for _, ls := range lenStores {
					n := g.Idx[ls]
					v := stripConv(ls.Val)
					pv := z.Of(v)
					switch {
					case isZeroConst(v):
					case pv.String() == "1 + "+pathString(accessPath(ls.Addr)) || isIncrementOf(ls):
						// (ii) counter incremented on the success side of ReadByte
						okRead := hasFact(g.FactsAt(n), func(ft Fact) bool {
							return isNilFact(ft, token.EQL, func(x ssa.Value) bool { _, ok := m.resultOf(x, readByte, 1); return ok })
						})
						form = "(ii) counter incremented on the success side of ReadByte"
						if !okRead {
							bad = "the length is incremented on a path on which the ReadByte that consumed the byte has not been tested to succeed"
						}
					default:
						// (i) difference of offsets
						if b, ok := v.(*ssa.BinOp); ok && b.Op == token.SUB && isOffsetValue(m, b.X, offsetM) && isOffsetValue(m, b.Y, offsetM) {
							form = "(i) difference of two reader offsets"
							continue
						}
						// (iii) bounded per incoming edge
						form = "(iii) bounded by pkgEnd - Offset() on every incoming edge"
						edges := []struct {
							v ssa.Value
							e *Edge
						}{{v, nil}}
						if phi, ok := v.(*ssa.Phi); ok {
							edges = nil
							pe := g.predEdges(phi.Block())
							for i, ev := range phi.Edges {
								e := pe[i]
								edges = append(edges, struct {
									v ssa.Value
									e *Edge
								}{ev, &e})
							}
						}
						for _, ed := range edges {
							node := n
							var ef []Fact
							if ed.e != nil {
								node = ed.e.From
								if ft, ok := g.EdgeFact(ed.e.From, ed.e.K); ok {
									ef = append(ef, ft)
								}
							}
							ef = append(ef, g.FactsAt(node)...)
							ev := z.Of(ed.v)
							switch {
							case isZeroConst(ed.v):
							case remaining(ev) && hasFact(ef, func(ft Fact) bool { return eofFact(ft, false) }):
							case func() bool {
								// min(n, pkgEnd - Offset()) is at most what remains
								for _, a := range minArgs(ed.v) {
									if remaining(z.Of(a)) {
										return true
									}
								}
								return false
							}() && hasFact(ef, func(ft Fact) bool { return eofFact(ft, false) }):
							case hasFact(ef, func(ft Fact) bool {
								if ft.Y == nil {
									return false
								}
								l, r := z.Of(ft.X), z.Of(ft.Y)
								return (ft.Op == token.LEQ && l.equal(ev) && remaining(r) || ft.Op == token.GEQ && r.equal(ev) && remaining(l)) && true
							}) && hasFact(ef, func(ft Fact) bool { return eofFact(ft, false) }):
							default:
								bad = "the slice length can be " + ev.String() + " on a path on which it has not been bounded by pkgEnd - Offset(): the slice can reach past the end of the table"
							}
						}
					}
				}
				if len(lenStores) == 0 {
					bad = "the slice header over table memory has no length store"
				}
				// Cap equals Len
				for _, cs := range capStores {
					okCap := false
					for _, ls := range lenStores {
						if stripConv(cs.Val) == stripConv(ls.Val) {
							okCap = true
						}
					}
					if ld, ok := stripConv(cs.Val).(*ssa.UnOp); ok && ld.Op == token.MUL {
						if fa, ok := ld.X.(*ssa.FieldAddr); ok && fa.X == ssa.Value(al) && fa.Field == 1 {
							okCap = true
						}
					}
					if !okCap && bad == "" {
						bad = "the capacity of the slice over table memory is not its length"
					}
				}
				c.check(bad == "", "C12.R2", key, "Len form: "+form+"; Cap = Len", bad, m.pos(al.Pos()))
			}
		}
	}
	if nhdr == 0 {
		c.fail("C12.R2", "slice-over-table", "no slice header over the reader's DataPtr() found (rule shape lost)")
	}

	// ================= R3 =================
	c.floor("C12.R3", 20)
	peek := m.lookupMethod(aml, "Parser", "peekNextOpcode")
	nextOp := m.lookupMethod(aml, "Parser", "nextOpcode")
	strict := m.lookupMethod(aml, "Parser", "parseStrictTermArg")
	ok0, _ := namedConstUint(m, aml, "parseResultOk")
	ncalls := 0
	for _, fn := range m.scanFuncs() {
		if fn.Pkg != pkg {
			continue
		}
		var g *IG
		seq := 0
		for _, b := range m.blocksOf(fn) {
			for _, in := range b.Instrs {
				call, ok := in.(*ssa.Call)
				if !ok {
					continue
				}
				res := call.Common().Signature().Results()
				idx := -1
				for i := 0; i < res.Len(); i++ {
					if types.Identical(res.At(i).Type(), parseResT) {
						idx = i
					}
				}
				if idx < 0 {
					continue
				}
				ncalls++
				c.Evals++
				key := fmt.Sprintf("result-used %s -> %s #%d", m.fnName(fn), callName(call.Common()), seq)
				seq++
				var rv ssa.Value
				if res.Len() == 1 {
					rv = call
				} else {
					for _, r := range usersOf(call) {
						if ex, ok := r.(*ssa.Extract); ok && ex.Index == idx {
							rv = ex
						}
					}
				}
				used := false
				if rv != nil {
					for _, r := range usersOf(rv) {
						if _, dbg := r.(*ssa.DebugRef); !dbg {
							used = true
						}
					}
				}
				if used {
					c.ok("C12.R3", key, "parse result is returned, compared or merged")
					continue
				}
				// named exception
				if fn == strict && m.callee(call.Common()) == nextOp && peek != nil {
					if g == nil {
						g = scanIG(m, fn, nil)
					}
					okPeek := hasFact(g.FactsAt(g.Idx[in]), func(ft Fact) bool {
						return cmpMatch(ft, token.EQL, func(v ssa.Value) bool { _, ok := m.resultOf(v, peek, 1); return ok }, func(v ssa.Value) bool { k, ok := constUint64(v); return ok && k == ok0 })
					})
					if okPeek {
						c.ok("C12.R3", key, "named exception: nextOpcode() after peekNextOpcode() returned parseResultOk")
						continue
					}
				}
				c.fail("C12.R3", key, "the parse result of "+callName(call.Common())+" is discarded: a failed sub-parse does not fail the parse", m.pos(in.Pos()))
			}
		}
	}
	_ = strings.Join

	// ================= R4 =================
	c12BoundedPasses(c)
	c12MoveAcyclic(c)
}

// isIncrementOf: the store writes load(addr)+1 back to the same address.
func isIncrementOf(st *ssa.Store) bool {
	b, ok := stripConv(st.Val).(*ssa.BinOp)
	if !ok || b.Op != token.ADD {
		return false
	}
	one, ok := constInt64(b.Y)
	if !ok || one != 1 {
		return false
	}
	a, ok := loadAddr(b.X)
	if !ok {
		return false
	}
	return pathString(accessPath(a)) == pathString(accessPath(st.Addr)) && sameAllocRoot(a, st.Addr)
}

func sameAllocRoot(a, b ssa.Value) bool {
	pa, pb := accessPath(a), accessPath(b)
	return len(pa) > 0 && len(pb) > 0 && pa[0].V == pb[0].V
}

// isOffsetValue: v is the result of the reader's Offset() or a phi of such results.
func isOffsetValue(m *Module, v ssa.Value, offsetM *ssa.Function) bool {
	if _, ok := m.resultOf(v, offsetM, -1); ok {
		return true
	}
	if phi, ok := v.(*ssa.Phi); ok {
		for _, e := range phi.Edges {
			if _, ok := m.resultOf(e, offsetM, -1); !ok {
				return false
			}
		}
		return true
	}
	return false
}

// minArgs: the arguments of the builtin min if v (through integer conversions)
// is a call of it.
func minArgs(v ssa.Value) []ssa.Value {
	call, ok := stripConv(v).(*ssa.Call)
	if !ok {
		return nil
	}
	if bi, ok := call.Common().Value.(*ssa.Builtin); ok && bi.Name() == "min" {
		return call.Common().Args
	}
	return nil
}
