package main

// E1/E3: instruction-level control-flow graph of one SSA function with path,
// cut and typestate queries. Calls to diverging functions (E2) and panics end
// a path.

import (
	"fmt"
	"go/constant"
	"go/token"
	"go/types"
	"os"
	"sort"
	"strings"

	"golang.org/x/tools/go/ssa"
)

// IG is the instruction graph of one function.
type IG struct {
	M     *Module
	Fn    *ssa.Function
	Ins   []ssa.Instruction
	Idx   map[ssa.Instruction]int
	Succ  [][]int
	Pred  [][]int
	First map[*ssa.BasicBlock]int
	// CondOv overrides the condition of threaded copies of an If whose
	// condition is a boolean phi (see threadBoolPhis); Copies maps the
	// original If node to its copies.
	CondOv map[int]ssa.Value
	// Groups: for a threaded If, the edges that stand for its true (0) and
	// false (1) branch: those of its copies and the redirected edges whose
	// outcome was decided.
	Groups map[int]*[2][]Edge
	// GuardIf: the tests that modelDefers added for defers registered in one arm
	// of an if (node, branch on which the deferred call runs)
	GuardIf [][2]int
	// Via: see viaInfo
	Via map[Edge]viaInfo
	// flatStack: the merge blocks flattenCase is expanding (cycle detection)
	flatStack map[*ssa.BasicBlock]bool
	Copies    map[int][]int
	// Funcs: Fn, then the helpers spliced into the graph (see inl.go).
	Funcs   []*ssa.Function
	splices []igSplice
	// Deferred: synthetic call nodes that stand for a deferred call running at a
	// RunDefers (node -> the Defer instruction).
	Deferred map[int]*ssa.Defer
}

type igSplice struct {
	call  int
	h     *ssa.Function
	after []int
}

// Edge identifies the K-th out-edge of instruction From (for an If: 0 = true
// branch, 1 = false branch).
type Edge struct{ From, K int }

func newIG(m *Module, fn *ssa.Function, diverging map[*ssa.Function]bool) *IG {
	m.anchor(fn)
	g := &IG{M: m, Fn: fn, Idx: map[ssa.Instruction]int{}, First: map[*ssa.BasicBlock]int{}}
	// the analysed function, then the private helpers spliced into it
	g.Funcs = []*ssa.Function{fn}
	var splices []igSplice
	for fi := 0; fi < len(g.Funcs); fi++ {
		f := g.Funcs[fi]
		for _, b := range f.Blocks {
			g.First[b] = len(g.Ins)
			for _, in := range b.Instrs {
				n := len(g.Ins)
				g.Idx[in] = n
				if _, isRet := in.(*ssa.Return); isRet && fi > 0 {
					g.Ins = append(g.Ins, &inlRet{in})
				} else {
					g.Ins = append(g.Ins, in)
				}
				if h := m.helperOf(in); h != nil && !(diverging != nil && diverging[h]) {
					g.Funcs = append(g.Funcs, h)
					splices = append(splices, igSplice{call: n, h: h})
				}
			}
		}
	}
	g.Succ = make([][]int, len(g.Ins))
	for _, f := range g.Funcs {
		for _, b := range f.Blocks {
			base := g.First[b]
			for i, in := range b.Instrs {
				n := base + i
				if i < len(b.Instrs)-1 {
					if diverging != nil {
						if cc := callCommon(in); cc != nil {
							if _, isCall := in.(*ssa.Call); isCall && diverging[m.callee(cc)] {
								continue // path ends here
							}
						}
					}
					g.Succ[n] = []int{n + 1}
					continue
				}
				for _, s := range b.Succs {
					g.Succ[n] = append(g.Succ[n], g.First[s])
				}
			}
		}
	}
	for i := range splices {
		sp := &splices[i]
		after := g.Succ[sp.call]
		sp.after = after
		g.Succ[sp.call] = []int{g.First[sp.h.Blocks[0]]}
		for _, b := range sp.h.Blocks {
			last := g.First[b] + len(b.Instrs) - 1
			if _, ok := g.Ins[last].(*inlRet); ok {
				g.Succ[last] = after
			}
		}
	}
	g.modelDefers()
	g.splices = splices
	g.CondOv = map[int]ssa.Value{}
	g.Groups = map[int]*[2][]Edge{}
	g.Via = map[Edge]viaInfo{}
	g.Copies = map[int][]int{}
	if len(splices) > 0 {
		g.computePred()
		g.threadReturns()
	}
	g.threadBoolPhis()
	g.Pred = make([][]int, len(g.Ins))
	for n, ss := range g.Succ {
		for _, s := range ss {
			g.Pred[s] = append(g.Pred[s], n)
		}
	}
	return g
}

// threadBoolPhis undoes the materialisation of short-circuit conditions. When a
// && / || expression is used as a value (case expression of a tagless switch,
// `ok := a && b; if ok`), go/ssa evaluates it into a boolean phi and branches
// on the phi in a block that contains nothing else. Such a block is threaded:
// every incoming edge whose phi operand is a constant goes straight to the
// corresponding successor, every other incoming edge goes to a private copy of
// the If that tests the operand itself. The resulting graph has the same paths
// as if the condition had been written in an if statement.
// modelDefers makes deferred calls visible as calls. A `defer f(x)` that is
// executed on every path to a function's RunDefers (not inside a branch or a
// loop) runs f(x) exactly there, so a call node for it is placed after the
// RunDefers node, last registered first. A deferred function literal's body
// is spliced in the same way as a helper's. Defers that are registered only on
// some paths are left as they are (the rules then see no call).
var modelDefersOn = true

func (g *IG) modelDefers() {
	g.Deferred = map[int]*ssa.Defer{}
	if !modelDefersOn || !g.M.inlineOn {
		return
	}
	nfuncs := len(g.Funcs)
	for fi := 0; fi < nfuncs; fi++ {
		f := g.Funcs[fi]
		if len(f.Blocks) == 0 {
			continue
		}
		var defers []*ssa.Defer
		var runs []int
		for _, b := range f.Blocks {
			for _, in := range b.Instrs {
				switch x := in.(type) {
				case *ssa.Defer:
					defers = append(defers, x)
				case *ssa.RunDefers:
					runs = append(runs, g.Idx[in])
				}
			}
		}
		if len(defers) == 0 {
			continue
		}
		entry := g.First[f.Blocks[0]]
		for _, R := range runs {
			ok := true
			// a defer inside one arm of an if (not in a loop) runs exactly when that
			// arm was taken: it is modelled under a second test of the same condition
			guard := map[*ssa.Defer]Edge{}
			var live []*ssa.Defer // the defers that can have been registered when R runs
			for _, D := range defers {
				dn := g.Idx[D]
				// D on every path to R, and not on a cycle
				after := g.Reach(g.Succ[dn], nil, nil)
				if after[dn] {
					ok = false
				}
				if !after[R] {
					continue // this exit is left before D is registered
				}
				live = append(live, D)
				if p := g.Path([]int{entry}, nil, func(n int) bool { return n == dn }, func(n int) bool { return n == R }); p != nil {
					if e, isArm := g.armOf(D.Block()); isArm {
						guard[D] = e
					} else {
						ok = false
					}
				}
			}
			if !ok || len(live) == 0 {
				continue
			}
			next := g.Succ[R]
			cur := R
			for i := len(live) - 1; i >= 0; i-- {
				D := live[i]
				join := -1
				if e, guarded := guard[D]; guarded {
					// if <same condition> { deferred call }; join
					t := len(g.Ins)
					g.Ins = append(g.Ins, g.Ins[e.From])
					g.Succ = append(g.Succ, []int{-1, -1})
					join = len(g.Ins)
					g.Ins = append(g.Ins, g.Ins[R])
					g.Succ = append(g.Succ, nil)
					g.Succ[cur] = []int{t}
					g.Succ[t][1-e.K] = join
					g.GuardIf = append(g.GuardIf, [2]int{t, e.K})
					cur = t
				}
				n := len(g.Ins)
				fake := &ssa.Call{Call: D.Call}
				g.Ins = append(g.Ins, fake)
				g.Succ = append(g.Succ, nil)
				g.Idx[fake] = n
				g.Deferred[n] = D
				if join >= 0 {
					g.Succ[cur][guard[D].K] = n
				} else {
					g.Succ[cur] = []int{n}
				}
				cur = n
				if cl := g.M.deferClosure[D]; cl != nil && len(cl.Blocks) > 0 {
					// splice the literal's body once (the first RunDefers that needs it)
					if _, done := g.First[cl.Blocks[0]]; !done {
						g.Funcs = append(g.Funcs, cl)
						for _, b := range cl.Blocks {
							g.First[b] = len(g.Ins)
							for _, in := range b.Instrs {
								k := len(g.Ins)
								g.Idx[in] = k
								if _, isRet := in.(*ssa.Return); isRet {
									g.Ins = append(g.Ins, &inlRet{in})
								} else {
									g.Ins = append(g.Ins, in)
								}
								g.Succ = append(g.Succ, nil)
							}
						}
						for _, b := range cl.Blocks {
							base := g.First[b]
							for i, in := range b.Instrs {
								k := base + i
								if i < len(b.Instrs)-1 {
									g.Succ[k] = []int{k + 1}
									continue
								}
								if _, isRet := in.(*ssa.Return); isRet {
									continue
								}
								for _, sb := range b.Succs {
									g.Succ[k] = append(g.Succ[k], g.First[sb])
								}
							}
						}
						g.Succ[cur] = []int{g.First[cl.Blocks[0]]}
						// its returns continue after the deferred call (the body is spliced
						// at the first exit on which the defer can have been registered;
						// other such exits only get the call node)
						{
							// placeholder node that the returns lead to
							j := len(g.Ins)
							g.Ins = append(g.Ins, fake)
							g.Succ = append(g.Succ, nil)
							g.Deferred[j] = D
							for _, b := range cl.Blocks {
								last := g.First[b] + len(b.Instrs) - 1
								if _, ok := g.Ins[last].(*inlRet); ok {
									g.Succ[last] = []int{j}
								}
							}
							cur = j
						}
					}
				}
				if join >= 0 {
					g.Succ[cur] = []int{join}
					cur = join
				}
			}
			g.Succ[cur] = next
		}
	}
}

// armOf: block b is executed exactly when one edge of an If is taken: b is the
// target of that edge (or follows it in a straight line), the target has no
// other predecessor, and b is not in a loop.
func (g *IG) armOf(b *ssa.BasicBlock) (Edge, bool) {
	if h, _ := loopOf(b); h != nil {
		return Edge{}, false
	}
	for steps := 0; steps < 8; steps++ {
		if len(b.Preds) != 1 {
			return Edge{}, false
		}
		p := b.Preds[0]
		if len(p.Succs) == 1 {
			b = p
			continue
		}
		if _, isIf := p.Instrs[len(p.Instrs)-1].(*ssa.If); !isIf || len(p.Succs) != 2 || p.Succs[0] == p.Succs[1] {
			return Edge{}, false
		}
		k := 0
		if p.Succs[1] == b {
			k = 1
		}
		return Edge{g.First[p] + len(p.Instrs) - 1, k}, true
	}
	return Edge{}, false
}

func (g *IG) computePred() {
	g.Pred = make([][]int, len(g.Ins))
	for n, ss := range g.Succ {
		for _, s := range ss {
			g.Pred[s] = append(g.Pred[s], n)
		}
	}
}

// threadReturns connects each return of a spliced multi-return helper to the
// outcome of the test the caller makes on the returned value right after the
// call (`if err := helper(); err != nil`). For the return that yields the
// operand r the caller's test `call op K` is the test `r op K`: it is decided
// when r is a constant or when a fact that dominates that return decides it,
// and is otherwise a private copy of the If that tests r. The graph then has
// exactly the paths of the program in which the helper's body is written out
// at the call.
func (g *IG) threadReturns() {
	for _, sp := range g.splices {
		var rets []int
		for _, b := range sp.h.Blocks {
			last := g.First[b] + len(b.Instrs) - 1
			if _, ok := g.Ins[last].(*inlRet); ok {
				rets = append(rets, last)
			}
		}
		call, _ := g.Ins[sp.call].(*ssa.Call)
		if len(rets) < 2 || len(sp.after) != 1 || call == nil {
			continue
		}
		resIdx := func(v ssa.Value) (int, bool) {
			if v == ssa.Value(call) && call.Call.Signature().Results().Len() == 1 {
				return 0, true
			}
			if ex, ok := v.(*ssa.Extract); ok && ex.Tuple == ssa.Value(call) {
				return ex.Index, true
			}
			return 0, false
		}
		cur, testIf := sp.after[0], -1
		var chain []int // the nodes between the call and the test; they are kept on every threaded path
		for steps := 0; steps < 16 && cur >= 0; steps++ {
			in := g.Ins[cur]
			if _, isIf := in.(*ssa.If); isIf {
				testIf = cur
				break
			}
			switch x := in.(type) {
			case *ssa.Extract, *ssa.BinOp, *ssa.Jump, *ssa.DebugRef:
			case *ssa.UnOp:
				if x.Op == token.MUL {
					if _, ok := cellOf(x.X); !ok {
						cur = -1 // only loads of local variables
					}
				} else if x.Op != token.NOT {
					cur = -1
				}
			case *ssa.Store:
				// err = helper(): a store into a local variable
				if _, ok := cellOf(x.Addr); !ok {
					cur = -1
				}
			default:
				cur = -1
			}
			if cur < 0 || len(g.Succ[cur]) != 1 {
				cur = -1
				break
			}
			chain = append(chain, cur)
			cur = g.Succ[cur][0]
		}
		if testIf < 0 || len(g.Succ[testIf]) != 2 {
			continue
		}
		cond := g.Ins[testIf].(*ssa.If).Cond
		tT, tF := g.Succ[testIf][0], g.Succ[testIf][1]
		for {
			u, ok := cond.(*ssa.UnOp)
			if !ok || u.Op != token.NOT {
				break
			}
			cond = u.X
			tT, tF = tF, tT
		}
		var op token.Token
		var K ssa.Value
		idx, isRes := 0, false
		if b, ok := cond.(*ssa.BinOp); ok {
			switch b.Op {
			case token.EQL, token.NEQ, token.LSS, token.LEQ, token.GTR, token.GEQ:
				if i, ok := resIdx(b.X); ok {
					if _, isC := b.Y.(*ssa.Const); isC {
						op, K, idx, isRes = b.Op, b.Y, i, true
					}
				} else if i, ok := resIdx(b.Y); ok {
					if _, isC := b.X.(*ssa.Const); isC {
						op, K, idx, isRes = swapOp(b.Op), b.X, i, true
					}
				}
			}
		} else if i, ok := resIdx(cond); ok {
			idx, isRes = i, true
		}
		if !isRes {
			continue
		}
		for _, rn := range rets {
			ret := g.Ins[rn].(*inlRet).Instruction.(*ssa.Return)
			if idx >= len(ret.Results) {
				continue
			}
			r := ret.Results[idx]
			decided, val := false, false
			if K == nil {
				if c, ok := constBool(r); ok {
					decided, val = true, c
				}
			} else if rc, ok := r.(*ssa.Const); ok {
				decided, val = foldConstCmp(op, rc, K.(*ssa.Const))
			} else if lo, okLo := ivLowerBound(r); okLo && K.(*ssa.Const).Value != nil {
				// a counter that starts at a constant and only counts up is at least that constant
				if k, okK := constInt64(K); okK {
					switch {
					case op == token.LSS && lo >= k, op == token.LEQ && lo > k, op == token.EQL && lo > k:
						decided, val = true, false
					case op == token.GEQ && lo >= k, op == token.GTR && lo > k, op == token.NEQ && lo > k:
						decided, val = true, true
					}
				}
			} else if kc := K.(*ssa.Const); kc.Value == nil && (op == token.EQL || op == token.NEQ) && g.M.nonNilErrorGlobal(r) {
				// an error variable that is initialised once and never assigned is not nil
				decided, val = true, op == token.NEQ
			}
			if !decided {
				for _, f := range g.FactsAt(rn) {
					if K == nil {
						if f.Y == nil && f.X == r {
							decided, val = true, f.Op == token.EQL
						}
						continue
					}
					fop, fx, fy := f.Op, f.X, f.Y
					if fy == nil {
						continue
					}
					if _, xc := fx.(*ssa.Const); xc {
						fop, fx, fy = swapOp(fop), fy, fx
					}
					fk, ok := fy.(*ssa.Const)
					if !ok || fx != r || !sameConst(fk, K.(*ssa.Const)) {
						continue
					}
					if fop == op {
						decided, val = true, true
					} else if fop == negate(op) {
						decided, val = true, false
					}
				}
			}
			// the nodes between the call and the test stay on the path (a private copy)
			tail := rn
			for _, cn := range chain {
				k := len(g.Ins)
				g.Ins = append(g.Ins, g.Ins[cn])
				g.Succ = append(g.Succ, nil)
				g.Copies[cn] = append(g.Copies[cn], k)
				g.Succ[tail] = []int{k}
				tail = k
			}
			if decided {
				if val {
					g.Succ[tail] = []int{tT}
				} else {
					g.Succ[tail] = []int{tF}
				}
				continue
			}
			n := len(g.Ins)
			g.Ins = append(g.Ins, g.Ins[testIf])
			g.Succ = append(g.Succ, []int{tT, tF})
			if K == nil {
				g.CondOv[n] = r
			} else {
				g.CondOv[n] = &ssa.BinOp{Op: op, X: r, Y: K}
			}
			g.Copies[testIf] = append(g.Copies[testIf], n)
			g.Succ[tail] = []int{n}
		}
		// A result component that is used only where a single return of the
		// helper can lead (frame, err := helper(); if err != nil { return }; use
		// frame) *is* that return's operand there.
		refs := call.Referrers()
		if refs == nil {
			continue
		}
		for _, u := range append([]ssa.Instruction(nil), *refs...) {
			ex, ok := u.(*ssa.Extract)
			if !ok || ex.Referrers() == nil || len(*ex.Referrers()) == 0 {
				continue
			}
			feasible := -1
			okOne := true
			for _, rn := range rets {
				// (not through the call itself: in a later loop iteration the helper
				// runs again and the component is a new value)
				reach := g.Reach(g.Succ[rn], nil, func(k int) bool { return k == sp.call })
				for _, use := range *ex.Referrers() {
					un, inGraph := g.Idx[use]
					if !inGraph {
						okOne = false
						continue
					}
					hit := reach[un]
					for _, cp := range g.Copies[un] {
						hit = hit || reach[cp]
					}
					if hit {
						if feasible >= 0 && feasible != rn {
							okOne = false
						}
						feasible = rn
					}
				}
			}
			if okOne && feasible >= 0 {
				ret := g.Ins[feasible].(*inlRet).Instruction.(*ssa.Return)
				if ex.Index < len(ret.Results) {
					replaceUses(ex, ret.Results[ex.Index])
				}
			}
		}
	}
}

func sameConst(a, b *ssa.Const) bool {
	if a.Value == nil || b.Value == nil {
		return a.Value == nil && b.Value == nil
	}
	return constant.Compare(a.Value, token.EQL, b.Value)
}

func foldConstCmp(op token.Token, a, b *ssa.Const) (decided, val bool) {
	if a.Value == nil || b.Value == nil {
		if a.Value == nil && b.Value == nil {
			switch op {
			case token.EQL:
				return true, true
			case token.NEQ:
				return true, false
			}
		}
		return false, false
	}
	if a.Value.Kind() != b.Value.Kind() {
		return false, false
	}
	defer func() { recover() }()
	return true, constant.Compare(a.Value, op, b.Value)
}

func (g *IG) threadBoolPhis() {
	// repeated: a copy made for an outer condition can test the phi of an
	// inner one ((a && b) || c)
	for round := 0; round < 3; round++ {
		g.threadBoolPhisOnce()
	}
}

func (g *IG) threadBoolPhisOnce() {
	for _, f := range g.Funcs {
		for _, b := range f.Blocks {
			if len(b.Instrs) == 0 {
				continue
			}
			if _, ok := b.Instrs[0].(*ssa.Phi); !ok {
				continue
			}
			// from the phis, a straight line of effect-free nodes (more phis, the
			// return of a spliced helper, jumps, arithmetic) to an If that tests one
			// of them
			cur := g.First[b]
			orig := -1
			var chain []int // arithmetic between the phis and the test: kept on every threaded path
			for steps := 0; steps < 14; steps++ {
				in := g.Ins[cur]
				if _, isIf := in.(*ssa.If); isIf {
					orig = cur
					break
				}
				switch x := in.(type) {
				case *ssa.Phi, *inlRet, *ssa.Jump, *ssa.DebugRef:
				case *ssa.BinOp:
					if x.Op == token.QUO || x.Op == token.REM {
						cur = -1
					} else {
						chain = append(chain, cur)
					}
				case *ssa.Convert, *ssa.ChangeType:
					chain = append(chain, cur)
				case *ssa.UnOp:
					// the load of a local variable that was resolved to its value
					_, isCell := cellOf(x.X)
					if x.Op != token.MUL || !isCell || x.Referrers() == nil || len(*x.Referrers()) != 0 {
						cur = -1
					}
				default:
					cur = -1
				}
				if cur < 0 || len(g.Succ[cur]) != 1 {
					break
				}
				cur = g.Succ[cur][0]
			}
			if orig < 0 || len(g.Succ[orig]) != 2 || g.Succ[orig][0] == g.Succ[orig][1] {
				continue
			}
			ifi := g.Ins[orig].(*ssa.If)
			// the test: a boolean phi of b, or a phi of b compared with nil
			var phi *ssa.Phi
			var nilOp token.Token
			var nilK *ssa.Const
			switch c := g.Cond(orig).(type) {
			case *ssa.Phi:
				phi = c
			case *ssa.BinOp:
				if c.Op != token.EQL && c.Op != token.NEQ {
					break
				}
				x, y := c.X, c.Y
				if _, isC := x.(*ssa.Const); isC {
					x, y = y, x
				}
				k, isK := y.(*ssa.Const)
				xp, isP := x.(*ssa.Phi)
				if isK && isP && k.Value == nil && nillable(k.Type()) {
					phi, nilOp, nilK = xp, c.Op, k
				}
			}
			if phi == nil || phi.Block() != b {
				continue
			}
			if nilK == nil && len(chain) > 0 {
				// (the boolean form is kept as it was: nothing between the phis and the test)
				continue
			}
			tTrue, tFalse := g.Succ[orig][0], g.Succ[orig][1]
			grp := g.Groups[orig]
			if grp == nil {
				grp = &[2][]Edge{}
				g.Groups[orig] = grp
			}
			// the edges that enter b: those of its predecessors, and the edges an
			// earlier threading of a predecessor block has put in their place
			type inEdge struct {
				e   Edge
				idx int // operand index of the predecessor the edge stands for
			}
			var ins []inEdge
			used := map[*ssa.BasicBlock]int{}
			for i, p := range b.Preds {
				// the edge of p that enters b for the i-th time
				want := used[p]
				used[p]++
				pn := g.First[p] + len(p.Instrs) - 1
				seen := 0
				for k, sblk := range p.Succs {
					if sblk != b {
						continue
					}
					if seen != want {
						seen++
						continue
					}
					seen++
					if k < len(g.Succ[pn]) && g.Succ[pn][k] == g.First[b] {
						ins = append(ins, inEdge{Edge{pn, k}, i})
					}
				}
				if want == 0 {
					for e, via := range g.Via {
						if via.blk == p && e.K < len(g.Succ[e.From]) && g.Succ[e.From][e.K] == g.First[b] && e.From != pn {
							ins = append(ins, inEdge{e, i})
						}
					}
				}
			}
			sort.Slice(ins, func(x, y int) bool {
				if ins[x].e.From != ins[y].e.From {
					return ins[x].e.From < ins[y].e.From
				}
				return ins[x].e.K < ins[y].e.K
			})
			for _, ie := range ins {
				pn, k := ie.e.From, ie.e.K
				if g.Succ[pn][k] != g.First[b] {
					continue // already redirected
				}
				v := phi.Edges[ie.idx]
				// on an edge made by threading the predecessor, its merged value is
				// the operand that threading was done for
				if via, ok := g.Via[ie.e]; ok && via.phi != nil && v == ssa.Value(via.phi) {
					v = via.val
				}
				decided, val := false, false
				if nilK == nil {
					val, decided = constBool(v)
				} else if vc, isC := v.(*ssa.Const); isC {
					if vc.Value == nil {
						decided, val = true, nilOp == token.EQL
					}
				} else if g.M.nonNilErrorGlobal(v) {
					decided, val = true, nilOp == token.NEQ
				}
				if !decided {
					// a test on the way to this edge has already answered it
					known := g.factsNoExpand(pn)
					if f, ok := g.EdgeFact(pn, k); ok {
						known = append(known, f)
					}
					for _, f := range known {
						if f.X != v {
							continue
						}
						if nilK == nil {
							if f.Y == nil {
								decided, val = true, f.Op == token.EQL
							}
						} else if kc, isC := f.Y.(*ssa.Const); isC && kc.Value == nil && nillable(kc.Type()) && (f.Op == token.EQL || f.Op == token.NEQ) {
							decided, val = true, f.Op == nilOp
						}
					}
				}
				// the arithmetic stays on the path (a private copy)
				tailN, tailK := pn, k
				for _, cn := range chain {
					n := len(g.Ins)
					g.Ins = append(g.Ins, g.Ins[cn])
					g.Succ = append(g.Succ, []int{-1})
					g.Copies[cn] = append(g.Copies[cn], n)
					g.Succ[tailN][tailK] = n
					tailN, tailK = n, 0
				}
				if decided {
					if val {
						g.Succ[tailN][tailK] = tTrue
						grp[0] = append(grp[0], Edge{tailN, tailK})
					} else {
						g.Succ[tailN][tailK] = tFalse
						grp[1] = append(grp[1], Edge{tailN, tailK})
					}
					g.Via[Edge{tailN, tailK}] = viaInfo{b, phi, v}
					continue
				}
				n := len(g.Ins)
				g.Ins = append(g.Ins, ifi)
				g.Succ = append(g.Succ, []int{tTrue, tFalse})
				if nilK == nil {
					g.CondOv[n] = v
				} else {
					g.CondOv[n] = &ssa.BinOp{Op: nilOp, X: v, Y: nilK}
				}
				g.Copies[orig] = append(g.Copies[orig], n)
				g.Succ[tailN][tailK] = n
				grp[0] = append(grp[0], Edge{n, 0})
				grp[1] = append(grp[1], Edge{n, 1})
				g.Via[Edge{n, 0}] = viaInfo{b, phi, v}
				g.Via[Edge{n, 1}] = viaInfo{b, phi, v}
			}
		}
	}
}

// viaInfo: the edge was made by threading block blk for a predecessor on which
// blk's merged value phi is val.
type viaInfo struct {
	blk *ssa.BasicBlock
	phi *ssa.Phi
	val ssa.Value
}

// nillable: values of t can be compared with nil.
func nillable(t types.Type) bool {
	switch t.Underlying().(type) {
	case *types.Pointer, *types.Interface, *types.Slice, *types.Map, *types.Signature, *types.Chan:
		return true
	}
	return false
}

// Cond returns the condition tested by If node n.
func (g *IG) Cond(n int) ssa.Value {
	if v, ok := g.CondOv[n]; ok {
		return v
	}
	if ifi, ok := g.Ins[n].(*ssa.If); ok {
		return ifi.Cond
	}
	return nil
}

// Reach computes forward reachability from the given start nodes. Edges in cut
// are not followed; nodes for which stop returns true are marked reached but
// not expanded.
func (g *IG) Reach(from []int, cut map[Edge]bool, stop func(int) bool) []bool {
	seen := make([]bool, len(g.Ins))
	var work []int
	for _, f := range from {
		if !seen[f] {
			seen[f] = true
			work = append(work, f)
		}
	}
	for len(work) > 0 {
		n := work[len(work)-1]
		work = work[:len(work)-1]
		if stop != nil && stop(n) {
			continue
		}
		for k, s := range g.Succ[n] {
			if cut != nil && cut[Edge{n, k}] {
				continue
			}
			if !seen[s] {
				seen[s] = true
				work = append(work, s)
			}
		}
	}
	return seen
}

// Path returns one path (list of nodes) from `from` to a node satisfying goal,
// or nil. Nodes for which stop is true are not expanded.
func (g *IG) Path(from []int, cut map[Edge]bool, stop func(int) bool, goal func(int) bool) []int {
	parent := make([]int, len(g.Ins))
	for i := range parent {
		parent[i] = -2
	}
	var queue []int
	for _, f := range from {
		if parent[f] == -2 {
			parent[f] = -1
			queue = append(queue, f)
		}
	}
	for len(queue) > 0 {
		n := queue[0]
		queue = queue[1:]
		if goal(n) {
			var p []int
			for x := n; x != -1; x = parent[x] {
				p = append([]int{x}, p...)
			}
			return p
		}
		if stop != nil && stop(n) {
			continue
		}
		for k, s := range g.Succ[n] {
			if cut != nil && cut[Edge{n, k}] {
				continue
			}
			if parent[s] == -2 {
				parent[s] = n
				queue = append(queue, s)
			}
		}
	}
	return nil
}

// where renders the source positions of the instructions of a path that have
// one (deduplicated, at most max entries).
func (g *IG) where(path []int, max int) []string {
	var out []string
	last := ""
	for _, n := range path {
		p := g.Ins[n].Pos()
		if !p.IsValid() {
			continue
		}
		s := g.M.pos(p)
		if s != last {
			out = append(out, s)
			last = s
		}
	}
	if max > 0 && len(out) > max {
		out = append(out[:max/2], out[len(out)-max/2:]...)
	}
	return out
}

func (g *IG) posOf(n int) string {
	p := g.Ins[n].Pos()
	if !p.IsValid() {
		// fall back to the nearest instruction of the same block with a position
		b := g.Ins[n].Block()
		if b == nil {
			if d, ok := g.Deferred[n]; ok {
				return g.M.pos(d.Pos())
			}
			return "-"
		}
		for _, in := range b.Instrs {
			if in.Pos().IsValid() {
				p = in.Pos()
				break
			}
		}
	}
	return g.M.pos(p)
}

// Nodes returns the indices of all instructions satisfying pred.
func (g *IG) Nodes(pred func(in ssa.Instruction) bool) []int {
	var out []int
	for i, in := range g.Ins {
		if pred(in) {
			out = append(out, i)
		}
	}
	return out
}

func (g *IG) Returns() []int {
	return g.Nodes(func(in ssa.Instruction) bool { _, ok := in.(*ssa.Return); return ok && in.Parent() == g.Fn })
}

// MustPassBefore: every path from the entry to target passes an instruction
// satisfying pred. Returns a counterexample path otherwise.
func (g *IG) MustPassBefore(target int, pred func(int) bool) (bool, []int) {
	stop := func(n int) bool { return n != target && pred(n) }
	p := g.Path([]int{0}, nil, stop, func(n int) bool { return n == target })
	if p == nil {
		return true, nil
	}
	return false, p
}

// MustPassAfter: every path from `from` (exclusive) to an instruction
// satisfying exit passes an instruction satisfying pred first. Returns a
// counterexample path otherwise.
func (g *IG) MustPassAfter(from int, pred func(int) bool, exit func(int) bool) (bool, []int) {
	p := g.Path(g.Succ[from], nil, pred, func(n int) bool { return !pred(n) && exit(n) })
	if p == nil {
		return true, nil
	}
	return false, append([]int{from}, p...)
}

// ---- facts on If edges ----

// Fact is a comparison known to hold on an If edge: X Op Y. For a boolean
// condition that is not a comparison, Y is nil and Op is EQL (X is true) or
// NEQ (X is false).
type Fact struct {
	Op   token.Token
	X, Y ssa.Value
	Edge Edge
}

func negate(op token.Token) token.Token {
	switch op {
	case token.EQL:
		return token.NEQ
	case token.NEQ:
		return token.EQL
	case token.LSS:
		return token.GEQ
	case token.GEQ:
		return token.LSS
	case token.GTR:
		return token.LEQ
	case token.LEQ:
		return token.GTR
	}
	return token.ILLEGAL
}

// swapOp mirrors a comparison: X op Y == Y swap(op) X.
func swapOp(op token.Token) token.Token {
	switch op {
	case token.LSS:
		return token.GTR
	case token.GTR:
		return token.LSS
	case token.LEQ:
		return token.GEQ
	case token.GEQ:
		return token.LEQ
	}
	return op
}

func condFact(cond ssa.Value, branch bool) (Fact, bool) {
	for {
		if u, ok := cond.(*ssa.UnOp); ok && u.Op == token.NOT {
			cond = u.X
			branch = !branch
			continue
		}
		break
	}
	if b, ok := cond.(*ssa.BinOp); ok {
		switch b.Op {
		case token.EQL, token.NEQ, token.LSS, token.LEQ, token.GTR, token.GEQ:
			op := b.Op
			if !branch {
				op = negate(op)
			}
			// comparisons of booleans with constants: x == true
			if bt, ok := b.X.Type().Underlying().(*types.Basic); ok && bt.Info()&types.IsBoolean != 0 {
				if c, ok := constBool(b.Y); ok && (op == token.EQL || op == token.NEQ) {
					if (op == token.EQL) == c {
						return Fact{Op: token.EQL, X: b.X}, true
					}
					return Fact{Op: token.NEQ, X: b.X}, true
				}
			}
			// unsigned comparisons with 0 and 1 in one spelling: x > 0, x >= 1 are x != 0;
			// x <= 0, x < 1 are x == 0 (also with the operands mirrored)
			{
				fx, fy, fop := b.X, b.Y, op
				if _, xc := fx.(*ssa.Const); xc {
					fx, fy, fop = fy, fx, swapOp(fop)
				}
				if bt, ok := fx.Type().Underlying().(*types.Basic); ok && bt.Info()&types.IsUnsigned != 0 {
					if k, isK := constUint64(fy); isK {
						zero := ssa.NewConst(constant.MakeInt64(0), fx.Type())
						switch {
						case k == 0 && fop == token.GTR, k == 1 && fop == token.GEQ:
							return Fact{Op: token.NEQ, X: fx, Y: zero}, true
						case k == 0 && fop == token.LEQ, k == 1 && fop == token.LSS:
							return Fact{Op: token.EQL, X: fx, Y: zero}, true
						}
					}
				}
			}
			// x&M == M with a single-bit mask M is x&M != 0
			if op == token.EQL || op == token.NEQ {
				for _, pr := range [][2]ssa.Value{{b.X, b.Y}, {b.Y, b.X}} {
					if _, mask, ok := maskTest(pr[0]); ok && mask != 0 && mask&(mask-1) == 0 {
						if k, ok := constUint64(pr[1]); ok && k == mask {
							flip := token.NEQ
							if op == token.NEQ {
								flip = token.EQL
							}
							return Fact{Op: flip, X: pr[0], Y: ssa.NewConst(constant.MakeInt64(0), pr[1].Type())}, true
						}
					}
				}
			}
			return Fact{Op: op, X: b.X, Y: b.Y}, true
		}
	}
	if branch {
		return Fact{Op: token.EQL, X: cond}, true
	}
	return Fact{Op: token.NEQ, X: cond}, true
}

// EdgeFact returns the fact that holds on out-edge k of If instruction n.
func (g *IG) EdgeFact(n, k int) (Fact, bool) {
	_, ok := g.Ins[n].(*ssa.If)
	if !ok || len(g.Succ[n]) != 2 || g.Succ[n][0] == g.Succ[n][1] {
		return Fact{}, false
	}
	f, ok := condFact(g.Cond(n), k == 0)
	f.Edge = Edge{n, k}
	return f, ok
}

// AllEdgeFacts lists the facts of all If edges of the function.
func (g *IG) rawEdgeFacts() []Fact {
	var out []Fact
	for n := range g.Ins {
		if _, ok := g.Ins[n].(*ssa.If); !ok {
			continue
		}
		for k := 0; k < 2; k++ {
			if f, ok := g.EdgeFact(n, k); ok {
				out = append(out, f)
			}
		}
	}
	return out
}

// factsNoExpand: the facts of the If edges every path to target crosses,
// without derived facts.
func (g *IG) factsNoExpand(target int) []Fact {
	var out []Fact
	base := g.Reach([]int{0}, nil, nil)
	if !base[target] {
		return nil
	}
	for _, f := range g.rawEdgeFacts() {
		if !base[f.Edge.From] {
			continue
		}
		if r := g.Reach([]int{0}, map[Edge]bool{f.Edge: true}, nil); !r[target] && !g.stale(f, target) {
			out = append(out, f)
		}
	}
	return out
}

// stale: the fact is about a merged value (a phi) that is merged again on some
// way from the test to target that does not pass the test once more: what was
// tested is then an earlier value of the variable. (Without threaded copies of
// tests this cannot happen for a test that every path to target crosses.)
func (g *IG) stale(f Fact, target int) bool {
	return g.staleVia(f, []Edge{f.Edge}, target)
}

// staleVia: the same for a fact that holds on each of the given edges.
func (g *IG) staleVia(f Fact, edges []Edge, target int) bool {
	var phis []*ssa.Phi
	for _, v := range []ssa.Value{f.X, f.Y} {
		if v == nil {
			continue
		}
		if p, ok := stripConv(v).(*ssa.Phi); ok {
			phis = append(phis, p)
		}
	}
	if len(phis) == 0 || len(g.Via) == 0 {
		return false
	}
	cut := map[Edge]bool{}
	var starts []int
	for _, e := range edges {
		if e.K >= len(g.Succ[e.From]) {
			continue
		}
		cut[e] = true
		starts = append(starts, g.Succ[e.From][e.K])
	}
	if len(starts) == 0 {
		return false
	}
	r1 := g.Reach(starts, cut, nil)
	for _, p := range phis {
		b := p.Block()
		for n, ss := range g.Succ {
			if !r1[n] || g.Ins[n] == nil || g.Ins[n].Block() == b || g.Ins[n].Block() == nil {
				continue
			}
			for k, sn := range ss {
				if sn < 0 || g.Ins[sn] == nil || g.Ins[sn].Block() != b {
					continue
				}
				if cut[Edge{n, k}] {
					continue
				}
				if sn == target || g.Reach([]int{sn}, cut, nil)[target] {
					return true
				}
			}
		}
	}
	return false
}

func (g *IG) AllEdgeFacts() []Fact {
	var out []Fact
	for n := range g.Ins {
		if _, ok := g.Ins[n].(*ssa.If); !ok {
			continue
		}
		for k := 0; k < 2; k++ {
			if f, ok := g.EdgeFact(n, k); ok {
				out = append(out, f)
				// the fact a test of a merged value implies for the one operand it can be
				if phi, isPhi := f.X.(*ssa.Phi); isPhi && f.Y != nil {
					_ = phi
					for _, d := range g.expandBoolPhis([]Fact{f}, 0)[1:] {
						d.Edge = f.Edge
						out = append(out, d)
					}
				}
			}
		}
	}
	return out
}

// FactsAt returns the facts of every If edge that all paths from the entry to
// target must cross (the target is unreachable when the edge is removed).
func (g *IG) FactsAt(target int) []Fact {
	var out []Fact
	base := g.Reach([]int{0}, nil, nil)
	if !base[target] {
		if cps := g.Copies[target]; len(cps) > 0 {
			// a threaded If: the facts common to all its copies
			var common []Fact
			for i, cn := range cps {
				fs := g.FactsAt(cn)
				if i == 0 {
					common = fs
					continue
				}
				var keep []Fact
				for _, a := range common {
					for _, b := range fs {
						if a.Op == b.Op && a.X == b.X && a.Y == b.Y {
							keep = append(keep, a)
							break
						}
					}
				}
				common = keep
			}
			return common
		}
		return nil
	}
	for _, f := range g.rawEdgeFacts() {
		if !base[f.Edge.From] {
			continue
		}
		r := g.Reach([]int{0}, map[Edge]bool{f.Edge: true}, nil)
		if !r[target] && !g.stale(f, target) {
			out = append(out, f)
		}
	}
	// a threaded test: all the edges that stand for one of its branches
	for orig, grp := range g.Groups {
		for k := 0; k < 2; k++ {
			if len(grp[k]) < 1 {
				continue
			}
			cut := map[Edge]bool{}
			for _, e := range grp[k] {
				cut[e] = true
			}
			if base[orig] {
				cut[Edge{orig, k}] = true
			}
			if r := g.Reach([]int{0}, cut, nil); !r[target] {
				if f, ok := condFact(g.Ins[orig].(*ssa.If).Cond, k == 0); ok {
					f.Edge = Edge{orig, k}
					var es []Edge
					for e := range cut {
						es = append(es, e)
					}
					if !g.staleVia(f, es, target) {
						out = append(out, f)
					}
				}
			}
		}
	}
	return g.expandBoolPhis(out, 0)
}

// expandBoolPhis adds, for every fact "phi is true" where phi is the value of a
// short-circuit && (all operands but one are the constant false), the facts
// that the remaining operand is true and everything that dominates the block it
// comes from; dually for "phi is false" of a short-circuit ||. go/ssa builds
// such phis when a && / || expression is used as a value (e.g. as the case
// expression of a tagless switch).
func (g *IG) expandBoolPhis(facts []Fact, depth int) []Fact {
	if depth > 4 {
		return facts
	}
	out := facts
	for _, f := range facts {
		if f.Y != nil {
			// phi op K with a constant K: the phi has the value of one of its
			// operands; constant operands that fail the test are excluded, and
			// if one operand remains the fact holds of it (`err != nil` where
			// err merges nil and the result of the call in the loop)
			phi, isPhi := f.X.(*ssa.Phi)
			k, isK := f.Y.(*ssa.Const)
			if !isPhi || !isK {
				continue
			}
			var rest ssa.Value
			n, okShape := 0, true
			var pe []Edge
			if _, inGraph := g.Idx[phi]; inGraph && depth < 2 {
				pe = g.predEdges(phi.Block())
			}
			for i, e := range phi.Edges {
				if ec, isC := e.(*ssa.Const); isC {
					if dec, val := foldConstCmp(f.Op, ec, k); dec && !val {
						continue
					}
					okShape = false
					continue
				}
				if e == ssa.Value(phi) {
					continue
				}
				// an operand already known (on its incoming edge) to fail the test
				if pe != nil && i < len(pe) {
					known := g.factsNoExpand(pe[i].From)
					if ft, ok := g.EdgeFact(pe[i].From, pe[i].K); ok {
						known = append(known, ft)
					}
					excluded := false
					for _, kf := range known {
						kc, isKC := kf.Y.(*ssa.Const)
						if kf.Y == nil || !isKC || kf.X != e || !sameConst(kc, k) {
							continue
						}
						if kf.Op == negate(f.Op) {
							excluded = true
						}
					}
					if excluded {
						continue
					}
				}
				rest = e
				n++
			}
			if okShape && n == 1 {
				out = append(out, Fact{Op: f.Op, X: rest, Y: f.Y, Edge: f.Edge})
			}
			continue
		}
		phi, ok := f.X.(*ssa.Phi)
		if !ok {
			continue
		}
		want := f.Op == token.EQL // phi is true
		var rest ssa.Value
		restIdx := -1
		okShape := true
		for i, e := range phi.Edges {
			if b, isC := constBool(e); isC {
				if b == want {
					okShape = false // a constant edge already decides the wanted value
				}
				continue
			}
			if rest != nil {
				okShape = false
			}
			rest, restIdx = e, i
		}
		if !okShape || rest == nil {
			continue
		}
		if nf, ok := condFact(rest, want); ok {
			nf.Edge = f.Edge
			out = append(out, nf)
		}
		pe := g.predEdges(phi.Block())
		sub := g.FactsAt(pe[restIdx].From)
		if ft, ok := g.EdgeFact(pe[restIdx].From, pe[restIdx].K); ok {
			sub = append(sub, ft)
		}
		out = append(out, g.expandBoolPhis(sub, depth+1)...)
	}
	return out
}

// UnreachableWithout reports whether target becomes unreachable from the entry
// when all the given edges are removed.
func (g *IG) UnreachableWithout(target int, edges []Edge) bool {
	cut := map[Edge]bool{}
	for _, e := range edges {
		cut[e] = true
	}
	return !g.Reach([]int{0}, cut, nil)[target]
}

// hasFact reports whether one of the facts satisfies pred.
func hasFact(facts []Fact, pred func(Fact) bool) bool {
	for _, f := range facts {
		if pred(f) {
			return true
		}
	}
	return false
}

// cmpMatch tests whether fact f states `a op b` for values matched by pa/pb,
// in either operand order.
func cmpMatch(f Fact, op token.Token, pa, pb func(ssa.Value) bool) bool {
	if f.Y == nil {
		return false
	}
	if f.Op == op && pa(f.X) && pb(f.Y) {
		return true
	}
	if swapOp(f.Op) == op && f.Op != op && pa(f.Y) && pb(f.X) {
		return true
	}
	if (op == token.EQL || op == token.NEQ) && f.Op == op && pa(f.Y) && pb(f.X) {
		return true
	}
	return false
}

// ---- E2: diverging functions ----

// divergingFuncs computes the least fixpoint of "no Return instruction is
// reachable from the entry when panics and calls to diverging functions end a
// path". Functions without a body are assumed to return, except those named in
// haltRoots (by role: the CPU halt primitive).
func divergingFuncs(m *Module, haltRoots map[*ssa.Function]bool) map[*ssa.Function]bool {
	div := map[*ssa.Function]bool{}
	for f := range haltRoots {
		div[f] = true
	}
	for changed := true; changed; {
		changed = false
		for _, fn := range m.Funcs {
			if div[fn] {
				continue
			}
			save := m.anchorOff
			m.anchorOff = true
			g := newIG(m, fn, div)
			m.anchorOff = save
			r := g.Reach([]int{0}, nil, nil)
			ret := false
			for _, n := range g.Returns() {
				if r[n] {
					ret = true
					break
				}
			}
			if !ret {
				div[fn] = true
				changed = true
			}
		}
	}
	return div
}

// ---- typestate ----

// Flow runs a forward may-analysis over small state sets (bit i = state i may
// hold before the instruction). transfer maps (instruction, state) to the set
// of successor states (as a bitset); returning 0 ends the path.
func (g *IG) Flow(init uint32, transfer func(n int, state int) uint32) []uint32 {
	in := make([]uint32, len(g.Ins))
	if len(g.Ins) == 0 {
		return in
	}
	in[0] = init
	work := []int{0}
	for len(work) > 0 {
		n := work[len(work)-1]
		work = work[:len(work)-1]
		var out uint32
		for s := 0; s < 32; s++ {
			if in[n]&(1<<uint(s)) != 0 {
				out |= transfer(n, s)
			}
		}
		for _, s := range g.Succ[n] {
			if in[s]|out != in[s] {
				in[s] |= out
				work = append(work, s)
			}
		}
	}
	return in
}

// ---- loops and block edges ----

// blockEdge returns the instruction-graph edge that corresponds to the CFG
// edge from block p to its k-th successor.
func (g *IG) blockEdge(p *ssa.BasicBlock, k int) Edge {
	return Edge{g.First[p] + len(p.Instrs) - 1, k}
}

// predEdges returns, for block b, the instruction-graph edge of each incoming
// CFG edge, in the order of b.Preds (the order of phi operands).
func (g *IG) predEdges(b *ssa.BasicBlock) []Edge {
	out := make([]Edge, len(b.Preds))
	used := map[*ssa.BasicBlock]int{}
	for i, p := range b.Preds {
		// the i-th occurrence of p among b.Preds corresponds to the i-th
		// occurrence of b among p.Succs
		want := used[p]
		used[p]++
		seen := 0
		for k, s := range p.Succs {
			if s == b {
				if seen == want {
					out[i] = g.blockEdge(p, k)
					break
				}
				seen++
			}
		}
	}
	return out
}

// edgeCrosses reports whether every path from the entry that takes edge e has
// crossed one of the edges in through (e itself counts).
func (g *IG) edgeCrosses(e Edge, through []Edge) bool {
	cut := map[Edge]bool{}
	for _, t := range through {
		if t == e {
			return true
		}
		cut[t] = true
	}
	return !g.Reach([]int{0}, cut, nil)[e.From]
}

// loopOf returns the header and body of the innermost natural loop containing
// block b (nil if b is not in a loop).
func loopOf(b *ssa.BasicBlock) (header *ssa.BasicBlock, body map[*ssa.BasicBlock]bool) {
	if b == nil {
		return nil, nil
	}
	fn := b.Parent()
	best := -1
	for _, h := range fn.Blocks {
		var bd map[*ssa.BasicBlock]bool
		for _, p := range h.Preds {
			if !h.Dominates(p) {
				continue
			}
			// natural loop of back edge p->h
			if bd == nil {
				bd = map[*ssa.BasicBlock]bool{h: true}
			}
			work := []*ssa.BasicBlock{p}
			for len(work) > 0 {
				x := work[len(work)-1]
				work = work[:len(work)-1]
				if bd[x] {
					continue
				}
				bd[x] = true
				work = append(work, x.Preds...)
			}
		}
		if bd != nil && bd[b] && (best < 0 || len(bd) < best) {
			best = len(bd)
			header, body = h, bd
		}
	}
	return
}

// ---- return cases ----

// RetCase is one way a function can return: the returned values after
// flattening result phis of the return block (a single-exit function with a
// result variable returns phi(v1, v2, ...): one case per incoming edge) and
// after resolving results that were spilled to locals because of a defer.
type RetCase struct {
	Ret  int         // node of the Return instruction
	Vals []ssa.Value // returned values in this case
	At   int         // node whose dominating facts hold in this case
	Edge *Edge       // incoming edge taken in this case (nil: the return itself)
	// Req: what the tests passed between At and the return say, with merged
	// values replaced by the operands of this case (used to drop impossible cases)
	Req []Fact
}

func (g *IG) ReturnCases() []RetCase {
	var out []RetCase
	for _, rn := range g.Returns() {
		ret := g.Ins[rn].(*ssa.Return)
		if ret.Block() == g.Fn.Recover {
			continue
		}
		vals := make([]ssa.Value, len(ret.Results))
		for i, r := range ret.Results {
			vals[i] = g.unspill(rn, r)
		}
		out = append(out, g.flattenCase(RetCase{Ret: rn, Vals: vals, At: rn}, ret.Block(), 0)...)
	}
	if d := os.Getenv("FFC_DEBUG_CASES"); d != "" && strings.Contains(g.Fn.String(), d) {
		for _, rc := range out {
			fmt.Fprintf(os.Stderr, "CASE %s ret=%s at=%s edge=%v vals=%v\n", g.Fn.Name(), g.posOf(rc.Ret), g.posOf(rc.At), rc.Edge, rc.Vals)
			for _, f := range g.CaseFacts(rc) {
				fmt.Fprintf(os.Stderr, "     fact %v %v %v\n", f.X, f.Op, f.Y)
			}
		}
	}
	return out
}

// unspill resolves `*local` where local is a result slot stored in the same
// block before node n (defer-spilled results).
func (g *IG) unspill(n int, r ssa.Value) ssa.Value {
	ld, ok := r.(*ssa.UnOp)
	if !ok || ld.Op != token.MUL {
		return r
	}
	al, ok := ld.X.(*ssa.Alloc)
	if !ok {
		return r
	}
	b := g.Ins[n].Block()
	var last ssa.Value
	for _, in := range b.Instrs {
		if in == g.Ins[n] {
			break
		}
		if st, ok := in.(*ssa.Store); ok && st.Addr == ssa.Value(al) {
			last = st.Val
		}
	}
	if last == nil {
		return r
	}
	return last
}

func (g *IG) flattenCase(c RetCase, blk *ssa.BasicBlock, depth int) []RetCase {
	if depth > 12 {
		return []RetCase{c}
	}
	// a value returned by a spliced multi-return helper: one case per return of
	// the helper (single-return helpers were resolved by replaceUses)
	// resOf: v is a result component of a call
	resOf := func(v ssa.Value) (*ssa.Call, int) {
		switch x := v.(type) {
		case *ssa.Call:
			return x, 0
		case *ssa.Extract:
			if cl, ok := x.Tuple.(*ssa.Call); ok {
				return cl, x.Index
			}
		}
		return nil, 0
	}
	// nilCmpOf: v is `r == nil` / `r != nil` for a result component r of a call
	nilCmpOf := func(v ssa.Value) (*ssa.Call, int, token.Token) {
		cmp, ok := v.(*ssa.BinOp)
		if !ok || (cmp.Op != token.EQL && cmp.Op != token.NEQ) {
			return nil, 0, 0
		}
		for _, pr := range [][2]ssa.Value{{cmp.X, cmp.Y}, {cmp.Y, cmp.X}} {
			if isNilConst(pr[1]) {
				if cl, i := resOf(pr[0]); cl != nil {
					return cl, i, cmp.Op
				}
			}
		}
		return nil, 0, 0
	}
	for _, v := range c.Vals {
		call, _ := resOf(v)
		if call == nil {
			call, _, _ = nilCmpOf(v)
		}
		if call == nil {
			continue
		}
		h := g.M.helperOf(call)
		if h == nil {
			continue
		}
		if _, inGraph := g.Idx[call]; !inGraph {
			continue
		}
		var out []RetCase
		for _, b := range h.Blocks {
			last := g.First[b] + len(b.Instrs) - 1
			ir, ok := g.Ins[last].(*inlRet)
			if !ok {
				continue
			}
			ret := ir.Instruction.(*ssa.Return)
			// (a return of the helper that the caller's test of the result sends
			// elsewhere does not lead to this case)
			cn := g.Idx[call]
			if r := g.Reach(g.Succ[last], nil, func(k int) bool { return k == cn }); !r[c.At] && c.At != last {
				continue
			}
			nc := RetCase{Ret: c.Ret, Vals: make([]ssa.Value, len(c.Vals)), At: last}
			nc.Req = append(nc.Req, c.Req...)
			// what every way from this return of the helper to the case's node tests
			// (the caller's `if err != nil` after the call) belongs to the case
			if c.At != last {
				stop := func(k int) bool { return k == cn }
				r0 := g.Reach(g.Succ[last], nil, stop)
				for _, f := range g.rawEdgeFacts() {
					if !r0[f.Edge.From] {
						continue
					}
					if r := g.Reach(g.Succ[last], map[Edge]bool{f.Edge: true}, stop); !r[c.At] {
						nc.Req = append(nc.Req, f)
					}
				}
			}
			for j, w := range c.Vals {
				nc.Vals[j] = w
				if w == ssa.Value(call) && len(ret.Results) == 1 {
					nc.Vals[j] = ret.Results[0]
				} else if ex, ok := w.(*ssa.Extract); ok && ex.Tuple == ssa.Value(call) && ex.Index < len(ret.Results) {
					nc.Vals[j] = ret.Results[ex.Index]
				} else if cl, idx, op := nilCmpOf(w); cl == call && idx < len(ret.Results) {
					// `return helper() == nil`: decided by what this return of the helper gives
					o := ret.Results[idx]
					isNil, nonNil := g.caseNil(RetCase{At: last}, o)
					switch {
					case isNil:
						nc.Vals[j] = boolConst(op == token.EQL)
					case nonNil:
						nc.Vals[j] = boolConst(op == token.NEQ)
					}
				}
			}
			out = append(out, g.flattenCase(nc, b, depth+1)...)
		}
		if len(out) > 0 {
			return out
		}
	}
	hasPhi := false
	for _, v := range c.Vals {
		if phi, ok := v.(*ssa.Phi); ok && phi.Block() == blk {
			hasPhi = true
		}
		// a computed boolean result (return cond) at a merge point: one case
		// per incoming path, on which an earlier test of cond decides it
		// (the same for any computed result: `if err == nil { activate() }; return err`
		// returns one value on two paths with different facts about it)
		if _, isC := v.(*ssa.Const); !isC && depth == 0 && len(blk.Preds) > 1 && g.Ins[c.Ret].Block() == blk {
			if phi, isPhi := v.(*ssa.Phi); !isPhi || phi.Block() != blk {
				hasPhi = true
			}
		}
	}
	if !hasPhi {
		// a value merged further up (the variable of a loop that the return
		// follows): its cases are those of the merge
		for _, v := range c.Vals {
			if phi, ok := v.(*ssa.Phi); ok && phi.Block() != blk && !g.flatStack[phi.Block()] && phi.Block().Dominates(blk) {
				if _, inGraph := g.Idx[phi]; inGraph {
					// (not when the case already says whether it is nil: `if err == nil
					// { ... return x, err }` returns a nil err whatever it merges)
					if nillable(phi.Type()) {
						if isNil, nonNil := g.caseNil(c, v); isNil || nonNil {
							continue
						}
					}
					return g.flattenCase(c, phi.Block(), depth+1)
				}
			}
		}
		return []RetCase{c}
	}
	if g.flatStack == nil {
		g.flatStack = map[*ssa.BasicBlock]bool{}
	}
	if g.flatStack[blk] {
		return []RetCase{c}
	}
	g.flatStack[blk] = true
	defer func() { delete(g.flatStack, blk) }()
	var out []RetCase
	pe := g.predEdges(blk)
	for i := range blk.Preds {
		nc := RetCase{Ret: c.Ret, Vals: make([]ssa.Value, len(c.Vals)), At: pe[i].From}
		e := pe[i]
		nc.Edge = &e
		carried, fresh := false, false
		for j, v := range c.Vals {
			if phi, ok := v.(*ssa.Phi); ok && phi.Block() == blk {
				nc.Vals[j] = phi.Edges[i]
				// around a loop the variable keeps the value it has: one of the
				// cases of the merge that is being expanded further out
				if ep, isPhi := phi.Edges[i].(*ssa.Phi); isPhi && g.flatStack[ep.Block()] {
					carried = true
				} else {
					fresh = true
				}
			} else {
				nc.Vals[j] = v
				// a returned comparison of a merged value with nil (return err == nil)
				// has, on this edge, the value the comparison has for the operand
				if cmp, ok := v.(*ssa.BinOp); ok && (cmp.Op == token.EQL || cmp.Op == token.NEQ) {
					for _, pr := range [][2]ssa.Value{{cmp.X, cmp.Y}, {cmp.Y, cmp.X}} {
						phi, isPhi := pr[0].(*ssa.Phi)
						if !isPhi || phi.Block() != blk || !isNilConst(pr[1]) {
							continue
						}
						op := phi.Edges[i]
						switch {
						case isNilConst(op):
							nc.Vals[j] = boolConst(cmp.Op == token.EQL)
							fresh = true
						case g.M.nonNilErrorGlobal(op):
							nc.Vals[j] = boolConst(cmp.Op == token.NEQ)
							fresh = true
						}
					}
				}
			}
		}
		if carried && !fresh {
			if os.Getenv("FFC_DEBUG_CASES") != "" {
				fmt.Fprintf(os.Stderr, "  SKIP carried blk=%d pred=%d\n", blk.Index, blk.Preds[i].Index)
			}
			continue
		}
		// what later tests said about the merged values must be possible for the
		// operands of this edge
		for _, r := range c.Req {
			if phi, ok := r.X.(*ssa.Phi); ok && phi.Block() == blk {
				r.X = phi.Edges[i]
			}
			if r.Y != nil {
				if phi, ok := r.Y.(*ssa.Phi); ok && phi.Block() == blk {
					r.Y = phi.Edges[i]
				}
			}
			nc.Req = append(nc.Req, r)
		}
		if f, ok := g.EdgeFact(e.From, e.K); ok {
			nc.Req = append(nc.Req, f)
		}
		if g.infeasible(nc) {
			if os.Getenv("FFC_DEBUG_CASES") != "" {
				fmt.Fprintf(os.Stderr, "  DROP infeasible blk=%d pred=%d vals=%v req=%d\n", blk.Index, blk.Preds[i].Index, nc.Vals, len(nc.Req))
				for _, r := range nc.Req {
					fmt.Fprintf(os.Stderr, "       req %v %v %v\n", r.X, r.Op, r.Y)
				}
			}
			continue
		}
		out = append(out, g.flattenCase(nc, blk.Preds[i], depth+1)...)
		if len(out) > 64 {
			break
		}
	}
	if len(out) == 0 {
		return []RetCase{c}
	}
	return out
}

// A return case consists of the paths that pass node At (and leave it through
// Edge when that is set) and go on to the Return.

// infeasible: a requirement of the case contradicts what is known where the
// case's values are determined.
func (g *IG) infeasible(c RetCase) bool {
	if len(c.Req) == 0 {
		return false
	}
	var known []Fact
	loaded := false
	for _, r := range c.Req {
		if r.Y == nil {
			if cb, isC := constBool(r.X); isC && cb != (r.Op == token.EQL) {
				return true
			}
		} else if k, isK := r.Y.(*ssa.Const); isK {
			if xc, isC := r.X.(*ssa.Const); isC {
				if k.Value == nil && xc.Value == nil && nillable(k.Type()) {
					if r.Op == token.NEQ {
						return true
					}
				} else if dec, val := foldConstCmp(r.Op, xc, k); dec && !val {
					return true
				}
			} else if k.Value == nil && nillable(k.Type()) && r.Op == token.EQL && g.M.nonNilErrorGlobal(r.X) {
				return true
			}
		}
		if !loaded {
			known = g.CaseFacts(RetCase{At: c.At, Edge: c.Edge})
			loaded = true
		}
		for _, k := range known {
			if os.Getenv("FFC_DEBUG_CASES") != "" && k.X == r.X {
				fmt.Fprintf(os.Stderr, "       known %v %v %v edge %v (at %d)\n", k.X, k.Op, k.Y, k.Edge, c.At)
			}
			if k.X != r.X || k.Op != negate(r.Op) {
				continue
			}
			if k.Y == nil && r.Y == nil {
				return true
			}
			kc, ok1 := k.Y.(*ssa.Const)
			rc, ok2 := r.Y.(*ssa.Const)
			if ok1 && ok2 && (sameConst(kc, rc) || kc.Value == nil && rc.Value == nil) {
				return true
			}
		}
	}
	return false
}

// caseNil: in return case c the value v is known to be nil / known not to be nil
// (a nil constant, an error variable that is never nil, or a test on the way).
func (g *IG) caseNil(c RetCase, v ssa.Value) (isNil, nonNil bool) {
	if cs, ok := v.(*ssa.Const); ok && cs.Value == nil && nillable(cs.Type()) {
		return true, false
	}
	if g.M.nonNilErrorGlobal(v) {
		return false, true
	}
	if _, isMI := v.(*ssa.MakeInterface); isMI {
		return false, true // an interface holding a typed value is not the nil interface
	}
	for _, f := range g.CaseFacts(c) {
		if isNilFact(f, token.EQL, func(x ssa.Value) bool { return x == v }) {
			isNil = true
		}
		if isNilFact(f, token.NEQ, func(x ssa.Value) bool { return x == v }) {
			nonNil = true
		}
	}
	return
}

// phiAt resolves a merged value where it is used: an incoming edge is excluded
// when a test that every path to node at has passed contradicts the operand a
// phi of the same block has on that edge (`size` after `if wrapped { err = E }
// else { size = rounded }` and a test of err == nil is the rounded size). It
// returns nil unless exactly one edge remains.
func (g *IG) phiAt(phi *ssa.Phi, at int) ssa.Value {
	b := phi.Block()
	if _, inGraph := g.Idx[phi]; !inGraph || at >= len(g.Ins) || g.Ins[at].Block() == nil || !b.Dominates(g.Ins[at].Block()) {
		return nil
	}
	facts := g.FactsAt(at)
	feasible := make([]bool, len(phi.Edges))
	for i := range feasible {
		feasible[i] = true
	}
	for _, in := range b.Instrs {
		sib, ok := in.(*ssa.Phi)
		if !ok {
			break
		}
		for _, f := range facts {
			if f.X != ssa.Value(sib) {
				continue
			}
			for i, o := range sib.Edges {
				if i >= len(feasible) {
					break
				}
				switch {
				case f.Y == nil:
					if cb, isC := constBool(o); isC && cb != (f.Op == token.EQL) {
						feasible[i] = false
					}
				default:
					k, isK := f.Y.(*ssa.Const)
					if !isK {
						continue
					}
					if oc, isC := o.(*ssa.Const); isC {
						if k.Value == nil && oc.Value == nil && nillable(k.Type()) {
							if f.Op == token.NEQ {
								feasible[i] = false
							}
						} else if dec, val := foldConstCmp(f.Op, oc, k); dec && !val {
							feasible[i] = false
						}
					} else if k.Value == nil && nillable(k.Type()) && f.Op == token.EQL && g.M.nonNilErrorGlobal(o) {
						feasible[i] = false
					}
				}
			}
		}
	}
	var res ssa.Value
	n := 0
	for i, ok := range feasible {
		if ok {
			res = phi.Edges[i]
			n++
		}
	}
	if n != 1 {
		return nil
	}
	return res
}

// substAt is a Polyizer.Subst that resolves merged values at node at.
func (g *IG) substAt(at int) func(ssa.Value) ssa.Value {
	return func(v ssa.Value) ssa.Value {
		if phi, ok := v.(*ssa.Phi); ok {
			return g.phiAt(phi, at)
		}
		if ex, ok := v.(*ssa.Extract); ok {
			return g.extractAt(ex, at)
		}
		return nil
	}
}

// CaseFacts returns the facts that hold in a return case.
func (g *IG) CaseFacts(c RetCase) []Fact {
	facts := append([]Fact(nil), c.Req...)
	facts = append(facts, g.FactsAt(c.At)...)
	if c.Edge != nil {
		if f, ok := g.EdgeFact(c.Edge.From, c.Edge.K); ok {
			facts = append(facts, g.expandBoolPhis([]Fact{f}, 0)...)
		}
	}
	return facts
}

// CaseMustPassBefore: every path that returns through this case passes an
// instruction satisfying pred.
func (g *IG) CaseMustPassBefore(c RetCase, pred func(int) bool) bool {
	if pred(c.At) {
		return true
	}
	if ok, _ := g.MustPassBefore(c.At, pred); ok {
		return true
	}
	if c.At == c.Ret {
		return false
	}
	// between the case's node and the return
	from := g.Succ[c.At]
	if c.Edge != nil {
		from = []int{g.Succ[c.Edge.From][c.Edge.K]}
	}
	p := g.Path(from, nil, pred, func(n int) bool { return n == c.Ret })
	return p == nil
}

// CaseReachedFrom: a path exists from node n to the return through this case.
func (g *IG) CaseReachedFrom(n int, c RetCase) bool {
	if n == c.At {
		return true
	}
	return g.Reach(g.Succ[n], nil, nil)[c.At]
}

// ---- value cases ----

// ValCase is one of the values a merged value can have, with the place whose
// dominating facts hold when it has that value: an operand of a phi with its
// incoming edge, or the operand of one return of a spliced multi-return helper.
type ValCase struct {
	Val  ssa.Value
	At   int
	Edge *Edge
}

// valueCases flattens phis and spliced multi-return helper calls. at is the
// node at which v is used (the context of a value that is not a merge).
func (g *IG) valueCases(v ssa.Value, at int) []ValCase {
	var out []ValCase
	var rec func(v ssa.Value, at int, e *Edge, depth int)
	rec = func(v ssa.Value, at int, e *Edge, depth int) {
		if depth < 4 {
			if phi, ok := v.(*ssa.Phi); ok {
				if _, inGraph := g.Idx[phi]; inGraph {
					pe := g.predEdges(phi.Block())
					for i, ev := range phi.Edges {
						ed := pe[i]
						rec(ev, ed.From, &ed, depth+1)
					}
					return
				}
			}
			var call *ssa.Call
			idx := 0
			switch x := v.(type) {
			case *ssa.Call:
				call = x
			case *ssa.Extract:
				call, _ = x.Tuple.(*ssa.Call)
				idx = x.Index
			}
			if call != nil {
				if h := g.M.helperOf(call); h != nil {
					if _, inGraph := g.Idx[call]; inGraph {
						n := 0
						for _, b := range h.Blocks {
							last := g.First[b] + len(b.Instrs) - 1
							if ir, ok := g.Ins[last].(*inlRet); ok {
								ret := ir.Instruction.(*ssa.Return)
								if idx < len(ret.Results) {
									rec(ret.Results[idx], last, nil, depth+1)
									n++
								}
							}
						}
						if n > 0 {
							return
						}
					}
				}
			}
		}
		out = append(out, ValCase{v, at, e})
	}
	rec(v, at, nil, 0)
	return out
}

// ValFacts returns the facts that hold when the value case applies.
func (g *IG) ValFacts(c ValCase) []Fact {
	facts := g.FactsAt(c.At)
	if c.Edge != nil {
		if f, ok := g.EdgeFact(c.Edge.From, c.Edge.K); ok {
			facts = append(facts, g.expandBoolPhis([]Fact{f}, 0)...)
		}
	}
	return facts
}

// isMerge: v is a phi or the value of a spliced multi-return helper.
func (g *IG) isMerge(v ssa.Value) bool {
	cs := g.valueCases(v, 0)
	return len(cs) > 1 || len(cs) == 1 && cs[0].Val != v
}

// decideBool evaluates a boolean value under a set of facts: a fact about the
// value itself, or (for a comparison) a fact about the same operands.
func decideBool(v ssa.Value, facts []Fact) (val, ok bool) {
	neg := false
	for {
		u, isU := v.(*ssa.UnOp)
		if !isU || u.Op != token.NOT {
			break
		}
		v = u.X
		neg = !neg
	}
	if b, isC := constBool(v); isC {
		return b != neg, true
	}
	for _, f := range facts {
		if f.Y == nil && f.X == v {
			return (f.Op == token.EQL) != neg, true
		}
	}
	if b, isB := v.(*ssa.BinOp); isB {
		for _, f := range facts {
			if f.Y == nil {
				continue
			}
			op := f.Op
			switch {
			case f.X == b.X && f.Y == b.Y:
			case f.X == b.Y && f.Y == b.X:
				op = swapOp(op)
			default:
				continue
			}
			if op == b.Op {
				return !neg, true
			}
			if op == negate(b.Op) {
				return neg, true
			}
		}
	}
	return false, false
}

// valueCasesAt: the cases of a merged value that are possible at node n (the
// case's place can reach n).
func (g *IG) valueCasesAt(v ssa.Value, n int) []ValCase {
	var out []ValCase
	for _, vc := range g.valueCases(v, n) {
		if vc.At == n {
			out = append(out, vc)
			continue
		}
		from := g.Succ[vc.At]
		if vc.Edge != nil {
			from = []int{g.Succ[vc.Edge.From][vc.Edge.K]}
		}
		if g.Reach(from, nil, nil)[n] {
			out = append(out, vc)
		}
	}
	return out
}

// ReachAssuming explores the graph from the target of edge e under the
// assumption that e's facts hold: an edge whose fact contradicts one of them
// (same value, same constant, opposite comparison) is not taken for as long as
// the value has not been computed again (the path has not passed its defining
// instruction, for a phi its block). extra are facts assumed in addition
// (derived ones, for example about the operand a merged value must be).
func (g *IG) ReachAssuming(e Edge, extra []Fact) []bool {
	var assumed []Fact
	if f, ok := g.EdgeFact(e.From, e.K); ok {
		assumed = append(assumed, f)
		for _, d := range g.expandBoolPhis([]Fact{f}, 0)[1:] {
			assumed = append(assumed, d)
		}
	}
	assumed = append(assumed, extra...)
	// contradicting edges per assumed fact, and the node that ends the assumption
	type asm struct {
		cut map[Edge]bool
		end int
	}
	var asms []asm
	for _, a := range assumed {
		if a.Y == nil {
			continue
		}
		ak, ok := a.Y.(*ssa.Const)
		if !ok {
			continue
		}
		as := asm{cut: map[Edge]bool{}, end: -1}
		for _, f := range g.AllEdgeFacts() {
			fk, ok := f.Y.(*ssa.Const)
			if f.Y == nil || !ok || f.X != a.X || !sameConst(fk, ak) {
				continue
			}
			if f.Op == negate(a.Op) {
				as.cut[f.Edge] = true
			}
		}
		switch d := a.X.(type) {
		case *ssa.Phi:
			if n, ok := g.Idx[d]; ok {
				as.end = g.First[d.Block()]
				_ = n
			}
		case ssa.Instruction:
			if n, ok := g.Idx[d]; ok {
				as.end = n
			}
		}
		asms = append(asms, as)
	}
	// state: node x set of live assumptions (bitmask)
	type st struct {
		n    int
		live uint32
	}
	full := uint32(1)<<uint(len(asms)) - 1
	seen := map[st]bool{}
	out := make([]bool, len(g.Ins))
	work := []st{{g.Succ[e.From][e.K], full}}
	for len(work) > 0 {
		s := work[len(work)-1]
		work = work[:len(work)-1]
		if seen[s] {
			continue
		}
		seen[s] = true
		out[s.n] = true
		live := s.live
		for i, a := range asms {
			if a.end == s.n {
				live &^= 1 << uint(i)
			}
		}
		for k, t := range g.Succ[s.n] {
			blocked := false
			for i, a := range asms {
				if live&(1<<uint(i)) != 0 && a.cut[Edge{s.n, k}] {
					blocked = true
				}
			}
			if !blocked {
				work = append(work, st{t, live})
			}
		}
	}
	return out
}

// ivLowerBound: v is a signed or unsigned counter whose every incoming value is
// a constant or the counter plus a positive constant; returns the least
// constant (wrap-around is not considered, as elsewhere in the polynomial forms).
func ivLowerBound(v ssa.Value) (int64, bool) {
	phi, ok := stripConv(v).(*ssa.Phi)
	if !ok || !isIntegral(phi.Type()) {
		return 0, false
	}
	lo, ok := lowerBoundOf(phi, map[*ssa.Phi]bool{}, 0)
	if !ok || lo == lbNeutral {
		return 0, false
	}
	return lo, true
}

const lbNeutral = int64(1) << 62

// lowerBoundOf: a constant, a value plus a non-negative constant, or a merge of
// such values; a merge that is met again on the way (a counter carried around
// nested loops) adds nothing new. Overflow is not considered.
func lowerBoundOf(v ssa.Value, stack map[*ssa.Phi]bool, depth int) (int64, bool) {
	v = stripConv(v)
	if depth > 12 {
		return 0, false
	}
	if k, ok := constInt64(v); ok {
		return k, true
	}
	switch x := v.(type) {
	case *ssa.BinOp:
		if x.Op == token.ADD {
			for _, pr := range [][2]ssa.Value{{x.X, x.Y}, {x.Y, x.X}} {
				if c, ok := constInt64(pr[1]); ok && c >= 0 {
					lo, ok := lowerBoundOf(pr[0], stack, depth+1)
					if !ok {
						return 0, false
					}
					if lo == lbNeutral {
						return lbNeutral, true
					}
					return lo + c, true
				}
			}
		}
	case *ssa.Phi:
		if !isIntegral(x.Type()) {
			return 0, false
		}
		if stack[x] {
			return lbNeutral, true
		}
		stack[x] = true
		defer delete(stack, x)
		lo := lbNeutral
		for _, e := range x.Edges {
			l, ok := lowerBoundOf(e, stack, depth+1)
			if !ok {
				return 0, false
			}
			if l < lo {
				lo = l
			}
		}
		return lo, true
	}
	return 0, false
}

var boolConsts = map[bool]*ssa.Const{}

// boolConst returns the constant true / false (one value each).
func boolConst(b bool) *ssa.Const {
	if c, ok := boolConsts[b]; ok {
		return c
	}
	c := ssa.NewConst(constant.MakeBool(b), types.Typ[types.Bool])
	boolConsts[b] = c
	return c
}

// inLoop: node n lies on a cycle through the header block hdr, spliced helpers
// included (a helper called from the loop body belongs to another function and
// has no loop of its own): n is reachable from the header and can reach it.
func (g *IG) inLoop(n int, hdr *ssa.BasicBlock) bool {
	var hs []int
	for k, in := range g.Ins {
		if in != nil && in.Block() == hdr {
			hs = append(hs, k)
		}
	}
	if len(hs) == 0 {
		return false
	}
	// (only through the loop's own blocks and what is spliced into them: going
	// round an enclosing loop does not put a node into an inner one)
	_, body := loopOf(hdr)
	outside := func(k int) bool {
		in := g.Ins[k]
		if in == nil || in.Block() == nil {
			return false
		}
		b := in.Block()
		return b.Parent() == hdr.Parent() && !body[b]
	}
	if outside(n) {
		return false
	}
	from := g.Reach(hs, nil, outside)
	if !from[n] {
		return false
	}
	to := g.Reach(g.Succ[n], nil, outside)
	for _, h := range hs {
		if to[h] {
			return true
		}
	}
	return false
}

// loopsAround lists the headers of the loops of the analysed function (not of
// spliced helpers) that node n lies in, innermost first.
func (g *IG) loopsAround(n int) []*ssa.BasicBlock {
	var out []*ssa.BasicBlock
	seen := map[*ssa.BasicBlock]bool{}
	for _, f := range g.Funcs {
		for _, b := range f.Blocks {
			h, _ := loopOf(b)
			if h == nil || seen[h] {
				continue
			}
			seen[h] = true
			if g.inLoop(n, h) {
				out = append(out, h)
			}
		}
	}
	// innermost first: a loop whose body is contained in another's comes first
	sort.SliceStable(out, func(i, j int) bool {
		_, bi := loopOf(out[i])
		_, bj := loopOf(out[j])
		return len(bi) < len(bj)
	})
	return out
}

// extractAt resolves a component of a spliced multi-return helper's result
// where it is used: a return of the helper is excluded when what a test passed
// on the way to node at says about another component contradicts what that
// return gives it (`page, err := helper(); if err != nil { return }; use page`
// uses the page of the returns whose error can be nil). nil unless exactly one
// return remains.
func (g *IG) extractAt(ex *ssa.Extract, at int) ssa.Value {
	call, ok := ex.Tuple.(*ssa.Call)
	if !ok {
		return nil
	}
	h := g.M.helperOf(call)
	if h == nil {
		return nil
	}
	if _, inGraph := g.Idx[call]; !inGraph {
		return nil
	}
	facts := g.FactsAt(at)
	var res ssa.Value
	n := 0
	for _, b := range h.Blocks {
		last := g.First[b] + len(b.Instrs) - 1
		ir, ok := g.Ins[last].(*inlRet)
		if !ok {
			continue
		}
		ret := ir.Instruction.(*ssa.Return)
		if ex.Index >= len(ret.Results) {
			return nil
		}
		feasible := true
		for _, f := range facts {
			fe, ok := f.X.(*ssa.Extract)
			if !ok || fe.Tuple != ex.Tuple || fe.Index >= len(ret.Results) || f.Y == nil {
				continue
			}
			k, isK := f.Y.(*ssa.Const)
			if !isK {
				continue
			}
			o := ret.Results[fe.Index]
			if oc, isC := o.(*ssa.Const); isC {
				if k.Value == nil && oc.Value == nil && nillable(k.Type()) {
					if f.Op == token.NEQ {
						feasible = false
					}
				} else if dec, val := foldConstCmp(f.Op, oc, k); dec && !val {
					feasible = false
				}
			} else if k.Value == nil && nillable(k.Type()) && f.Op == token.EQL && g.M.nonNilErrorGlobal(o) {
				feasible = false
			}
		}
		// (the returns were threaded through the caller's test of the result: a
		// return that cannot lead to the use is not the one)
		if feasible {
			cn := g.Idx[call]
			if r := g.Reach(g.Succ[last], nil, func(k int) bool { return k == cn }); !r[at] {
				feasible = false
			}
		}
		if feasible {
			res = ret.Results[ex.Index]
			n++
		}
	}
	if n != 1 {
		return nil
	}
	return res
}

// loopBypass: node n lies in a loop; returns a path that goes once round that
// loop (from the loop test into the body and back to the test) without passing
// n, or nil when every iteration passes n. ok is false when n is not in a loop
// of the analysed function.
func (g *IG) loopBypass(n int) (path []int, ok bool) {
	ls := g.loopsAround(n)
	if len(ls) == 0 {
		return nil, false
	}
	hdr := ls[0]
	_, body := loopOf(hdr)
	h0, okF := g.First[hdr]
	if !okF {
		return nil, false
	}
	same := func(k int) bool { return g.Ins[k] != nil && g.Ins[k] == g.Ins[n] }
	if same(h0) {
		return nil, true
	}
	// once round the loop: from the first instruction of the loop's entry block
	// back to it, through the loop's own blocks (and what is spliced into them)
	// only, without passing n. (Whether the loop tests at the top or, rotated, at
	// the bottom makes no difference.)
	outside := func(k int) bool {
		in := g.Ins[k]
		if in == nil || in.Block() == nil {
			return false
		}
		b := in.Block()
		return b.Parent() == hdr.Parent() && !body[b]
	}
	back := func(k int) bool { return g.Ins[k] != nil && g.Ins[k] == g.Ins[h0] }
	return g.Path(g.Succ[h0], nil, func(k int) bool { return same(k) || outside(k) }, back), true
}
