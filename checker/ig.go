package main

// E1/E3: instruction-level control-flow graph of one SSA function with path,
// cut and typestate queries. Calls to diverging functions (E2) and panics end
// a path.

import (
	"go/token"
	"go/types"

	"golang.org/x/tools/go/ssa"
)

// IG is the instruction graph of one function.
type IG struct {
	M     *Module
	Fn    *ssa.Function
	Ins   []ssa.Instruction
	Idx   map[ssa.Instruction]int
	Succ  [][]int
	Pred  [][]int
	First map[*ssa.BasicBlock]int
}

// Edge identifies the K-th out-edge of instruction From (for an If: 0 = true
// branch, 1 = false branch).
type Edge struct{ From, K int }

func newIG(m *Module, fn *ssa.Function, diverging map[*ssa.Function]bool) *IG {
	g := &IG{M: m, Fn: fn, Idx: map[ssa.Instruction]int{}, First: map[*ssa.BasicBlock]int{}}
	for _, b := range fn.Blocks {
		g.First[b] = len(g.Ins)
		for _, in := range b.Instrs {
			g.Idx[in] = len(g.Ins)
			g.Ins = append(g.Ins, in)
		}
	}
	g.Succ = make([][]int, len(g.Ins))
	g.Pred = make([][]int, len(g.Ins))
	for _, b := range fn.Blocks {
		base := g.First[b]
		for i, in := range b.Instrs {
			n := base + i
			if i < len(b.Instrs)-1 {
				if diverging != nil {
					if cc := callCommon(in); cc != nil {
						if _, isCall := in.(*ssa.Call); isCall && diverging[m.callee(cc)] {
							continue // path ends here
						}
					}
				}
				g.Succ[n] = []int{n + 1}
				continue
			}
			for _, s := range b.Succs {
				g.Succ[n] = append(g.Succ[n], g.First[s])
			}
		}
	}
	for n, ss := range g.Succ {
		for _, s := range ss {
			g.Pred[s] = append(g.Pred[s], n)
		}
	}
	return g
}

// Reach computes forward reachability from the given start nodes. Edges in cut
// are not followed; nodes for which stop returns true are marked reached but
// not expanded.
func (g *IG) Reach(from []int, cut map[Edge]bool, stop func(int) bool) []bool {
	seen := make([]bool, len(g.Ins))
	var work []int
	for _, f := range from {
		if !seen[f] {
			seen[f] = true
			work = append(work, f)
		}
	}
	for len(work) > 0 {
		n := work[len(work)-1]
		work = work[:len(work)-1]
		if stop != nil && stop(n) {
			continue
		}
		for k, s := range g.Succ[n] {
			if cut != nil && cut[Edge{n, k}] {
				continue
			}
			if !seen[s] {
				seen[s] = true
				work = append(work, s)
			}
		}
	}
	return seen
}

// Path returns one path (list of nodes) from `from` to a node satisfying goal,
// or nil. Nodes for which stop is true are not expanded.
func (g *IG) Path(from []int, cut map[Edge]bool, stop func(int) bool, goal func(int) bool) []int {
	parent := make([]int, len(g.Ins))
	for i := range parent {
		parent[i] = -2
	}
	var queue []int
	for _, f := range from {
		if parent[f] == -2 {
			parent[f] = -1
			queue = append(queue, f)
		}
	}
	for len(queue) > 0 {
		n := queue[0]
		queue = queue[1:]
		if goal(n) {
			var p []int
			for x := n; x != -1; x = parent[x] {
				p = append([]int{x}, p...)
			}
			return p
		}
		if stop != nil && stop(n) {
			continue
		}
		for k, s := range g.Succ[n] {
			if cut != nil && cut[Edge{n, k}] {
				continue
			}
			if parent[s] == -2 {
				parent[s] = n
				queue = append(queue, s)
			}
		}
	}
	return nil
}

// where renders the source positions of the instructions of a path that have
// one (deduplicated, at most max entries).
func (g *IG) where(path []int, max int) []string {
	var out []string
	last := ""
	for _, n := range path {
		p := g.Ins[n].Pos()
		if !p.IsValid() {
			continue
		}
		s := g.M.pos(p)
		if s != last {
			out = append(out, s)
			last = s
		}
	}
	if max > 0 && len(out) > max {
		out = append(out[:max/2], out[len(out)-max/2:]...)
	}
	return out
}

func (g *IG) posOf(n int) string {
	p := g.Ins[n].Pos()
	if !p.IsValid() {
		// fall back to the nearest instruction of the same block with a position
		b := g.Ins[n].Block()
		for _, in := range b.Instrs {
			if in.Pos().IsValid() {
				p = in.Pos()
				break
			}
		}
	}
	return g.M.pos(p)
}

// Nodes returns the indices of all instructions satisfying pred.
func (g *IG) Nodes(pred func(in ssa.Instruction) bool) []int {
	var out []int
	for i, in := range g.Ins {
		if pred(in) {
			out = append(out, i)
		}
	}
	return out
}

func (g *IG) Returns() []int {
	return g.Nodes(func(in ssa.Instruction) bool { _, ok := in.(*ssa.Return); return ok })
}

// MustPassBefore: every path from the entry to target passes an instruction
// satisfying pred. Returns a counterexample path otherwise.
func (g *IG) MustPassBefore(target int, pred func(int) bool) (bool, []int) {
	stop := func(n int) bool { return n != target && pred(n) }
	p := g.Path([]int{0}, nil, stop, func(n int) bool { return n == target })
	if p == nil {
		return true, nil
	}
	return false, p
}

// MustPassAfter: every path from `from` (exclusive) to an instruction
// satisfying exit passes an instruction satisfying pred first. Returns a
// counterexample path otherwise.
func (g *IG) MustPassAfter(from int, pred func(int) bool, exit func(int) bool) (bool, []int) {
	p := g.Path(g.Succ[from], nil, pred, func(n int) bool { return !pred(n) && exit(n) })
	if p == nil {
		return true, nil
	}
	return false, append([]int{from}, p...)
}

// ---- facts on If edges ----

// Fact is a comparison known to hold on an If edge: X Op Y. For a boolean
// condition that is not a comparison, Y is nil and Op is EQL (X is true) or
// NEQ (X is false).
type Fact struct {
	Op   token.Token
	X, Y ssa.Value
	Edge Edge
}

func negate(op token.Token) token.Token {
	switch op {
	case token.EQL:
		return token.NEQ
	case token.NEQ:
		return token.EQL
	case token.LSS:
		return token.GEQ
	case token.GEQ:
		return token.LSS
	case token.GTR:
		return token.LEQ
	case token.LEQ:
		return token.GTR
	}
	return token.ILLEGAL
}

// swapOp mirrors a comparison: X op Y == Y swap(op) X.
func swapOp(op token.Token) token.Token {
	switch op {
	case token.LSS:
		return token.GTR
	case token.GTR:
		return token.LSS
	case token.LEQ:
		return token.GEQ
	case token.GEQ:
		return token.LEQ
	}
	return op
}

func condFact(cond ssa.Value, branch bool) (Fact, bool) {
	for {
		if u, ok := cond.(*ssa.UnOp); ok && u.Op == token.NOT {
			cond = u.X
			branch = !branch
			continue
		}
		break
	}
	if b, ok := cond.(*ssa.BinOp); ok {
		switch b.Op {
		case token.EQL, token.NEQ, token.LSS, token.LEQ, token.GTR, token.GEQ:
			op := b.Op
			if !branch {
				op = negate(op)
			}
			// comparisons of booleans with constants: x == true
			if bt, ok := b.X.Type().Underlying().(*types.Basic); ok && bt.Info()&types.IsBoolean != 0 {
				if c, ok := constBool(b.Y); ok && (op == token.EQL || op == token.NEQ) {
					if (op == token.EQL) == c {
						return Fact{Op: token.EQL, X: b.X}, true
					}
					return Fact{Op: token.NEQ, X: b.X}, true
				}
			}
			return Fact{Op: op, X: b.X, Y: b.Y}, true
		}
	}
	if branch {
		return Fact{Op: token.EQL, X: cond}, true
	}
	return Fact{Op: token.NEQ, X: cond}, true
}

// EdgeFact returns the fact that holds on out-edge k of If instruction n.
func (g *IG) EdgeFact(n, k int) (Fact, bool) {
	ifi, ok := g.Ins[n].(*ssa.If)
	if !ok || len(g.Succ[n]) != 2 || g.Succ[n][0] == g.Succ[n][1] {
		return Fact{}, false
	}
	f, ok := condFact(ifi.Cond, k == 0)
	f.Edge = Edge{n, k}
	return f, ok
}

// AllEdgeFacts lists the facts of all If edges of the function.
func (g *IG) AllEdgeFacts() []Fact {
	var out []Fact
	for n := range g.Ins {
		if _, ok := g.Ins[n].(*ssa.If); !ok {
			continue
		}
		for k := 0; k < 2; k++ {
			if f, ok := g.EdgeFact(n, k); ok {
				out = append(out, f)
			}
		}
	}
	return out
}

// FactsAt returns the facts of every If edge that all paths from the entry to
// target must cross (the target is unreachable when the edge is removed).
func (g *IG) FactsAt(target int) []Fact {
	var out []Fact
	base := g.Reach([]int{0}, nil, nil)
	if !base[target] {
		return nil
	}
	for _, f := range g.AllEdgeFacts() {
		if !base[f.Edge.From] {
			continue
		}
		r := g.Reach([]int{0}, map[Edge]bool{f.Edge: true}, nil)
		if !r[target] {
			out = append(out, f)
		}
	}
	return g.expandBoolPhis(out, 0)
}

// expandBoolPhis adds, for every fact "phi is true" where phi is the value of a
// short-circuit && (all operands but one are the constant false), the facts
// that the remaining operand is true and everything that dominates the block it
// comes from; dually for "phi is false" of a short-circuit ||. go/ssa builds
// such phis when a && / || expression is used as a value (e.g. as the case
// expression of a tagless switch).
func (g *IG) expandBoolPhis(facts []Fact, depth int) []Fact {
	if depth > 4 {
		return facts
	}
	out := facts
	for _, f := range facts {
		if f.Y != nil {
			continue
		}
		phi, ok := f.X.(*ssa.Phi)
		if !ok {
			continue
		}
		want := f.Op == token.EQL // phi is true
		var rest ssa.Value
		restIdx := -1
		okShape := true
		for i, e := range phi.Edges {
			if b, isC := constBool(e); isC {
				if b == want {
					okShape = false // a constant edge already decides the wanted value
				}
				continue
			}
			if rest != nil {
				okShape = false
			}
			rest, restIdx = e, i
		}
		if !okShape || rest == nil {
			continue
		}
		if nf, ok := condFact(rest, want); ok {
			nf.Edge = f.Edge
			out = append(out, nf)
		}
		pe := g.predEdges(phi.Block())
		sub := g.FactsAt(pe[restIdx].From)
		if ft, ok := g.EdgeFact(pe[restIdx].From, pe[restIdx].K); ok {
			sub = append(sub, ft)
		}
		out = append(out, g.expandBoolPhis(sub, depth+1)...)
	}
	return out
}

// UnreachableWithout reports whether target becomes unreachable from the entry
// when all the given edges are removed.
func (g *IG) UnreachableWithout(target int, edges []Edge) bool {
	cut := map[Edge]bool{}
	for _, e := range edges {
		cut[e] = true
	}
	return !g.Reach([]int{0}, cut, nil)[target]
}

// hasFact reports whether one of the facts satisfies pred.
func hasFact(facts []Fact, pred func(Fact) bool) bool {
	for _, f := range facts {
		if pred(f) {
			return true
		}
	}
	return false
}

// cmpMatch tests whether fact f states `a op b` for values matched by pa/pb,
// in either operand order.
func cmpMatch(f Fact, op token.Token, pa, pb func(ssa.Value) bool) bool {
	if f.Y == nil {
		return false
	}
	if f.Op == op && pa(f.X) && pb(f.Y) {
		return true
	}
	if swapOp(f.Op) == op && f.Op != op && pa(f.Y) && pb(f.X) {
		return true
	}
	if (op == token.EQL || op == token.NEQ) && f.Op == op && pa(f.Y) && pb(f.X) {
		return true
	}
	return false
}

// ---- E2: diverging functions ----

// divergingFuncs computes the least fixpoint of "no Return instruction is
// reachable from the entry when panics and calls to diverging functions end a
// path". Functions without a body are assumed to return, except those named in
// haltRoots (by role: the CPU halt primitive).
func divergingFuncs(m *Module, haltRoots map[*ssa.Function]bool) map[*ssa.Function]bool {
	div := map[*ssa.Function]bool{}
	for f := range haltRoots {
		div[f] = true
	}
	for changed := true; changed; {
		changed = false
		for _, fn := range m.Funcs {
			if div[fn] {
				continue
			}
			g := newIG(m, fn, div)
			r := g.Reach([]int{0}, nil, nil)
			ret := false
			for _, n := range g.Returns() {
				if r[n] {
					ret = true
					break
				}
			}
			if !ret {
				div[fn] = true
				changed = true
			}
		}
	}
	return div
}

// ---- typestate ----

// Flow runs a forward may-analysis over small state sets (bit i = state i may
// hold before the instruction). transfer maps (instruction, state) to the set
// of successor states (as a bitset); returning 0 ends the path.
func (g *IG) Flow(init uint32, transfer func(n int, state int) uint32) []uint32 {
	in := make([]uint32, len(g.Ins))
	if len(g.Ins) == 0 {
		return in
	}
	in[0] = init
	work := []int{0}
	for len(work) > 0 {
		n := work[len(work)-1]
		work = work[:len(work)-1]
		var out uint32
		for s := 0; s < 32; s++ {
			if in[n]&(1<<uint(s)) != 0 {
				out |= transfer(n, s)
			}
		}
		for _, s := range g.Succ[n] {
			if in[s]|out != in[s] {
				in[s] |= out
				work = append(work, s)
			}
		}
	}
	return in
}

// ---- loops and block edges ----

// blockEdge returns the instruction-graph edge that corresponds to the CFG
// edge from block p to its k-th successor.
func (g *IG) blockEdge(p *ssa.BasicBlock, k int) Edge {
	return Edge{g.First[p] + len(p.Instrs) - 1, k}
}

// predEdges returns, for block b, the instruction-graph edge of each incoming
// CFG edge, in the order of b.Preds (the order of phi operands).
func (g *IG) predEdges(b *ssa.BasicBlock) []Edge {
	out := make([]Edge, len(b.Preds))
	used := map[*ssa.BasicBlock]int{}
	for i, p := range b.Preds {
		// the i-th occurrence of p among b.Preds corresponds to the i-th
		// occurrence of b among p.Succs
		want := used[p]
		used[p]++
		seen := 0
		for k, s := range p.Succs {
			if s == b {
				if seen == want {
					out[i] = g.blockEdge(p, k)
					break
				}
				seen++
			}
		}
	}
	return out
}

// edgeCrosses reports whether every path from the entry that takes edge e has
// crossed one of the edges in through (e itself counts).
func (g *IG) edgeCrosses(e Edge, through []Edge) bool {
	cut := map[Edge]bool{}
	for _, t := range through {
		if t == e {
			return true
		}
		cut[t] = true
	}
	return !g.Reach([]int{0}, cut, nil)[e.From]
}

// loopOf returns the header and body of the innermost natural loop containing
// block b (nil if b is not in a loop).
func loopOf(b *ssa.BasicBlock) (header *ssa.BasicBlock, body map[*ssa.BasicBlock]bool) {
	fn := b.Parent()
	best := -1
	for _, h := range fn.Blocks {
		var bd map[*ssa.BasicBlock]bool
		for _, p := range h.Preds {
			if !h.Dominates(p) {
				continue
			}
			// natural loop of back edge p->h
			if bd == nil {
				bd = map[*ssa.BasicBlock]bool{h: true}
			}
			work := []*ssa.BasicBlock{p}
			for len(work) > 0 {
				x := work[len(work)-1]
				work = work[:len(work)-1]
				if bd[x] {
					continue
				}
				bd[x] = true
				work = append(work, x.Preds...)
			}
		}
		if bd != nil && bd[b] && (best < 0 || len(bd) < best) {
			best = len(bd)
			header, body = h, bd
		}
	}
	return
}
