package main

// Helper splicing. The rules are anchored at named functions, but where a piece
// of an anchored function's body lives is not part of any property: moving a
// few statements into a private helper leaves behaviour unchanged. So the
// instruction graph of an analysed function includes the bodies of its private
// helpers, and values are identified across the call boundary.
//
// A helper is a function that
//   - is not an anchor: no rule of the property being decided looks it up by
//     name, analyses it as a root, or asks for its parameters (the anchors are
//     collected by a dry first pass of the property's rules, see runProperty);
//   - is unexported, has a body, contains no defer, and is not recursive;
//   - is referenced exactly once in the module's non-test code, and that
//     reference is a plain static call (not go/defer, never used as a value).
//
// Because a helper has exactly one call site, splicing is exact: the call node
// continues into the helper's entry, the helper's returns continue after the
// call, each parameter *is* the argument, and (for single-return helpers) the
// call's value *is* the returned operand. Nothing is approximated and no path
// is added that the program does not have.

import (
	"fmt"
	"go/token"
	"go/types"
	"os"
	"runtime/debug"
	"strings"

	"golang.org/x/tools/go/ssa"
)

// inlRet stands for a helper's return inside a spliced graph. It deliberately
// is not a *ssa.Return, so that rules inspecting the returns of the analysed
// function never see a helper's.
type inlRet struct {
	ssa.Instruction
}

var (
	valueAlias = map[ssa.Value]ssa.Value{}
	tupleAlias = map[ssa.Value][]ssa.Value{}
)

// resolveAlias maps a helper's parameter to the argument of its only call and
// a helper call's value to the operand of its only return.
func resolveAlias(v ssa.Value) ssa.Value {
	for i := 0; i < 16; i++ {
		if a, ok := valueAlias[v]; ok {
			v = a
			continue
		}
		if ex, ok := v.(*ssa.Extract); ok {
			if rs, ok := tupleAlias[ex.Tuple]; ok && ex.Index < len(rs) {
				v = rs[ex.Index]
				continue
			}
		}
		break
	}
	return v
}

// anchor records that the rules refer to fn by name or analyse it as a root.
func (m *Module) anchor(fn *ssa.Function) {
	if fn == nil || m.inlineOn || m.anchorOff {
		return
	}
	if m.anchors == nil {
		m.anchors = map[*ssa.Function]bool{}
	}
	if d := os.Getenv("FFC_DEBUG_ANCHOR"); d != "" && !m.anchors[fn] && strings.Contains(fn.String(), d) {
		fmt.Fprintf(os.Stderr, "anchor %s\n%s\n", fn, debug.Stack())
	}
	m.anchors[fn] = true
}

// enableInlining fixes the anchor set and computes the helpers.
func (m *Module) enableInlining() {
	m.inlineOn = true
	m.helperSite = map[*ssa.Function]*ssa.Call{}
	if m.anchors == nil {
		m.anchors = map[*ssa.Function]bool{}
	}
	m.expandArithCalls()
	m.findDeferClosures()
	m.liftLocalCells()
	inModule := map[*ssa.Function]bool{}
	for _, fn := range m.Funcs {
		inModule[fn] = true
	}
	sites := map[*ssa.Function][]*ssa.Call{}
	bad := map[*ssa.Function]bool{}
	staticCallees := map[*ssa.Function][]*ssa.Function{}
	for _, fn := range m.Funcs {
		for _, b := range fn.Blocks {
			for _, in := range b.Instrs {
				var callVal *ssa.Value
				if ci, ok := in.(ssa.CallInstruction); ok {
					cc := ci.Common()
					if !cc.IsInvoke() {
						if h, ok := cc.Value.(*ssa.Function); ok {
							callVal = &cc.Value
							staticCallees[fn] = append(staticCallees[fn], h)
							if call, isCall := in.(*ssa.Call); isCall {
								sites[h] = append(sites[h], call)
							} else {
								bad[h] = true
							}
						}
					}
				}
				for _, op := range in.Operands(nil) {
					if op == callVal || *op == nil {
						continue
					}
					if h, ok := (*op).(*ssa.Function); ok {
						bad[h] = true
					}
				}
			}
		}
	}
	var recursive func(root, cur *ssa.Function, seen map[*ssa.Function]bool) bool
	recursive = func(root, cur *ssa.Function, seen map[*ssa.Function]bool) bool {
		for _, c := range staticCallees[cur] {
			if c == root {
				return true
			}
			if !seen[c] {
				seen[c] = true
				if recursive(root, c, seen) {
					return true
				}
			}
		}
		return false
	}
	if os.Getenv("FFC_DEBUG_INL") != "" {
		fmt.Fprintf(os.Stderr, "inl: %d funcs, %d with sites, %d bad, %d anchors\n", len(m.Funcs), len(sites), len(bad), len(m.anchors))
	}
	for _, h := range m.Funcs {
		if m.anchors[h] || bad[h] || len(sites[h]) != 1 || len(h.Blocks) == 0 || h.Synthetic != "" || h.Parent() != nil {
			continue
		}
		if (token.IsExported(h.Name()) && !methodOfPrivateType(h)) || h.Name() == "init" || h.Name() == "main" {
			continue
		}
		if len(h.FreeVars) > 0 {
			continue
		}
		hasDefer := false
		for _, b := range h.Blocks {
			for _, in := range b.Instrs {
				switch in.(type) {
				case *ssa.Defer, *ssa.RunDefers:
					hasDefer = true
				}
			}
		}
		_ = hasDefer // (deferred calls of a spliced helper are modelled where its RunDefers run)
		if recursive(h, h, map[*ssa.Function]bool{}) {
			continue
		}
		call := sites[h][0]
		if len(call.Call.Args) != len(h.Params) {
			continue
		}
		m.helperSite[h] = call
		if os.Getenv("FFC_DEBUG_INL") != "" {
			fmt.Fprintf(os.Stderr, "helper %s spliced into %s\n", h, call.Parent())
		}
		for i, p := range h.Params {
			replaceUses(p, call.Call.Args[i])
		}
		var rets []*ssa.Return
		for _, b := range h.Blocks {
			if r, ok := b.Instrs[len(b.Instrs)-1].(*ssa.Return); ok {
				rets = append(rets, r)
			}
		}
		if len(rets) == 1 {
			switch len(rets[0].Results) {
			case 0:
			case 1:
				replaceUses(call, rets[0].Results[0])
			default:
				if refs := call.Referrers(); refs != nil {
					for _, u := range append([]ssa.Instruction(nil), *refs...) {
						if ex, ok := u.(*ssa.Extract); ok && ex.Index < len(rets[0].Results) {
							replaceUses(ex, rets[0].Results[ex.Index])
						}
					}
				}
			}
		}
	}
}

// forwardLocalStores replaces a load of a local variable by the value stored
// into it earlier in the same basic block when nothing in between can change
// the variable (no call, which could run a closure that captures it, and no
// other store to it). `err = f(); if err != nil` then tests f's result itself.
func (m *Module) forwardLocalStores() {
	for _, fn := range m.Funcs {
		if len(fn.Blocks) == 0 {
			continue
		}
		// what is known at the end of each block; a block with exactly one
		// predecessor starts with what its predecessor ended with
		end := map[*ssa.BasicBlock]map[*ssa.Alloc]ssa.Value{}
		for _, b := range fn.DomPreorder() {
			known := map[*ssa.Alloc]ssa.Value{}
			if len(b.Preds) == 1 {
				for k, v := range end[b.Preds[0]] {
					known[k] = v
				}
			}
			for _, in := range b.Instrs {
				switch x := in.(type) {
				case *ssa.Store:
					if cell, ok := cellOf(x.Addr); ok {
						known[cell] = x.Val
					}
				case *ssa.UnOp:
					if x.Op == token.MUL {
						if cell, ok := cellOf(x.X); ok {
							if v, ok := known[cell]; ok && types.Identical(v.Type(), x.Type()) {
								replaceUses(x, v)
							}
						}
					}
				case ssa.CallInstruction:
					known = map[*ssa.Alloc]ssa.Value{}
				}
			}
			end[b] = known
		}
	}
}

// findDeferClosures registers deferred function literals (`defer func() {...}()`)
// that no rule anchors at: their free variables are the enclosing function's
// variables, so the body can be spliced where the deferred call runs.
func (m *Module) findDeferClosures() {
	m.deferClosure = map[*ssa.Defer]*ssa.Function{}
	m.deferSite = map[*ssa.Function]*ssa.Defer{}
	for _, fn := range m.Funcs {
		for _, b := range fn.Blocks {
			for _, in := range b.Instrs {
				d, ok := in.(*ssa.Defer)
				if !ok || d.Call.IsInvoke() {
					continue
				}
				mc, ok := d.Call.Value.(*ssa.MakeClosure)
				if !ok {
					continue
				}
				cl, ok := mc.Fn.(*ssa.Function)
				if !ok || m.anchors[cl] || len(cl.Blocks) == 0 || len(cl.Params) != len(d.Call.Args) || len(cl.FreeVars) != len(mc.Bindings) {
					continue
				}
				if refs := mc.Referrers(); refs == nil || len(*refs) != 1 {
					continue
				}
				hasDefer := false
				for _, cb := range cl.Blocks {
					for _, ci := range cb.Instrs {
						switch ci.(type) {
						case *ssa.Defer, *ssa.RunDefers:
							hasDefer = true
						}
					}
				}
				if hasDefer || cl.Recover != nil {
					continue
				}
				m.deferClosure[d] = cl
				m.deferSite[cl] = d
				for i, fv := range cl.FreeVars {
					replaceUses(fv, mc.Bindings[i])
				}
				for i, p := range cl.Params {
					replaceUses(p, d.Call.Args[i])
				}
			}
		}
	}
}

// replaceUses makes every instruction that uses old use new instead. For a
// helper with one call site the parameter *is* the argument and the call's
// value *is* the operand of the only return, so the substitution is an
// identity on values; it lets every rule compare values across the boundary of
// a spliced helper without knowing that there is one.
func replaceUses(old, new ssa.Value) {
	if old == new {
		return
	}
	refs := old.Referrers()
	if refs == nil {
		return
	}
	for _, instr := range *refs {
		for _, op := range instr.Operands(nil) {
			if *op == old {
				*op = new
			}
		}
	}
	if nr := new.Referrers(); nr != nil {
		*nr = append(*nr, *refs...)
	}
	movedRefs[old] = *refs
	*refs = nil
}

// movedRefs remembers the users a value had before replaceUses moved them.
var movedRefs = map[ssa.Value][]ssa.Instruction{}

// usersOf lists the instructions that use v, including the users that were
// moved to the value v is identical to (a spliced helper's call value).
func usersOf(v ssa.Value) []ssa.Instruction {
	var out []ssa.Instruction
	if r := v.Referrers(); r != nil {
		out = append(out, *r...)
	}
	return append(out, movedRefs[v]...)
}

// helperOf returns the helper spliced at call instruction in, or nil.
func (m *Module) helperOf(in ssa.Instruction) *ssa.Function {
	if !m.inlineOn {
		return nil
	}
	call, ok := in.(*ssa.Call)
	if !ok || call.Call.IsInvoke() {
		return nil
	}
	h, ok := call.Call.Value.(*ssa.Function)
	if !ok || m.helperSite[h] != call {
		return nil
	}
	return h
}

// body returns fn followed by the helpers spliced into it (transitively), for
// rules that walk instructions without a graph.
func (m *Module) body(fn *ssa.Function) []*ssa.Function {
	out := []*ssa.Function{fn}
	for i := 0; i < len(out); i++ {
		for _, b := range out[i].Blocks {
			for _, in := range b.Instrs {
				if h := m.helperOf(in); h != nil {
					out = append(out, h)
				}
			}
		}
	}
	return out
}

// owner returns the analysed function an instruction belongs to once helpers
// are spliced: the nearest non-helper caller.
func (m *Module) owner(fn *ssa.Function) *ssa.Function {
	for i := 0; i < 16 && fn != nil; i++ {
		call, ok := m.helperSite[fn]
		if !ok {
			if d, isDef := m.deferSite[fn]; isDef {
				fn = d.Parent()
				continue
			}
			return fn
		}
		fn = call.Parent()
	}
	return fn
}

// scanFuncs lists the functions a whole-package scan visits: every function
// except the helpers, whose bodies are seen spliced into their callers.
func (m *Module) scanFuncs() []*ssa.Function {
	var out []*ssa.Function
	for _, fn := range m.Funcs {
		if _, isHelper := m.helperSite[fn]; isHelper {
			continue
		}
		if _, isDef := m.deferSite[fn]; isDef {
			continue
		}
		out = append(out, fn)
	}
	return out
}

// blocksOf returns the blocks of fn and of the helpers spliced into it.
func (m *Module) blocksOf(fn *ssa.Function) []*ssa.BasicBlock {
	var out []*ssa.BasicBlock
	for _, f := range m.body(fn) {
		out = append(out, f.Blocks...)
	}
	return out
}

// scanIG builds the graph of fn for a whole-package scan: visiting a function
// in a scan does not make it an anchor.
func scanIG(m *Module, fn *ssa.Function, diverging map[*ssa.Function]bool) *IG {
	save := m.anchorOff
	m.anchorOff = true
	g := newIG(m, fn, diverging)
	m.anchorOff = save
	return g
}

// methodOfPrivateType: fn is a method whose receiver type is not exported (an
// exported method name then names nothing outside the package).
func methodOfPrivateType(fn *ssa.Function) bool {
	recv := fn.Signature.Recv()
	if recv == nil {
		return false
	}
	t := recv.Type()
	if p, ok := t.(*types.Pointer); ok {
		t = p.Elem()
	}
	n, ok := t.(*types.Named)
	return ok && !token.IsExported(n.Obj().Name())
}
