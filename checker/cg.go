package main

// Call graph over the module's source functions: static calls, calls through
// single-initialiser seams, closures (parent -> closure), function references
// (address taken) and interface calls resolved by class-hierarchy analysis
// over the module's own named types.

import (
	"go/types"
	"sort"

	"golang.org/x/tools/go/ssa"
)

type cgEdge struct {
	From, To *ssa.Function
	Site     ssa.Instruction
	Kind     string // call seam closure ref invoke
}

type CG struct {
	M       *Module
	Callees map[*ssa.Function][]cgEdge
	Callers map[*ssa.Function][]cgEdge
}

func (m *Module) moduleNamedTypes() []*types.Named {
	var out []*types.Named
	for _, p := range m.SSAPkgs {
		for _, mem := range p.Members {
			if t, ok := mem.(*ssa.Type); ok {
				if n, ok := t.Type().(*types.Named); ok {
					out = append(out, n)
				}
			}
		}
	}
	sort.Slice(out, func(i, j int) bool { return out[i].String() < out[j].String() })
	return out
}

// implementations returns the module's concrete methods that an interface
// method call can dispatch to.
func (m *Module) implementations(cc *ssa.CallCommon) []*ssa.Function {
	if !cc.IsInvoke() {
		return nil
	}
	iface, ok := cc.Value.Type().Underlying().(*types.Interface)
	if !ok {
		return nil
	}
	var out []*ssa.Function
	for _, n := range m.moduleNamedTypes() {
		if _, isIface := n.Underlying().(*types.Interface); isIface {
			continue
		}
		for _, t := range []types.Type{n, types.NewPointer(n)} {
			if !types.Implements(t, iface) {
				continue
			}
			sel := m.Prog.MethodSets.MethodSet(t).Lookup(cc.Method.Pkg(), cc.Method.Name())
			if sel == nil {
				continue
			}
			if f, ok := sel.Obj().(*types.Func); ok {
				if d := m.Prog.FuncValue(f); d != nil && d.Blocks != nil {
					out = append(out, d)
				}
			}
			break
		}
	}
	return out
}

func buildCG(m *Module) *CG {
	cg := &CG{M: m, Callees: map[*ssa.Function][]cgEdge{}, Callers: map[*ssa.Function][]cgEdge{}}
	add := func(e cgEdge) {
		cg.Callees[e.From] = append(cg.Callees[e.From], e)
		cg.Callers[e.To] = append(cg.Callers[e.To], e)
	}
	var ops []*ssa.Value
	m.eachInstr(func(fn *ssa.Function, in ssa.Instruction) {
		var calleeVal ssa.Value
		if cc := callCommon(in); cc != nil {
			if cc.IsInvoke() {
				for _, impl := range m.implementations(cc) {
					add(cgEdge{fn, impl, in, "invoke"})
				}
			} else if f := cc.StaticCallee(); f != nil {
				add(cgEdge{fn, f, in, "call"})
				calleeVal = cc.Value
			} else if f := m.callee(cc); f != nil {
				add(cgEdge{fn, f, in, "seam"})
			}
		}
		if mc, ok := in.(*ssa.MakeClosure); ok {
			if f, ok := mc.Fn.(*ssa.Function); ok {
				add(cgEdge{fn, f, in, "closure"})
			}
			return
		}
		ops = in.Operands(ops[:0])
		for _, op := range ops {
			if *op == nil || *op == calleeVal {
				continue
			}
			if f, ok := strip(*op).(*ssa.Function); ok {
				add(cgEdge{fn, f, in, "ref"})
			}
		}
	})
	return cg
}

// reachable returns the functions reachable from roots following all edge
// kinds.
func (cg *CG) reachable(roots []*ssa.Function) map[*ssa.Function]bool {
	seen := map[*ssa.Function]bool{}
	work := append([]*ssa.Function{}, roots...)
	for _, r := range roots {
		seen[r] = true
	}
	for len(work) > 0 {
		f := work[len(work)-1]
		work = work[:len(work)-1]
		for _, e := range cg.Callees[f] {
			if !seen[e.To] {
				seen[e.To] = true
				work = append(work, e.To)
			}
		}
	}
	return seen
}

// transitiveCallers returns every function from which fn is reachable
// (including fn), not walking above the functions in stopAt.
func (cg *CG) transitiveCallers(fn *ssa.Function, stopAt map[*ssa.Function]bool) map[*ssa.Function]bool {
	seen := map[*ssa.Function]bool{fn: true}
	work := []*ssa.Function{fn}
	for len(work) > 0 {
		f := work[len(work)-1]
		work = work[:len(work)-1]
		if stopAt[f] {
			continue
		}
		for _, e := range cg.Callers[f] {
			if !seen[e.From] {
				seen[e.From] = true
				work = append(work, e.From)
			}
		}
	}
	return seen
}

func sortedFuncs(set map[*ssa.Function]bool) []*ssa.Function {
	var out []*ssa.Function
	for f := range set {
		out = append(out, f)
	}
	sort.Slice(out, func(i, j int) bool { return out[i].String() < out[j].String() })
	return out
}
