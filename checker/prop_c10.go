package main

import (
	"fmt"
	"go/token"
	"go/types"
	"sort"
	"strings"

	"golang.org/x/tools/go/ssa"
)

func init() {
	register(&Property{
		ID: "C10", NeedKernel: true, Run: runC10,
		Explanation: "Multiboot decoding structure decided on SSA: (R1) the set of region types for which VisitMemRegions stores MemReserved is exactly the complement of the " +
			"exported MemoryEntryType constants, decided over all 2^32 values by evaluating the function's comparisons on one representative per interval between the " +
			"compared constants (the type is touched only through comparisons); the visitor is called after the normalisation (found F3); (R2) findTagByType starts at " +
			"infoData+8 and advances by the tag's own size rounded up to 8, VisitMemRegions starts 8 bytes into the tag's payload, advances by the entrySize of this " +
			"tag's header and stops at payload+size; (R3) findTagByType returns (cursor+8, size-8) only on the equal side of the type comparison of the current tag and " +
			"(0,0) only on the end-tag side, with no other exit; the exported readers dereference the payload only on the size != 0 side; (R4) every integer that " +
			"becomes a pointer in package multiboot derives from infoData, a findTagByType result, or a field read through such a pointer; (R5) the ELF visitor is " +
			"called only for sections with size != 0 and RGBColorInfo returns non-nil only for the RGB framebuffer type.",
		EnumRule:    "obligations per rule and construct; R1 has one evaluation per representative value",
		Assumptions: []string{"exact decoding for all blocks, absence of reads past the block's end (needs its run-time size) and command-line splitting are not decided"},
		Controls: []Control{
			{Name: "region type becomes a signed integer", File: "kernel/multiboot/multiboot.go", Old: "type MemoryEntryType uint32", New: "type MemoryEntryType int32", Expect: "C10.R1 entry-type-unsigned"},
			{Name: "empty entries are not reported", File: "kernel/multiboot/multiboot.go", Old: "\t\tif !visitor(entry) {\n\t\t\treturn\n\t\t}\n", New: "\t\tif entry.Length != 0 && !visitor(entry) {\n\t\t\treturn\n\t\t}\n", Expect: "C10.R1"},
			{Name: "string table header read before the section loop", File: "kernel/multiboot/multiboot.go", Old: "\tfor secIndex := uint16(0); secIndex < ptrElfSections.numSections;", New: "\tif strTableSection.address == 0 {\n\t\treturn\n\t}\n\tfor secIndex := uint16(0); secIndex < ptrElfSections.numSections;", Expect: "C10.R5"},
			{Name: "> re-introduced (F3)", File: "kernel/multiboot/multiboot.go", Old: "if entry.Type == 0 || entry.Type >= memUnknown {", New: "if entry.Type == 0 || entry.Type > memUnknown {", Expect: "C10.R1"},
			{Name: "a fifth region type defined (seed C10-12)", File: "kernel/multiboot/multiboot.go", Old: "\t// Any value >= memUnknown will be mapped to MemReserved.\n\tmemUnknown\n", New: "\t// MemBadRAM indicates defective RAM.\n\tMemBadRAM\n\n\t// Any value >= memUnknown will be mapped to MemReserved.\n\tmemUnknown\n", Expect: "C10.R1 defined-set"},
			{Name: "stride from the Go struct size", File: "kernel/multiboot/multiboot.go", Old: "curPtr += uintptr(ptrMapHeader.entrySize)", New: "curPtr += unsafe.Sizeof(MemoryMapEntry{})\n\t\t_ = ptrMapHeader", Expect: "C10.R2"},
			{Name: "last match wins", File: "kernel/multiboot/multiboot.go",
				Old: "\t\tif ptrTagHeader.tagType == tagType {\n\t\t\treturn curPtr + 8, ptrTagHeader.size - 8\n\t\t}\n\n\t\t// Tags are aligned at 8-byte aligned addresses\n\t\tcurPtr += uintptr(int32(ptrTagHeader.size+7) & ^7)\n\t}\n\n\treturn 0, 0\n}",
				New: "\t\tif ptrTagHeader.tagType == tagType {\n\t\t\tfoundPtr, foundSize = curPtr+8, ptrTagHeader.size-8\n\t\t}\n\n\t\t// Tags are aligned at 8-byte aligned addresses\n\t\tcurPtr += uintptr(int32(ptrTagHeader.size+7) & ^7)\n\t}\n\n\treturn foundPtr, foundSize\n}\n\nvar (\n\tfoundPtr  uintptr\n\tfoundSize uint32\n)", Expect: "C10.R3"},
			{Name: "pointer built from a constant", File: "kernel/multiboot/multiboot.go", Old: "\tptrMapHeader := (*mmapHeader)(unsafe.Pointer(curPtr))", New: "\tptrMapHeader := (*mmapHeader)(unsafe.Pointer(uintptr(0x500)))", Expect: "C10.R"},
			{Name: "tags not aligned", File: "kernel/multiboot/multiboot.go", Old: "curPtr += uintptr(int32(ptrTagHeader.size+7) & ^7)", New: "curPtr += uintptr(ptrTagHeader.size)", Expect: "C10.R2"},
			{Name: "type 0 passed through", File: "kernel/multiboot/multiboot.go", Old: "if entry.Type == 0 || entry.Type >= memUnknown {", New: "if entry.Type >= memUnknown {", Expect: "C10.R1"},
			{Name: "empty sections visited", File: "kernel/multiboot/multiboot.go", Old: "\t\tif secData.size == 0 {\n\t\t\tcontinue\n\t\t}\n", New: "", Expect: "C10.R5"},
			{Name: "absent memory map dereferenced", File: "kernel/multiboot/multiboot.go", Old: "\tcurPtr, size := findTagByType(tagMemoryMap)\n\tif size == 0 {\n\t\treturn\n\t}\n", New: "\tcurPtr, size := findTagByType(tagMemoryMap)\n", Expect: "C10.R3"},
			{Name: "visitor called before normalisation", File: "kernel/multiboot/multiboot.go", Old: "\t\t// Mark unknown entry types as reserved\n\t\tif entry.Type == 0 || entry.Type >= memUnknown {\n\t\t\tentry.Type = MemReserved\n\t\t}\n\n\t\tif !visitor(entry) {\n\t\t\treturn\n\t\t}\n", New: "\t\tif !visitor(entry) {\n\t\t\treturn\n\t\t}\n\n\t\tif entry.Type == 0 || entry.Type >= memUnknown {\n\t\t\tentry.Type = MemReserved\n\t\t}\n", Expect: "C10.R1"},
			{Name: "colour info for indexed framebuffers", File: "kernel/multiboot/multiboot.go", Old: "\tif i.Type != FramebufferTypeRGB {\n\t\treturn nil\n\t}\n", New: "\tif i.Type == FramebufferTypeEGA {\n\t\treturn nil\n\t}\n", Expect: "C10.R5"},
			{Name: "entries start at the map header", File: "kernel/multiboot/multiboot.go", Old: "\tendPtr := curPtr + uintptr(size)\n\tcurPtr += 8\n", New: "\tendPtr := curPtr + uintptr(size)\n", Expect: "C10.R2"},
		},
	})
}

// reachableForValue: can target be reached when every comparison of the subject
// with a constant is decided for subject == v? (The subject is touched only
// through comparisons, so this is exact for v's whole interval.)
func reachableForValue(g *IG, target int, subject func(ssa.Value) bool, v uint64) bool {
	cut := map[Edge]bool{}
	for _, f := range g.AllEdgeFacts() {
		if f.Y == nil {
			continue
		}
		var k uint64
		var op token.Token
		if subject(f.X) {
			c, ok := constUint64(f.Y)
			if !ok {
				continue
			}
			k, op = c, f.Op
		} else if subject(f.Y) {
			c, ok := constUint64(f.X)
			if !ok {
				continue
			}
			k, op = c, swapOp(f.Op)
		} else {
			continue
		}
		holds := false
		switch op {
		case token.EQL:
			holds = v == k
		case token.NEQ:
			holds = v != k
		case token.LSS:
			holds = v < k
		case token.LEQ:
			holds = v <= k
		case token.GTR:
			holds = v > k
		case token.GEQ:
			holds = v >= k
		}
		if !holds {
			cut[f.Edge] = true
		}
	}
	return g.Reach([]int{0}, cut, nil)[target]
}

// comparedConstants lists the constants the subject is compared with in g.
func comparedConstants(g *IG, subject func(ssa.Value) bool) []uint64 {
	var out []uint64
	for _, f := range g.AllEdgeFacts() {
		if f.Y == nil {
			continue
		}
		if subject(f.X) {
			if c, ok := constUint64(f.Y); ok {
				out = append(out, c)
			}
		} else if subject(f.Y) {
			if c, ok := constUint64(f.X); ok {
				out = append(out, c)
			}
		}
	}
	return out
}

func runC10(c *Ctx) {
	m := c.K
	const mb = "multiboot"
	pkg := m.pkg(mb)
	visitMem, visitElf, findTag := m.lookupFunc(mb, "VisitMemRegions"), m.lookupFunc(mb, "VisitElfSections"), m.lookupFunc(mb, "findTagByType")
	getFB, getCmd := m.lookupFunc(mb, "GetFramebufferInfo"), m.lookupFunc(mb, "GetBootCmdLine")
	rgb := m.lookupMethod(mb, "FramebufferInfo", "RGBColorInfo")
	infoData := m.lookupGlobal(mb, "infoData")
	typeF := m.fieldOf(mb, "MemoryMapEntry", "Type")
	entrySizeF := m.fieldOf(mb, "mmapHeader", "entrySize")
	tagTypeF, tagSizeF := m.fieldOf(mb, "tagHeader", "tagType"), m.fieldOf(mb, "tagHeader", "size")
	secSizeF := m.fieldOf(mb, "elfSection64", "size")
	fbTypeF := m.fieldOf(mb, "FramebufferInfo", "Type")
	entryT := m.lookupType(mb, "MemoryEntryType")
	for name, v := range map[string]interface{}{"multiboot.VisitMemRegions": visitMem, "multiboot.VisitElfSections": visitElf, "multiboot.findTagByType": findTag,
		"multiboot.GetFramebufferInfo": getFB, "multiboot.GetBootCmdLine": getCmd, "FramebufferInfo.RGBColorInfo": rgb, "multiboot.infoData": infoData,
		"MemoryMapEntry.Type": typeF, "mmapHeader.entrySize": entrySizeF, "tagHeader.tagType": tagTypeF, "tagHeader.size": tagSizeF, "elfSection64.size": secSizeF,
		"FramebufferInfo.Type": fbTypeF, "multiboot.MemoryEntryType": entryT} {
		if isNilIface(v) {
			c.unresolved("C10.R1", name)
			return
		}
	}

	// ================= R1 =================
	c.floor("C10.R1", 3)
	defined := map[uint64]string{}
	for name, mem := range pkg.Members {
		if nc, ok := mem.(*ssa.NamedConst); ok && types.Identical(nc.Type(), entryT) && nc.Object().Exported() {
			v, _ := constUint64(nc.Value)
			defined[v] = name
		}
	}
	// The defined set is part of the property's reference, not something the
	// code under analysis may redefine: the four region types of the pinned
	// tree, values 1..4. A fifth exported constant makes one more raw value
	// pass through to the visitors unchanged.
	{
		var extra []string
		for v, name := range defined {
			if v < 1 || v > 4 {
				extra = append(extra, fmt.Sprintf("%s = %d", name, v))
			}
		}
		sort.Strings(extra)
		c.check(len(extra) == 0 && len(defined) == 4, "C10.R1", "defined-set multiboot.MemoryEntryType",
			"the defined region types are the four values 1..4 (available, reserved, ACPI reclaimable, NVS)",
			fmt.Sprintf("the set of defined region types is no longer the values 1..4 (%d exported constants; outside: %s): a raw type that the property counts as undefined reaches the visitors unchanged instead of as reserved", len(defined), strings.Join(extra, ", ")), m.pos(entryT.Obj().Pos()))
	}
	reservedV, okr := namedConstUint(m, mb, "MemReserved")
	g := newIG(m, visitMem, nil)
	isType := func(v ssa.Value) bool { return isLoadOfField(v, typeF) }
	var stores []int
	for n, in := range g.Ins {
		if st, ok := in.(*ssa.Store); ok {
			if f, rest := lastField(accessPath(st.Addr)); f == typeF && rest == "" {
				stores = append(stores, n)
			}
		}
	}
	if len(stores) != 1 || !okr || len(defined) == 0 {
		c.fail("C10.R1", "normalisation "+m.fnName(visitMem), fmt.Sprintf("expected exactly one store to the entry's Type (found %d) and the exported type constants", len(stores)), m.pos(visitMem.Pos()))
	} else {
		sn := stores[0]
		sv, _ := constUint64(g.Ins[sn].(*ssa.Store).Val)
		c.check(sv == reservedV, "C10.R1", "normalised-value "+m.fnName(visitMem), "unknown types are rewritten to MemReserved", "unknown types are rewritten to a value that is not MemReserved", g.posOf(sn))
		reps := map[uint64]bool{0: true, 1<<32 - 1: true}
		add := func(k uint64) {
			for _, d := range []int64{-1, 0, 1} {
				v := int64(k) + d
				if v >= 0 && v <= 1<<32-1 {
					reps[uint64(v)] = true
				}
			}
		}
		for _, k := range comparedConstants(g, isType) {
			add(k)
		}
		for k := range defined {
			add(k)
		}
		var rs []uint64
		for v := range reps {
			rs = append(rs, v)
		}
		sort.Slice(rs, func(i, j int) bool { return rs[i] < rs[j] })
		var wrong []string
		var normalised []string
		for _, v := range rs {
			c.Evals++
			reach := reachableForValue(g, sn, isType, v)
			_, isDef := defined[v]
			if reach {
				normalised = append(normalised, fmt.Sprint(v))
			}
			if reach == isDef {
				if isDef {
					wrong = append(wrong, fmt.Sprintf("type %d (%s) is a defined type but is rewritten to reserved", v, defined[v]))
				} else {
					wrong = append(wrong, fmt.Sprintf("type %d is not a defined type but reaches the visitors unchanged", v))
				}
			}
		}
		// the representatives are unsigned 32-bit values, as the wire format has
		// them; with a signed type the upper half of the range compares below zero
		{
			bt, _ := typeF.Type().Underlying().(*types.Basic)
			okT := bt != nil && bt.Info()&types.IsUnsigned != 0 && sizesAMD64.Sizeof(typeF.Type()) == 4
			c.check(okT, "C10.R1", "entry-type-unsigned multiboot.MemoryMapEntry.Type", "the region type is an unsigned 32-bit value, as the multiboot2 memory map encodes it",
				"the region type is not an unsigned 32-bit integer ("+typeF.Type().Underlying().String()+"): types 0x80000000 and above compare as negative and escape the `>= memUnknown` normalisation", m.pos(typeF.Pos()))
		}
		c.check(len(wrong) == 0, "C10.R1", "normalisation-set "+m.fnName(visitMem),
			fmt.Sprintf("%d representative values (one per interval between compared constants) evaluated: exactly the undefined ones {%s} are rewritten", len(rs), strings.Join(normalised, ",")),
			strings.Join(wrong, "; "), g.posOf(sn))
		// visitor is invoked after the normalisation test on every path
		visP := visitMem.Params[0]
		okOrder := true
		nv := 0
		for n, in := range g.Ins {
			if call, ok := in.(*ssa.Call); ok && call.Common().Value == ssa.Value(visP) {
				nv++
				// no store to Type reachable after the visitor call within the same iteration (before the loop header)
				hdr, _ := loopOf(call.Block())
				stop := func(k int) bool { return hdr != nil && g.Ins[k].Block() == hdr }
				if g.Reach(g.Succ[n], nil, stop)[sn] {
					okOrder = false
				}
				// every path to the call decided the normalisation: passes an If on the type
				if ok, _ := g.MustPassBefore(n, func(k int) bool {
					_, ok := g.Ins[k].(*ssa.If)
					if !ok {
						return false
					}
					f, _ := condFact(g.Cond(k), true)
					return f.X != nil && (isType(f.X) || f.Y != nil && isType(f.Y))
				}); !ok {
					okOrder = false
				}
			}
		}
		// every entry is reported: no way round the loop misses the visitor call
		{
			okAll, nloops := true, 0
			var where []string
			for n, in := range g.Ins {
				call, ok := in.(*ssa.Call)
				if !ok || call.Common().Value != ssa.Value(visP) {
					continue
				}
				hdr, body := loopOf(call.Block())
				if hdr == nil {
					okAll = false
					continue
				}
				nloops++
				var starts []int
				for _, sb := range hdr.Succs {
					if body[sb] && sb != hdr {
						starts = append(starts, g.First[sb])
					}
				}
				inHdr := func(k int) bool { return g.Ins[k] != nil && g.Ins[k].Block() == hdr }
				if p := g.Path(starts, nil, func(k int) bool { return k == n }, inHdr); p != nil {
					okAll = false
					where = g.where(p, 8)
				}
			}
			c.check(okAll && nloops > 0, "C10.R1", "every-entry-visited "+m.fnName(visitMem), "every iteration of the entry loop reaches the visitor call",
				"an iteration of the entry loop can go on to the next entry without reporting this one: the regions are not reported exactly", where...)
		}
		c.check(okOrder && nv > 0, "C10.R1", "normalise-then-visit "+m.fnName(visitMem), "the visitor sees the entry only after its type has been normalised", "the visitor is called before the entry's type is normalised", m.pos(visitMem.Pos()))
	}

	// ================= R2 =================
	c.floor("C10.R2", 2)
	z := &Polyizer{}
	{
		gf := newIG(m, findTag, nil)
		bad := ""
		cur := c10TagCursor(gf, infoData)
		if cur == nil {
			bad = "no cursor variable"
		} else {
			init, step := false, false
			_, body := loopOf(cur.Block())
			dead := deadBackPreds(cur.Block(), body)
			for i, e := range cur.Edges {
				if dead[i] || stripConv(e) == ssa.Value(cur) {
					continue // the loop is left on this edge / the cursor stays
				}
				if other, ok := matchAdd(e, func(v ssa.Value) bool { return isLoadOfGlobal(v, infoData) }); ok {
					if k, ok := constInt64(other); ok && k == 8 {
						init = true
						continue
					}
				}
				if other, ok := matchAdd(e, func(v ssa.Value) bool { return v == ssa.Value(cur) }); ok {
					// step = up3(size of the header at cur)
					sp := z.Of(other).String()
					hdrOK := false
					if _, isUp := matchUp(3, z.Of(other)); isUp {
						// the size that is rounded is the size field of the tag header at the cursor
						hdrOK = valueReads(other, tagSizeF, cur)
					}
					if hdrOK {
						step = true
					} else {
						bad = "the tag cursor advances by " + sp + ", expected the current tag's size rounded up to 8 (tags are 8-byte aligned)"
					}
					continue
				}
				bad = "unexpected cursor update " + describe(e)
			}
			if bad == "" && (!init || !step) {
				bad = "the tag cursor does not start at infoData+8 and advance by the rounded tag size"
			}
		}
		c.check(bad == "", "C10.R2", "tag-stride "+m.fnName(findTag), "cursor = infoData+8; cursor += up8(current tag size)", bad, m.pos(findTag.Pos()))
	}
	{
		// In iteration T of the entry loop the entry handed to the visitor lies at
		// payload + 8 + T*entrySize (entrySize read from the map header at the
		// payload), and the loop is left when that address reaches payload + size;
		// however the cursor is kept (a pointer that is advanced, an offset).
		bad := ""
		var payload, sizeV ssa.Value
		for _, in := range g.Ins {
			if ex, ok := in.(*ssa.Extract); ok {
				if _, ok := m.resultOf(ex, findTag, ex.Index); ok {
					if ex.Index == 0 {
						payload = ex
					} else {
						sizeV = ex
					}
				}
			}
		}
		var visCall *ssa.Call
		for _, in := range g.Ins {
			if call, ok := in.(*ssa.Call); ok && call.Common().Value == ssa.Value(visitMem.Params[0]) {
				visCall = call
			}
		}
		var entryAddr ssa.Value
		if visCall != nil && len(visCall.Common().Args) == 1 {
			entryAddr = ptrFromUintptr(visCall.Common().Args[0])
		}
		switch {
		case payload == nil || sizeV == nil:
			bad = "no payload / size value"
		case entryAddr == nil:
			bad = "the entry handed to the visitor is not made from an address"
		default:
			lf, inLoop := g.loopFormAt(z, visCall.Block())
			if !inLoop {
				bad = "the visitor is not called in a loop over the entries"
			} else {
				addrP := z.Of(entryAddr)
				first, step, okA := splitT(addrP)
				okStep := false
				for _, sv := range lf.SymSteps {
					if valueReads(sv, entrySizeF, payload) && z.Of(sv).equal(step) {
						okStep = true
					}
				}
				switch {
				case !okA || !first.equal(z.Of(payload).add(polyConst(8), 1)):
					bad = "the entry cursor starts at " + first.String() + ", expected payload+8 (the map header is two dwords long)"
				case !okStep:
					bad = "the entry cursor advances by " + step.String() + ", expected the entrySize field of this tag's header (entries may be larger than the Go struct)"
				default:
					// loop end: entry address != payload + size (both sides may have the same amount subtracted)
					want := addrP.add(z.Of(payload), -1).add(z.Of(sizeV), -1)
					okEnd := false
					for blk := range lf.Body {
						ifi, ok := blk.Instrs[len(blk.Instrs)-1].(*ssa.If)
						if !ok || len(blk.Succs) != 2 || lf.Body[blk.Succs[0]] == lf.Body[blk.Succs[1]] {
							continue
						}
						f, ok := condFact(ifi.Cond, lf.Body[blk.Succs[0]])
						if !ok || f.Y == nil || (f.Op != token.NEQ && f.Op != token.LSS) {
							continue
						}
						d := z.Of(f.X).add(z.Of(f.Y), -1)
						if d.equal(want) || (f.Op == token.NEQ && d.equal(Poly{}.add(want, -1))) {
							okEnd = true
						}
					}
					if !okEnd {
						bad = "the entry loop does not end at payload + size"
					}
				}
				lf.Done()
			}
		}
		c.check(bad == "", "C10.R2", "entry-stride "+m.fnName(visitMem), "cursor = payload+8; cursor += header.entrySize; until payload+size", bad, m.pos(visitMem.Pos()))
	}

	// ================= R3 =================
	c.floor("C10.R3", 5)
	{
		gf := newIG(m, findTag, nil)
		tagP := findTag.Params[0]
		cur := c10TagCursor(gf, infoData)
		nmatch, nend := 0, 0
		bad := ""
		seen := map[string]bool{}
		for _, rc := range gf.ReturnCases() {
			if len(rc.Vals) != 2 {
				continue
			}
			// (what the tests on the way out of the loop said belongs to the case)
			facts := append(gf.CaseFacts(rc), rc.Req...)
			if isZeroConst(rc.Vals[0]) && isZeroConst(rc.Vals[1]) {
				if !seen["end"] {
					nend++
					seen["end"] = true
				}
				if !hasFact(facts, func(f Fact) bool {
					return cmpMatch(f, token.EQL, func(v ssa.Value) bool { return valueReads(v, tagTypeF, cur) }, isZeroConst)
				}) {
					bad = "(0, 0) is returned on a path that has not seen the end tag"
				}
				continue
			}
			k := fmt.Sprint(rc.Vals[0].Name(), rc.Vals[1].Name(), rc.At)
			if seen[k] {
				continue
			}
			seen[k] = true
			nmatch++
			if !hasFact(facts, func(f Fact) bool {
				return cmpMatch(f, token.EQL, func(v ssa.Value) bool { return valueReads(v, tagTypeF, cur) }, func(v ssa.Value) bool { return v == ssa.Value(tagP) })
			}) {
				bad = "a tag is returned that has not been compared equal to the requested type"
			}
			p0, p1 := z.Of(rc.Vals[0]), z.Of(rc.Vals[1])
			if cur == nil || !p0.equal(polyAtom(z.defaultAtom(cur)).add(polyConst(8), 1)) {
				bad = "the payload pointer returned is " + p0.String() + ", expected the current tag + 8"
			}
			if !valueReads(rc.Vals[1], tagSizeF, cur) || !strings.HasPrefix(p1.String(), "-8 + ") {
				bad = "the payload size returned is " + p1.String() + ", expected the current tag's size - 8"
			}
		}
		if nmatch != 1 || nend != 1 {
			bad = fmt.Sprintf("expected one match return and one not-found return, found %d / %d (the first tag of a type must win; the end tag must stop the scan)", nmatch, nend)
		}
		c.check(bad == "", "C10.R3", "first-match "+m.fnName(findTag), "returns (cursor+8, size-8) from inside the loop on the first type match; (0,0) only at the end tag", bad, m.pos(findTag.Pos()))
	}
	for _, fn := range []*ssa.Function{visitMem, visitElf, getFB, getCmd} {
		gg := newIG(m, fn, nil)
		key := "absent-tag " + m.fnName(fn)
		var payload, size ssa.Value
		for _, in := range gg.Ins {
			if ex, ok := in.(*ssa.Extract); ok {
				if _, ok := m.resultOf(ex, findTag, ex.Index); ok {
					if ex.Index == 0 {
						payload = ex
					} else {
						size = ex
					}
				}
			}
		}
		if payload == nil || size == nil {
			c.fail("C10.R3", key, "the reader does not look its tag up through findTagByType", m.pos(fn.Pos()))
			continue
		}
		bad := ""
		nuse := 0
		for n, in := range gg.Ins {
			// any conversion of the payload (or something derived from it) into a pointer, and any load through it
			cv, ok := in.(*ssa.Convert)
			if !ok {
				continue
			}
			if _, isPtr := cv.Type().Underlying().(*types.Basic); !isPtr || cv.Type().Underlying().(*types.Basic).Kind() != types.UnsafePointer {
				continue
			}
			if !dependsOn(cv.X, payload) {
				continue
			}
			nuse++
			if !hasFact(gg.FactsAt(n), func(f Fact) bool {
				return cmpMatch(f, token.NEQ, func(v ssa.Value) bool { return v == size }, isZeroConst)
			}) {
				bad = "the tag payload is dereferenced on a path on which size != 0 has not been tested: an absent tag (0, 0) is read as if it were present"
			}
		}
		// slice headers over the payload (command line)
		for n, in := range gg.Ins {
			if st, ok := in.(*ssa.Store); ok && st.Val == payload {
				nuse++
				if !hasFact(gg.FactsAt(n), func(f Fact) bool {
					return cmpMatch(f, token.NEQ, func(v ssa.Value) bool { return v == size }, isZeroConst)
				}) {
					bad = "the tag payload is used on a path on which size != 0 has not been tested"
				}
			}
		}
		if nuse == 0 {
			bad = "the payload is never used (rule shape lost)"
		}
		c.check(bad == "", "C10.R3", key, fmt.Sprintf("%d use(s) of the payload, all on the size != 0 side", nuse), bad, m.pos(fn.Pos()))
	}

	// ================= R4 =================
	c.floor("C10.R4", 4)
	nconv := 0
	for _, fn := range m.scanFuncs() {
		if fn.Pkg != pkg {
			continue
		}
		seq := 0
		for _, b := range m.blocksOf(fn) {
			for _, in := range b.Instrs {
				cv, ok := in.(*ssa.Convert)
				if !ok {
					continue
				}
				bt, ok := cv.Type().Underlying().(*types.Basic)
				if !ok || bt.Kind() != types.UnsafePointer || !isIntegral(cv.X.Type()) {
					continue
				}
				nconv++
				c.Evals++
				key := fmt.Sprintf("pointer-provenance %s #%d", m.fnName(fn), seq)
				seq++
				anchors, foreign := provenance(m, cv.X, infoData, findTag, map[ssa.Value]bool{}, 0)
				switch {
				case len(foreign) > 0:
					c.fail("C10.R4", key, "an integer that does not come from the multiboot block becomes a pointer: "+strings.Join(uniq(foreign), ", "), m.pos(in.Pos()))
				case len(anchors) == 0:
					c.fail("C10.R4", key, "a pointer is built from constants only", m.pos(in.Pos()))
				default:
					c.ok("C10.R4", key, "derives from "+strings.Join(uniq(anchors), ", "), m.pos(in.Pos()))
				}
			}
		}
	}
	if nconv == 0 {
		c.fail("C10.R4", "pointer-provenance multiboot", "no integer-to-pointer conversion found (rule shape lost)")
	}

	// ================= R5 =================
	c.floor("C10.R5", 3)
	{
		ge := newIG(m, visitElf, nil)
		visP := visitElf.Params[0]
		bad := ""
		nv := 0
		for n, in := range ge.Ins {
			if call, ok := in.(*ssa.Call); ok && call.Common().Value == ssa.Value(visP) {
				nv++
				if !hasFact(ge.FactsAt(n), func(f Fact) bool {
					return cmpMatch(f, token.NEQ, func(v ssa.Value) bool { return isLoadOfField(v, secSizeF) }, isZeroConst)
				}) {
					bad = "the visitor is called for sections whose size has not been tested != 0"
				}
				// the size passed is that section's size
				if !isLoadOfField(call.Common().Args[3], secSizeF) {
					bad = "the size passed to the visitor is not the section's size field"
				}
			}
		}
		if nv == 0 {
			bad = "the section visitor is never called"
		}
		c.check(bad == "", "C10.R5", "non-empty-sections "+m.fnName(visitElf), "the visitor is called only for sections with size != 0", bad, m.pos(visitElf.Pos()))
		// a section header is read only while the section counter is below the
		// table's numSections: with an empty table nothing behind the tag is touched
		secT := m.lookupType(mb, "elfSection64")
		numF := m.fieldOf(mb, "elfSections", "numSections")
		if secT == nil || numF == nil {
			c.unresolved("C10.R5", "multiboot.elfSection64 / elfSections.numSections")
		} else {
			bad = ""
			where := m.pos(visitElf.Pos())
			nld := 0
			boundedBy := func(h *ssa.BasicBlock, body map[*ssa.BasicBlock]bool) bool {
				for blk := range body {
					ifi, ok := blk.Instrs[len(blk.Instrs)-1].(*ssa.If)
					if !ok || len(blk.Succs) != 2 || body[blk.Succs[0]] == body[blk.Succs[1]] {
						continue
					}
					f, ok := condFact(ifi.Cond, body[blk.Succs[0]])
					if !ok || f.Y == nil {
						continue
					}
					for _, pr := range [][2]ssa.Value{{f.X, f.Y}, {f.Y, f.X}} {
						op := f.Op
						if pr[0] != f.X {
							op = swapOp(op)
						}
						cv := stripConv(pr[0])
						if b, isAdd := cv.(*ssa.BinOp); isAdd && b.Op == token.ADD {
							// (the test of a `for range n` loop is made on the counter + 1)
							if _, isK := constInt64(b.Y); isK {
								cv = stripConv(b.X)
							}
						}
						if phi, isPhi := cv.(*ssa.Phi); isPhi && phi.Block() == h && (op == token.LSS || op == token.NEQ) && isLoadOfField(stripConv(pr[1]), numF) {
							return true
						}
					}
				}
				return false
			}
			for n, in := range ge.Ins {
				ld, ok := in.(*ssa.UnOp)
				if !ok || ld.Op != token.MUL {
					continue
				}
				fa, ok := ld.X.(*ssa.FieldAddr)
				if !ok {
					continue
				}
				pt, ok := fa.X.Type().Underlying().(*types.Pointer)
				if !ok || !types.Identical(pt.Elem(), secT) {
					continue
				}
				nld++
				// (a read in a helper that is called from the loop body is in the loop)
				inLoop := false
				for _, h := range ge.loopsAround(n) {
					if _, body := loopOf(h); boundedBy(h, body) {
						inLoop = true
					}
				}
				if !inLoop {
					bad = "a section header is read outside the loop that is bounded by numSections: with an empty section table bytes behind the tag are read"
					where = ge.posOf(n)
				}
			}
			if nld == 0 {
				bad = "no section header read found (rule shape lost)"
			}
			c.check(bad == "", "C10.R5", "section-reads-bounded "+m.fnName(visitElf), fmt.Sprintf("%d read(s) of section headers, all inside the loop bounded by numSections", nld), bad, where)
		}
		gr := newIG(m, rgb, nil)
		rgbV, _ := namedConstUint(m, mb, "FramebufferTypeRGB")
		bad = ""
		nn := 0
		for _, rn := range gr.Returns() {
			if isNilConst(gr.Ins[rn].(*ssa.Return).Results[0]) {
				continue
			}
			nn++
			if !hasFact(gr.FactsAt(rn), func(f Fact) bool {
				return cmpMatch(f, token.EQL, func(v ssa.Value) bool { return isLoadOfField(v, fbTypeF) }, func(v ssa.Value) bool { k, ok := constUint64(v); return ok && k == rgbV })
			}) {
				bad = "colour layout information is returned for a framebuffer whose type has not been tested == RGB"
			}
		}
		if nn == 0 {
			bad = "RGBColorInfo never returns the colour info"
		}
		c.check(bad == "", "C10.R5", "rgb-only "+m.fnName(rgb), "non-nil only on the Type == FramebufferTypeRGB side", bad, m.pos(rgb.Pos()))
	}
}

// valueReads: v is (a conversion of) a load of field fld through a pointer
// converted from the integer value base.
func valueReads(v ssa.Value, fld *types.Var, base ssa.Value) bool {
	found := false
	var rec func(x ssa.Value, d int)
	rec = func(x ssa.Value, d int) {
		if d > 10 || found {
			return
		}
		switch t := x.(type) {
		case *ssa.Convert:
			rec(t.X, d+1)
		case *ssa.ChangeType:
			rec(t.X, d+1)
		case *ssa.BinOp:
			rec(t.X, d+1)
			rec(t.Y, d+1)
		case *ssa.UnOp:
			if t.Op == token.MUL {
				if b, f, ok := fieldOfAddr(t.X); ok && f == fld {
					if p := ptrFromUintptr(b); p == base || resolvesTo(b, base) {
						found = true
					}
				}
			} else {
				rec(t.X, d+1)
			}
		}
	}
	rec(v, 0)
	return found
}

// resolvesTo: pointer p is (a phi of) pointers converted from base.
func resolvesTo(p ssa.Value, base ssa.Value) bool {
	if phi, ok := p.(*ssa.Phi); ok {
		// a pointer variable carried in parallel with the integer cursor:
		// edge by edge the pointer is the conversion of the cursor's value
		if bphi, ok := base.(*ssa.Phi); ok && bphi.Block() == phi.Block() && len(bphi.Edges) == len(phi.Edges) {
			all := true
			for i, e := range phi.Edges {
				if e == ssa.Value(phi) && bphi.Edges[i] == ssa.Value(bphi) {
					continue // both keep their value on this edge
				}
				if ptrFromUintptr(e) != bphi.Edges[i] {
					all = false
				}
			}
			if all {
				return true
			}
		}
		for _, e := range phi.Edges {
			if ptrFromUintptr(e) != base && !resolvesTo(e, base) {
				return false
			}
		}
		return len(phi.Edges) > 0
	}
	return false
}

// provenance classifies the leaves an integer is computed from.
func provenance(m *Module, v ssa.Value, infoData *ssa.Global, findTag *ssa.Function, seen map[ssa.Value]bool, depth int) (anchors, foreign []string) {
	if seen[v] || depth > 30 {
		return
	}
	seen[v] = true
	add := func(a, f []string) {
		anchors = append(anchors, a...)
		foreign = append(foreign, f...)
	}
	switch x := v.(type) {
	case *ssa.Const:
		return
	case *ssa.Convert:
		// pointer -> uintptr of an accepted pointer, or integer conversion
		add(provenance(m, x.X, infoData, findTag, seen, depth+1))
	case *ssa.ChangeType:
		add(provenance(m, x.X, infoData, findTag, seen, depth+1))
	case *ssa.BinOp:
		add(provenance(m, x.X, infoData, findTag, seen, depth+1))
		add(provenance(m, x.Y, infoData, findTag, seen, depth+1))
	case *ssa.Phi:
		for _, e := range x.Edges {
			add(provenance(m, e, infoData, findTag, seen, depth+1))
		}
	case *ssa.Extract:
		if _, ok := m.resultOf(x, findTag, x.Index); ok {
			anchors = append(anchors, "findTagByType")
		} else {
			foreign = append(foreign, describe(x))
		}
	case *ssa.FieldAddr:
		// address of a field of a structure reached through an accepted pointer
		add(provenance(m, x.X, infoData, findTag, seen, depth+1))
	case *ssa.UnOp:
		if x.Op == token.MUL {
			if g, ok := x.X.(*ssa.Global); ok {
				if g == infoData {
					anchors = append(anchors, "infoData")
				} else {
					foreign = append(foreign, "global "+g.Name())
				}
				return
			}
			// a field read through a pointer: the pointer must itself be accepted
			if fa, ok := x.X.(*ssa.FieldAddr); ok {
				// (a pointer that is itself built from constants only is reported at its own conversion)
				_, f := provenance(m, fa.X, infoData, findTag, seen, depth+1)
				if len(f) == 0 {
					_, fld, _ := fieldOfAddr(fa)
					anchors = append(anchors, "field "+fld.Name()+" of the block")
				} else {
					foreign = append(foreign, f...)
				}
				return
			}
			foreign = append(foreign, "load "+describe(x.X))
			return
		}
		add(provenance(m, x.X, infoData, findTag, seen, depth+1))
	case *ssa.Parameter:
		foreign = append(foreign, "parameter "+x.Name())
	case *ssa.Alloc:
		// address of a local (e.g. the section name string header): not block memory, but not an integer either
		anchors = append(anchors, "local "+x.Comment)
	default:
		foreign = append(foreign, describe(v))
	}
	return
}

// matchAdd: e is an addition one of whose operands satisfies isA; returns the other.
func matchAdd(e ssa.Value, isA func(ssa.Value) bool) (ssa.Value, bool) {
	b, ok := e.(*ssa.BinOp)
	if !ok || b.Op != token.ADD {
		return nil, false
	}
	if isA(b.X) {
		return b.Y, true
	}
	if isA(b.Y) {
		return b.X, true
	}
	return nil, false
}

// c10TagCursor: the variable of findTagByType's loop that starts at infoData+8.
func c10TagCursor(g *IG, infoData *ssa.Global) *ssa.Phi {
	for _, in := range g.Ins {
		phi, ok := in.(*ssa.Phi)
		if !ok || !isIntegral(phi.Type()) {
			continue
		}
		if h, _ := loopOf(phi.Block()); h != phi.Block() {
			continue
		}
		for _, e := range phi.Edges {
			if other, ok := matchAdd(e, func(v ssa.Value) bool { return isLoadOfGlobal(v, infoData) }); ok {
				if k, ok := constInt64(other); ok && k == 8 {
					return phi
				}
			}
		}
	}
	return nil
}
