package main

// Lifting of captured local variables. go/ssa puts a local variable into SSA
// form unless its address escapes; a variable that a closure captures stays a
// memory cell (Alloc + Store + load), so `err = f(); if err != nil`, a result
// variable that merges several assignments at a single exit, and a named result
// all look different from their plain counterparts. Between two calls nothing
// else can write such a variable (only closures that capture it can, and they
// run only when something is called), so within those regions the cell is put
// into SSA form here:
//
//   - a load whose reaching definition is a store's value (or an earlier load)
//     on every path, with no call in between, is that value;
//   - where different definitions merge, a phi is created (ssa.NewPhiIn, the
//     one constructor added to the vendored x/tools) and the load is the phi;
//   - a call makes the variable's value unknown: the next load stays a load and
//     is itself the definition for what follows.
//
// This is the standard construction restricted to call-free regions; it adds no
// value that the program cannot have at that point.

import (
	"fmt"
	"go/token"
	"go/types"
	"os"

	"golang.org/x/tools/go/ssa"
)

type cellDef struct {
	kind int // 0 unvisited, 1 known value, 2 unknown, 3 merge at block
	v    ssa.Value
	b    *ssa.BasicBlock
}

func (m *Module) liftLocalCells() {
	for _, fn := range m.Funcs {
		if len(fn.Blocks) == 0 {
			continue
		}
		var cells []*ssa.Alloc
		for _, b := range fn.Blocks {
			for _, in := range b.Instrs {
				if al, ok := in.(*ssa.Alloc); ok {
					if _, _, ok := cellAccesses(al); ok {
						cells = append(cells, al)
					}
				}
			}
		}
		for _, cell := range cells {
			m.liftCell(fn, cell)
		}
	}
}

func (m *Module) liftCell(fn *ssa.Function, cell *ssa.Alloc) {
	isCellAddr := func(a ssa.Value) bool {
		c, ok := cellOf(a)
		return ok && c == cell
	}
	kills := m.cellKillers(fn, cell)
	elem := cell.Type().Underlying().(*types.Pointer).Elem()
	// a variable that no function literal captures is not changed by deferred calls
	captured := false
	ncap := 0 // the function literals that share the variable
	if refs := cell.Referrers(); refs != nil {
		for _, r := range *refs {
			if _, ok := r.(*ssa.MakeClosure); ok {
				captured = true
				ncap++
			}
		}
	}
	if kills != nil {
		// after a call that can change the variable its value is a fresh load,
		// which the merges below can then name
		var at []ssa.Instruction
		for _, b := range fn.Blocks {
			for i, ins := range b.Instrs {
				_, isRD := ins.(*ssa.RunDefers)
				isRD = isRD && captured
				if !kills[ins] && !isRD {
					continue
				}
				if _, isDefer := ins.(*ssa.Defer); isDefer {
					continue
				}
				if i+1 < len(b.Instrs) {
					if ld, ok := b.Instrs[i+1].(*ssa.UnOp); ok && ld.Op == token.MUL && ld.X == ssa.Value(cell) {
						continue
					}
				}
				at = append(at, ins)
			}
		}
		for _, ins := range at {
			ssa.NewLoadAfter(ins, cell, elem)
		}
	}
	out := map[*ssa.BasicBlock]cellDef{}
	in := map[*ssa.BasicBlock]cellDef{}
	same := func(a, b cellDef) bool { return a.kind == b.kind && a.v == b.v && a.b == b.b }
	meet := func(b *ssa.BasicBlock) cellDef {
		if len(b.Preds) == 0 {
			return cellDef{kind: 2}
		}
		var acc cellDef
		for _, p := range b.Preds {
			o := out[p]
			switch {
			case o.kind == 0:
				continue // not yet visited (optimistic)
			case o.kind == 2:
				return cellDef{kind: 2}
			case acc.kind == 0:
				acc = o
			case same(acc, o):
			default:
				acc = cellDef{kind: 3, b: b}
			}
		}
		if acc.kind == 0 {
			return cellDef{kind: 0}
		}
		// a merge placeholder of another block flowing through unchanged stays that placeholder
		return acc
	}
	var stopAt ssa.Instruction
	transfer := func(b *ssa.BasicBlock, cur cellDef, apply func(ld *ssa.UnOp, d cellDef)) cellDef {
		for _, ins := range b.Instrs {
			if stopAt != nil && ins == stopAt {
				return cur
			}
			switch x := ins.(type) {
			case *ssa.Alloc:
				if x == cell {
					cur = cellDef{kind: 1, v: zeroOf(elem)}
				}
			case *ssa.Store:
				if isCellAddr(x.Addr) {
					cur = cellDef{kind: 1, v: x.Val}
				}
			case *ssa.UnOp:
				if x.Op == token.MUL && isCellAddr(x.X) {
					if cur.kind == 1 || cur.kind == 3 {
						if apply != nil {
							apply(x, cur)
						}
					} else {
						cur = cellDef{kind: 1, v: x}
					}
				}
			case ssa.CallInstruction:
				kill := kills == nil || kills[ins]
				if !kill && ins.Parent() != fn && ncap > 1 {
					// inside a function literal: a call through a function value could
					// run another literal that shares the variable
					if x.Common().IsInvoke() || x.Common().StaticCallee() == nil {
						if _, isBuiltin := x.Common().Value.(*ssa.Builtin); !isBuiltin {
							kill = true
						}
					}
				}
				if _, isDefer := ins.(*ssa.Defer); !isDefer && kill {
					cur = cellDef{kind: 2}
				}
			case *ssa.RunDefers:
				if captured {
					cur = cellDef{kind: 2}
				}
			}
		}
		return cur
	}
	solve := func(f *ssa.Function, entry cellDef) ([]*ssa.BasicBlock, bool) {
		order := f.DomPreorder()
		for iter := 0; iter < 20; iter++ {
			changed := false
			for _, b := range order {
				i := meet(b)
				if b == f.Blocks[0] {
					i = entry
				}
				o := transfer(b, i, nil)
				if !same(in[b], i) || !same(out[b], o) {
					in[b], out[b] = i, o
					changed = true
				}
			}
			if !changed {
				return order, true
			}
		}
		return nil, false // did not stabilise: leave the cell alone
	}
	order, ok := solve(fn, cellDef{kind: 2})
	if !ok {
		return
	}
	// a deferred function literal runs where the function's deferred calls run:
	// its body starts with the value the variable has there
	var rds []ssa.Instruction
	for _, b := range fn.Blocks {
		for _, ins := range b.Instrs {
			if _, isRD := ins.(*ssa.RunDefers); isRD {
				rds = append(rds, ins)
			}
		}
	}
	if len(rds) >= 1 {
		blockReach := func(from *ssa.BasicBlock) map[*ssa.BasicBlock]bool {
			seen := map[*ssa.BasicBlock]bool{from: true}
			work := []*ssa.BasicBlock{from}
			for len(work) > 0 {
				b := work[len(work)-1]
				work = work[:len(work)-1]
				for _, sb := range b.Succs {
					if !seen[sb] {
						seen[sb] = true
						work = append(work, sb)
					}
				}
			}
			return seen
		}
		ncl := 0
		for _, d := range m.deferSite {
			if d.Parent() == fn {
				ncl++
			}
		}
		for cl, d := range m.deferSite {
			if d.Parent() != fn || ncl != 1 {
				continue // several deferred literals: the later ones see the earlier ones' writes
			}
			// the value at the exits that the registration can reach
			after := blockReach(d.Block())
			var at cellDef
			okAll, n := true, 0
			for _, rd := range rds {
				if !after[rd.Block()] {
					continue
				}
				stopAt = rd
				st := transfer(rd.Block(), in[rd.Block()], nil)
				stopAt = nil
				if n > 0 && !same(at, st) {
					okAll = false
				}
				at = st
				n++
			}
			if !okAll || n == 0 {
				continue
			}
			if o, ok := solve(cl, at); ok {
				order = append(order, o...)
			}
		}
	}
	// an abort-flag walker starts every run with the variable still nil
	for _, cl := range m.abortFlagWalkers(fn, cell) {
		if o, ok := solve(cl, cellDef{kind: 1, v: zeroOf(elem)}); ok {
			order = append(order, o...)
		}
	}
	// every other function literal that shares the variable: what it stores is what
	// it reads afterwards (the value at its entry is not known)
	solved := map[*ssa.Function]bool{}
	for _, b := range order {
		solved[b.Parent()] = true
	}
	if refs := cell.Referrers(); refs != nil {
		for _, r := range *refs {
			mc, ok := r.(*ssa.MakeClosure)
			if !ok {
				continue
			}
			cl, ok := mc.Fn.(*ssa.Function)
			if !ok || solved[cl] || len(cl.Blocks) == 0 || cl.Recover != nil {
				continue
			}
			solved[cl] = true
			if o, ok := solve(cl, cellDef{kind: 2}); ok {
				order = append(order, o...)
			}
		}
	}
	// materialise the phis that loads need
	phis := map[*ssa.BasicBlock]*ssa.Phi{}
	building := map[*ssa.BasicBlock]bool{}
	var valueOf func(d cellDef) ssa.Value
	var phiAt func(b *ssa.BasicBlock) ssa.Value
	phiAt = func(b *ssa.BasicBlock) ssa.Value {
		if p, ok := phis[b]; ok {
			return p
		}
		if building[b] {
			return nil
		}
		building[b] = true
		edges := make([]ssa.Value, len(b.Preds))
		phi := ssa.NewPhiIn(b, elem, cell.Comment, cell.Pos(), edges)
		phis[b] = phi
		for i, p := range b.Preds {
			v := valueOf(out[p])
			if v == nil {
				v = phi // a cycle through this block only
			}
			phi.Edges[i] = v
			if r := v.Referrers(); r != nil && v != ssa.Value(phi) {
				*r = append(*r, phi)
			}
		}
		building[b] = false
		return phi
	}
	valueOf = func(d cellDef) ssa.Value {
		switch d.kind {
		case 1:
			return d.v
		case 3:
			return phiAt(d.b)
		}
		return nil
	}
	type repl struct {
		ld *ssa.UnOp
		d  cellDef
	}
	var repls []repl
	for _, b := range order {
		transfer(b, in[b], func(ld *ssa.UnOp, d cellDef) { repls = append(repls, repl{ld, d}) })
	}
	for _, r := range repls {
		if v := valueOf(r.d); v != nil && v != ssa.Value(r.ld) {
			replaceUses(r.ld, v)
		}
	}
}

// cellKillers returns the calls of fn that can change the captured variable
// cell: only a closure that captures the variable can write it, so only a call
// that is handed such a closure (directly, through a variable that holds it, or
// through a pointer to that variable), or that calls it, can. The callee must
// only call the function value or hand it on (it is not kept for later): this
// is checked on the callee's body; when it cannot be shown, nil is returned and
// every call is taken to change the variable.
func (m *Module) cellKillers(fn *ssa.Function, cell *ssa.Alloc) map[ssa.Instruction]bool {
	// closures that capture the cell, and the values that hold them
	holders := map[ssa.Value]bool{}
	var visit func(addr ssa.Value, depth int)
	visit = func(addr ssa.Value, depth int) {
		if depth > 3 || addr.Referrers() == nil {
			return
		}
		for _, r := range *addr.Referrers() {
			if mc, ok := r.(*ssa.MakeClosure); ok {
				holders[mc] = true
				if cl, ok := mc.Fn.(*ssa.Function); ok {
					for i, b := range mc.Bindings {
						if b == addr && i < len(cl.FreeVars) {
							visit(cl.FreeVars[i], depth+1) // closures nested in the closure
						}
					}
				}
			}
		}
	}
	visit(cell, 0)
	if len(holders) == 0 {
		return map[ssa.Instruction]bool{}
	}
	// variables the closures are stored into
	for changed := true; changed; {
		changed = false
		for _, b := range fn.Blocks {
			for _, in := range b.Instrs {
				if st, ok := in.(*ssa.Store); ok && m.derivesFromHolder(st.Val, holders, 0) {
					if al, ok := st.Addr.(*ssa.Alloc); ok {
						if !holders[al] {
							holders[al] = true
							changed = true
						}
					} else {
						return nil // stored somewhere else: it may be kept
					}
				}
			}
		}
	}
	kills := map[ssa.Instruction]bool{}
	for _, b := range fn.Blocks {
		for _, in := range b.Instrs {
			ci, ok := in.(ssa.CallInstruction)
			if !ok {
				continue
			}
			cc := ci.Common()
			if _, isGo := in.(*ssa.Go); isGo {
				return nil
			}
			if !cc.IsInvoke() && m.derivesFromHolder(cc.Value, holders, 0) {
				kills[in] = true // calls the closure
				continue
			}
			for i, a := range cc.Args {
				if !m.derivesFromHolder(a, holders, 0) {
					continue
				}
				callee := m.callee(cc)
				if callee != nil && isPointerLaundering(callee) {
					continue // its result is followed by derivesFromHolder
				}
				kills[in] = true
				if callee == nil || len(callee.Blocks) == 0 {
					return nil
				}
				pi := i
				if pi >= len(callee.Params) || m.mayKeep(callee, callee.Params[pi], 0) {
					return nil
				}
			}
		}
	}
	return kills
}

// derivesFromHolder: v is computed from a value that holds one of the closures
// (conversions, loads through it, pure pointer-laundering calls).
func (m *Module) derivesFromHolder(v ssa.Value, holders map[ssa.Value]bool, depth int) bool {
	if v == nil || depth > 8 {
		return false
	}
	if holders[v] {
		return true
	}
	switch x := v.(type) {
	case *ssa.Convert:
		return m.derivesFromHolder(x.X, holders, depth+1)
	case *ssa.ChangeType:
		return m.derivesFromHolder(x.X, holders, depth+1)
	case *ssa.MakeInterface:
		return m.derivesFromHolder(x.X, holders, depth+1)
	case *ssa.UnOp:
		return m.derivesFromHolder(x.X, holders, depth+1)
	case *ssa.Phi:
		for _, e := range x.Edges {
			if m.derivesFromHolder(e, holders, depth+1) {
				return true
			}
		}
	case *ssa.Call:
		for _, a := range x.Common().Args {
			if m.derivesFromHolder(a, holders, depth+1) {
				return true
			}
		}
	}
	return false
}

// mayKeep: the function value parameter p of fn may outlive the call (it is
// stored, returned, or handed to something that cannot be examined).
func (m *Module) mayKeep(fn *ssa.Function, p ssa.Value, depth int) bool {
	if depth > 3 || p.Referrers() == nil {
		return true
	}
	for _, r := range *p.Referrers() {
		switch x := r.(type) {
		case *ssa.DebugRef:
		case *ssa.Call:
			cc := x.Common()
			if cc.Value == p {
				continue // called
			}
			callee := m.callee(cc)
			if callee == nil || len(callee.Blocks) == 0 {
				return true
			}
			for i, a := range cc.Args {
				if a == p {
					if i >= len(callee.Params) || m.mayKeep(callee, callee.Params[i], depth+1) {
						return true
					}
				}
			}
		case *ssa.BinOp:
			// compared with nil
		case *ssa.Phi, *ssa.ChangeType:
			if v, ok := r.(ssa.Value); ok && m.mayKeep(fn, v, depth+1) {
				return true
			}
		default:
			return true
		}
	}
	return false
}

// isPointerLaundering: fn has one parameter and returns it, converted or
// combined with constants only (the runtime's noescape idiom): it neither calls
// nor keeps what the pointer refers to.
func isPointerLaundering(fn *ssa.Function) bool {
	if len(fn.Params) != 1 || len(fn.Blocks) != 1 {
		return false
	}
	for _, in := range fn.Blocks[0].Instrs {
		switch x := in.(type) {
		case *ssa.DebugRef, *ssa.Convert, *ssa.ChangeType:
		case *ssa.BinOp:
			if _, ok := x.Y.(*ssa.Const); !ok {
				return false
			}
		case *ssa.Return:
			return len(x.Results) == 1
		default:
			return false
		}
	}
	return false
}

var zeroConsts = map[types.Type]*ssa.Const{}

// zeroOf returns the zero value of t (one constant per type, so that merges of
// it compare equal).
func zeroOf(t types.Type) *ssa.Const {
	if c, ok := zeroConsts[t]; ok {
		return c
	}
	c := ssa.NewConst(nil, t)
	zeroConsts[t] = c
	return c
}

// abortFlagWalkers: function literals of fn for which the captured variable cell
// (an error pointer) is nil whenever they are entered. That is so when
//   - the variable is nil before the literal is handed out: fn itself stores
//     nothing but nil into it, and no other literal captures it;
//   - the literal stores only nil or a never-nil error variable into it, every
//     return of the literal is a constant or the value of `variable == nil`, and
//     a constant true is not returned after a non-nil store: once the variable is
//     set, the literal has returned false;
//   - the literal is handed to exactly one function, which only calls it and
//     never calls it again after it has returned false.
//
// (The idiom: `walk(addr, func(...) bool { ...; err = E; ...; return err == nil })`.)
func (m *Module) abortFlagWalkers(fn *ssa.Function, cell *ssa.Alloc) (res []*ssa.Function) {
	if os.Getenv("FFC_DBG_AFW") != "" {
		defer func() { fmt.Fprintf(os.Stderr, "AFW %s cell=%s -> %d\n", fn.Name(), cell.Comment, len(res)) }()
	}
	elem := cell.Type().Underlying().(*types.Pointer).Elem()
	if !nillable(elem) || cell.Referrers() == nil {
		return nil
	}
	var mcs []*ssa.MakeClosure
	for _, r := range *cell.Referrers() {
		switch x := r.(type) {
		case *ssa.MakeClosure:
			mcs = append(mcs, x)
		case *ssa.Store:
			if x.Addr == ssa.Value(cell) && !isNilConst(x.Val) {
				return nil
			}
		}
	}
	if len(mcs) != 1 {
		return nil
	}
	mc := mcs[0]
	cl, ok := mc.Fn.(*ssa.Function)
	if !ok || len(cl.Blocks) == 0 || cl.Signature.Results().Len() != 1 {
		return nil
	}
	var fv *ssa.FreeVar
	for i, b := range mc.Bindings {
		if b == ssa.Value(cell) && i < len(cl.FreeVars) {
			fv = cl.FreeVars[i]
		}
	}
	if fv == nil || fv.Referrers() == nil {
		return nil
	}
	// the literal's stores and returns
	var nonNilStores []*ssa.Store
	for _, r := range *fv.Referrers() {
		switch x := r.(type) {
		case *ssa.Store:
			if x.Addr != ssa.Value(fv) {
				return nil
			}
			if isNilConst(x.Val) {
				continue
			}
			if !m.nonNilErrorGlobal(x.Val) {
				return nil
			}
			nonNilStores = append(nonNilStores, x)
		case *ssa.UnOp:
			if x.Op != token.MUL {
				return nil
			}
		case *ssa.DebugRef:
		default:
			return nil // (captured again, address taken)
		}
	}
	reach := func(from *ssa.BasicBlock) map[*ssa.BasicBlock]bool {
		seen := map[*ssa.BasicBlock]bool{from: true}
		work := []*ssa.BasicBlock{from}
		for len(work) > 0 {
			b := work[len(work)-1]
			work = work[:len(work)-1]
			for _, s := range b.Succs {
				if !seen[s] {
					seen[s] = true
					work = append(work, s)
				}
			}
		}
		return seen
	}
	for _, b := range cl.Blocks {
		for _, in := range b.Instrs {
			ret, ok := in.(*ssa.Return)
			if !ok {
				continue
			}
			if len(ret.Results) != 1 {
				return nil
			}
			if k, isC := constBool(ret.Results[0]); isC {
				if k {
					for _, st := range nonNilStores {
						if reach(st.Block())[b] {
							return nil
						}
					}
				}
				continue
			}
			cmp, ok := ret.Results[0].(*ssa.BinOp)
			if !ok || cmp.Op != token.EQL {
				return nil
			}
			isLoad := func(v ssa.Value) bool {
				u, ok := v.(*ssa.UnOp)
				return ok && u.Op == token.MUL && u.X == ssa.Value(fv) && u.Block() == b
			}
			if !(isLoad(cmp.X) && isNilConst(cmp.Y)) && !(isLoad(cmp.Y) && isNilConst(cmp.X)) {
				return nil
			}
			// (the load is in the return's block: after every store of this run)
			for _, in2 := range b.Instrs {
				if st, ok := in2.(*ssa.Store); ok && st.Addr == ssa.Value(fv) {
					// a store in the same block must precede the load
					ld := cmp.X
					if !isLoad(ld) {
						ld = cmp.Y
					}
					for _, in3 := range b.Instrs {
						if in3 == ssa.Instruction(st) {
							break
						}
						if in3 == ld.(ssa.Instruction) {
							return nil
						}
					}
				}
			}
		}
	}
	// handed to exactly one function that stops at the first false
	refs := mc.Referrers()
	if refs == nil {
		return nil
	}
	var uses []ssa.Instruction
	var passed ssa.Value = mc
	for _, r := range *refs {
		if _, ok := r.(*ssa.DebugRef); ok {
			continue
		}
		if ct, ok := r.(*ssa.ChangeType); ok && ct.Referrers() != nil {
			passed = ct
			for _, r2 := range *ct.Referrers() {
				if _, ok := r2.(*ssa.DebugRef); !ok {
					uses = append(uses, r2)
				}
			}
			continue
		}
		uses = append(uses, r)
	}
	if len(uses) != 1 {
		return nil
	}
	call, ok := uses[0].(*ssa.Call)
	if !ok {
		return nil
	}
	callee := m.callee(call.Common())
	if callee == nil || len(callee.Blocks) == 0 {
		return nil
	}
	// (handed out once per variable: not in a loop that the variable outlives)
	if _, body := loopOf(call.Block()); body != nil && !body[cell.Block()] {
		return nil
	}
	idx := -1
	for i, a := range call.Common().Args {
		if a == passed {
			if idx >= 0 {
				return nil
			}
			idx = i
		}
	}
	if idx < 0 || idx >= len(callee.Params) || !m.stopsAtFirstFalse(callee, callee.Params[idx]) {
		return nil
	}
	return []*ssa.Function{cl}
}

// stopsAtFirstFalse: fn uses its function parameter p only by calling it, tests
// every result, and calls it no more once a call has returned false.
func (m *Module) stopsAtFirstFalse(fn *ssa.Function, p *ssa.Parameter) bool {
	if p.Referrers() == nil {
		return false
	}
	var calls []*ssa.Call
	for _, r := range *p.Referrers() {
		switch x := r.(type) {
		case *ssa.DebugRef:
		case *ssa.Call:
			if x.Common().Value != ssa.Value(p) {
				return false
			}
			calls = append(calls, x)
		default:
			return false
		}
	}
	if len(calls) == 0 {
		return false
	}
	g := scanIG(m, fn, nil)
	isCall := func(n int) bool {
		c, ok := g.Ins[n].(*ssa.Call)
		return ok && c.Common().Value == ssa.Value(p)
	}
	for _, c := range calls {
		tested := false
		for _, f := range g.AllEdgeFacts() {
			if f.Y != nil || f.X != ssa.Value(c) {
				continue
			}
			tested = true
			if f.Op == token.NEQ { // the call returned false
				r := g.Reach([]int{g.Succ[f.Edge.From][f.Edge.K]}, nil, nil)
				for n := range g.Ins {
					if r[n] && isCall(n) {
						return false
					}
				}
			}
		}
		if !tested {
			return false
		}
	}
	return true
}
