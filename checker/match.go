package main

// Small value/call matchers used by the property rules.

import (
	"go/token"
	"go/types"
	"strings"

	"golang.org/x/tools/go/ssa"
)

// callNodes returns the nodes of g that call fn (directly or through a seam).
func (g *IG) callNodes(fn *ssa.Function) []int {
	var out []int
	for n, in := range g.Ins {
		if _, isCall := in.(*ssa.Call); isCall && g.M.callsTo(in, fn) {
			out = append(out, n)
		}
	}
	return out
}

// callArgs returns the explicit arguments of the call at node n (receiver
// first for static method calls).
func (g *IG) callArgs(n int) []ssa.Value {
	if cc := callCommon(g.Ins[n]); cc != nil {
		return cc.Args
	}
	return nil
}

// resultOf: v is result #idx of a call that resolves to fn (idx -1: the single
// result). Looks through Extract and type-only conversions.
func (m *Module) resultOf(v ssa.Value, fn *ssa.Function, idx int) (*ssa.Call, bool) {
	v = through(v)
	if isIntegral(v.Type()) {
		// an integer result passed through a width-preserving or widening conversion
		v = through(stripConv(v))
	}
	if ex, ok := v.(*ssa.Extract); ok {
		if call, ok := ex.Tuple.(*ssa.Call); ok && m.callee(call.Common()) == fn && (idx < 0 || ex.Index == idx) {
			return call, true
		}
		return nil, false
	}
	if call, ok := v.(*ssa.Call); ok && m.callee(call.Common()) == fn && idx <= 0 {
		return call, true
	}
	return nil, false
}

// cellValue follows a load of a local/captured cell to the values stored into
// it (all stores, whole program). Returns nil if v is not such a load.
func cellStoredValues(v ssa.Value) ([]ssa.Value, *ssa.Alloc, bool) {
	a, ok := loadAddr(strip(v))
	if !ok {
		return nil, nil, false
	}
	cell, ok := cellOf(a)
	if !ok {
		return nil, nil, false
	}
	stores, _, ok := cellAccesses(cell)
	if !ok {
		return nil, cell, false
	}
	var out []ssa.Value
	for _, s := range stores {
		out = append(out, s.Val)
	}
	return out, cell, true
}

// sameCell: both values are loads of the same local cell.
func sameCell(a, b ssa.Value) bool {
	aa, ok1 := loadAddr(strip(a))
	ba, ok2 := loadAddr(strip(b))
	if !ok1 || !ok2 {
		return false
	}
	ca, ok1 := cellOf(aa)
	cb, ok2 := cellOf(ba)
	return ok1 && ok2 && ca == cb
}

// isParamOrCell: v is parameter p of its function, or a load of the capture
// cell that holds p (p is address-taken because a closure captures it: the
// cell is an Alloc whose only store is the parameter).
func isParamValue(v ssa.Value, p *ssa.Parameter) bool {
	v = strip(v)
	if v == ssa.Value(p) {
		return true
	}
	vals, _, ok := cellStoredValues(v)
	if ok && len(vals) == 1 && strip(vals[0]) == ssa.Value(p) {
		return true
	}
	return false
}

// paramNamed finds a parameter of fn by its role. The role is the parameter's
// name on the pinned tree; because parameter names can be changed freely without
// changing behaviour, a renamed parameter is found through a second
// description of the same role: its (unique) type, or its position.
func paramNamed(fn *ssa.Function, name string) *ssa.Parameter {
	return paramNamedOpt(fn, name, true)
}

// paramNamedOpt: with anchor == false the function does not become an anchor
// (used where the function was not chosen by the rule but found, e.g. as the
// function a store happens to lie in).
func paramNamedOpt(fn *ssa.Function, name string, anchor bool) *ssa.Parameter {
	if fn == nil {
		return nil
	}
	if fn.Prog != nil && anchor {
		for _, m := range loadedModules {
			if m.Prog == fn.Prog {
				m.anchor(fn)
			}
		}
	}
	for _, p := range fn.Params {
		if p.Name() == name {
			return p
		}
	}
	if p := paramByRole(fn, name); p != nil {
		// the polynomial forms name a parameter by its role, not by what the
		// source happens to call it
		paramRoleName[p] = name
		return p
	}
	return nil
}

// paramRoleName: parameters found through their role under another name.
var paramRoleName = map[*ssa.Parameter]string{}

func paramByRole(fn *ssa.Function, name string) *ssa.Parameter {
	spec, ok := paramRoles[name]
	if !ok {
		return nil
	}
	if spec.typeSuffix != "" {
		var found *ssa.Parameter
		n := 0
		for i, p := range fn.Params {
			if i == 0 && fn.Signature.Recv() != nil {
				continue
			}
			ts := p.Type().String()
			for _, suf := range strings.Split(spec.typeSuffix, "|") {
				if ts == suf || strings.HasSuffix(ts, "."+suf) || strings.HasSuffix(ts, "/"+suf) {
					found = p
					n++
					break
				}
			}
		}
		if n == 1 {
			return found
		}
		if n > 1 && spec.pos == 0 {
			return nil
		}
	}
	if spec.pos != 0 {
		ps := fn.Params
		if fn.Signature.Recv() != nil {
			ps = ps[1:]
		}
		i := spec.pos - 1
		if spec.pos < 0 {
			i = len(ps) + spec.pos
		}
		if i >= 0 && i < len(ps) {
			return ps[i]
		}
	}
	return nil
}

type paramRole struct {
	typeSuffix string // unique parameter type ("a|b" alternatives), receiver excluded
	pos        int    // 1-based position among the non-receiver parameters; negative counts from the end; 0 = unused
}

var paramRoles = map[string]paramRole{
	"pteLevel": {"uint8", 1}, "pte": {"*pageTableEntry|*github.com/ProjectSerenity/firefly/kernel/mm/vmm.pageTableEntry", 2},
	"frame": {"mm.Frame|Frame", 0}, "flags": {"PageTableEntryFlag", 0}, "page": {"mm.Page|Page", 0},
	"size": {"uintptr", 0}, "argType": {"pArgType", 0}, "objIndex": {"uint32", 1}, "opcode": {"uint16", 1},
	"index": {"uint32", 1}, "scopeIndex": {"uint32", 1}, "expr": {"[]byte|[]uint8", 2},
	"v": {"interface{}|any", 2}, "padLen": {"", -1}, "args": {"[]interface{}|[]any", -1},
	"i": {"", 1}, "j": {"", 2}, "lines": {"uint32", 2}, "path": {"string", 1},
	"b": {"byte|uint8", 1}, "withCR": {"bool", 1}, "newState": {"State", 1},
	"obj": {"", 1}, "arg": {"", 2}, "nextTo": {"", 3}, "tagType": {"tagType", 1},
}

// maskTest: v is `x & mask` (either order) with constant mask; returns x.
func maskTest(v ssa.Value) (ssa.Value, uint64, bool) {
	b, ok := stripConv(v).(*ssa.BinOp)
	if !ok || b.Op != token.AND {
		return nil, 0, false
	}
	if c, ok := constUint64(b.Y); ok {
		return b.X, c, true
	}
	if c, ok := constUint64(b.X); ok {
		return b.Y, c, true
	}
	return nil, 0, false
}

func isZeroConst(v ssa.Value) bool {
	c, ok := constUint64(v)
	return ok && c == 0
}

func namedConstUint(m *Module, rel, name string) (uint64, bool) {
	nc := m.lookupConst(rel, name)
	if nc == nil {
		return 0, false
	}
	return constUint64(nc.Value)
}

// methodCallOn: in is a static call of method fn; returns receiver and args.
func methodCall(m *Module, in ssa.Instruction, fn *ssa.Function) (recv ssa.Value, args []ssa.Value, ok bool) {
	cc := callCommon(in)
	if cc == nil || fn == nil || m.callee(cc) != fn || len(cc.Args) == 0 {
		return nil, nil, false
	}
	return cc.Args[0], cc.Args[1:], true
}

// typeIs reports whether t (after pointer deref) is the named type.
func typeIs(t types.Type, n *types.Named) bool {
	if p, ok := t.(*types.Pointer); ok {
		t = p.Elem()
	}
	x, ok := t.(*types.Named)
	return ok && x.Obj() == n.Obj()
}

// predicateFact: the fact f says that a call of predicate method fn on some
// receiver with first argument constant `arg` returned `want`.
func predicateFact(m *Module, f Fact, fn *ssa.Function, arg uint64, want bool) (recv ssa.Value, ok bool) {
	if f.Y != nil {
		return nil, false
	}
	call, isCall := f.X.(*ssa.Call)
	if !isCall || m.callee(call.Common()) != fn {
		return nil, false
	}
	if (f.Op == token.EQL) != want {
		return nil, false
	}
	args := call.Common().Args
	if len(args) < 2 {
		return nil, false
	}
	if c, ok := constUint64(args[1]); !ok || c != arg {
		return nil, false
	}
	return args[0], true
}
