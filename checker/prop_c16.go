package main

import (
	"fmt"
	"go/token"
	"go/types"

	"golang.org/x/tools/go/ssa"
)

func init() {
	register(&Property{
		ID:         "C16",
		NeedKernel: true,
		Run:        runC16,
		Explanation: "Device bring-up decided on SSA: (R1) DetectHardware sorts the registered driver list with sort.Sort/Stable before probing that same value, " +
			"DriverInfoList.Less/Len/Swap have the canonical bodies (Order < Order, len, exchange) and probe ranges over its parameter; (R2) in probe, " +
			"onDriverInit and the activeDrivers append are dominated by drv != nil and by the nil side of DriverInit's error, the failure side writes to the " +
			"log writer and reaches only the loop header; (R3) devices.activeConsole/activeTTY are stored only in package hal, each store dominated by the " +
			"== nil side of a test of the same field; (R4) after each of the two stores every path on which the other field is non-nil calls " +
			"linkTTYToConsole, which performs AttachTo(console) -> kfmt.SetOutputSink(tty) -> SetState(active) in that order; (R5) SetOutputSink stores its " +
			"argument on every path and drains the early ring exactly on the non-nil side, doRealWrite writes to the ring exactly on the nil side, outputSink " +
			"has no other writer, and ringBuffer.Write masks both indices with size-1 (a power of two) and advances the read index exactly when it is caught.",
		EnumRule: "obligations per rule and construct (function + role)",
		Assumptions: []string{
			"sort.Sort / sort.Stable order a sort.Interface correctly given canonical Len/Less/Swap",
			"io.Copy(dst, src) reads src until EOF and writes everything to dst",
		},
		Controls: []Control{
			{Name: "drop the sort", File: "kernel/hal/hal.go", Old: "\tsort.Sort(drivers)\n", New: "\t_ = sort.Sort\n", Expect: "C16.R1"},
			{Name: "initialized line written after onDriverInit (seed C16-13)", File: "kernel/hal/hal.go", Old: "\t\tkfmt.Fprintf(&w, \"initialized\\n\")\n\t\tonDriverInit(info, drv)\n", New: "\t\tonDriverInit(info, drv)\n\t\tkfmt.Fprintf(&w, \"initialized\\n\")\n", Expect: "C16.R2 log-before-link"},
			{Name: "Less compares in the wrong direction", File: "kernel/device/driver.go", Old: "return l[i].Order < l[j].Order", New: "return l[i].Order > l[j].Order", Expect: "C16.R1"},
			{Name: "activate before the error test", File: "kernel/hal/hal.go",
				Old: "\t\tif err := drv.DriverInit(&w); err != nil {\n\t\t\tkfmt.Fprintf(&w, \"init failed: %s\\n\", err.Message)\n\t\t\tcontinue\n\t\t}\n",
				New: "\t\terr := drv.DriverInit(&w)\n\t\tonDriverInit(info, drv)\n\t\tif err != nil {\n\t\t\tkfmt.Fprintf(&w, \"init failed: %s\\n\", err.Message)\n\t\t\tcontinue\n\t\t}\n", Expect: "C16.R2"},
			{Name: "stop probing after a failed init", File: "kernel/hal/hal.go",
				Old: "\t\t\tkfmt.Fprintf(&w, \"init failed: %s\\n\", err.Message)\n\t\t\tcontinue\n", New: "\t\t\tkfmt.Fprintf(&w, \"init failed: %s\\n\", err.Message)\n\t\t\treturn\n", Expect: "C16.R2"},
			{Name: "later console replaces the active one", File: "kernel/hal/hal.go",
				Old: "\tif devices.activeConsole != nil {\n\t\treturn\n\t}\n\n\tdevices.activeConsole = cons\n", New: "\tdevices.activeConsole = cons\n", Expect: "C16.R3"},
			{Name: "no link when the TTY arrives second", File: "kernel/hal/hal.go",
				Old: "\t\tdevices.activeTTY = drvImpl\n\t\tif devices.activeConsole != nil {\n\t\t\tlinkTTYToConsole()\n\t\t}\n", New: "\t\tdevices.activeTTY = drvImpl\n", Expect: "C16.R4"},
			{Name: "SetOutputSink before AttachTo", File: "kernel/hal/hal.go",
				Old: "\tdevices.activeTTY.AttachTo(devices.activeConsole)\n\tkfmt.SetOutputSink(devices.activeTTY)\n", New: "\tkfmt.SetOutputSink(devices.activeTTY)\n\tdevices.activeTTY.AttachTo(devices.activeConsole)\n", Expect: "C16.R4"},
			{Name: "early buffer not drained", File: "kernel/kfmt/fmt.go",
				Old: "\tif w != nil {\n\t\tio.Copy(w, &earlyPrintBuffer)\n\t}\n", New: "\t_ = io.Copy\n", Expect: "C16.R5"},
			{Name: "ring read index not advanced when caught", File: "kernel/kfmt/ringbuf.go",
				Old: "\t\tif rb.rIndex == rb.wIndex {\n\t\t\trb.rIndex = (rb.rIndex + 1) & (ringBufferSize - 1)\n\t\t}\n", New: "", Expect: "C16.R5"},
			{Name: "write index not masked", File: "kernel/kfmt/ringbuf.go",
				Old: "rb.wIndex = (rb.wIndex + 1) & (ringBufferSize - 1)", New: "rb.wIndex = (rb.wIndex + 1) % (ringBufferSize - 1)", Expect: "C16.R5"},
			{Name: "sink also written by Printf path", File: "kernel/kfmt/fmt.go",
				Old: "func GetOutputSink() io.Writer {\n\tif outputSink == nil {\n", New: "func GetOutputSink() io.Writer {\n\tif outputSink == nil {\n\t\toutputSink = &earlyPrintBuffer\n", Expect: "C16.R5"},
		},
	})
}

// extCall: call to a function named `name` in external package `pkg`.
func extCall(in ssa.Instruction, pkg, name string) bool {
	cc := callCommon(in)
	if cc == nil {
		return false
	}
	f := cc.StaticCallee()
	return f != nil && f.Pkg != nil && f.Pkg.Pkg.Path() == pkg && f.Name() == name
}

// invokeOf: in is an interface method call named `method`.
func invokeOf(in ssa.Instruction, method string) (*ssa.CallCommon, bool) {
	cc := callCommon(in)
	if cc == nil || !cc.IsInvoke() || cc.Method.Name() != method {
		return nil, false
	}
	return cc, true
}

func isNilFact(f Fact, op token.Token, pred func(ssa.Value) bool) bool {
	return cmpMatch(f, op, pred, isNilConst)
}

func runC16(c *Ctx) {
	m := c.K
	detect := m.lookupFunc("hal", "DetectHardware")
	probe := m.lookupFunc("hal", "probe")
	onDrv := m.lookupFunc("hal", "onDriverInit")
	onCons := m.lookupFunc("hal", "onConsoleInit")
	link := m.lookupFunc("hal", "linkTTYToConsole")
	devices := m.lookupGlobal("hal", "devices")
	actCons := m.fieldOf("hal", "managedDevices", "activeConsole")
	actTTY := m.fieldOf("hal", "managedDevices", "activeTTY")
	actDrv := m.fieldOf("hal", "managedDevices", "activeDrivers")
	if onDrv == nil && actTTY != nil {
		// folded into probe as a function literal (or renamed): by role, the hal
		// function that records the active terminal
		var found []*ssa.Function
		for _, fs := range m.storesToField(actTTY) {
			if fs.Fn.Pkg == m.pkg("hal") && fs.Fn != probe && !containsFn(found, fs.Fn) {
				found = append(found, fs.Fn)
			}
		}
		if len(found) == 1 {
			onDrv = found[0]
			m.anchor(onDrv)
		}
	}
	driverList := m.lookupFunc("device", "DriverList")
	less := m.lookupMethod("device", "DriverInfoList", "Less")
	lenM := m.lookupMethod("device", "DriverInfoList", "Len")
	swap := m.lookupMethod("device", "DriverInfoList", "Swap")
	orderF := m.fieldOf("device", "DriverInfo", "Order")
	probeF := m.fieldOf("device", "DriverInfo", "Probe")
	setSink := m.lookupFunc("kfmt", "SetOutputSink")
	// the raw writer behind doWrite (not named by the property): by role, the
	// kfmt function that takes the writer and an unsafe.Pointer to the bytes
	doRealWrite := m.funcByRole("kfmt", "doRealWrite", func(fn *ssa.Function) bool {
		if len(fn.Params) != 2 {
			return false
		}
		bt, ok := fn.Params[1].Type().Underlying().(*types.Basic)
		return ok && bt.Kind() == types.UnsafePointer
	})
	if doRealWrite == nil {
		// inlined into its only caller: doWrite routes the bytes itself
		doRealWrite = m.lookupFunc("kfmt", "doWrite")
	}
	fprintf := m.lookupFunc("kfmt", "Fprintf")
	sink := m.lookupGlobal("kfmt", "outputSink")
	early := m.lookupGlobal("kfmt", "earlyPrintBuffer")
	rbWrite := m.lookupMethod("kfmt", "ringBuffer", "Write")
	rIdx := m.fieldOf("kfmt", "ringBuffer", "rIndex")
	wIdx := m.fieldOf("kfmt", "ringBuffer", "wIndex")
	bufF := m.fieldOf("kfmt", "ringBuffer", "buffer")
	stateActive := m.lookupConst("device/tty", "StateActive")
	for name, v := range map[string]interface{}{
		"hal.DetectHardware": detect, "hal.probe": probe, "hal.onDriverInit": onDrv, "hal.onConsoleInit": onCons, "hal.linkTTYToConsole": link,
		"hal.devices": devices, "managedDevices.activeConsole": actCons, "managedDevices.activeTTY": actTTY, "managedDevices.activeDrivers": actDrv,
		"device.DriverList": driverList, "DriverInfoList.Less": less, "DriverInfoList.Len": lenM, "DriverInfoList.Swap": swap,
		"DriverInfo.Order": orderF, "DriverInfo.Probe": probeF, "kfmt.SetOutputSink": setSink, "kfmt.doRealWrite": doRealWrite, "kfmt.Fprintf": fprintf,
		"kfmt.outputSink": sink, "kfmt.earlyPrintBuffer": early, "ringBuffer.Write": rbWrite, "ringBuffer.rIndex": rIdx, "ringBuffer.wIndex": wIdx,
		"ringBuffer.buffer": bufF, "tty.StateActive": stateActive,
	} {
		if isNilIface(v) {
			c.unresolved("C16.R1", name)
			return
		}
	}

	// ================= R1 =================
	c.floor("C16.R1", 4)
	g := newIG(m, detect, nil)
	probes := g.callNodes(probe)
	key := "sort-before-probe " + m.fnName(detect)
	if len(probes) == 0 {
		c.fail("C16.R1", key, "DetectHardware does not call probe", m.pos(detect.Pos()))
	}
	for _, pn := range probes {
		arg := g.callArgs(pn)[0]
		isSort := func(n int) bool {
			in := g.Ins[n]
			if !extCall(in, "sort", "Sort") && !extCall(in, "sort", "Stable") {
				return false
			}
			mi, ok := callCommon(in).Args[0].(*ssa.MakeInterface)
			return ok && mi.X == arg
		}
		okB, path := g.MustPassBefore(pn, isSort)
		_, fromList := m.resultOf(arg, driverList, -1)
		switch {
		case !okB:
			c.fail("C16.R1", key, "probe is reachable without sort.Sort/sort.Stable having been called on the same driver list value", g.where(path, 8)...)
		case !fromList:
			c.fail("C16.R1", key, "the probed list is not the result of device.DriverList()", g.posOf(pn))
		default:
			c.ok("C16.R1", key, "sort.Sort(list) precedes probe(list) on every path; list = device.DriverList()", g.posOf(pn))
		}
	}
	// Less: return l[i].Order < l[j].Order
	elemOrder := func(v ssa.Value, fn *ssa.Function, idxParam string) bool {
		base, f, ok := loadedField(v)
		if !ok || f != orderF {
			return false
		}
		// base = *(&l[idx])
		a, ok := loadAddr(base)
		if !ok {
			return false
		}
		ia, ok := a.(*ssa.IndexAddr)
		return ok && ia.X == ssa.Value(fn.Params[0]) && ia.Index == ssa.Value(paramNamed(fn, idxParam))
	}
	lessOK := false
	for _, b := range less.Blocks {
		for _, in := range b.Instrs {
			if r, ok := in.(*ssa.Return); ok && len(less.Blocks) == 1 {
				if bo, ok := r.Results[0].(*ssa.BinOp); ok && bo.Op == token.LSS && elemOrder(bo.X, less, "i") && elemOrder(bo.Y, less, "j") {
					lessOK = true
				}
				if bo, ok := r.Results[0].(*ssa.BinOp); ok && bo.Op == token.GTR && elemOrder(bo.X, less, "j") && elemOrder(bo.Y, less, "i") {
					lessOK = true
				}
			}
		}
	}
	c.check(lessOK, "C16.R1", "less "+m.fnName(less), "returns l[i].Order < l[j].Order", "Less is not `l[i].Order < l[j].Order`: the probe order is not the detection order", m.pos(less.Pos()))
	lenOK := false
	if len(lenM.Blocks) == 1 {
		for _, in := range lenM.Blocks[0].Instrs {
			if r, ok := in.(*ssa.Return); ok {
				if call, ok := r.Results[0].(*ssa.Call); ok {
					if bi, ok := call.Common().Value.(*ssa.Builtin); ok && bi.Name() == "len" && call.Common().Args[0] == ssa.Value(lenM.Params[0]) {
						lenOK = true
					}
				}
			}
		}
	}
	c.check(lenOK, "C16.R1", "len "+m.fnName(lenM), "returns len(l)", "Len does not return len(l): part of the list is not sorted", m.pos(lenM.Pos()))
	// Swap: l[i] = old l[j]; l[j] = old l[i]
	swapOK := false
	if len(swap.Blocks) == 1 {
		var stores []*ssa.Store
		for _, in := range swap.Blocks[0].Instrs {
			if st, ok := in.(*ssa.Store); ok {
				stores = append(stores, st)
			}
		}
		idxOf := func(addr ssa.Value) ssa.Value {
			if ia, ok := addr.(*ssa.IndexAddr); ok && ia.X == ssa.Value(swap.Params[0]) {
				return ia.Index
			}
			return nil
		}
		if len(stores) == 2 {
			d0, d1 := idxOf(stores[0].Addr), idxOf(stores[1].Addr)
			var s0, s1 ssa.Value
			if a, ok := loadAddr(stores[0].Val); ok {
				s0 = idxOf(a)
			}
			if a, ok := loadAddr(stores[1].Val); ok {
				s1 = idxOf(a)
			}
			pi, pj := ssa.Value(paramNamed(swap, "i")), ssa.Value(paramNamed(swap, "j"))
			if d0 != nil && d1 != nil && d0 != d1 && s0 == d1 && s1 == d0 && (d0 == pi && d1 == pj || d0 == pj && d1 == pi) {
				// both loads must precede the first store
				l0 := swap.Blocks[0].Instrs
				pos := func(x ssa.Instruction) int {
					for i, in := range l0 {
						if in == x {
							return i
						}
					}
					return -1
				}
				if pos(stores[0].Val.(ssa.Instruction)) < pos(stores[0]) && pos(stores[1].Val.(ssa.Instruction)) < pos(stores[0]) {
					swapOK = true
				}
			}
		}
	}
	c.check(swapOK, "C16.R1", "swap "+m.fnName(swap), "exchanges l[i] and l[j]", "Swap does not exchange l[i] and l[j]", m.pos(swap.Pos()))

	// ================= R2 =================
	c.floor("C16.R2", 3)
	gp := newIG(m, probe, nil)
	// drv: result of the Probe() call through the element's Probe field
	isDrv := func(v ssa.Value) bool {
		call, ok := strip(v).(*ssa.Call)
		if !ok {
			return false
		}
		_, f, ok := loadedField(call.Common().Value)
		return ok && f == probeF
	}
	var initCall *ssa.Call
	for _, in := range gp.Ins {
		if cc, ok := invokeOf(in, "DriverInit"); ok && isDrv(cc.Value) {
			initCall, _ = in.(*ssa.Call)
		}
	}
	if initCall == nil {
		c.fail("C16.R2", "init-call "+m.fnName(probe), "no DriverInit call on the probed driver found", m.pos(probe.Pos()))
	} else {
		initErrNil := func(f Fact) bool {
			return isNilFact(f, token.EQL, func(v ssa.Value) bool { return v == ssa.Value(initCall) })
		}
		drvNonNil := func(f Fact) bool { return isNilFact(f, token.NEQ, isDrv) }
		nact := 0
		for n, in := range gp.Ins {
			what := ""
			if m.callsTo(in, onDrv) {
				what = "onDriverInit call"
			}
			if st, ok := in.(*ssa.Store); ok {
				if f, rest := lastField(accessPath(st.Addr)); f == actDrv && rest == "" {
					what = "activeDrivers append"
				}
			}
			if what == "" {
				continue
			}
			nact++
			facts := gp.FactsAt(n)
			k := fmt.Sprintf("activation %s %s", m.fnName(probe), what)
			switch {
			case !hasFact(facts, drvNonNil):
				c.fail("C16.R2", k, what+" is reachable for a driver whose probe returned nil", gp.posOf(n))
			case !hasFact(facts, initErrNil):
				c.fail("C16.R2", k, what+" is reachable on a path on which DriverInit's error has not been tested nil: a driver that failed to initialise becomes active", gp.posOf(n))
			default:
				c.ok("C16.R2", k, "dominated by drv != nil and DriverInit(...) == nil", gp.posOf(n))
			}
		}
		if nact == 0 {
			c.fail("C16.R2", "activation "+m.fnName(probe), "no onDriverInit call / activeDrivers append found", m.pos(probe.Pos()))
		}
		// the per-driver log writer snapshots the output sink before DriverInit;
		// onDriverInit may link console and terminal, which drains the early ring
		// buffer and switches the sink: a line written through the snapshot after
		// that lands in the ring buffer, which is never drained again
		if sinkF := m.fieldOf("kfmt", "PrefixWriter", "Sink"); sinkF != nil {
			viaSnapshot := func(n int) bool {
				if !m.callsTo(gp.Ins[n], fprintf) {
					return false
				}
				args := gp.callArgs(n)
				if len(args) == 0 {
					return false
				}
				v := strip(args[0])
				if mi, ok := v.(*ssa.MakeInterface); ok {
					v = strip(mi.X)
				}
				pt, ok := v.Type().Underlying().(*types.Pointer)
				if !ok {
					return false
				}
				named, ok := pt.Elem().(*types.Named)
				return ok && named.Obj() == sinkFOwner(m)
			}
			refresh := func(n int) bool {
				if st, ok := gp.Ins[n].(*ssa.Store); ok {
					if f, rest := lastField(accessPath(st.Addr)); f == sinkF && rest == "" {
						return true
					}
				}
				return false
			}
			for n, in := range gp.Ins {
				if !m.callsTo(in, onDrv) {
					continue
				}
				k := "log-before-link " + m.fnName(probe)
				if p := gp.Path(gp.Succ[n], nil, refresh, viaSnapshot); p != nil {
					c.fail("C16.R2", k, "a line is written through the per-driver writer after onDriverInit without its Sink having been fetched again: when this driver completes the console/terminal pair the sink has been switched and the line stays in the early ring buffer (lost)", gp.where(p, 8)...)
				} else {
					c.ok("C16.R2", k, "no write through the sink snapshot is reachable from onDriverInit before the snapshot is renewed", gp.posOf(n))
				}
			}
		}
		// failure side: log and continue
		for _, f := range gp.AllEdgeFacts() {
			if !isNilFact(f, token.NEQ, func(v ssa.Value) bool { return v == ssa.Value(initCall) }) {
				continue
			}
			k := "init-failure " + m.fnName(probe)
			start := gp.Succ[f.Edge.From][f.Edge.K]
			// (the test may sit in a helper spliced into the loop body)
			var hdr *ssa.BasicBlock
			if hs := gp.loopsAround(f.Edge.From); len(hs) > 0 {
				hdr = hs[0]
			}
			if hdr == nil {
				c.fail("C16.R2", k, "the DriverInit error test is not inside the probe loop", gp.posOf(f.Edge.From))
				continue
			}
			atHdr := func(n int) bool { return gp.Ins[n] != nil && gp.Ins[n].Block() == hdr }
			isRet := func(n int) bool { _, ok := gp.Ins[n].(*ssa.Return); return ok }
			isLog := func(n int) bool { return m.callsTo(gp.Ins[n], fprintf) }
			if p := gp.Path([]int{start}, nil, atHdr, isRet); p != nil {
				c.fail("C16.R2", k, "probing stops (return) after a driver fails to initialise", gp.where(p, 8)...)
			} else if p := gp.Path([]int{start}, nil, isLog, atHdr); p != nil {
				c.fail("C16.R2", k, "a failed initialisation is not reported on the log before the loop continues", gp.where(p, 8)...)
			} else {
				c.ok("C16.R2", k, "the failure side writes to the log and reaches only the loop header", gp.posOf(f.Edge.From))
			}
		}
		// the loop visits the parameter's elements 0, 1, 2, ... len-1 in this order
		// (induction form: index of iteration T is T, len(param) iterations)
		rangeOK := false
		zr := &Polyizer{}
		for _, in := range gp.Ins {
			var base, index ssa.Value
			switch x := in.(type) {
			case *ssa.IndexAddr:
				base, index = x.X, x.Index
			case *ssa.Index:
				base, index = x.X, x.Index
			}
			if base == nil || base != ssa.Value(probe.Params[0]) {
				continue
			}
			lf, ok := gp.loopFormAt(zr, in.Block())
			if !ok {
				continue
			}
			first, step, okA := lf.affineInT(index)
			trips, tripsOK := lf.Trips, lf.TripsOK
			lf.Done()
			f0, isC0 := first.isConst()
			s1, isC1 := step.isConst()
			lenOK := false
			if tripsOK {
				for _, k := range gp.Ins {
					if call, ok := k.(*ssa.Call); ok {
						if bi, ok := call.Common().Value.(*ssa.Builtin); ok && bi.Name() == "len" && call.Common().Args[0] == ssa.Value(probe.Params[0]) {
							if trips.equal(zr.Of(call)) {
								lenOK = true
							}
						}
					}
				}
			}
			if okA && isC0 && f0 == 0 && isC1 && s1 == 1 && lenOK {
				rangeOK = true
			}
		}
		c.check(rangeOK, "C16.R1", "iteration-order "+m.fnName(probe), "probe ranges over its (sorted) parameter from index 0 upwards", "probe does not iterate its parameter in ascending index order", m.pos(probe.Pos()))
	}

	// ================= R3 / R4 =================
	c.floor("C16.R3", 2)
	c.floor("C16.R4", 3)
	isField := func(f *types.Var) func(ssa.Value) bool {
		return func(v ssa.Value) bool {
			a, ok := loadAddr(strip(v))
			if !ok {
				return false
			}
			p := accessPath(a)
			lf, rest := lastField(p)
			return lf == f && rest == "" && len(p) > 0 && p[0].Kind == "global" && p[0].Global == devices
		}
	}
	for _, fld := range []*types.Var{actCons, actTTY} {
		other := actTTY
		if fld == actTTY {
			other = actCons
		}
		stores := m.storesToField(fld)
		if len(stores) == 0 {
			c.fail("C16.R3", "first-wins "+fld.Name(), "the field is never stored", "")
		}
		for i, st := range stores {
			if st.Rest != "" {
				continue
			}
			k := fmt.Sprintf("first-wins devices.%s in %s #%d", fld.Name(), m.fnName(st.Fn), i)
			if st.Fn.Pkg == nil || st.Fn.Pkg.Pkg.Path() != kernelMod+"/hal" {
				c.fail("C16.R3", k, "devices."+fld.Name()+" is stored outside package hal", m.pos(st.Store.Pos()))
				continue
			}
			gs := newIG(m, st.Fn, nil)
			n := gs.Idx[st.Store]
			facts := gs.FactsAt(n)
			first := hasFact(facts, func(f Fact) bool { return isNilFact(f, token.EQL, isField(fld)) })
			c.check(first, "C16.R3", k, "store dominated by the == nil side of a test of the same field",
				"the active "+fld.Name()+" can be replaced: the store is not dominated by `devices."+fld.Name()+" == nil`", gs.posOf(n))
			// R4: after the store, other != nil => linkTTYToConsole before return
			k4 := fmt.Sprintf("link-on-second devices.%s in %s #%d", fld.Name(), m.fnName(st.Fn), i)
			cut := map[Edge]bool{}
			for _, f := range gs.AllEdgeFacts() {
				if isNilFact(f, token.EQL, isField(other)) {
					cut[f.Edge] = true
				}
			}
			isLink := func(k int) bool { return m.callsTo(gs.Ins[k], link) }
			isRet := func(k int) bool { _, ok := gs.Ins[k].(*ssa.Return); return ok }
			if p := gs.Path(gs.Succ[n], cut, isLink, func(k int) bool { return !isLink(k) && isRet(k) }); p != nil {
				c.fail("C16.R4", k4, "after devices."+fld.Name()+" is set, a path on which devices."+other.Name()+" is non-nil returns without calling linkTTYToConsole", gs.where(append([]int{n}, p...), 10)...)
			} else {
				c.ok("C16.R4", k4, "every path after the store on which devices."+other.Name()+" != nil calls linkTTYToConsole before returning", gs.posOf(n))
			}
		}
	}
	// linkTTYToConsole: AttachTo(console) -> SetOutputSink(tty) -> SetState(StateActive)
	gl := newIG(m, link, nil)
	stActive, _ := constInt64(stateActive.Value)
	steps := []struct {
		name string
		pred func(n int) bool
	}{
		{"AttachTo(devices.activeConsole) on the active TTY", func(n int) bool {
			cc, ok := invokeOf(gl.Ins[n], "AttachTo")
			return ok && isField(actTTY)(cc.Value) && len(cc.Args) == 1 && isField(actCons)(cc.Args[0])
		}},
		{"kfmt.SetOutputSink(devices.activeTTY)", func(n int) bool {
			if !m.callsTo(gl.Ins[n], setSink) {
				return false
			}
			a := gl.callArgs(n)[0]
			if ci, ok := a.(*ssa.ChangeInterface); ok {
				a = ci.X
			}
			if mi, ok := a.(*ssa.MakeInterface); ok {
				a = mi.X
			}
			return isField(actTTY)(a)
		}},
		{"SetState(tty.StateActive) on the active TTY", func(n int) bool {
			cc, ok := invokeOf(gl.Ins[n], "SetState")
			if !ok || !isField(actTTY)(cc.Value) || len(cc.Args) != 1 {
				return false
			}
			v, ok := constInt64(cc.Args[0])
			return ok && v == stActive
		}},
	}
	for _, rn := range gl.Returns() {
		for i, s := range steps {
			k := fmt.Sprintf("link-order %s step %d", m.fnName(link), i+1)
			okB, path := gl.MustPassBefore(rn, s.pred)
			if !okB {
				c.fail("C16.R4", k, "linkTTYToConsole can return without "+s.name, gl.where(path, 6)...)
				continue
			}
			bad := false
			if i+1 < len(steps) {
				for n := range gl.Ins {
					if s.pred(n) {
						if ok, p := gl.MustPassAfter(n, steps[i+1].pred, func(k int) bool { return k == rn }); !ok {
							c.fail("C16.R4", k, s.name+" is not followed by "+steps[i+1].name, gl.where(p, 6)...)
							bad = true
						}
					}
				}
				// and the next step must not also occur before this one
				for n := range gl.Ins {
					if steps[i+1].pred(n) {
						if okb, p := gl.MustPassBefore(n, s.pred); !okb {
							c.fail("C16.R4", k, steps[i+1].name+" can happen before "+s.name, gl.where(p, 6)...)
							bad = true
						}
					}
				}
			}
			if !bad {
				c.ok("C16.R4", k, s.name+" on every path, in order")
			}
		}
	}

	// ================= R5 =================
	c.floor("C16.R5", 6)
	gs := newIG(m, setSink, nil)
	wP := setSink.Params[0]
	isSinkStore := func(n int) bool {
		st, ok := gs.Ins[n].(*ssa.Store)
		return ok && st.Addr == ssa.Value(sink) && st.Val == ssa.Value(wP)
	}
	for _, rn := range gs.Returns() {
		okB, p := gs.MustPassBefore(rn, isSinkStore)
		c.check(okB, "C16.R5", "sink-store "+m.fnName(setSink), "outputSink = w on every path", "SetOutputSink can return without storing its argument into outputSink", gs.where(p, 6)...)
	}
	isDrain := func(n int) bool {
		in := gs.Ins[n]
		if !extCall(in, "io", "Copy") {
			return false
		}
		a := callCommon(in).Args
		if a[0] != ssa.Value(wP) {
			return false
		}
		mi, ok := a[1].(*ssa.MakeInterface)
		return ok && mi.X == ssa.Value(early)
	}
	drains := gs.Nodes(func(in ssa.Instruction) bool { return isDrain(gs.Idx[in]) })
	switch {
	case len(drains) == 0:
		c.fail("C16.R5", "drain "+m.fnName(setSink), "SetOutputSink never copies earlyPrintBuffer into the new sink: everything logged before the terminal appeared is lost", m.pos(setSink.Pos()))
	default:
		okAll := true
		for _, dn := range drains {
			if !hasFact(gs.FactsAt(dn), func(f Fact) bool {
				return isNilFact(f, token.NEQ, func(v ssa.Value) bool { return v == ssa.Value(wP) })
			}) {
				okAll = false
				c.fail("C16.R5", "drain "+m.fnName(setSink), "the drain of the early buffer is not dominated by w != nil", gs.posOf(dn))
			}
		}
		// every path through w != nil passes the drain
		cut := map[Edge]bool{}
		for _, f := range gs.AllEdgeFacts() {
			if isNilFact(f, token.EQL, func(v ssa.Value) bool { return v == ssa.Value(wP) }) {
				cut[f.Edge] = true
			}
		}
		isRet := func(k int) bool { _, ok := gs.Ins[k].(*ssa.Return); return ok }
		if p := gs.Path([]int{0}, cut, isDrain, func(k int) bool { return !isDrain(k) && isRet(k) }); p != nil && len(cut) > 0 {
			okAll = false
			c.fail("C16.R5", "drain "+m.fnName(setSink), "a path with w != nil returns without draining the early buffer", gs.where(p, 6)...)
		}
		if len(cut) == 0 {
			// unconditional drain: accepted only if it is on every path
			for _, rn := range gs.Returns() {
				if okB, _ := gs.MustPassBefore(rn, isDrain); !okB {
					okAll = false
				}
			}
		}
		if okAll {
			c.ok("C16.R5", "drain "+m.fnName(setSink), "io.Copy(w, &earlyPrintBuffer) exactly on the w != nil side", gs.posOf(drains[0]))
		}
	}
	// no other writer of outputSink
	for _, st := range m.storesToGlobal(sink) {
		fn := st.Parent()
		if fn == setSink {
			continue
		}
		if fn.Synthetic == "package initializer" && isNilConst(st.Val) {
			continue
		}
		c.fail("C16.R5", "sink-writers "+m.fnName(fn), "outputSink is written outside SetOutputSink", m.pos(st.Pos()))
	}
	c.ok("C16.R5", "sink-writers kfmt.outputSink", fmt.Sprintf("%d store(s), all in SetOutputSink", len(m.storesToGlobal(sink))))
	// doRealWrite: ring write exactly on w == nil; w.Write otherwise
	gd := newIG(m, doRealWrite, nil)
	wd := doRealWrite.Params[0]
	okRing, okW := false, false
	for n, in := range gd.Ins {
		if m.callsTo(in, rbWrite) {
			recv := callCommon(in).Args[0]
			okRing = recv == ssa.Value(early) && hasFact(gd.FactsAt(n), func(f Fact) bool {
				return isNilFact(f, token.EQL, func(v ssa.Value) bool { return v == ssa.Value(wd) })
			})
		}
		if cc, ok := invokeOf(in, "Write"); ok && cc.Value == ssa.Value(wd) {
			okW = hasFact(gd.FactsAt(n), func(f Fact) bool {
				return isNilFact(f, token.NEQ, func(v ssa.Value) bool { return v == ssa.Value(wd) })
			})
		}
	}
	c.check(okRing && okW, "C16.R5", "early-write "+m.fnName(doRealWrite), "writes to the early ring exactly on w == nil and to w otherwise",
		"doRealWrite does not route output to the early ring exactly when no sink is set", m.pos(doRealWrite.Pos()))
	// ring Write
	size, okSz := namedConstUint(m, "kfmt", "ringBufferSize")
	pow2 := okSz && size > 0 && size&(size-1) == 0
	c.check(pow2, "C16.R5", "ring-size kfmt.ringBufferSize", fmt.Sprintf("%d is a power of two", size), fmt.Sprintf("ring size %d is not a power of two: index masking is wrong", size))
	if at, ok := bufF.Type().Underlying().(*types.Array); ok {
		c.check(uint64(at.Len()) == size, "C16.R5", "ring-array kfmt.ringBuffer.buffer", "array length equals ringBufferSize", "buffer length differs from ringBufferSize")
	}
	gw := newIG(m, rbWrite, nil)
	// The indices as loop state. An index is advanced either in place
	// (rb.wIndex = f(rb.wIndex) inside the loop) or in a local that starts as the
	// field, is carried around the loop and is stored back after it. Both are
	// read as "F becomes f(F)"; f must be (F+1) mod size, however the wrap-around
	// is spelled (& (size-1), % size).
	cached := map[*types.Var]*ssa.Phi{}
	for _, in := range gw.Ins {
		phi, ok := in.(*ssa.Phi)
		if !ok || !isIntegral(phi.Type()) {
			continue
		}
		if h, body := loopOf(phi.Block()); h != phi.Block() || body == nil {
			continue
		}
		for _, e := range phi.Edges {
			for _, fld := range []*types.Var{wIdx, rIdx} {
				if isLoadOfField(stripConv(e), fld) {
					cached[fld] = phi
				}
			}
		}
	}
	zr := &Polyizer{Atom: func(v ssa.Value) string {
		for fld, name := range map[*types.Var]string{wIdx: "w", rIdx: "r"} {
			if isLoadOfField(v, fld) || (cached[fld] != nil && v == ssa.Value(cached[fld])) {
				return name
			}
		}
		return ""
	}}
	shift, _ := log2(size)
	next := func(name string) Poly {
		p := polyAtom(name).add(polyConst(1), 1)
		return p.add(pFdiv(shift, p).mul(polyConst(int64(size))), -1)
	}
	type update struct {
		val   Poly
		facts []Fact
		pos   string
	}
	updates := func(fld *types.Var) (out []update, problem string) {
		for n, in := range gw.Ins {
			st, ok := in.(*ssa.Store)
			if !ok {
				continue
			}
			f, rest := lastField(accessPath(st.Addr))
			if f != fld || rest != "" {
				continue
			}
			if phi := cached[fld]; phi != nil && stripConv(st.Val) == ssa.Value(phi) {
				if h, body := loopOf(phi.Block()); h != nil && !body[st.Block()] {
					continue // the write-back of the local after the loop
				}
			}
			out = append(out, update{zr.Of(st.Val), gw.FactsAt(n), gw.posOf(n)})
		}
		if phi := cached[fld]; phi != nil {
			wroteBack := false
			for _, in := range gw.Ins {
				if st, ok := in.(*ssa.Store); ok && stripConv(st.Val) == ssa.Value(phi) {
					if f, rest := lastField(accessPath(st.Addr)); f == fld && rest == "" {
						wroteBack = true
					}
				}
			}
			if !wroteBack {
				problem = "the index is advanced in a local that is never stored back into the ring"
			}
			_, body := loopOf(phi.Block())
			pe := gw.predEdges(phi.Block())
			seen := map[string]bool{}
			for i, e := range phi.Edges {
				if !body[phi.Block().Preds[i]] {
					continue
				}
				if stripConv(e) == ssa.Value(phi) {
					continue // unchanged on this path
				}
				ed := pe[i]
				cases := []ValCase{{Val: e, At: ed.From, Edge: &ed}}
				if gw.isMerge(e) {
					cases = gw.valueCases(e, ed.From)
				}
				for _, vc := range cases {
					if stripConv(vc.Val) == ssa.Value(phi) {
						continue // unchanged on this path
					}
					k := fmt.Sprint(vc.Val.Name(), vc.At)
					if seen[k] {
						continue
					}
					seen[k] = true
					out = append(out, update{zr.Of(vc.Val), gw.ValFacts(vc), gw.posOf(vc.At)})
				}
			}
		}
		return
	}
	isR := func(v ssa.Value) bool { return zr.Of(v).equal(polyAtom("r")) }
	isWNew := func(v ssa.Value) bool {
		return isLoadOfField(v, wIdx) || zr.Of(v).equal(next("w"))
	}
	wUps, wProblem := updates(wIdx)
	for _, u := range wUps {
		ok := u.val.equal(next("w")) && wProblem == ""
		msg := "the write index is not advanced as (wIndex+1) & (size-1)"
		if wProblem != "" {
			msg = wProblem
		}
		c.check(ok, "C16.R5", "ring-write-index "+m.fnName(rbWrite), "wIndex = (wIndex+1) & (size-1)", msg, u.pos)
	}
	rUps, rProblem := updates(rIdx)
	for _, u := range rUps {
		caught := hasFact(u.facts, func(f Fact) bool { return cmpMatch(f, token.EQL, isR, isWNew) })
		ok := u.val.equal(next("r")) && caught && rProblem == ""
		msg := "the read index is not advanced (masked) exactly when the write index catches it"
		if rProblem != "" {
			msg = rProblem
		}
		c.check(ok, "C16.R5", "ring-read-index "+m.fnName(rbWrite), "rIndex = (rIndex+1) & (size-1) exactly on the rIndex == wIndex side", msg, u.pos)
	}
	if len(wUps) == 0 {
		c.fail("C16.R5", "ring-write-index "+m.fnName(rbWrite), "ringBuffer.Write never advances the write index", m.pos(rbWrite.Pos()))
	}
	if len(rUps) == 0 {
		c.fail("C16.R5", "ring-read-index "+m.fnName(rbWrite), "ringBuffer.Write never advances the read index when the buffer is full: the oldest byte is not dropped and the whole buffer appears empty", m.pos(rbWrite.Pos()))
	}
	// in every iteration that stores a byte the caught test rIndex == (new) wIndex
	// is made before the next byte
	for n, in := range gw.Ins {
		st, ok := in.(*ssa.Store)
		if !ok {
			continue
		}
		if f, rest := lastField(accessPath(st.Addr)); f != bufF || rest == "" {
			continue
		}
		hdr, _ := loopOf(st.Block())
		if hdr == nil {
			c.fail("C16.R5", "ring-caught-test "+m.fnName(rbWrite), "the byte store is not in a loop over the bytes written", gw.posOf(n))
			continue
		}
		isTest := func(k int) bool {
			if _, ok := gw.Ins[k].(*ssa.If); !ok {
				return false
			}
			f, ok := condFact(gw.Cond(k), true)
			return ok && (cmpMatch(f, token.EQL, isR, isWNew) || cmpMatch(f, token.NEQ, isR, isWNew))
		}
		h := gw.First[hdr]
		if p := gw.Path(gw.Succ[n], nil, isTest, func(k int) bool { return k == h }); p != nil {
			c.fail("C16.R5", "ring-caught-test "+m.fnName(rbWrite), "the next byte is written without testing rIndex == wIndex after advancing the write index", gw.where(p, 6)...)
		} else {
			c.ok("C16.R5", "ring-caught-test "+m.fnName(rbWrite), "rIndex == wIndex is tested after every advance of the write index")
		}
	}
}

func containsFn(l []*ssa.Function, f *ssa.Function) bool {
	for _, x := range l {
		if x == f {
			return true
		}
	}
	return false
}

// sinkFOwner is the type name object of kfmt.PrefixWriter.
func sinkFOwner(m *Module) *types.TypeName {
	if t := m.lookupType("kfmt", "PrefixWriter"); t != nil {
		return t.Obj()
	}
	return nil
}
