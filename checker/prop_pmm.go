package main

import (
	"fmt"
	"go/token"
	"go/types"
	"sort"
	"strings"

	"golang.org/x/tools/go/ssa"
)

func init() {
	register(&Property{
		ID: "C01", NeedKernel: true, Run: runC01,
		Explanation: "Physical frame hand-out structure decided on SSA: (R1) pmm.Init publishes the bitmap allocator only after init() returned nil, and every nil return of " +
			"(*BitmapAllocator).init passes setupPoolBitmaps()==nil, the kernel-frame marking role and the early-allocation replay role, in that order; (R2) in every " +
			"memory-region visitor of package pmm every store and every `stop` return is dominated by region.Type == MemAvailable; (R3) the three sites that turn a " +
			"region into frames use start = cdiv(PhysAddress, 4096) and end = fdiv(PhysAddress+Length, 4096) - 1 (polynomial normal forms, identical everywhere) and " +
			"the kernel range is rounded outwards; (R4) AllocFrame returns a frame only under freeCount != 0 and block&mask == 0, after freeBitmap[i] |= mask with " +
			"the same index/mask that form the returned frame number, the (mask, offset) loop pair encodes bit 63-offset, and markFrame/FreeFrame use the same " +
			"encoding; (R5) bits are cleared only by the free and mark roles, every call of the mark role passes markReserved, and mm.frameAllocator is stored only by " +
			"SetFrameAllocator, called only from pmm.Init with the two pmm wrappers.",
		EnumRule: "obligations per rule and construct (function + role)",
		Assumptions: []string{"integer conversions are transparent for form comparison (frame numbers fit the narrower type)",
			"the bootloader's map is sorted and non-overlapping (quantifier of C01)"},
		Controls: []Control{
			{Name: "bitmap scan resumes at a position that wraps round", File: "kernel/mm/pmm/bitmap_allocator.go", Old: "\t\tfor blockIndex, block := range alloc.pools[poolIndex].freeBitmap {", New: "\t\tfor scanned, blockIndex := 0, int(alloc.pools[poolIndex].freeCount)%len(alloc.pools[poolIndex].freeBitmap); scanned < len(alloc.pools[poolIndex].freeBitmap); scanned, blockIndex = scanned+1, (blockIndex+1)%len(alloc.pools[poolIndex].freeBitmap) {\n\t\t\tblock := alloc.pools[poolIndex].freeBitmap[blockIndex]", Expect: "C01.R4 alloc-scan-complete"},
			{Name: "word scan starts at a remembered position", File: "kernel/mm/pmm/bitmap_allocator.go", Old: "\t\tfor blockIndex, block := range alloc.pools[poolIndex].freeBitmap {\n", New: "\t\tfor blockIndex := int(alloc.reservedPages >> 6); blockIndex < len(alloc.pools[poolIndex].freeBitmap); blockIndex++ {\n\t\t\tblock := alloc.pools[poolIndex].freeBitmap[blockIndex]\n", Expect: "C01.R4"},
			{Name: "delete reserveKernelFrames call", File: "kernel/mm/pmm/bitmap_allocator.go", Old: "\talloc.reserveKernelFrames()\n\talloc.reserveEarlyAllocatorFrames()\n", New: "\talloc.reserveEarlyAllocatorFrames()\n", Expect: "C01.R1"},
			{Name: "swap rounding in pass 2", File: "kernel/mm/pmm/bitmap_allocator.go",
				Old: "\t\tregionStartFrame := mm.Frame(((uintptr(region.PhysAddress) + pageSizeMinus1) & ^pageSizeMinus1) >> mm.PageShift)\n\t\tregionEndFrame := mm.Frame((uintptr(region.PhysAddress+region.Length) & ^pageSizeMinus1)>>mm.PageShift) - 1\n\t\tbitmapBytes",
				New: "\t\tregionStartFrame := mm.Frame((uintptr(region.PhysAddress) & ^pageSizeMinus1) >> mm.PageShift)\n\t\tregionEndFrame := mm.Frame((uintptr(region.PhysAddress+region.Length) & ^pageSizeMinus1)>>mm.PageShift) - 1\n\t\tbitmapBytes", Expect: "C01.R3"},
			{Name: "drop the freeCount == 0 skip", File: "kernel/mm/pmm/bitmap_allocator.go", Old: "\t\tif alloc.pools[poolIndex].freeCount == 0 {\n\t\t\tcontinue\n\t\t}\n", New: "", Expect: "C01.R4"},
			{Name: "markFree at the kernel marking call", File: "kernel/mm/pmm/bitmap_allocator.go", Old: "\t\talloc.markFrame(poolIndex, frame, markReserved)\n", New: "\t\talloc.markFrame(poolIndex, frame, markFree)\n", Expect: "C01.R5"},
			{Name: "pools built from reserved regions too", File: "kernel/mm/pmm/bitmap_allocator.go",
				Old: "\tmultiboot.VisitMemRegions(func(region *multiboot.MemoryMapEntry) bool {\n\t\tif region.Type != multiboot.MemAvailable {\n\t\t\treturn true\n\t\t}\n\n\t\tregionStartFrame",
				New: "\tmultiboot.VisitMemRegions(func(region *multiboot.MemoryMapEntry) bool {\n\t\tif region.Type != multiboot.MemAvailable && region.Type != multiboot.MemAcpiReclaimable {\n\t\t\treturn true\n\t\t}\n\n\t\tregionStartFrame", Expect: "C01.R2"},
			{Name: "returned frame off by one block", File: "kernel/mm/pmm/bitmap_allocator.go", Old: "mm.Frame((blockIndex<<6)+blockOffset), nil", New: "mm.Frame((blockIndex<<6)+blockOffset+1), nil", Expect: "C01.R4"},
			{Name: "publish before init", File: "kernel/mm/pmm/pmm.go", Old: "\tif err := bitmapAllocator.init(); err != nil {\n\t\treturn err\n\t}\n\tmm.SetFrameAllocator(bitmapAllocFrame)\n", New: "\tmm.SetFrameAllocator(bitmapAllocFrame)\n\tif err := bitmapAllocator.init(); err != nil {\n\t\treturn err\n\t}\n", Expect: "C01.R1"},
			{Name: "mark uses little-endian bit order", File: "kernel/mm/pmm/bitmap_allocator.go", Old: "\tmask := uint64(1 << (63 - (relFrame - block<<6)))\n\tswitch flag {", New: "\tmask := uint64(1 << (relFrame - block<<6))\n\tswitch flag {", Expect: "C01.R4"},
			{Name: "kernel end rounded down", File: "kernel/mm/pmm/bootmem_allocator.go", Old: "alloc.kernelEndFrame = mm.Frame(((kernelEnd+pageSizeMinus1) & ^pageSizeMinus1)>>mm.PageShift) - 1", New: "alloc.kernelEndFrame = mm.Frame((kernelEnd & ^pageSizeMinus1)>>mm.PageShift) - 1", Expect: "C01.R3"},
		},
	})
	register(&Property{
		ID: "C02", NeedKernel: true, Run: runC02,
		Explanation: "Early-boot allocator structure decided on SSA: (R1) the visitor of BootMemAllocator.AllocFrame reports success only under region.Type == MemAvailable and " +
			"region.Length >= PageSize, and uses the region only as start = cdiv(PhysAddress,4096) / end = fdiv(PhysAddress+Length,4096)-1; (R2) success (err = nil, stop) " +
			"is dominated by lastAllocFrame <= end after the cursor update, the allocCount increment and the frame return are dominated by err == nil and the other return " +
			"yields (InvalidFrame, errBootAllocOutOfMemory); (R3) frame condition of replay: AllocFrame and its visitor write only {allocCount, lastAllocFrame} and read only " +
			"those plus the kernel range and the visited region, and the replay role zeroes exactly that write set after loading the bound from allocCount; (R4) every cursor " +
			"update is kernelEndFrame+1, the region start, or lastAllocFrame+1; (R5) the kernel image is stepped over: the update lastAllocFrame+1 is unreachable once the edges " +
			"`lastAllocFrame+1 != kernelStartFrame` and `lastAllocFrame > regionEndFrame` are removed, and the update to the region start is unreachable once `kernelStartFrame != " +
			"regionStartFrame` and `lastAllocFrame > regionStartFrame` are removed (cut form of the kernel-jump conditions).",
		EnumRule:    "obligations per rule and construct",
		Assumptions: []string{"strict monotonicity and the kernel-jump case analysis are relational facts over four variables and are not decided"},
		Controls: []Control{
			{Name: "success recorded before the cursor is adjusted", File: "kernel/mm/pmm/bootmem_allocator.go", Old: "\t\t// If last frame used a different region and the kernel image", New: "\t\terr = nil\n\t\t// If last frame used a different region and the kernel image", Expect: "C02.R2"},
			{Name: "drop the > regionEndFrame re-check", File: "kernel/mm/pmm/bootmem_allocator.go", Old: "\t\tif alloc.lastAllocFrame > regionEndFrame {\n\t\t\treturn true\n\t\t}\n", New: "", Expect: "C02.R2"},
			{Name: "allocation remembers the region in a new field", File: "kernel/mm/pmm/bootmem_allocator.go", Old: "\t\terr = nil\n\t\treturn false\n", New: "\t\talloc.kernelEndAddr = uintptr(region.PhysAddress)\n\t\terr = nil\n\t\treturn false\n", Expect: "C02.R3"},
			{Name: "replay bound loaded after the reset", File: "kernel/mm/pmm/bitmap_allocator.go",
				Old: "\tallocCount := bootMemAllocator.allocCount\n\tbootMemAllocator.allocCount, bootMemAllocator.lastAllocFrame = 0, 0\n\tfor i := uint64(0); i < allocCount; i++ {",
				New: "\tbootMemAllocator.allocCount, bootMemAllocator.lastAllocFrame = 0, 0\n\tallocCount := bootMemAllocator.allocCount\n\tfor i := uint64(0); i < allocCount; i++ {", Expect: "C02.R3"},
			{Name: "replay does not reset the cursor", File: "kernel/mm/pmm/bitmap_allocator.go", Old: "\tbootMemAllocator.allocCount, bootMemAllocator.lastAllocFrame = 0, 0\n", New: "\tbootMemAllocator.allocCount = 0\n", Expect: "C02.R3"},
			{Name: "sub-page regions accepted", File: "kernel/mm/pmm/bootmem_allocator.go", Old: "if region.Type != multiboot.MemAvailable || region.Length < uint64(mm.PageSize) {", New: "if region.Type != multiboot.MemAvailable {", Expect: "C02.R1"},
			{Name: "cursor skips a frame", File: "kernel/mm/pmm/bootmem_allocator.go", Old: "\t\t\talloc.lastAllocFrame++\n", New: "\t\t\talloc.lastAllocFrame += 2\n", Expect: "C02.R4"},
			{Name: "success returned on out of memory", File: "kernel/mm/pmm/bootmem_allocator.go", Old: "\tif err != nil {\n\t\treturn mm.InvalidFrame, errBootAllocOutOfMemory\n\t}\n", New: "\tif err != nil && alloc.allocCount == 0 {\n\t\treturn mm.InvalidFrame, errBootAllocOutOfMemory\n\t}\n", Expect: "C02.R2"},
			{Name: "kernel jump only when the cursor is past the region start", File: "kernel/mm/pmm/bootmem_allocator.go", Old: "(alloc.lastAllocFrame <= regionEndFrame && alloc.lastAllocFrame+1 == alloc.kernelStartFrame) {", New: "(alloc.lastAllocFrame > regionStartFrame && alloc.lastAllocFrame+1 == alloc.kernelStartFrame) {", Expect: "C02.R5"},
			{Name: "kernel at the region start not skipped", File: "kernel/mm/pmm/bootmem_allocator.go", Old: "if (alloc.lastAllocFrame <= regionStartFrame && alloc.kernelStartFrame == regionStartFrame) ||", New: "if (alloc.lastAllocFrame < regionStartFrame && alloc.kernelStartFrame == regionStartFrame) ||", Expect: "C02.R5"},
			{Name: "end frame rounded up", File: "kernel/mm/pmm/bootmem_allocator.go", Old: "regionEndFrame := mm.Frame(((region.PhysAddress+region.Length) & ^pageSizeMinus1)>>mm.PageShift) - 1", New: "regionEndFrame := mm.Frame(((region.PhysAddress+region.Length+pageSizeMinus1) & ^pageSizeMinus1)>>mm.PageShift) - 1", Expect: "C02.R1"},
		},
	})
	register(&Property{
		ID: "C03", NeedKernel: true, Run: runC03,
		Explanation: "Frame accounting structure decided on SSA: (R1) with n = endFrame-startFrame+1 (normal form fdiv(P+L,4096) - cdiv(P,4096)): freeCount, the totalPages " +
			"increment and the operand of the 64-bit round-up that sizes the bitmap in both passes are all n, and the bitmap length is up64(n)/64 words (found F1); (R2) in the " +
			"free role every allocator store is dominated by poolIndex >= 0 and bitmap&mask != 0, the two error returns yield two distinct error variables and no store lies on " +
			"a path to them; (R3) on every path of the allocate, free and mark roles each bit-setting store is paired with exactly one freeCount-1 and one reservedPages+1 " +
			"(bit-clearing: +1 / -1) before the exit; (R4) in setupPoolBitmaps, init and pmm.Init every *kernel.Error call result is tested and returned on the non-nil " +
			"side (named exception: the replay call).",
		EnumRule: "obligations per rule and construct",
		Assumptions: []string{"named exception C03.R4: reserveEarlyAllocatorFrames discards the error of the replayed AllocFrame calls: it repeats at most as many allocations as already succeeded from the same state (C02.R3)",
			"crash-freedom in general and counts over histories are not decided"},
		Controls: []Control{
			{Name: "first pass skips regions the second pass fills", File: "kernel/mm/pmm/bitmap_allocator.go", Old: "\t\tif region.Type != multiboot.MemAvailable {\n\t\t\treturn true\n\t\t}\n\n\t\talloc.poolsHdr.Len++", New: "\t\tif region.Type != multiboot.MemAvailable || region.Length < uint64(mm.PageSize) {\n\t\t\treturn true\n\t\t}\n\n\t\talloc.poolsHdr.Len++", Expect: "C03.R1 pass-agreement"},
			{Name: "re-remove the +1 in pass 2 (F1)", File: "kernel/mm/pmm/bitmap_allocator.go", Old: "bitmapBytes := ((uintptr(regionEndFrame-regionStartFrame+1) + 63) &^ 63) >> 3", New: "bitmapBytes := ((uintptr(regionEndFrame-regionStartFrame) + 63) &^ 63) >> 3", Expect: "C03.R1"},
			{Name: "re-remove the +1 in pass 1 (F1)", File: "kernel/mm/pmm/bitmap_allocator.go", Old: "pageCount := uint32(regionEndFrame - regionStartFrame + 1)", New: "pageCount := uint32(regionEndFrame - regionStartFrame)", Expect: "C03.R1"},
			{Name: "drop the double-free test", File: "kernel/mm/pmm/bitmap_allocator.go", Old: "\tif alloc.pools[poolIndex].freeBitmap[block]&mask == 0 {\n\t\talloc.mutex.Release()\n\t\treturn errBitmapAllocDoubleFree\n\t}\n", New: "", Expect: "C03.R2"},
			{Name: "drop reservedPages-- in free", File: "kernel/mm/pmm/bitmap_allocator.go", Old: "\talloc.pools[poolIndex].freeCount++\n\talloc.reservedPages--\n\talloc.mutex.Release()\n\treturn nil", New: "\talloc.pools[poolIndex].freeCount++\n\talloc.mutex.Release()\n\treturn nil", Expect: "C03.R3"},
			{Name: "padding bits of the last word reserved in init (seed C03-13)", File: "kernel/mm/pmm/bitmap_allocator.go", Old: "\talloc.reserveKernelFrames()\n\talloc.reserveEarlyAllocatorFrames()\n", New: "\tfor i := range alloc.pools {\n\t\tif n := len(alloc.pools[i].freeBitmap); n != 0 {\n\t\t\talloc.pools[i].freeBitmap[n-1] |= 1\n\t\t}\n\t}\n\talloc.reserveKernelFrames()\n\talloc.reserveEarlyAllocatorFrames()\n", Expect: "C03.R3 bit-writers"},
			{Name: "ignore the reserveRegionFn error", File: "kernel/mm/pmm/bitmap_allocator.go", Old: "\talloc.poolsHdr.Data, err = reserveRegionFn(requiredBytes)\n\tif err != nil {\n\t\treturn err\n\t}\n", New: "\talloc.poolsHdr.Data, err = reserveRegionFn(requiredBytes)\n\t_ = err\n", Expect: "C03.R4"},
			{Name: "bitmap rounded to 32 bits", File: "kernel/mm/pmm/bitmap_allocator.go", Old: "bitmapBytes := ((uintptr(regionEndFrame-regionStartFrame+1) + 63) &^ 63) >> 3", New: "bitmapBytes := ((uintptr(regionEndFrame-regionStartFrame+1) + 31) &^ 31) >> 3", Expect: "C03.R1"},
			{Name: "same error for both bad frees", File: "kernel/mm/pmm/bitmap_allocator.go", Old: "\t\talloc.mutex.Release()\n\t\treturn errBitmapAllocDoubleFree", New: "\t\talloc.mutex.Release()\n\t\treturn errBitmapAllocFrameNotManaged", Expect: "C03.R2"},
			{Name: "freeCount decremented twice on allocation", File: "kernel/mm/pmm/bitmap_allocator.go", Old: "\t\t\t\talloc.pools[poolIndex].freeCount--\n\t\t\t\talloc.pools[poolIndex].freeBitmap[blockIndex] |= mask", New: "\t\t\t\talloc.pools[poolIndex].freeCount -= 2\n\t\t\t\talloc.pools[poolIndex].freeBitmap[blockIndex] |= mask", Expect: "C03.R3"},
			{Name: "double free counted before rejected", File: "kernel/mm/pmm/bitmap_allocator.go", Old: "\tif alloc.pools[poolIndex].freeBitmap[block]&mask == 0 {\n\t\talloc.mutex.Release()", New: "\tif alloc.pools[poolIndex].freeBitmap[block]&mask == 0 {\n\t\talloc.reservedPages--\n\t\talloc.mutex.Release()", Expect: "C03.R2"},
		},
	})
}

type pmmx struct {
	c *Ctx
	m *Module

	allocT, bootT, poolT                                   *types.Named
	bInit, setup, markRole, kernelRole, replayRole, bAlloc *ssa.Function
	initDone                                               *ssa.Function
	bFree, poolFor, bootInit, bootAlloc, pmmInit, setFA    *ssa.Function
	visit, earlyWrap, bitmapWrap                           *ssa.Function
	freeBitmap, freeCount, reserved, totalPages            *types.Var
	startFrame, endFrame, bmHdr                            *types.Var
	allocCount, lastAlloc, kStartF, kEndF                  *types.Var
	regType, regPhys, regLen                               *types.Var
	memAvail, pageSize                                     uint64
	z                                                      *Polyizer
	S, E1, N                                               Poly // start, end+1 (fdiv), count
}

func newPMMX(c *Ctx, rule string) *pmmx {
	m := c.K
	x := &pmmx{c: c, m: m}
	const pmm = "mm/pmm"
	x.allocT, x.bootT, x.poolT = m.lookupType(pmm, "BitmapAllocator"), m.lookupType(pmm, "BootMemAllocator"), m.lookupType(pmm, "framePool")
	x.bInit = m.lookupMethod(pmm, "BitmapAllocator", "init")
	x.setup = m.lookupMethod(pmm, "BitmapAllocator", "setupPoolBitmaps")
	x.bAlloc = m.lookupMethod(pmm, "BitmapAllocator", "AllocFrame")
	x.bFree = m.lookupMethod(pmm, "BitmapAllocator", "FreeFrame")
	x.poolFor = m.lookupMethod(pmm, "BitmapAllocator", "poolForFrame")
	x.bootInit = m.lookupMethod(pmm, "BootMemAllocator", "init")
	x.bootAlloc = m.lookupMethod(pmm, "BootMemAllocator", "AllocFrame")
	x.pmmInit = m.lookupFunc(pmm, "Init")
	// the initialisation routine is not named by any property: inlined into
	// pmm.Init, pmm.Init plays its role and "it succeeded" is the pool setup
	x.initDone = x.bInit
	if x.bInit == nil && x.pmmInit != nil && x.setup != nil {
		for _, cs := range m.callSites(x.setup) {
			if cs.Parent() == x.pmmInit {
				x.bInit, x.initDone = x.pmmInit, x.setup
			}
		}
	}
	x.setFA = m.lookupFunc("mm", "SetFrameAllocator")
	x.visit = m.lookupFunc("multiboot", "VisitMemRegions")
	x.earlyWrap = m.lookupFunc(pmm, "earlyAllocFrame")
	x.bitmapWrap = m.lookupFunc(pmm, "bitmapAllocFrame")
	f := func(t, n string) *types.Var { return m.fieldOf(pmm, t, n) }
	x.freeBitmap, x.freeCount, x.reserved, x.totalPages = f("framePool", "freeBitmap"), f("framePool", "freeCount"), f("BitmapAllocator", "reservedPages"), f("BitmapAllocator", "totalPages")
	x.startFrame, x.endFrame, x.bmHdr = f("framePool", "startFrame"), f("framePool", "endFrame"), f("framePool", "freeBitmapHdr")
	x.allocCount, x.lastAlloc, x.kStartF, x.kEndF = f("BootMemAllocator", "allocCount"), f("BootMemAllocator", "lastAllocFrame"), f("BootMemAllocator", "kernelStartFrame"), f("BootMemAllocator", "kernelEndFrame")
	x.regType, x.regPhys, x.regLen = m.fieldOf("multiboot", "MemoryMapEntry", "Type"), m.fieldOf("multiboot", "MemoryMapEntry", "PhysAddress"), m.fieldOf("multiboot", "MemoryMapEntry", "Length")
	for name, v := range map[string]interface{}{
		"pmm.BitmapAllocator": x.allocT, "pmm.BootMemAllocator": x.bootT, "pmm.framePool": x.poolT, "BitmapAllocator.init": x.bInit,
		"BitmapAllocator.setupPoolBitmaps": x.setup, "BitmapAllocator.AllocFrame": x.bAlloc, "BitmapAllocator.FreeFrame": x.bFree,
		"BitmapAllocator.poolForFrame": x.poolFor, "BootMemAllocator.init": x.bootInit, "BootMemAllocator.AllocFrame": x.bootAlloc, "pmm.Init": x.pmmInit,
		"mm.SetFrameAllocator": x.setFA, "multiboot.VisitMemRegions": x.visit, "pmm.earlyAllocFrame": x.earlyWrap, "pmm.bitmapAllocFrame": x.bitmapWrap,
		"framePool.freeBitmap": x.freeBitmap, "framePool.freeCount": x.freeCount, "BitmapAllocator.reservedPages": x.reserved, "BitmapAllocator.totalPages": x.totalPages,
		"framePool.startFrame": x.startFrame, "framePool.endFrame": x.endFrame, "framePool.freeBitmapHdr": x.bmHdr, "BootMemAllocator.allocCount": x.allocCount,
		"BootMemAllocator.lastAllocFrame": x.lastAlloc, "BootMemAllocator.kernelStartFrame": x.kStartF, "BootMemAllocator.kernelEndFrame": x.kEndF,
		"MemoryMapEntry.Type": x.regType, "MemoryMapEntry.PhysAddress": x.regPhys, "MemoryMapEntry.Length": x.regLen,
	} {
		if isNilIface(v) {
			c.unresolved(rule, name)
			return nil
		}
	}
	var ok1, ok2 bool
	x.memAvail, ok1 = namedConstUint(m, "multiboot", "MemAvailable")
	x.pageSize, ok2 = namedConstUint(m, "mm", "PageSize")
	if !ok1 || !ok2 || x.pageSize != 4096 {
		c.unresolved(rule, "multiboot.MemAvailable / mm.PageSize (4096)")
		return nil
	}
	// position-independent atom names
	x.z = &Polyizer{Atom: func(v ssa.Value) string {
		if _, fld, ok := loadedField(v); ok && isIntegral(fld.Type()) {
			owner := ""
			switch fld {
			case x.regType, x.regPhys, x.regLen:
				owner = "region"
			case x.freeCount, x.startFrame, x.endFrame:
				owner = "pool"
			case x.reserved, x.totalPages:
				owner = "alloc"
			case x.allocCount, x.lastAlloc, x.kStartF, x.kEndF:
				owner = "boot"
			}
			if owner != "" {
				return owner + "." + fld.Name()
			}
		}
		if a, ok := loadAddr(strip(v)); ok {
			if cell, ok := cellOf(a); ok && cell.Comment != "" && isIntegral(v.Type()) {
				if val, ok := singleStoreValue(a); ok {
					if _, isParam := strip(val).(*ssa.Parameter); isParam {
						return ""
					}
					if _, isConst := constEval(val); isConst {
						return ""
					}
				}
				return "$" + cell.Comment
			}
		}
		return ""
	}}
	x.S = pCdiv(12, polyAtom("region.PhysAddress"))
	x.E1 = pFdiv(12, polyAtom("region.Length").add(polyAtom("region.PhysAddress"), 1))
	x.N = x.E1.add(x.S, -1)
	// roles
	x.resolveRoles()
	if x.markRole == nil || x.kernelRole == nil || x.replayRole == nil {
		c.unresolved(rule, "roles: mark / kernel-frame marking / early-allocation replay")
		return nil
	}
	return x
}

// bitStores returns the stores to freeBitmap elements of fn, classified as
// "set" (|= mask), "clear" (&^= mask) or "other".
type bitStore struct {
	n    int
	kind string
	mask ssa.Value
	st   *ssa.Store
}

func (x *pmmx) bitStores(g *IG) []bitStore {
	var out []bitStore
	for n, in := range g.Ins {
		st, ok := in.(*ssa.Store)
		if !ok {
			continue
		}
		if f, rest := lastField(accessPath(st.Addr)); f != x.freeBitmap || !strings.HasPrefix(rest, "[]") {
			continue
		}
		bs := bitStore{n: n, kind: "other", st: st}
		if b, ok := st.Val.(*ssa.BinOp); ok {
			sameElem := func(v ssa.Value) bool {
				a, ok := loadAddr(v)
				return ok && pathString(accessPath(a)) == pathString(accessPath(st.Addr))
			}
			switch {
			case b.Op == token.OR && sameElem(b.X):
				bs.kind, bs.mask = "set", b.Y
			case b.Op == token.OR && sameElem(b.Y):
				bs.kind, bs.mask = "set", b.X
			case b.Op == token.AND_NOT && sameElem(b.X):
				bs.kind, bs.mask = "clear", b.Y
			}
		}
		out = append(out, bs)
	}
	return out
}

func (x *pmmx) resolveRoles() {
	m := x.m
	pmmPkg := m.pkg("mm/pmm")
	// mark role: the function outside the two API methods that sets and clears bits
	for _, fn := range m.scanFuncs() {
		if fn.Pkg != pmmPkg || fn == x.bAlloc || fn == x.bFree {
			continue
		}
		bs := x.bitStores(scanIG(m, fn, nil))
		set, clr := false, false
		for _, b := range bs {
			set = set || b.kind == "set"
			clr = clr || b.kind == "clear"
		}
		if set && clr {
			x.markRole = fn
			m.anchor(fn)
		}
	}
	if x.markRole == nil {
		return
	}
	for _, fn := range m.scanFuncs() {
		if fn.Pkg != pmmPkg {
			continue
		}
		g := scanIG(m, fn, nil)
		marks := g.callNodes(x.markRole)
		if len(marks) == 0 {
			continue
		}
		if len(g.callNodes(x.bootAlloc)) > 0 {
			x.replayRole = fn
			m.anchor(fn)
			continue
		}
		// kernel role: marks a frame counter running from kernelStartFrame to <= kernelEndFrame
		for _, mn := range marks {
			args := g.callArgs(mn)
			if phi, ok := args[2].(*ssa.Phi); ok {
				startOK := false
				for _, e := range phi.Edges {
					if isLoadOfField(e, x.kStartF) {
						startOK = true
					}
				}
				endOK := hasFact(g.FactsAt(mn), func(f Fact) bool {
					return cmpMatch(f, token.LEQ, func(v ssa.Value) bool { return v == ssa.Value(phi) }, func(v ssa.Value) bool { return isLoadOfField(v, x.kEndF) })
				})
				if startOK && endOK {
					x.kernelRole = fn
					m.anchor(fn)
				}
			}
		}
	}
}

func (x *pmmx) visitors() []*ssa.Function {
	var out []*ssa.Function
	pmmPkg := x.m.pkg("mm/pmm")
	for _, fn := range x.m.Funcs {
		if fn.Pkg != pmmPkg || fn.Parent() != nil {
			continue
		}
		out = append(out, x.m.closureArgOf(fn, x.visit, 0)...)
	}
	return out
}

func (x *pmmx) availFact(f Fact, closure *ssa.Function) bool {
	return cmpMatch(f, token.EQL, func(v ssa.Value) bool {
		b, fl, ok := loadedField(stripConv(v))
		return ok && fl == x.regType && len(closure.Params) > 0 && b == ssa.Value(closure.Params[0])
	}, func(v ssa.Value) bool { k, ok := constUint64(v); return ok && k == x.memAvail })
}

// ============================ C01 ============================

func runC01(c *Ctx) {
	x := newPMMX(c, "C01.R1")
	if x == nil {
		return
	}
	m := c.K
	// ---- R1 ----
	c.floor("C01.R1", 2)
	g := newIG(m, x.pmmInit, nil)
	initCalls := g.callNodes(x.initDone)
	npub := 0
	for _, n := range g.callNodes(x.setFA) {
		if strip(g.callArgs(n)[0]) != ssa.Value(x.bitmapWrap) {
			continue
		}
		npub++
		okB, path := g.MustPassBefore(n, func(k int) bool { return contains(initCalls, k) })
		nilErr := hasFact(g.FactsAt(n), func(f Fact) bool {
			return isNilFact(f, token.EQL, func(v ssa.Value) bool { return derivesFromCall(v, x.initDone, m) })
		})
		c.check(okB && nilErr, "C01.R1", "publish "+m.fnName(x.pmmInit), "SetFrameAllocator(bitmapAllocFrame) only after init() returned nil",
			"the bitmap allocator is published on a path on which init() has not run or its error has not been tested nil", g.where(path, 8)...)
	}
	if npub == 0 {
		c.fail("C01.R1", "publish "+m.fnName(x.pmmInit), "pmm.Init never publishes the bitmap allocator", m.pos(x.pmmInit.Pos()))
	}
	gi := newIG(m, x.bInit, nil)
	steps := []struct {
		name string
		pred func(n int) bool
	}{
		{"setupPoolBitmaps() == nil", func(n int) bool { return m.callsTo(gi.Ins[n], x.setup) }},
		{"kernel image frames marked reserved (" + x.kernelRole.Name() + ")", func(n int) bool { return m.callsTo(gi.Ins[n], x.kernelRole) }},
		{"early-boot allocations replayed and marked reserved (" + x.replayRole.Name() + ")", func(n int) bool { return m.callsTo(gi.Ins[n], x.replayRole) }},
	}
	nret := 0
	for _, rc := range gi.ReturnCases() {
		// a nil return: the constant, or an error value that a test on the way found nil
		isNil, nonNil := gi.caseNil(rc, rc.Vals[0])
		if !isNil && !nonNil {
			// undetermined: treated as a possible nil return
			isNil = true
		}
		if !isNil {
			continue
		}
		rn := rc.Ret
		key := fmt.Sprintf("pipeline %s nil-return#%d", m.fnName(x.bInit), nret)
		nret++
		bad := ""
		for i, s := range steps {
			if !gi.CaseMustPassBefore(rc, s.pred) {
				bad = "init can return nil without: " + s.name
				break
			}
			if i > 0 {
				// order: step i-1 before step i
				for n := range gi.Ins {
					if s.pred(n) {
						if ok, _ := gi.MustPassBefore(n, steps[i-1].pred); !ok {
							bad = s.name + " can run before " + steps[i-1].name
						}
					}
				}
			}
		}
		if bad == "" && !hasFact(gi.CaseFacts(rc), func(f Fact) bool {
			return isNilFact(f, token.EQL, func(v ssa.Value) bool { return derivesFromCall(v, x.setup, m) })
		}) {
			bad = "init can return nil although setupPoolBitmaps failed"
		}
		c.check(bad == "", "C01.R1", key, "passes setupPoolBitmaps()==nil, kernel marking, early-allocation replay, in order", bad, gi.posOf(rn))
	}
	if nret == 0 {
		c.fail("C01.R1", "pipeline "+m.fnName(x.bInit), "init has no nil return", m.pos(x.bInit.Pos()))
	}

	// ---- R2 ----
	x.ruleAvailableOnly("C01.R2", nil)

	// ---- R3 ----
	x.ruleRounding()

	// ---- R4 ----
	x.ruleAllocMarks()

	// ---- R5 ----
	x.ruleClearOnlyByFree()
}

// ruleAvailableOnly: in every region visitor (restricted to `only` if given),
// every store and every `return false` (stop) is dominated by Type == MemAvailable.
func (x *pmmx) ruleAvailableOnly(rule string, only *ssa.Function) {
	c, m := x.c, x.m
	vis := x.visitors()
	if only == nil {
		c.floor(rule, 3)
	}
	for _, v := range vis {
		if only != nil && outermost(v) != only {
			continue
		}
		g := newIG(m, v, nil)
		key := "available-only " + m.fnName(v)
		bad := ""
		nst := 0
		var where []string
		for n, in := range g.Ins {
			dominated := func() bool {
				return hasFact(g.FactsAt(n), func(f Fact) bool { return x.availFact(f, v) })
			}
			switch t := in.(type) {
			case *ssa.Store:
				if p := accessPath(t.Addr); len(p) > 0 && p[0].Kind == "alloc" {
					continue // temporary of the closure itself (e.g. a varargs array), not captured state
				}
				nst++
				c.Evals++
				if !dominated() {
					bad = "a store (" + pathString(accessPath(t.Addr)) + ") is reachable for a region whose type has not been tested == MemAvailable"
					where = []string{g.posOf(n)}
				}
			case *ssa.Return:
				if b, ok := constBool(t.Results[0]); ok && !b && !dominated() {
					bad = "the visitor stops the scan (success) for a region whose type has not been tested == MemAvailable"
					where = []string{g.posOf(n)}
				}
			}
		}
		c.check(bad == "", rule, key, fmt.Sprintf("all %d store(s) and every stop-return are dominated by region.Type == MemAvailable", nst), bad, where...)
	}
}

func (x *pmmx) ruleRounding() {
	c, m := x.c, x.m
	c.floor("C01.R3", 4)
	z := x.z
	E := x.E1.add(polyConst(1), -1)
	mentions := func(p Poly) bool {
		s := p.String()
		return strings.Contains(s, "region.PhysAddress") || strings.Contains(s, "region.Length")
	}
	for _, v := range x.visitors() {
		if outermost(v) == x.m.lookupMethod("mm/pmm", "BootMemAllocator", "printMemoryMap") {
			continue
		}
		g := newIG(m, v, nil)
		key := "region-forms " + m.fnName(v)
		bad := ""
		nforms := 0
		checkForm := func(p Poly, what string, n int) {
			if !mentions(p) {
				return
			}
			nforms++
			c.Evals++
			// strip atoms that are not region-derived: compare the region-derived part
			rp := Poly{}
			for k, v := range p {
				if strings.Contains(k, "region.") {
					rp[k] = v
				}
			}
			// remaining constant belongs to the region part only if no other atoms are present
			other := p.add(rp, -1)
			if k, ok := other.isConst(); ok {
				rp = rp.add(polyConst(k), 1)
			}
			allowed := []Poly{x.S, E, x.N, polyAtom("region.Length"), polyAtom("region.Type"),
				pFdiv(3, pUp(6, x.N)), pCdiv(6, x.N)}
			for _, a := range allowed {
				if rp.equal(a) {
					return
				}
			}
			bad = what + " uses the region as " + rp.String() + "; expected start = " + x.S.String() + ", end = " + E.String() + " or count = " + x.N.String()
			_ = n
		}
		for n, in := range g.Ins {
			switch t := in.(type) {
			case *ssa.Store:
				if isIntegral(t.Val.Type()) {
					checkForm(z.Of(t.Val), "store to "+pathString(accessPath(t.Addr)), n)
				}
			case *ssa.If:
				if f, ok := condFact(t.Cond, true); ok && f.Y != nil && isIntegral(f.X.Type()) {
					checkForm(z.Of(f.X), "comparison", n)
					checkForm(z.Of(f.Y), "comparison", n)
				}
			}
		}
		if bad == "" && nforms == 0 {
			bad = "the visitor no longer derives frames from the region (rule shape lost)"
		}
		c.check(bad == "", "C01.R3", key, fmt.Sprintf("%d region-derived value(s), all of the forms start=cdiv(P,4096), end=fdiv(P+L,4096)-1, count=end-start+1 (or bitmap sizes of count)", nforms), bad, m.pos(v.Pos()))
	}
	// pool bounds stored = S and E exactly
	for _, fs := range m.storesToField(x.startFrame) {
		p := z.Of(fs.Store.Val)
		c.check(p.equal(x.S), "C01.R3", "pool-start "+m.fnName(fs.Fn), "startFrame = "+x.S.String(), "pool start is "+p.String()+", not rounded up ("+x.S.String()+"): a partially available page becomes allocatable", m.pos(fs.Store.Pos()))
	}
	for _, fs := range m.storesToField(x.endFrame) {
		p := z.Of(fs.Store.Val)
		c.check(p.equal(E), "C01.R3", "pool-end "+m.fnName(fs.Fn), "endFrame = "+E.String(), "pool end is "+p.String()+", not rounded down ("+E.String()+")", m.pos(fs.Store.Pos()))
	}
	// kernel range, outward
	zk := &Polyizer{}
	for _, fs := range m.storesToField(x.kStartF) {
		p := zk.Of(fs.Store.Val)
		c.check(p.equal(pFdiv(12, polyAtom("kernelStart"))), "C01.R3", "kernel-start "+m.fnName(fs.Fn), "kernelStartFrame = fdiv12(kernelStart) (rounded down)", "kernel start frame is "+p.String()+", expected fdiv12(kernelStart)", m.pos(fs.Store.Pos()))
	}
	for _, fs := range m.storesToField(x.kEndF) {
		p := zk.Of(fs.Store.Val)
		c.check(p.equal(pCdiv(12, polyAtom("kernelEnd")).add(polyConst(1), -1)), "C01.R3", "kernel-end "+m.fnName(fs.Fn), "kernelEndFrame = cdiv12(kernelEnd) - 1 (rounded up)", "kernel end frame is "+p.String()+", expected cdiv12(kernelEnd) - 1: the last partially used kernel page is not protected", m.pos(fs.Store.Pos()))
	}
}

func (x *pmmx) ruleAllocMarks() {
	c, m := x.c, x.m
	c.floor("C01.R4", 3)
	g := newIG(m, x.bAlloc, nil)
	z := x.z
	invalid, _ := namedConstUint(m, "mm", "InvalidFrame")
	nret := 0
	for _, rc := range g.ReturnCases() {
		rn := rc.Ret
		r0 := rc.Vals[0]
		if k, ok := constUint64(r0); ok && k == invalid {
			continue
		}
		key := fmt.Sprintf("alloc-return %s #%d", m.fnName(x.bAlloc), nret)
		nret++
		facts := g.CaseFacts(rc)
		hasFree := hasFact(facts, func(f Fact) bool {
			return cmpMatch(f, token.NEQ, func(v ssa.Value) bool { return isLoadOfField(v, x.freeCount) }, isZeroConst)
		})
		var maskV ssa.Value
		var testIns ssa.Instruction
		bitFree := hasFact(facts, func(f Fact) bool {
			if f.Op != token.EQL || f.Y == nil {
				return false
			}
			for _, pr := range [][2]ssa.Value{{f.X, f.Y}, {f.Y, f.X}} {
				if b, ok := pr[0].(*ssa.BinOp); ok && b.Op == token.AND && isZeroConst(pr[1]) {
					maskV = b.Y
					testIns = b
					if _, isLoad := stripConv(b.Y).(*ssa.UnOp); isLoad {
						maskV = b.X // mask & block
					}
					return true
				}
			}
			return false
		})
		var setStore *bitStore
		for _, bs := range x.bitStores(g) {
			bs := bs
			if bs.kind == "set" {
				if g.CaseMustPassBefore(rc, func(n int) bool { return n == bs.n }) {
					setStore = &bs
				}
			}
		}
		bad := ""
		switch {
		case !hasFree:
			bad = "a frame is returned from a pool whose freeCount has not been tested != 0 (padding bits of the last bitmap word can be handed out)"
		case !bitFree:
			bad = "a frame is returned whose bit has not been tested clear (block & mask == 0)"
		case setStore == nil:
			bad = "a frame is returned without its bit having been set (freeBitmap[i] |= mask) on every path"
		case setStore.mask != maskV:
			// not the same value: the same bit, when both masks have their single
			// bit at the same position in the scan's induction form
			same := false
			if lf, ok := g.loopFormAt(z, testIns.Block()); ok {
				b1, ok1 := bitPosition(lf, z, maskV)
				b2, ok2 := bitPosition(lf, z, setStore.mask)
				same = ok1 && ok2 && b1.equal(b2)
				lf.Done()
			}
			if !same {
				bad = "the bit that is set is not the bit that was tested"
			}
		}
		if bad == "" {
			// The scan in induction form: in iteration T of the innermost loop
			// the mask has its bit at position B(T) (bit 63 is the first frame
			// of the word); the frame returned must be
			// pool.startFrame + 64*word + (63 - B) for the word that was stored.
			ia := setStore.st.Addr.(*ssa.IndexAddr)
			lf, inLoop := g.loopFormAt(z, testIns.Block())
			if !inLoop {
				bad = "cannot find the loop that scans a bitmap word"
			} else {
				idx := z.Of(ia.Index)
				ret := z.Of(r0)
				B, okB := bitPosition(lf, z, maskV)
				if !okB {
					bad = "cannot express the scan mask as a single bit at a position depending on the loop counter (mask = 1 << (63 - offset))"
				} else {
					want := polyAtom("pool.startFrame").add(idx.mul(polyConst(64)), 1).add(polyConst(63), 1).add(B, -1)
					if !ret.equal(want) {
						bad = "the returned frame is " + ret.String() + " but the bit that was tested and set is bit " + B.String() + " of word " + idx.String() + " (expected " + want.String() + ")"
					}
				}
				lf.Done()
			}
		}
		c.check(bad == "", "C01.R4", key, "returned frame = startFrame + 64*word + offset of the bit that was tested clear and then set, under freeCount != 0", bad, g.posOf(rn))
	}
	if nret == 0 {
		c.fail("C01.R4", "alloc-return "+m.fnName(x.bAlloc), "AllocFrame never returns a frame", m.pos(x.bAlloc.Pos()))
	}
	// the scan looks at every word of every pool: the loops that advance the word
	// index and the pool index start at 0 (a scan that starts later, e.g. at a
	// remembered position, misses frames that were freed behind it)
	{
		bad := ""
		where := m.pos(x.bAlloc.Pos())
		nloops := 0
		// the reads of bitmap words (the scan looks at a word before it tests bits)
		for n, in := range g.Ins {
			ia, ok := in.(*ssa.IndexAddr)
			if !ok {
				continue
			}
			if f, rest := lastField(accessPath(ia.X)); f != x.freeBitmap || rest != "" {
				continue
			}
			isRead := false
			for _, u := range usersOf(ia) {
				if ld, ok := u.(*ssa.UnOp); ok && ld.Op == token.MUL {
					isRead = true
				}
			}
			if !isRead {
				continue
			}
			idxs := []ssa.Value{ia.Index}
			// the pool index: alloc.pools[i] on the way to the bitmap
			for _, e := range accessPath(ia.X) {
				if e.Kind != "index" {
					continue
				}
				switch t := e.V.(type) {
				case *ssa.IndexAddr:
					idxs = append(idxs, t.Index)
				case *ssa.Index:
					idxs = append(idxs, t.Index)
				}
			}
			counted := map[ssa.Value]bool{}
			for _, h := range g.loopsAround(n) {
				zs := &Polyizer{}
				lf, ok := g.loopFormAt(zs, h)
				if !ok {
					continue
				}
				for _, iv := range idxs {
					first, step, okA := lf.affineInT(iv)
					if k, isK := step.isConst(); !okA || !isK || k == 0 {
						continue
					}
					nloops++
					counted[iv] = true
					if f0, isC := first.isConst(); !isC || f0 != 0 {
						bad = "the scan does not start at index 0: it starts at " + first.String()
						where = g.posOf(g.First[h])
					}
				}
				lf.Done()
			}
			// each index of the word that is looked at is the counter of one of the
			// loops around it: a position that is kept between calls, wraps round or
			// is computed some other way does not visit the words lowest first
			if len(g.loopsAround(n)) > 0 {
				for _, iv := range idxs {
					if _, isK := constInt64(iv); !isK && !counted[iv] && bad == "" {
						bad = "the scan looks at a bitmap word whose index (" + describe(iv) + ") is not the counter of a loop from 0 upwards: the lowest clear bit is not found first"
						where = g.posOf(n)
					}
				}
			}
		}
		if nloops == 0 {
			bad = "no scan loop over the bitmap words found (rule shape lost)"
		}
		c.check(bad == "", "C01.R4", "alloc-scan-complete "+m.fnName(x.bAlloc), fmt.Sprintf("%d scan loop(s), each from index 0", nloops), bad, where)
	}
	// mark / free encodings: word = fdiv6(frame - start), mask = 1 << (63 - ((frame-start) - 64*word))
	for _, fn := range []*ssa.Function{x.markRole, x.bFree} {
		gf := newIG(m, fn, nil)
		key := "bit-encoding " + m.fnName(fn)
		bad := ""
		nb := 0
		frameP := paramNamed(fn, "frame")
		if frameP == nil {
			c.undecided("C01.R4", key, "no parameter named frame")
			continue
		}
		rel := polyAtom("frame").add(polyAtom("pool.startFrame"), -1)
		wantIdx := pFdiv(6, rel)
		wantShift := polyConst(63).add(rel, -1).add(wantIdx.mul(polyConst(64)), 1)
		for _, bs := range x.bitStores(gf) {
			nb++
			ia, ok := bs.st.Addr.(*ssa.IndexAddr)
			if !ok {
				bad = "bitmap store without an index"
				continue
			}
			if idx := z.Of(ia.Index); !idx.equal(wantIdx) {
				bad = "bitmap word index is " + idx.String() + ", expected " + wantIdx.String()
			}
			mk, ok := stripConv(bs.mask).(*ssa.BinOp)
			if bs.kind == "other" || !ok || mk.Op != token.SHL {
				bad = "bitmap store is not freeBitmap[word] |= / &^= (1 << shift)"
				continue
			}
			if one, ok := constInt64(mk.X); !ok || one != 1 {
				bad = "mask is not 1 << shift"
			}
			if sh := z.Of(mk.Y); !sh.equal(wantShift) {
				bad = "bit position is " + sh.String() + ", expected " + wantShift.String() + " (big-endian bit order, as the allocation scan uses)"
			}
		}
		if nb == 0 {
			bad = "no bitmap store found"
			if len(x.freeDelegates(gf)) == 1 {
				bad = "" // freed through the mark role, whose encoding is the obligation above
			}
		}
		c.check(bad == "", "C01.R4", key, fmt.Sprintf("%d bitmap store(s) use word fdiv6(frame-start) and bit 63-((frame-start) mod 64), the encoding of the allocation scan", nb), bad, m.pos(fn.Pos()))
	}
}

// bitPosition expresses a single-bit mask as the position of its bit, a
// polynomial in the loop's iteration number: a mask variable that starts at
// 1<<k and is shifted by one per iteration, or 1<<k shifted by an expression.
func bitPosition(lf *LoopForm, z *Polyizer, mask ssa.Value) (Poly, bool) {
	pow2 := func(v ssa.Value) (int64, bool) {
		k, ok := constUint64(v)
		if !ok || k == 0 || k&(k-1) != 0 {
			return 0, false
		}
		n := int64(0)
		for k > 1 {
			k >>= 1
			n++
		}
		return n, true
	}
	v := stripConv(mask)
	if phi, ok := v.(*ssa.Phi); ok && phi.Block() == lf.Header {
		var k int64
		haveInit, dir := false, int64(0)
		for i, e := range phi.Edges {
			if !lf.Body[lf.Header.Preds[i]] {
				if n, ok := pow2(e); ok && !haveInit {
					k, haveInit = n, true
				} else {
					return nil, false
				}
				continue
			}
			b, ok := stripConv(e).(*ssa.BinOp)
			if !ok || stripConv(b.X) != ssa.Value(phi) {
				return nil, false
			}
			// one bit position per iteration: mask >> 1 / mask / 2 (unsigned), mask << 1 / mask * 2
			cy, ok := constInt64(b.Y)
			if !ok {
				return nil, false
			}
			d := int64(0)
			switch {
			case b.Op == token.SHR && cy == 1, b.Op == token.QUO && cy == 2 && isUnsignedInt(b.Type()):
				d = -1
			case b.Op == token.SHL && cy == 1, b.Op == token.MUL && cy == 2:
				d = 1
			default:
				return nil, false
			}
			if dir != 0 && dir != d {
				return nil, false
			}
			dir = d
		}
		if !haveInit || dir == 0 {
			return nil, false
		}
		return polyConst(k).add(polyAtom(loopT).mul(polyConst(dir)), 1), true
	}
	if b, ok := v.(*ssa.BinOp); ok && (b.Op == token.SHL || b.Op == token.SHR) {
		if k, ok := pow2(b.X); ok {
			sh := z.Of(b.Y)
			if b.Op == token.SHL {
				return polyConst(k).add(sh, 1), true
			}
			return polyConst(k).add(sh, -1), true
		}
	}
	return nil, false
}

func (x *pmmx) ruleClearOnlyByFree() {
	c, m := x.c, x.m
	c.floor("C01.R5", 3)
	// clearing stores
	for _, fn := range m.scanFuncs() {
		g := scanIG(m, fn, nil)
		for _, bs := range x.bitStores(g) {
			if bs.kind == "set" {
				continue
			}
			key := "bit-clear " + m.fnName(fn)
			c.check(fn == x.bFree || fn == x.markRole, "C01.R5", key, "bits are cleared only by the free role and the mark role",
				"a bitmap bit can be cleared (or overwritten) outside FreeFrame / the mark role: a held frame can be handed out again", g.posOf(bs.n))
		}
	}
	// every call of the mark role passes markReserved
	markReserved := m.lookupConst("mm/pmm", "markReserved")
	wantFlag, _ := constBool(markReserved.Value)
	ncalls := 0
	for _, in := range m.callSites(x.markRole) {
		ncalls++
		args := callCommon(in).Args
		b, ok := constBool(args[len(args)-1])
		key := fmt.Sprintf("mark-calls %s #%d", m.fnName(in.Parent()), ncalls)
		if in.Parent() == x.bFree && ok && b != wantFlag {
			// the free role itself may free through the mark role (its guards are C03.R2's)
			gfree := newIG(m, x.bFree, nil)
			if dn := x.freeDelegates(gfree); len(dn) == 1 && gfree.Ins[dn[0]] == in {
				c.ok("C01.R5", key, "the free role frees the frame it was asked to free through the mark role", m.pos(in.Pos()))
				continue
			}
		}
		c.check(ok && b == wantFlag, "C01.R5", key, "passes the constant markReserved", "the mark role is called with a flag that is not the constant markReserved: frames can be freed behind the allocator's back", m.pos(in.Pos()))
	}
	// mm.frameAllocator
	fa := m.lookupGlobal("mm", "frameAllocator")
	if fa == nil {
		c.unresolved("C01.R5", "mm.frameAllocator")
		return
	}
	for _, st := range m.storesToGlobal(fa) {
		c.check(st.Parent() == x.setFA, "C01.R5", "allocator-var-writers "+m.fnName(st.Parent()), "mm.frameAllocator is stored only by SetFrameAllocator", "mm.frameAllocator is written outside SetFrameAllocator", m.pos(st.Pos()))
	}
	for _, in := range m.callSites(x.setFA) {
		a := strip(callCommon(in).Args[0])
		okArg := a == ssa.Value(x.earlyWrap) || a == ssa.Value(x.bitmapWrap)
		okFn := in.Parent() == x.pmmInit
		c.check(okArg && okFn, "C01.R5", "allocator-publishers "+m.fnName(in.Parent())+" "+describe(a), "SetFrameAllocator is called only from pmm.Init with a pmm allocator wrapper",
			"a frame allocator other than the two pmm wrappers is installed, or it is installed outside pmm.Init", m.pos(in.Pos()))
	}
	// the wrappers call the matching AllocFrame on the package allocators
	for _, w := range []struct {
		fn, target *ssa.Function
	}{{x.earlyWrap, x.bootAlloc}, {x.bitmapWrap, x.bAlloc}} {
		g := newIG(m, w.fn, nil)
		c.check(len(g.callNodes(w.target)) == 1 && len(g.Returns()) == 1, "C01.R5", "wrapper "+m.fnName(w.fn), "returns "+w.target.Name()+" of the package allocator",
			"the allocator wrapper does not simply return "+m.fnName(w.target), m.pos(w.fn.Pos()))
	}
}

// ============================ C02 ============================

func runC02(c *Ctx) {
	x := newPMMX(c, "C02.R1")
	if x == nil {
		return
	}
	m := c.K
	vis := m.closureArgOf(x.bootAlloc, x.visit, 0)
	if len(vis) != 1 {
		c.fail("C02.R1", "visitor "+m.fnName(x.bootAlloc), fmt.Sprintf("expected one region visitor passed to VisitMemRegions, found %d", len(vis)), m.pos(x.bootAlloc.Pos()))
		return
	}
	v := vis[0]
	g := newIG(m, v, nil)
	z := x.z
	E := x.E1.add(polyConst(1), -1)

	// ---- R1 ----
	c.floor("C02.R1", 3)
	x.ruleAvailableOnly("C02.R1", x.bootAlloc)
	// ---- the success signal ----
	// The visitor tells AllocFrame that a frame was found through a local
	// variable S of AllocFrame that it captures (an error variable that is
	// cleared, or a flag that is set). S and the test that means "found" are
	// read off AllocFrame itself: the test that dominates every return of a
	// frame. Everything else in R1/R2 is stated about the places where the
	// visitor makes that test true (its success points).
	go_ := newIG(m, x.bootAlloc, nil)
	invalid, _ := namedConstUint(m, "mm", "InvalidFrame")
	oom := m.lookupGlobal("mm/pmm", "errBootAllocOutOfMemory")
	type signal struct {
		cell   *ssa.Alloc
		isBool bool // else: nil-ness of an error pointer
		pos    bool // success is S == nil / S == true when pos, S != nil / S == false otherwise
	}
	cellOfLoad := func(v ssa.Value) *ssa.Alloc {
		a, ok := loadAddr(strip(v))
		if !ok {
			return nil
		}
		cell, ok := cellOf(a)
		if !ok || cell.Parent() != x.bootAlloc {
			return nil
		}
		return cell
	}
	signalOf := func(f Fact) (signal, bool) {
		if f.Y == nil {
			if cell := cellOfLoad(f.X); cell != nil {
				return signal{cell, true, f.Op == token.EQL}, true
			}
			return signal{}, false
		}
		if f.Op != token.EQL && f.Op != token.NEQ {
			return signal{}, false
		}
		for _, pr := range [][2]ssa.Value{{f.X, f.Y}, {f.Y, f.X}} {
			if cell := cellOfLoad(pr[0]); cell != nil && isNilConst(pr[1]) {
				return signal{cell, false, f.Op == token.EQL}, true
			}
		}
		return signal{}, false
	}
	writtenByVisitor := func(cell *ssa.Alloc) bool {
		stores, _, _ := cellAccesses(cell)
		for _, st := range stores {
			if outermost(st.Parent()) == x.bootAlloc && st.Parent() != x.bootAlloc {
				return true
			}
		}
		return false
	}
	var sig *signal
	outerCases := go_.ReturnCases()
	for _, rc := range outerCases {
		if k, ok := constUint64(rc.Vals[0]); ok && k == invalid {
			continue
		}
		for _, f := range go_.CaseFacts(rc) {
			if sg, ok := signalOf(f); ok && writtenByVisitor(sg.cell) && sig == nil {
				sg := sg
				sig = &sg
			}
		}
	}
	isSucc := func(f Fact) bool {
		sg, ok := signalOf(f)
		return ok && sig != nil && sg == *sig
	}
	// success points of the visitor: stores that make the signal true. A store
	// of a comparison (found = cursor <= end) is a conditional success point.
	type succPoint struct {
		n    int
		cond ssa.Value // nil: unconditional
	}
	var succ []succPoint
	var badStores []string
	if sig != nil {
		for n, in := range g.Ins {
			st, ok := in.(*ssa.Store)
			if !ok {
				continue
			}
			cell, ok := cellOf(st.Addr)
			if !ok || cell != sig.cell {
				continue
			}
			switch {
			case !sig.isBool && isNilConst(st.Val):
				if sig.pos {
					succ = append(succ, succPoint{n, nil})
				}
			case !sig.isBool && m.nonNilErrorGlobal(st.Val):
				if !sig.pos {
					succ = append(succ, succPoint{n, nil})
				}
			case sig.isBool:
				if b, ok := constBool(st.Val); ok {
					if b == sig.pos {
						succ = append(succ, succPoint{n, nil})
					}
				} else if sig.pos {
					succ = append(succ, succPoint{n, st.Val})
				} else {
					badStores = append(badStores, g.posOf(n))
				}
			default:
				badStores = append(badStores, g.posOf(n))
			}
		}
	}
	for i, sp := range succ {
		key := fmt.Sprintf("sub-page-skip %s success#%d", m.fnName(v), i)
		ok := hasFact(g.FactsAt(sp.n), func(f Fact) bool {
			if f.Y == nil {
				return false
			}
			l, r := z.Of(f.X), z.Of(f.Y)
			ps := polyConst(int64(x.pageSize))
			return f.Op == token.GEQ && l.equal(polyAtom("region.Length")) && r.equal(ps) || f.Op == token.LEQ && r.equal(polyAtom("region.Length")) && l.equal(ps)
		})
		c.check(ok, "C02.R1", key, "success is dominated by region.Length >= PageSize", "a region shorter than one page can satisfy an allocation", g.posOf(sp.n))
	}
	// region forms in the visitor
	bad := ""
	nforms := 0
	for _, in := range g.Ins {
		var ps []Poly
		switch t := in.(type) {
		case *ssa.Store:
			if isIntegral(t.Val.Type()) {
				ps = append(ps, z.Of(t.Val))
			}
		case *ssa.If:
			if f, ok := condFact(t.Cond, true); ok && f.Y != nil && isIntegral(f.X.Type()) {
				ps = append(ps, z.Of(f.X), z.Of(f.Y))
			}
		}
		for _, p := range ps {
			s := p.String()
			if !strings.Contains(s, "region.PhysAddress") && !(strings.Contains(s, "region.Length") && !p.equal(polyAtom("region.Length"))) {
				continue
			}
			nforms++
			if !p.equal(x.S) && !p.equal(E) {
				bad = "the region is used as " + s + "; expected start = " + x.S.String() + " or end = " + E.String()
			}
		}
	}
	if nforms == 0 {
		bad = "the visitor no longer derives frames from the region"
	}
	c.check(bad == "", "C02.R1", "region-forms "+m.fnName(v), fmt.Sprintf("%d use(s) of the region, all as start=cdiv(P,4096) or end=fdiv(P+L,4096)-1", nforms), bad, m.pos(v.Pos()))

	// ---- R2 ----
	c.floor("C02.R2", 3)
	la := polyAtom("boot.lastAllocFrame")
	inRange := func(op token.Token, l, r Poly) bool {
		return op == token.LEQ && l.equal(la) && r.equal(E) || op == token.GEQ && r.equal(la) && l.equal(E) ||
			op == token.LSS && l.equal(la) && r.equal(x.E1) || op == token.GTR && r.equal(la) && l.equal(x.E1)
	}
	lastStores := x.fieldStoreNodes(g, x.lastAlloc)
	if sig == nil {
		c.fail("C02.R2", "success-signal "+m.fnName(x.bootAlloc), "no return of a frame is dominated by a test of a variable that the region visitor sets: a frame is returned although the visitor did not report success (out of memory is reported as a frame)", m.pos(x.bootAlloc.Pos()))
	} else if len(badStores) > 0 {
		c.fail("C02.R2", "success-signal "+m.fnName(x.bootAlloc), "the visitor stores a value into the success variable that is neither success nor failure", badStores...)
	}
	for i, sp := range succ {
		key := fmt.Sprintf("success-in-range %s success#%d", m.fnName(v), i)
		// after the last cursor store on the path, lastAllocFrame <= end must hold where success is recorded
		cut := map[Edge]bool{}
		for _, f := range g.AllEdgeFacts() {
			if f.Y != nil && inRange(f.Op, z.Of(f.X), z.Of(f.Y)) {
				cut[f.Edge] = true
			}
		}
		bad := ""
		if len(lastStores) == 0 {
			bad = "the visitor never updates the allocation cursor"
		}
		if sp.cond != nil {
			// conditional success: the stored value is the in-range test itself, evaluated after every cursor update
			f, ok := condFact(sp.cond, true)
			if !ok || f.Y == nil || !inRange(f.Op, z.Of(f.X), z.Of(f.Y)) {
				bad = "success is recorded as the value of a test other than lastAllocFrame <= regionEndFrame"
			} else if ci, isIns := sp.cond.(ssa.Instruction); isIns {
				after := g.Reach(g.Succ[g.Idx[ci]], nil, nil)
				for _, sn := range lastStores {
					if after[sn] {
						bad = "the cursor is updated after the in-range test whose value is recorded as success"
					}
				}
				for _, op := range ci.Operands(nil) {
					if ld, isLd := stripConv(*op).(*ssa.UnOp); isLd && isLoadOfField(ld, x.lastAlloc) {
						afterLd := g.Reach(g.Succ[g.Idx[ld]], nil, nil)
						for _, sn := range lastStores {
							if afterLd[sn] {
								bad = "the cursor is updated after it was read for the in-range test whose value is recorded as success"
							}
						}
					}
				}
			}
		} else {
			for _, sn := range lastStores {
				if p := g.Path(g.Succ[sn], cut, nil, func(n int) bool { return n == sp.n }); p != nil {
					bad = "after the cursor is updated the visitor can report success without re-checking lastAllocFrame <= regionEndFrame: a frame past the end of the region (or in the next, reserved, region) is handed out"
				}
			}
		}
		c.check(bad == "", "C02.R2", key, "every path from a cursor update to the point where success is recorded crosses lastAllocFrame <= regionEndFrame", bad, g.posOf(sp.n))
	}
	// the scan stops exactly when success was recorded
	{
		bad := ""
		var where []string
		isSuccStore := func(n int) bool {
			for _, sp := range succ {
				if sp.n == n && sp.cond == nil {
					return true
				}
			}
			return false
		}
		nstop := 0
		for _, rc := range g.ReturnCases() {
			rv := rc.Vals[0]
			if b, ok := decideBool(rv, g.CaseFacts(rc)); ok {
				if b {
					// keep scanning: success must not have been recorded on the way,
					// or an exhausted scan ends with the success signal set
					for _, sp := range succ {
						if sp.cond == nil && g.CaseReachedFrom(sp.n, rc) {
							bad = "the visitor records success and then goes on scanning: when no later region has a frame the allocation reports success without a frame"
							where = append(where, g.posOf(sp.n))
						}
					}
					continue
				}
				nstop++
				if !g.CaseMustPassBefore(rc, isSuccStore) {
					bad = "the visitor stops the scan without recording success"
					where = append(where, g.posOf(rc.Ret))
				}
				continue
			}
			// return !found, with found the conditional success just recorded
			okNeg := false
			if u, isU := rv.(*ssa.UnOp); isU && u.Op == token.NOT {
				for _, sp := range succ {
					if sp.cond == nil {
						continue
					}
					if u.X == sp.cond {
						okNeg = true
					}
					if cellOfLoadAny(u.X) == sig.cell && g.CaseMustPassBefore(rc, func(n int) bool { return n == sp.n }) {
						okNeg = true
					}
				}
			}
			if okNeg {
				nstop++
			} else {
				bad = "the visitor's result is not `stop exactly when success was recorded`"
				where = append(where, g.posOf(rc.Ret))
			}
		}
		if bad == "" && (nstop == 0 || len(succ) == 0) {
			bad = "the visitor never stops the scan with success recorded"
		}
		c.check(bad == "", "C02.R2", "stop-on-success "+m.fnName(v), "the scan stops exactly where success is recorded", bad, where...)
	}
	// outer function
	for i, rc := range outerCases {
		key := fmt.Sprintf("outer-return %s #%d", m.fnName(x.bootAlloc), i)
		facts := go_.CaseFacts(rc)
		if k, ok := constUint64(rc.Vals[0]); ok && k == invalid {
			okErr := isLoadOfGlobal(rc.Vals[1], oom) && m.nonNilErrorGlobal(rc.Vals[1])
			if !okErr && sig != nil && !sig.isBool && cellOfLoadAny(rc.Vals[1]) == sig.cell {
				// the error variable itself, which holds the out-of-memory error unless success was recorded
				okErr = true
				stores, _, _ := cellAccesses(sig.cell)
				for _, st := range stores {
					if !isNilConst(st.Val) && !isLoadOfGlobal(st.Val, oom) {
						okErr = false
					}
				}
			}
			c.check(okErr, "C02.R2", key, "(InvalidFrame, errBootAllocOutOfMemory)", "the failure return does not yield errBootAllocOutOfMemory", go_.posOf(rc.Ret))
			continue
		}
		okErrNil := isNilConst(rc.Vals[1])
		if !okErrNil && sig != nil && !sig.isBool && sig.pos && cellOfLoadAny(rc.Vals[1]) == sig.cell {
			okErrNil = true // the error variable on the side where it was tested nil
		}
		okv := isLoadOfField(rc.Vals[0], x.lastAlloc) && okErrNil && hasFact(facts, isSucc)
		c.check(okv, "C02.R2", key, "(lastAllocFrame, nil) only when the visitor reported success", "a frame is returned although the visitor did not report success (out of memory is reported as a frame)", go_.posOf(rc.Ret))
	}
	for _, sn := range x.fieldStoreNodes(go_, x.allocCount) {
		okc := hasFact(go_.FactsAt(sn), isSucc) &&
			z.Of(go_.Ins[sn].(*ssa.Store).Val).equal(polyAtom("boot.allocCount").add(polyConst(1), 1))
		c.check(okc, "C02.R2", "count "+m.fnName(x.bootAlloc), "allocCount+1 exactly on the success side", "allocCount is not incremented by one exactly when an allocation succeeded (the replay would mark the wrong number of frames)", go_.posOf(sn))
	}
	// the signal starts as "not found"
	if sig != nil {
		stores, _, _ := cellAccesses(sig.cell)
		okInit, nInit := true, 0
		visits := go_.callNodes(x.visit)
		for _, st := range stores {
			if st.Parent() != x.bootAlloc {
				continue
			}
			// only what is stored before the scan initialises the signal (with
			// named results every return stores its operands into them)
			if sn, ok := go_.Idx[st]; ok && len(visits) > 0 {
				r := go_.Reach([]int{sn}, nil, nil)
				before := false
				for _, v := range visits {
					before = before || r[v]
				}
				if !before {
					continue
				}
			}
			nInit++
			switch {
			case !sig.isBool && sig.pos:
				okInit = okInit && isLoadOfGlobal(st.Val, oom)
			case sig.isBool:
				b, ok := constBool(st.Val)
				okInit = okInit && ok && b != sig.pos
			default:
				okInit = false
			}
		}
		if !sig.isBool && nInit == 0 {
			okInit = !sig.pos // a nil error variable means "found" when success is S == nil
		}
		if sig.isBool && nInit == 0 {
			okInit = sig.pos // the zero value false means "not found"
		}
		c.check(okInit, "C02.R2", "result-init "+m.fnName(x.bootAlloc), "the success variable starts as `not found` (errBootAllocOutOfMemory / false)", "the result variable is not initialised to the out-of-memory error: exhaustion is reported as success")
	}

	// ---- R3 ----
	c.floor("C02.R3", 3)
	writeOK := map[*types.Var]bool{x.allocCount: true, x.lastAlloc: true}
	readOK := map[*types.Var]bool{x.allocCount: true, x.lastAlloc: true, x.kStartF: true, x.kEndF: true, x.regType: true, x.regPhys: true, x.regLen: true}
	var ws, rs []string
	badW, badR := "", ""
	for _, fn := range []*ssa.Function{x.bootAlloc, v} {
		for _, b := range m.blocksOf(fn) {
			for _, in := range b.Instrs {
				c.Evals++
				switch t := in.(type) {
				case *ssa.Store:
					p := accessPath(t.Addr)
					if _, ok := cellOf(t.Addr); ok {
						continue // local result cell
					}
					flds := storedFields(p)
					if len(flds) == 0 {
						badW = "store through " + pathString(p)
						continue
					}
					for _, f := range flds {
						ws = append(ws, f.Name())
						if !writeOK[f] {
							badW = "the allocation writes " + pathString(p) + ", which the replay does not reset"
						}
					}
				case *ssa.UnOp:
					if t.Op != token.MUL {
						continue
					}
					if _, ok := cellOf(t.X); ok {
						continue
					}
					p := accessPath(t.X)
					f, rest := lastField(p)
					if f == nil {
						if len(p) == 1 && p[0].Kind == "global" {
							// error global / function seam loads are state-free
							continue
						}
						continue
					}
					rs = append(rs, f.Name())
					if !readOK[f] || rest != "" {
						badR = "the allocation reads " + pathString(p) + ", state that a replay from the reset cursor does not reproduce"
					}
				case *ssa.Call:
					cal := m.callee(t.Common())
					if m.helperOf(t) != nil {
						continue // spliced: its body is examined here
					}
					if cal != x.visit && cal != nil && cal.Pkg != nil && strings.HasPrefix(cal.Pkg.Pkg.Path(), kernelMod) {
						badR = "the allocation calls " + m.fnName(cal) + " (only multiboot.VisitMemRegions is expected)"
					}
				}
			}
		}
	}
	c.check(badW == "", "C02.R3", "write-set "+m.fnName(x.bootAlloc), "writes only {"+strings.Join(uniq(ws), ", ")+"}", badW)
	c.check(badR == "", "C02.R3", "read-set "+m.fnName(x.bootAlloc), "reads only {"+strings.Join(uniq(rs), ", ")+"}", badR)
	// replay role resets exactly the write set, after loading the bound
	gr := newIG(m, x.replayRole, nil)
	key := "replay-reset " + m.fnName(x.replayRole)
	cntStores := x.fieldStoreNodes(gr, x.allocCount)
	lastSt := x.fieldStoreNodes(gr, x.lastAlloc)
	replayCalls := gr.callNodes(x.bootAlloc)
	bad = ""
	zeroStore := func(ns []int) bool {
		if len(ns) != 1 {
			return false
		}
		return isZeroConst(gr.Ins[ns[0]].(*ssa.Store).Val)
	}
	switch {
	case len(replayCalls) == 0:
		bad = "the replay role does not call the boot allocator"
	case !zeroStore(cntStores) || !zeroStore(lastSt):
		bad = "the replay does not reset both allocCount and lastAllocFrame to zero exactly once"
	}
	if bad == "" {
		for _, cn := range replayCalls {
			for _, sn := range append(append([]int{}, cntStores...), lastSt...) {
				if ok, _ := gr.MustPassBefore(cn, func(n int) bool { return n == sn }); !ok {
					bad = "a replayed allocation can run before the cursor state has been reset"
				}
			}
			// trip count: the value of allocCount loaded before the reset
			boundOK := false
			zr := &Polyizer{}
			if lf, ok := gr.loopFormAt(zr, gr.Ins[cn].Block()); ok {
				for _, bound := range lf.tripValues(gr) {
					if !isLoadOfField(bound, x.allocCount) {
						continue
					}
					ld, ok := stripConv(bound).(ssa.Instruction)
					if !ok {
						continue
					}
					// the load precedes the reset store and is not repeated in the loop
					after := gr.Reach(gr.Succ[cntStores[0]], nil, nil)
					if !after[gr.Idx[ld]] {
						boundOK = true
					}
				}
				lf.Done()
			}
			if bad == "" && !boundOK {
				bad = "the replay loop does not run allocCount times, with allocCount read before it is reset"
			}
			// the frame that is marked is the replayed frame
		}
	}
	if bad == "" {
		for _, mn := range gr.callNodes(x.markRole) {
			args := gr.callArgs(mn)
			if _, ok := m.resultOf(args[2], x.bootAlloc, 0); !ok {
				bad = "the frame marked reserved is not the frame returned by the replayed allocation"
			}
			if pc, ok := m.resultOf(args[1], x.poolFor, -1); !ok {
				bad = "the pool index passed to the mark role is not poolForFrame(frame)"
			} else if _, ok := m.resultOf(pc.Common().Args[1], x.bootAlloc, 0); !ok {
				bad = "poolForFrame is not asked about the replayed frame"
			}
		}
	}
	c.check(bad == "", "C02.R3", key, "bound loaded from allocCount, then allocCount and lastAllocFrame zeroed, then n replayed allocations each marked reserved in its own pool", bad, m.pos(x.replayRole.Pos()))

	// ---- R4 ----
	c.floor("C02.R4", 3)
	allowed := map[string]bool{polyAtom("boot.kernelEndFrame").add(polyConst(1), 1).String(): true, x.S.String(): true, la.add(polyConst(1), 1).String(): true}
	kinds := map[string]bool{}
	for i, sn := range lastStores {
		p := z.Of(g.Ins[sn].(*ssa.Store).Val)
		key := fmt.Sprintf("cursor-update %s #%d", m.fnName(v), i)
		kinds[p.String()] = true
		c.check(allowed[p.String()], "C02.R4", key, "lastAllocFrame = "+p.String(), "the cursor is set to "+p.String()+"; expected kernelEndFrame+1, the region start or lastAllocFrame+1", g.posOf(sn))
	}
	for k := range allowed {
		if !kinds[k] {
			c.fail("C02.R4", "cursor-update-kinds "+m.fnName(v), "no cursor update of the kind lastAllocFrame = "+k+" remains", m.pos(v.Pos()))
		}
	}
	// ---- R5: the kernel image is stepped over (cut form of the kernel-jump conditions)
	c.floor("C02.R5", 2)
	kS := polyAtom("boot.kernelStartFrame")
	for i, sn := range lastStores {
		p := z.Of(g.Ins[sn].(*ssa.Store).Val)
		var cutFacts func(f Fact) bool
		var what, why string
		switch {
		case p.equal(la.add(polyConst(1), 1)):
			what = "lastAllocFrame+1"
			why = "the next frame is handed out although it is the first frame of the kernel image (lastAllocFrame+1 == kernelStartFrame inside this region)"
			cutFacts = func(f Fact) bool {
				if f.Y == nil {
					return false
				}
				l, r := z.Of(f.X), z.Of(f.Y)
				next := la.add(polyConst(1), 1)
				if f.Op == token.NEQ && (l.equal(next) && r.equal(kS) || r.equal(next) && l.equal(kS)) {
					return true
				}
				// lastAllocFrame > regionEndFrame: the cursor is not in this region
				return f.Op == token.GTR && l.equal(la) && r.equal(E) || f.Op == token.LSS && r.equal(la) && l.equal(E) ||
					f.Op == token.GEQ && l.equal(la) && r.equal(x.E1) || f.Op == token.LEQ && r.equal(la) && l.equal(x.E1)
			}
		case p.equal(x.S):
			what = "regionStartFrame"
			why = "the first frame of the region is handed out although the kernel image starts there (kernelStartFrame == regionStartFrame)"
			cutFacts = func(f Fact) bool {
				if f.Y == nil {
					return false
				}
				l, r := z.Of(f.X), z.Of(f.Y)
				if f.Op == token.NEQ && (l.equal(kS) && r.equal(x.S) || r.equal(kS) && l.equal(x.S)) {
					return true
				}
				// lastAllocFrame > regionStartFrame: the cursor is already inside the region
				return f.Op == token.GTR && l.equal(la) && r.equal(x.S) || f.Op == token.LSS && r.equal(la) && l.equal(x.S)
			}
		default:
			continue
		}
		var cut []Edge
		for _, f := range g.AllEdgeFacts() {
			if cutFacts(f) {
				cut = append(cut, f.Edge)
			}
		}
		key := fmt.Sprintf("kernel-stepped-over %s %s #%d", m.fnName(v), what, i)
		if g.UnreachableWithout(sn, cut) {
			c.ok("C02.R5", key, "the update is unreachable once the edges `next frame != kernelStartFrame` / `cursor outside this region` are removed", g.posOf(sn))
		} else {
			cm := map[Edge]bool{}
			for _, e := range cut {
				cm[e] = true
			}
			pth := g.Path([]int{0}, cm, nil, func(n int) bool { return n == sn })
			c.fail("C02.R5", key, why, g.where(pth, 12)...)
		}
	}
	for _, fs := range m.storesToField(x.lastAlloc) {
		if outermost(fs.Fn) != x.bootAlloc && fs.Fn != x.replayRole {
			c.fail("C02.R4", "cursor-writers "+m.fnName(fs.Fn), "lastAllocFrame is written outside the allocation visitor and the replay reset", m.pos(fs.Store.Pos()))
		}
	}
}

// cellOfLoadAny: v is a load of a local cell (of any function); returns it.
func cellOfLoadAny(v ssa.Value) *ssa.Alloc {
	a, ok := loadAddr(strip(v))
	if !ok {
		return nil
	}
	cell, ok := cellOf(a)
	if !ok {
		return nil
	}
	return cell
}

func (x *pmmx) fieldStoreNodes(g *IG, f *types.Var) []int {
	var out []int
	for n, in := range g.Ins {
		if st, ok := in.(*ssa.Store); ok {
			if lf, rest := lastField(accessPath(st.Addr)); lf == f && rest == "" {
				out = append(out, n)
			}
		}
	}
	return out
}

// ============================ C03 ============================

func runC03(c *Ctx) {
	x := newPMMX(c, "C03.R1")
	if x == nil {
		return
	}
	m := c.K
	z := x.z
	// ---- R1 ----
	c.floor("C03.R1", 5)
	vis := m.closureArgOf(x.setup, x.visit, 0)
	nAtom := x.N.String()
	bytesForm := pFdiv(3, pUp(6, x.N))
	wordsForms := []Poly{pCdiv(6, x.N)}
	report := func(key string, got Poly, want []Poly, what, why string, pos string) {
		for _, w := range want {
			if got.equal(w) {
				c.ok("C03.R1", key, what+" = "+got.String(), pos)
				return
			}
		}
		ws := []string{}
		for _, w := range want {
			ws = append(ws, w.String())
		}
		c.fail("C03.R1", key, what+" is "+got.String()+", expected "+strings.Join(ws, " or ")+" with n = endFrame-startFrame+1 = "+nAtom+": "+why, pos)
	}
	// the two passes over the memory map size and fill the same pools: the
	// conditions on the region under which the first pass counts a pool are the
	// conditions under which the second pass fills one (a region that only one
	// of them skips shifts every later pool, or indexes past the pools)
	{
		filterOf := func(v *ssa.Function) (string, int) {
			g := newIG(m, v, nil)
			var common map[string]bool
			nst := 0
			if len(v.Params) == 0 {
				return "", 0
			}
			prm := v.Params[0]
			zf := &Polyizer{}
			for n, in := range g.Ins {
				st, ok := in.(*ssa.Store)
				if !ok {
					continue
				}
				if p := accessPath(st.Addr); len(p) > 0 && p[0].Kind == "alloc" {
					continue
				}
				nst++
				set := map[string]bool{}
				for _, f := range g.FactsAt(n) {
					if f.Y == nil || !(readsFrom(f.X, prm, 0) || readsFrom(f.Y, prm, 0)) {
						continue
					}
					a, b, op := zf.Of(f.X).String(), zf.Of(f.Y).String(), f.Op
					switch op {
					case token.GTR:
						a, b, op = b, a, token.LSS
					case token.GEQ:
						a, b, op = b, a, token.LEQ
					case token.EQL, token.NEQ:
						if b < a {
							a, b = b, a
						}
					}
					set[strings.ReplaceAll(a+" "+op.String()+" "+b, prm.Name()+".", "R.")] = true
				}
				if common == nil {
					common = set
				} else {
					for k := range common {
						if !set[k] {
							delete(common, k)
						}
					}
				}
			}
			var ks []string
			for k := range common {
				ks = append(ks, k)
			}
			sort.Strings(ks)
			return strings.Join(ks, " && "), nst
		}
		if len(vis) >= 2 {
			f0, n0 := filterOf(vis[0])
			bad := ""
			for _, v := range vis[1:] {
				f1, n1 := filterOf(v)
				if n0 > 0 && n1 > 0 && f0 != f1 {
					bad = "the first pass counts a pool for regions with {" + f0 + "}, the other pass fills one for regions with {" + f1 + "}"
				}
			}
			c.check(bad == "", "C03.R1", "pass-agreement "+m.fnName(x.setup), "both passes over the memory map select the same regions: {"+f0+"}", bad+": the pools the second pass fills are not the pools the first pass sized", m.pos(x.setup.Pos()))
		}
	}
	seen := map[string]bool{}
	for vi, v := range vis {
		g := newIG(m, v, nil)
		for n, in := range g.Ins {
			st, ok := in.(*ssa.Store)
			if !ok || !isIntegral(st.Val.Type()) {
				continue
			}
			p := accessPath(st.Addr)
			ps := pathString(p)
			val := z.Of(st.Val)
			lf, _ := lastField(p)
			cell, isCell := cellOf(st.Addr)
			c.Evals++
			switch {
			case lf == x.freeCount:
				seen["freeCount"] = true
				report("free-count "+m.fnName(v), val, []Poly{x.N}, "freeCount", "the pool's free counter disagrees with its frame range", g.posOf(n))
			case lf == x.totalPages:
				seen["totalPages"] = true
				report("total-pages "+m.fnName(v), val.add(polyAtom("alloc.totalPages"), -1), []Poly{x.N}, "totalPages increment", "the reported totals disagree with the frames that can be allocated", g.posOf(n))
			case strings.HasSuffix(ps, ".freeBitmapHdr.Len"):
				seen["len"] = true
				report("bitmap-words "+m.fnName(v), val, wordsForms, "freeBitmapHdr.Len", "the bitmap does not have one bit per frame of the pool (the last frames index past it)", g.posOf(n))
			case strings.HasSuffix(ps, ".freeBitmapHdr.Cap"):
				okc := val.String() == strings.TrimSuffix(ps, ".Cap")+".Len" || strings.HasSuffix(val.String(), "freeBitmapHdr.Len")
				for _, w := range wordsForms {
					// the same word count that Len is required to be
					okc = okc || val.equal(w)
				}
				c.check(okc, "C03.R1", "bitmap-cap "+m.fnName(v), "Cap = Len", "bitmap capacity is not its length: "+val.String(), g.posOf(n))
			case isCell && cell.Comment != "":
				// a byte accumulator of the visitor (total += bitmap bytes): the
				// reservation of pass 1, the address advance of pass 2. Counters
				// that step by a constant are not sizes.
				delta := val.add(polyAtom("$"+cell.Comment), -1)
				if _, isConst := delta.isConst(); isConst || len(val) == len(delta) && val.equal(delta) {
					continue
				}
				if vi == 0 {
					seen["required"] = true
					report("reserved-bytes "+m.fnName(v), delta, []Poly{bytesForm}, "bytes reserved per pool (pass 1)", "the reservation made in pass 1 is smaller than the bitmaps laid out in pass 2", g.posOf(n))
				} else {
					seen["advance"] = true
					report("bitmap-advance "+m.fnName(v), delta, []Poly{bytesForm}, "bitmap address advance (pass 2)", "consecutive pool bitmaps overlap or leave the reservation", g.posOf(n))
				}
			}
		}
	}
	for _, k := range []string{"freeCount", "totalPages", "len", "required", "advance"} {
		if !seen[k] {
			c.fail("C03.R1", "sizing-site "+k, "the store that the sizing rule is anchored in ("+k+") was not found in the visitors of setupPoolBitmaps", m.pos(x.setup.Pos()))
		}
	}
	// ---- R2 ----
	x.c03r2()
	// ---- R3 ----
	x.c03r3()
	// ---- R4 ----
	x.c03r4()
}

func (x *pmmx) allocatorStores(g *IG) []int {
	var out []int
	for n, in := range g.Ins {
		st, ok := in.(*ssa.Store)
		if !ok {
			continue
		}
		for _, f := range pathFields(accessPath(st.Addr)) {
			if f == x.freeBitmap || f == x.freeCount || f == x.reserved || f == x.totalPages {
				out = append(out, n)
				break
			}
		}
	}
	return out
}

func (x *pmmx) c03r2() {
	c, m := x.c, x.m
	c.floor("C03.R2", 3)
	g := newIG(m, x.bFree, nil)
	stores := x.allocatorStores(g)
	// (freeing through the mark role modifies the allocator where it is called)
	stores = append(stores, x.freeDelegates(g)...)
	poolOK := func(f Fact) bool {
		return cmpMatch(f, token.GEQ, func(v ssa.Value) bool { _, ok := m.resultOf(v, x.poolFor, -1); return ok }, isZeroConst)
	}
	bitSet := func(f Fact) bool {
		if f.Op != token.NEQ || f.Y == nil {
			return false
		}
		for _, pr := range [][2]ssa.Value{{f.X, f.Y}, {f.Y, f.X}} {
			if b, ok := pr[0].(*ssa.BinOp); ok && b.Op == token.AND && isZeroConst(pr[1]) {
				if a, ok := loadAddr(b.X); ok {
					if fl, rest := lastField(accessPath(a)); fl == x.freeBitmap && rest == "[]" {
						return true
					}
				}
			}
		}
		return false
	}
	bad := ""
	var where []string
	for _, sn := range stores {
		facts := g.FactsAt(sn)
		if !hasFact(facts, poolOK) {
			bad = "allocator state is modified for a frame whose pool lookup has not been tested >= 0"
			where = []string{g.posOf(sn)}
		} else if !hasFact(facts, bitSet) {
			bad = "allocator state is modified without testing that the frame's bit is set (a double free corrupts the counters)"
			where = []string{g.posOf(sn)}
		}
	}
	if len(stores) == 0 {
		bad = "FreeFrame does not modify the allocator"
	}
	c.check(bad == "", "C03.R2", "free-guards "+m.fnName(x.bFree), fmt.Sprintf("all %d allocator store(s) are dominated by poolIndex >= 0 and bitmap&mask != 0", len(stores)), bad, where...)
	// error returns
	errGlobals := map[*ssa.Global]bool{}
	nerr := 0
	for _, rc := range g.ReturnCases() {
		rn := rc.Ret
		r := rc.Vals[0]
		if isNilConst(r) {
			// success: must have passed the stores
			continue
		}
		nerr++
		key := fmt.Sprintf("free-error-return %s #%d", m.fnName(x.bFree), nerr)
		gl, ok := loadedGlobal(r)
		if !ok || !m.nonNilErrorGlobal(r) {
			c.fail("C03.R2", key, "an error return does not yield a dedicated non-nil error variable", g.posOf(rn))
			continue
		}
		if errGlobals[gl] {
			c.fail("C03.R2", key, "two different rejections return the same error ("+gl.Name()+")", g.posOf(rn))
			continue
		}
		errGlobals[gl] = true
		// no allocator store on any path to this return
		dirty := false
		for _, sn := range stores {
			if g.CaseReachedFrom(sn, rc) {
				dirty = true
			}
		}
		c.check(!dirty, "C03.R2", key, "returns "+gl.Name()+" with no allocator store on any path to it", "an error return is reachable after the allocator state was modified: a rejected free changes something", g.posOf(rn))
	}
	if nerr < 2 {
		c.fail("C03.R2", "free-error-returns "+m.fnName(x.bFree), fmt.Sprintf("FreeFrame has %d error return(s); unmanaged frames and double frees must both be rejected", nerr), m.pos(x.bFree.Pos()))
	}
}

func (x *pmmx) c03r3() {
	c, m := x.c, x.m
	c.floor("C03.R3", 3)
	z := x.z
	// writers-of: a bitmap word is changed only in the three functions whose
	// accounting is checked below (helpers are seen spliced into them)
	{
		var others []string
		var where []string
		nscan := 0
		for _, fn := range m.scanFuncs() {
			if fn.Pkg != m.pkg("mm/pmm") || fn == x.bAlloc || fn == x.bFree || fn == x.markRole {
				continue
			}
			nscan++
			g := scanIG(m, fn, nil)
			for _, bs := range x.bitStores(g) {
				others = append(others, m.fnName(fn))
				where = append(where, g.posOf(bs.n))
				break
			}
		}
		c.check(len(others) == 0, "C03.R3", "bit-writers mm/pmm", fmt.Sprintf("%d other functions of the package scanned: none stores into a bitmap word", nscan),
			"a bitmap word is also changed in "+strings.Join(others, ", ")+", outside AllocFrame / FreeFrame / the mark function: bits change there without the free and reserved counters following (a reserved bit that was never counted makes the allocator report out of memory with frames counted free, and a free of it is accepted)", where...)
	}
	for _, fn := range []*ssa.Function{x.bAlloc, x.bFree, x.markRole} {
		g := newIG(m, fn, nil)
		key := "paired-accounting " + m.fnName(fn)
		bad := ""
		ret := isRet(g)
		bss := x.bitStores(g)
		delta := func(n int, f *types.Var, atom string) (int64, bool) {
			st, ok := g.Ins[n].(*ssa.Store)
			if !ok {
				return 0, false
			}
			if lf, rest := lastField(accessPath(st.Addr)); lf != f || rest != "" {
				return 0, false
			}
			d := z.Of(st.Val).add(polyAtom(atom), -1)
			k, ok := d.isConst()
			if !ok {
				return 0, true // a store, but not field +- const
			}
			return k, true
		}
		for _, bs := range bss {
			if bs.kind == "other" {
				bad = "bitmap word overwritten without |= / &^="
				continue
			}
			wantFree, wantRes := int64(-1), int64(1)
			if bs.kind == "clear" {
				wantFree, wantRes = 1, -1
			}
			// enumerate the paths region: from the function entry through bs.n to a return, every
			// path must contain exactly one freeCount store with wantFree and one reservedPages store with wantRes.
			for _, spec := range []struct {
				f    *types.Var
				atom string
				want int64
			}{{x.freeCount, "pool.freeCount", wantFree}, {x.reserved, "alloc.reservedPages", wantRes}} {
				isUpd := func(n int) bool { _, ok := delta(n, spec.f, spec.atom); return ok }
				// (a) at least one on every path through bs.n: before or after
				before, _ := g.MustPassBefore(bs.n, isUpd)
				after, _ := g.MustPassAfter(bs.n, isUpd, ret)
				if !before && !after {
					bad = fmt.Sprintf("a path that %ss a bitmap bit reaches the exit without updating %s", bs.kind, spec.f.Name())
				}
				// (b) each update has the right delta and no second update is reachable from it before exit / the next bit store
				for n := range g.Ins {
					d, ok := delta(n, spec.f, spec.atom)
					if !ok {
						continue
					}
					onPath := g.Reach(g.Succ[n], nil, nil)[bs.n] || g.Reach(g.Succ[bs.n], nil, nil)[n]
					if !onPath {
						continue
					}
					if d != spec.want {
						bad = fmt.Sprintf("%s changes by %+d on a path that %ss a bit (expected %+d)", spec.f.Name(), d, bs.kind, spec.want)
					}
					if p := g.Path(g.Succ[n], nil, func(k int) bool { return k == bs.n }, func(k int) bool { return k != n && isUpd(k) && k != bs.n }); p != nil {
						// a second update reachable without passing through another bit store of the same function
						other := p[len(p)-1]
						passesBit := false
						for _, o := range bss {
							for _, pn := range p {
								if pn == o.n {
									passesBit = true
								}
							}
						}
						if !passesBit && other != n {
							bad = fmt.Sprintf("%s is updated twice for one bit change", spec.f.Name())
						}
					}
				}
			}
		}
		// counters are not touched on paths that change no bit
		for n := range g.Ins {
			for _, spec := range []struct {
				f    *types.Var
				atom string
			}{{x.freeCount, "pool.freeCount"}, {x.reserved, "alloc.reservedPages"}} {
				if _, ok := delta(n, spec.f, spec.atom); ok {
					near := false
					for _, bs := range bss {
						if g.Reach(g.Succ[n], nil, nil)[bs.n] || g.Reach(g.Succ[bs.n], nil, nil)[n] {
							near = true
						}
					}
					if !near {
						bad = spec.f.Name() + " is updated on a path that changes no bitmap bit"
					}
				}
			}
		}
		if len(bss) == 0 {
			bad = "no bitmap store found"
			if len(x.freeDelegates(g)) == 1 {
				bad = "" // freed through the mark role, whose own accounting is checked
			}
		}
		c.check(bad == "", "C03.R3", key, fmt.Sprintf("%d bit store(s), each paired with exactly one matching freeCount and reservedPages update", len(bss)), bad, m.pos(fn.Pos()))
	}
	// counters are written nowhere else
	okFns := map[*ssa.Function]bool{x.bAlloc: true, x.bFree: true, x.markRole: true}
	for _, f := range []*types.Var{x.freeCount, x.reserved} {
		for _, fs := range m.storesToField(f) {
			if okFns[fs.Fn] || outermost(fs.Fn) == x.setup {
				continue
			}
			c.fail("C03.R3", "counter-writers "+m.fnName(fs.Fn), f.Name()+" is written outside allocate / free / mark / pool setup", m.pos(fs.Store.Pos()))
		}
	}
}

func (x *pmmx) c03r4() {
	c, m := x.c, x.m
	c.floor("C03.R4", 4)
	kerr := m.lookupType("", "Error")
	if kerr == nil {
		c.unresolved("C03.R4", "kernel.Error")
		return
	}
	isErrT := func(t types.Type) bool {
		p, ok := t.(*types.Pointer)
		if !ok {
			return false
		}
		n, ok := p.Elem().(*types.Named)
		return ok && n.Obj() == kerr.Obj()
	}
	fns := []*ssa.Function{x.setup, x.bInit, x.pmmInit}
	sort.Slice(fns, func(i, j int) bool { return fns[i].String() < fns[j].String() })
	check := func(fn *ssa.Function, exception bool) {
		g := newIG(m, fn, nil)
		seq := 0
		for n, in := range g.Ins {
			call, ok := in.(*ssa.Call)
			if !ok {
				continue
			}
			if m.helperOf(call) != nil {
				continue // spliced: its calls are examined here, its result through the return cases
			}
			res := call.Common().Signature().Results()
			idx := -1
			for i := 0; i < res.Len(); i++ {
				if isErrT(res.At(i).Type()) {
					idx = i
				}
			}
			if idx < 0 {
				continue
			}
			c.Evals++
			key := fmt.Sprintf("error-checked %s -> %s #%d", m.fnName(fn), callName(call.Common()), seq)
			seq++
			// the error value
			var ev ssa.Value
			if res.Len() == 1 {
				ev = call
			} else {
				for _, r := range usersOf(call) {
					if ex, ok := r.(*ssa.Extract); ok && ex.Index == idx {
						ev = ex
					}
				}
			}
			if exception {
				c.ok("C03.R4", key, "named exception: the replayed allocation's error is discarded (it repeats allocations that already succeeded from the same state)", g.posOf(n))
				continue
			}
			if ev == nil {
				c.fail("C03.R4", key, "the error result is discarded", g.posOf(n))
				continue
			}
			// stored into a captured cell? follow the cell: the test is on a load of the cell
			isEv := func(v ssa.Value) bool {
				if v == ev {
					return true
				}
				if a, ok := loadAddr(strip(v)); ok {
					if cell, ok := cellOf(a); ok {
						stores, _, _ := cellAccesses(cell)
						for _, st := range stores {
							if st.Val == ev {
								return true
							}
						}
					}
				}
				return false
			}
			// returned directly?
			direct := false
			for _, r := range usersOf(ev) {
				if _, ok := r.(*ssa.Return); ok && r.Parent() == fn {
					direct = true
				}
			}
			if direct && len(usersOf(ev)) == 1 {
				c.ok("C03.R4", key, "returned directly", g.posOf(n))
				continue
			}
			// every path from the call to a return crosses an edge testing the error; the non-nil edge leads only to returns of it
			var nonNil, isNil []Edge
			for _, f := range g.AllEdgeFacts() {
				if isNilFact(f, token.NEQ, isEv) {
					nonNil = append(nonNil, f.Edge)
				}
				if isNilFact(f, token.EQL, isEv) {
					isNil = append(isNil, f.Edge)
				}
			}
			cut := map[Edge]bool{}
			for _, e := range append(append([]Edge{}, nonNil...), isNil...) {
				cut[e] = true
			}
			ret := isRet(g)
			if p := g.Path(g.Succ[n], cut, nil, ret); p != nil {
				c.fail("C03.R4", key, "the function can go on (and return) without testing this error", g.where(p, 8)...)
				continue
			}
			bad := ""
			for _, e := range nonNil {
				start := g.Succ[e.From][e.K]
				// from the non-nil side, the first return must return the error value
				rp := g.Path([]int{start}, nil, nil, ret)
				if rp == nil {
					continue
				}
				// all returns reachable without passing another call
				r := g.Reach([]int{start}, nil, func(k int) bool { _, isCall := g.Ins[k].(*ssa.Call); return isCall && k != start })
				for _, rc := range g.ReturnCases() {
					if r[rc.At] {
						if !isEv(rc.Vals[len(rc.Vals)-1]) {
							bad = "on the failure side the function does not return this error"
						}
					}
				}
			}
			if len(nonNil) == 0 {
				bad = "the error is never tested != nil"
			}
			c.check(bad == "", "C03.R4", key, "tested against nil; the non-nil side returns it", bad, g.posOf(n))
		}
	}
	for _, fn := range fns {
		check(fn, false)
	}
	check(x.replayRole, true)
}

// freeDelegates: the free role hands the update to the mark role with the
// constant markFree for the frame being freed and the pool that was looked up
// for it (instead of clearing the bit and adjusting the counters itself). It
// returns the call nodes.
func (x *pmmx) freeDelegates(g *IG) []int {
	m := x.m
	if x.markRole == nil || x.bFree == nil || g.Fn != x.bFree {
		return nil
	}
	markFree := m.lookupConst("mm/pmm", "markFree")
	if markFree == nil {
		return nil
	}
	want, _ := constBool(markFree.Value)
	frameP := paramNamed(x.bFree, "frame")
	var out []int
	for _, n := range g.callNodes(x.markRole) {
		a := g.callArgs(n)
		if len(a) < 4 {
			continue
		}
		b, ok := constBool(a[len(a)-1])
		_, fromLookup := m.resultOf(a[1], x.poolFor, -1)
		if ok && b == want && fromLookup && frameP != nil && stripConv(a[2]) == ssa.Value(frameP) {
			out = append(out, n)
		}
	}
	return out
}

// readsFrom: v is computed from p or from memory reached through p (fields of
// the object p points to), through arithmetic and conversions.
func readsFrom(v ssa.Value, p ssa.Value, d int) bool {
	if v == p {
		return true
	}
	if d > 12 {
		return false
	}
	switch t := v.(type) {
	case *ssa.BinOp:
		return readsFrom(t.X, p, d+1) || readsFrom(t.Y, p, d+1)
	case *ssa.UnOp:
		return readsFrom(t.X, p, d+1)
	case *ssa.Convert:
		return readsFrom(t.X, p, d+1)
	case *ssa.ChangeType:
		return readsFrom(t.X, p, d+1)
	case *ssa.FieldAddr:
		return readsFrom(t.X, p, d+1)
	case *ssa.Field:
		return readsFrom(t.X, p, d+1)
	case *ssa.IndexAddr:
		return readsFrom(t.X, p, d+1)
	}
	return false
}
