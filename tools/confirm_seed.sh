#!/bin/sh
# usage: tools/confirm_seed.sh <patch.diff> <demo_test.go> <package dir relative to repo> <go test -run pattern>
# Confirms a seeded change in a scratch worktree under /tmp: (1) applies and compiles, (2) the baseline suite still
# passes, (3) the demonstration fails with the change and passes without it. Removes the worktree afterwards.
set -u
patch=$(readlink -f "$1"); demo=$(readlink -f "$2"); pkg=$3; pat=$4
wt=/tmp/confirm-$$
export GOFLAGS=-mod=mod GOPROXY=off GOSUMDB=off GOTOOLCHAIN=local
git -C /repo worktree add -q --detach $wt HEAD || exit 2
trap 'git -C /repo worktree remove --force $wt >/dev/null 2>&1' EXIT
mod=${pkg%%/*}
cd $wt
cp "$demo" $wt/$pkg/zz_demo_test.go
echo "--- demo WITHOUT the change"
(cd $wt/$pkg && go test -vet=off -count=1 -run "$pat" . 2>&1 | tail -4); 
git apply "$patch" || { echo "PATCH DOES NOT APPLY"; exit 2; }
echo "--- demo WITH the change"
(cd $wt/$pkg && go test -vet=off -count=1 -run "$pat" . 2>&1 | tail -6)
rm -f $wt/$pkg/zz_demo_test.go
echo "--- baseline suite WITH the change"
for m in kernel kbuild; do (cd $wt/$m && go test -vet=off -count=1 ./... 2>&1 | grep -v "^ok\|no test files" | grep -v "goruntime" | head -5); done
echo "--- done"
