#!/bin/sh
# Re-runs all 20 quick checks against every behaviour-preserving refactoring of benign/ (private scratch worktrees
# under /tmp, in parallel) and rewrites benign/MATRIX.md. A refactoring that makes any check fire is a false alarm.
cd "$(dirname "$0")/.."
log=$(mktemp /tmp/benignmatrix.XXXXXX)
ls benign/*/refactor.diff | xargs -P ${JOBS:-12} -n 1 tools/par_try.sh > $log 2>&1
out=benign/MATRIX.md
echo "| refactoring | anchored at | checks that (wrongly) fire |" > $out
echo "|---|---|---|" >> $out
for d in benign/C*-*; do
  id=$(basename $d)
  fired=$(grep "^$id/refactor.diff: " $log | head -1 | sed 's/.*FIRED: *//')
  echo "| $id | ${id%-*} | $fired |" >> $out
done
echo "silent: $(grep -c 'FIRED: none' $log) of $(ls benign/*/refactor.diff | wc -l)"
rm -f $log
