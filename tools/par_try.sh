#!/bin/sh
# usage: tools/par_try.sh <patch.diff> [property ids...]   (safe to run in parallel)
# Applies the patch to a private scratch worktree of /repo under /tmp and runs the quick checks against it
# (FIREFLY_REPO / VERIF_ROOT point the checker at the scratch tree and a private output directory).
set -u
patch=$(readlink -f "$1"); shift
props=${*:-$(seq -f 'C%02g' 1 20)}
wt=$(mktemp -d /tmp/ptry.XXXXXX); out=$(mktemp -d /tmp/ptryout.XXXXXX)
git -C /repo worktree add -q --detach $wt/repo HEAD || exit 2
trap 'git -C /repo worktree remove --force $wt/repo >/dev/null 2>&1; rm -rf $wt $out' EXIT
( cd $wt/repo && { git apply "$patch" 2>/dev/null || git apply --3way "$patch" >/dev/null 2>&1; } ) || { echo "$patch: PATCH DOES NOT APPLY"; exit 2; }
cp /verif/known_findings.txt $out/ 2>/dev/null
fired=""; detail=""
for p in $props; do
  o=$(FIREFLY_REPO=$wt/repo VERIF_ROOT=$out ${FFC_BIN:-/verif/bin/fireflycheck} -property $p -tier quick 2>&1); rc=$?
  if [ $rc -ne 0 ]; then fired="$fired $p"; detail="$detail
$(echo "$o" | grep -E '^(VIOLATION:|UNDECIDED:|ANCHOR-UNRESOLVED:|fireflycheck:)' | cut -c1-300 | head -4)"; fi
done
echo "$(basename $(dirname $patch))/$(basename $patch): FIRED:${fired:- none}$detail"
