#!/usr/bin/env python3
"""Generates /verif/MANIFEST.json from the table below (one entry per property).

Run:  python3 tools/gen_manifest.py   (from /verif)
"""
import json, os, sys

ROOT = os.path.dirname(os.path.dirname(os.path.abspath(__file__)))

COMMON_NOTE = (
    "Trusted base: go/packages + go/types + go/ssa (x/tools v0.29.0, vendored), the checker's own rule code, and the anchor table "
    "(an anchor that can no longer be resolved fails closed as VIOLATION rule=anchor-unresolved: a pure rename of an anchored "
    "function/field is the one behaviour-preserving edit that can make this check fire). _test.go files are not analysed. "
    "Decides the listed structural clauses (necessary conditions), not the run-time behaviour. The rules work on a normalised program "
    "(private helpers spliced, stores forwarded, boolean and returned values threaded, loops in induction form, power-of-two rounding in "
    "canonical form; DESIGN.md section 11), so that behaviour-preserving rewrites of the anchored code do not raise alarms; the residual "
    "false alarms known today are listed in DESIGN.md section 12."
)

# id -> dict(claimed, text, technique, ref, note_extra) ; unclaimed: reason
P = {}

P["C09"] = dict(
    text="Lock discipline of the frame allocator decided on every control-flow path: Acquire/Release typestate with callee summaries on all "
         "concurrent entry points, guarded-by for the bitmap words and counters, init-only unlocked writers ordered before publication, no "
         "re-acquisition. This is the clause of C09 that is visible in the shape of the code (the property's own observe_at lists it); "
         "it is a necessary condition for 'no frame duplicated or lost', not the dynamic outcome over schedules.",
    technique="SSA path typestate (lock pairing on all CFG paths) + guarded-by dataflow + call-graph ownership",
    ref="DESIGN.md section 3, C09",
)

P["C06"] = dict(
    text="Structure of the copy-on-write / zero-frame protection decided on all paths: guard cut in Map and MapTemporary, classification of every "
         "page-table-entry writer in the kernel (no mapping path bypasses the guard), arming discipline of the guard flag, divergence of the panic "
         "handlers, the single recovered return dominated by present && !RW && CoW && no failure, and the order and operands of the recovery "
         "sequence. Necessary conditions of C06; page contents and 'other pages untouched' are not decided.",
    technique="SSA dominance cuts + diverging-function inference + writers-of classification + must-pass-through ordering",
    ref="DESIGN.md section 3, C06",
)

P["C14"] = dict(
    text="Checksum gating of ACPI table registration decided on all paths: every tableMap insert is dominated by the nil side of the error of the "
         "mapACPITable call that produced it, every possibly-nil error return of mapACPITable crosses validTable(header, header.Length)==true "
         "(per phi edge), bad tables log and continue, root pointer returns cross a checksum over exactly the structure's bytes on the right "
         "revision side, entry width/shift/step agree per arm, mapping order and DSDT pointer selection. Found and fixed F8 (40-byte checksum "
         "of the 36-byte RSDP). Scan completeness over all positions and table contents are not decided. Round 5: the scan window's two variables (found by role) are initialised to 0xe0000 and 0xfffff. Round 9: every path to a tableMap insert passes tableMap = make(...) in the same enumeration (a table registered by an earlier enumeration does not stay registered).",
    technique="SSA dominance/cut queries with per-phi-edge nil analysis + constant folding of struct sizes",
    ref="DESIGN.md section 3, C14",
)

P["C16"] = dict(
    text="Bring-up structure decided on all paths: sort before probe with canonical Less/Len/Swap, failed or absent drivers never reach activation "
         "and never stop the loop, first console/TTY win (stores dominated by == nil), link on the second arrival with AttachTo -> SetOutputSink -> "
         "SetState(active), early-log hand-over (sink stored on every path, ring drained exactly when a sink is set, ring written exactly when none "
         "is, masked indices, overwrite-oldest). 'Exactly once, in order' over all chunkings and ringBuffer.Read's two-segment arithmetic are not decided. Round 9: no line is written through the per-driver log writer after onDriverInit without its sink snapshot having been renewed (the line of the driver that completes the console/terminal pair would stay in the early ring buffer).",
    technique="SSA dominance / must-pass-through ordering + writers-of ownership + canonical-body matching",
    ref="DESIGN.md section 3, C16",
)

P["C17"] = dict(
    text="The clauses of the terminal model that are visible in the code shape: exact special-byte dispatch with the documented action per case, "
         "every cursor store classified as inside the viewport (constant 1, clamped argument, guarded increment, wrap test), every cursor/viewport "
         "change followed by a recomputation of the derived buffer offset, and the offset formula itself (polynomial normal form). Equality with a "
         "reference terminal over all byte streams, scrolling contents and buffer memory safety are not decided. "
         "Added: (R4) the buffer-scrolling arm of lf moves exactly the viewport's lines up by one stride and blanks exactly viewportWidth cells, the two on exactly the same paths (after the move lf cannot return without the blanking; the blanking is unreachable from the arms that only move the cursor or the viewport). Also (R1): the TAB loop runs tabWidth times with no exit other than its counting test, and carriage return stores 1 into cursorX (in the helper or in place). VT.Write hands data[T] to WriteByte for T = 0..len(data)-1 and nothing on the way ranges over a string.",
    technique="case-set exhaustiveness + SSA dominance facts per phi edge + must-pass-through + polynomial normal form",
    ref="DESIGN.md section 3, C17",
)

P["C18"] = dict(
    text="Mirroring structure between terminal and console decided on all paths: every mutating console call from package tty goes through VT.cons "
         "under state == active; doWrite mirrors exactly the triple it stores, before any cursor change; lf's scrolling paths reach the active test "
         "and then Scroll(up,1) + Fill(last line); SetState records the state and redraws with exact loop bounds and buffer offsets. Cell/pixel "
         "equality is not decided (console side: C19).",
    technique="SSA dominance facts + path ordering + counted-loop and polynomial offset matching",
    ref="DESIGN.md section 3, C18",
)

P["C01"] = dict(
    text="Skeleton of the four mechanisms behind exclusive hand-out, decided for all paths and all region values symbolically: init pipeline order and "
         "publication after success, availability guard on every visitor store, identical inward rounding at the three region-to-frame sites "
         "(polynomial normal forms with cdiv/fdiv atoms) and outward rounding of the kernel range, allocation returns exactly the frame whose bit it "
         "tested and set with the same bit encoding as mark/free, bits cleared only by free/mark, allocator variable ownership. Histories (who holds "
         "which frame over time) and pool-boundary arithmetic for a kernel spanning pools are not decided. Added: (R4) alloc-scan-complete: the loops that advance the bitmap word index and the pool index in AllocFrame start at 0 (a scan starting at a remembered position misses frames freed behind it). Round 5: every index of the bitmap word that AllocFrame looks at is the counter of a loop around it, from 0 (no remembered or wrapping scan position).",
    technique="SSA dominance + must-pass-through ordering + polynomial/rounding normal forms + writers-of",
    ref="DESIGN.md section 3, C01",
)

P["C02"] = dict(
    text="Early allocator: success only for available regions of at least a page with inward rounding, success re-checks the cursor against the "
         "region end after every update, failure returns the out-of-memory error, the frame condition that makes replay exact (write set = "
         "{allocCount, lastAllocFrame}, read set closed, replay zeroes exactly that set after loading the bound), and the three admissible cursor "
         "updates. Strict monotonicity and the kernel-jump case analysis are relational and not decided. "
         "Added after seeding: (R2) the success signal is read off AllocFrame (error variable cleared / flag set), success is recorded only after lastAllocFrame <= regionEndFrame was re-established and the scan stops exactly there; (R5) the two cursor updates that can land on the kernel image are unreachable once the kernel-jump / outside-region edges are cut.",
    technique="read/write-set (frame condition) analysis + SSA dominance cuts + polynomial normal forms",
    ref="DESIGN.md section 3, C02",
)

P["C03"] = dict(
    text="Accounting structure: bitmap capacity, free counter, totals and both reservation passes are the same symbolic frame count n (found and "
         "fixed F1, where they were n-1), free's error contract (guards dominate every store, distinct errors, nothing modified before a rejection), "
         "every bit change paired with exactly one update of each counter on every path, and error propagation of every *kernel.Error call result "
         "in the init chain. 'Never crashes' in general and counts over histories are not decided. Round 5: the two passes of setupPoolBitmaps select the same regions (pass-agreement). Round 9: a bitmap word is stored to only in AllocFrame, FreeFrame and the mark function (writers-of; a fourth writer changes bits without the counters).",
    technique="polynomial/rounding normal forms (symbolic sizes) + SSA dominance + path pairing",
    ref="DESIGN.md section 3, C03",
)

P["C04"] = dict(
    text="Structure of the page-table operations on all paths: exact leaf entry (clear, frame, flags from Map's own parameters; Unmap clears only "
         "Present), TLB flush of the changed page after every leaf write and of the recursive entry after every swap, swap/flush/operate/restore/"
         "flush on the inactive scenario and no entry write on the active scenario (the two tests are correlated, infeasible paths dropped), new "
         "levels allocated-then-zeroed with the allocation error returned untouched, error cell returned unmodified, region helpers map exactly "
         "cdiv(size,4096) pages with page and frame advancing together. The recursive-mapping arithmetic of walk and 'other pages unchanged' are not decided. "
         "Added: (R6) the page count of MapRegion/IdentityMapRegion in induction form (trip count = cdiv(size,4096), page and frame advance by one) and no unguarded unsigned subtraction in it; (R7) paging geometry constants and the level/table loop of walk. Round 5: no way round the page loop of MapRegion / IdentityMapRegion misses the map call. Round 9: the bound of a region helper's page loop contains no unsigned subtraction that can wrap (inclusive last-page forms with size-1), followed through calls of the program's own functions.",
    technique="SSA path ordering + correlated-condition scenario enumeration + polynomial normal forms",
    ref="DESIGN.md section 3, C04",
)

P["C05"] = dict(
    text="W^X derivation decided exhaustively: the four combinations of the section's writable/executable flags are enumerated and the constant "
         "flag word reaching kernelPDT.Map is folded for each (RW iff writable, NX iff not executable, Present, nothing else); range guard, exact "
         "page/frame arithmetic of the section loop and of the reservation copy loop as polynomial forms, Init before Map, Activate before every "
         "nil return, vmm.Init ordering. MMU semantics of the resulting tables are not decided (C04's remainder).",
    technique="finite path enumeration with constant folding + SSA dominance + polynomial normal forms",
    ref="DESIGN.md section 3, C05",
)

P["C07"] = dict(
    text="Inductive cursor discipline of the reservation allocator (single writer, store = cursor - rounded size under rounded size <= cursor, "
         "success returns the new cursor, failures store nothing; page-aligned initial value), the unbounded-argument wrap rule on the size "
         "round-up in EarlyReserveRegion and MapRegion (found and fixed F4), and MapRegion's reserve-then-map structure with exactly cdiv(size,4096) "
         "consecutive pages/frames. Disjointness over sequences follows from the inductive step; it is not separately mechanised. "
         "Added: (R3) the region loop in induction form and the wrap hazard of an unsigned subtraction in the page count (size-1 for size 0). Also: the page count of the region loops passes through no narrowing integer conversion.",
    technique="writers-of + SSA dominance + unbounded-argument wrap rule (use-dominance) + polynomial normal forms",
    ref="DESIGN.md section 3, C07",
)

P["C11"] = dict(
    text="Only the tables that drive the parser: exhaustive agreement of opcodeMap / extendedOpcodeMap / pOpcodeTable / pOpcodeTableIndex over all 511 "
         "opcode values and all opcode constants, agreement of the makeArgN encoders with the argCount()/arg() decoders for every table row, "
         "closedness of the argument-type dispatch between parseArg and parseSimpleArg, and the per-row facts the later passes rely on (named "
         "entries start with a NameString, deferred ones with PkgLen, Method's flags are attached argument #1). Computed by constant folding of the "
         "program's own lookup functions through go/ssa control flow. Scoping, relocation, forward references and multi-table loads - the "
         "behavioural core of C11 - are NOT decided; the size of this claim is small and stated as such. "
         "Added: (R4) every Parser field written while parsing is re-initialised at the start of each table; (R5) every site that reads a method's argument count uses flags & 7. (R6) the bit offset stored for a field unit is a variable of the element loop that starts at 0 and only grows by parsed package lengths. (R7) both resolve passes find the scope block of a named target by scanning its children for the scope-block opcode, not at a fixed argument position. Round 5: parseDeferredBlocks descends into every child of every object (deferred-all-children).",
    technique="exhaustiveness / table agreement by constant folding of SSA over finite domains",
    ref="DESIGN.md section 3, C11",
)

P["C12"] = dict(
    text="Memory-safety skeleton of the AML reader: the byte reader is the only code that touches the table bytes and every one of its stores and "
         "indexes has the bounded form (inductive invariant offset, pkgEnd <= len(data)); every slice header laid over table memory has a length "
         "of one of three validated forms (found and fixed F7); every parseResult is propagated. Termination, recursion depth, absence of panics "
         "and tree well-formedness after a failed parse are not decided. "
         "Added: (R4) the merge/relocate resolve loop is bounded (pass counter, extra passes only under the bound, per-pass progress counter reset after mergeScopeDirectives has read it); (R5) an attached object is moved under a looked-up parent only after the parent's ancestor chain was compared with it (found and fixed F9: Device(AAAA.AAAA) made the tree a cycle and overflowed the stack).",
    technique="writers-of ownership + SSA dominance facts per phi edge + polynomial forms + result-use discipline",
    ref="DESIGN.md section 3, C12",
)

P["C13"] = dict(
    text="Local step of the tree invariant: link fields are written only by the five surgery methods; every sibling-link store is one of the "
         "enumerated idioms (mutual link, splice-in, guarded bypass, reset, free-list push/pop) with its partner on every path; parent first/last "
         "indices and the node's parent index are maintained; free-list reuse before growth, refusal to free objects with children, freed slots "
         "unreachable through ObjectAt. Lookup semantics of Find and the induction over histories are not decided. "
         "Added: (R4) dispatch structure of ObjectTree.Find (absolute, caret and multi-segment names use the downward-only lookup; single segments walk the parent chain comparing all name bytes). (R5) every element access and re-slicing of the path expression (and of an object's name) in Find and findRelative is proved in range by linear reasoning over the dominating tests; link-store forwarding is by value identity (a link re-read after it was overwritten is another value). Also (R4): the prefix-skipping loop of findRelative stops exactly at 'A'..'Z' and '_' (decided for all 256 byte values). Round 5: findRelative never calls Find (the downward lookup cannot fall back to the upward search).",
    technique="writers-of ownership + idiom-table pairing on all CFG paths + SSA dominance",
    ref="DESIGN.md section 3, C13",
)

P["C15"] = dict(
    text="Allocation freedom of the formatter decided as an effect analysis over its whole call closure (compiler escape diagnostics must be clean "
         "and positive, no SSA operation allocates, every kernel call site of Printf/Fprintf is free of escape diagnostics); exhaustiveness of the "
         "integer type switch over all 11 built-in integer types with matching signedness (found and fixed F2); constant relations of the scratch "
         "buffer (single initialiser of maxBufSize+1 bytes, clamped width, guarded digit loop); argument bound test and the three markers. Exact "
         "output text and 'never panics' in general are not decided. "
         "Added: (R5) every digit edge into the width variable carries 10*w + (ch - '0'). Also (R4): no function of the formatter ranges over a string (text goes out byte for byte, not as UTF-8 runes); the surplus-argument loop runs len(args) minus the arguments consumed times. Round 5: no return of Fprintf gets round the surplus-argument loop.",
    technique="effect analysis (go build -gcflags=-m escape diagnostics + allocating SSA operations over the call closure) + type-switch exhaustiveness",
    ref="DESIGN.md section 3, C15",
    note_extra="The escape analysis is the Go compiler's own (go build -gcflags=-m over /repo/kernel's working tree, offline); it compiles and does not execute the kernel.",
)

P["C19"] = dict(
    text="Guards and reachability of the console painters on all paths: range tests dominate every paint site and every scroll copy, painters are "
         "reachable only from their guarded entry point, the caller-supplied Fill rectangle never enters arithmetic before being bounded (found and "
         "fixed F5), all colour-depth switches partition identically and write no more bytes per pixel than bytesPerPixel, rows are addressed only "
         "through fbOffset (logo area). Pixel-exact rendering, padding bytes and the glyph walk's memory safety are not decided. "
         "Added: (R6) VesaFbConsole.Scroll moves by lines*GlyphHeight*pitch bytes and the fill painters receive the clipped cell rectangle scaled by the glyph size. Also (R6): each fill painter paints pH rows from fbOffset(pX, pY) in steps of the pitch, each row pW pixels of the pixel size, pW and pH being the values it was given, with no early exit. The cell grid is width/GlyphWidth by (height-offsetY)/GlyphHeight and the framebuffer slice has length and capacity height*pitch. Round 5: in Write every call of a function that (transitively) stores into a framebuffer is a paint site under the four range tests; every cell store of VgaTextConsole.Fill is inside the column loop inside the row loop.",
    technique="SSA dominance + who-may-call + unbounded-argument wrap rule + switch partition agreement + polynomial forms",
    ref="DESIGN.md section 3, C19",
)

P["C20"] = dict(
    text="Reproducibility and selection structure of the redirect scan: no append to the table or the file list under a map range (found and fixed "
         "F6), no goroutines, the scanned file set and the entry guards (FuncDecl, Doc, directive prefix) dominate the append, one entry per "
         "annotation line in source order, the recorded symbols' data flow, and order preservation through CompleteRedirects / NUM_REDIRECTS / main. "
         "That the tool finds every annotation of every tree (go/parser behaviour) is not decided. Added: (R3) a new SymbolRedirect is allocated per annotation inside the comment loop and that record is what is appended; the image writes are recognised as binary.Write or PutUint64 + Write, little-endian. The Walk callback returns only nil or the error it was handed (no SkipDir / private pruning). Round 5: no way round the file loop of FindRedirects misses parser.ParseFile.",
    technique="order-sensitivity rule (map range feeding an ordered sink) + SSA dominance + value-flow matching",
    ref="DESIGN.md section 3, C20",
)

P["C08"] = dict(
    text="Access protocol of the spinlock, in Go and in the assembly routine: the lock word is touched only by atomic primitives, try/release have "
         "the exact atomic shapes, and in archAcquireSpinlock (read through a small Plan 9 assembly CFG reader with reaching definitions) the only "
         "memory write is an atomic exchange of a non-zero immediate through the state pointer and RET is reachable only through the zero side of "
         "the test of the exchanged value. Mutual exclusion over all interleavings is a model-checking question and is NOT decided; this is the "
         "necessary access discipline it rests on. Added: every access through the state pointer in the assembly is 32 bits wide at offset 0 (a wider compare also reads what lies behind the lock word).",
    technique="writers/readers-of (atomic-only access) + shape matching + assembly CFG with reaching definitions",
    ref="DESIGN.md section 3, C08",
    note_extra="The assembly reader understands only the mnemonics that occur in spinlock_amd64.s; an unknown mnemonic in the anchored function is reported as undecided (fail-closed).",
)

P["C10"] = dict(
    text="Decoding structure of the multiboot reader: exact complement property of the type normalisation decided for all 2^32 values through "
         "interval representatives (found and fixed F3), strides taken from the block's own headers, first-match / end-tag exits of the tag scan, "
         "payload dereferenced only when present, provenance of every integer that becomes a pointer, non-empty ELF sections and RGB-only colour info. "
         "Exact decoding of all blocks, reads past the block's end and command-line splitting are not decided. Added: every iteration of the entry loop reaches the visitor (no entry is skipped) and ELF section headers are read only inside the loop bounded by numSections (nothing behind an empty table is touched); the strides are decided on the loop's induction form (cursor or offset, symbolic entry size). Round 5: the region type is an unsigned 32-bit value (entry-type-unsigned), so that the normalisation comparison covers the upper half of the range. Round 9: the defined set of region types is the four values 1..4 of the pinned tree (a fifth exported constant lets one more raw value through).",
    technique="comparison-set evaluation over interval representatives + SSA dominance + pointer provenance (taint) analysis",
    ref="DESIGN.md section 3, C10",
)

ALL = ["C%02d" % i for i in range(1, 21)]

# rules of a neighbouring property that this property's check evaluates as well (checker/imports.go)
IMPORTS = {
    "C01": "C02.R3 (exact replay of the early-boot allocations), C03.R1 (pool bitmap layout), C03.R2 (bad frees rejected), C10.R1/R2 (memory map decoded: every entry, at the bootloader's stride, unknown types reserved)",
    "C02": "C10.R1/R2 (memory map decoded: every entry, at the bootloader's stride, unknown types reserved)",
    "C03": "C02.R3 (exact replay of the early-boot allocations), C01.R4 (complete bitmap scan, one bit encoding), C10.R1/R2 (memory map decoded)",
    "C05": "C07.R1 (reservations neither overlap nor wrap), C04.R1 (Map writes exactly the requested entry), C04.R7 (paging geometry: frame bits 12..51 of an entry), C10.R5 non-empty-sections / section-reads-bounded (the ELF sections reported)",
    "C06": "C04.R1, C04.R2 (Map writes exactly the requested entry and invalidates it)",
    "C07": "C04.R6 (page count of the region helpers)",
    "C09": "C08.R1-R3 (the spinlock itself), C03.R3 (bit changes paired with counter updates), C01.R4 (complete bitmap scan)",
    "C11": "C12.R4 (resolve passes bounded, progress counted and reset)",
    "C12": "C13.R5 (index bounds in ObjectTree.Find / findRelative)",
    "C18": "C17.R4 (buffer scrolled by exactly one line and blanked), C19.R1-R6 (the shipped consoles paint exactly the addressed cells)",
}

def main():
    checks = []
    na = []
    for pid in ALL:
        e = P.get(pid)
        if not e or e.get("unclaimed"):
            na.append({"property_id": pid, "reason": (e or {}).get("unclaimed", "check not built yet in this round (see DESIGN.md section 3 for the planned rules)")})
            continue
        checks.append({
            "property_id": pid,
            "quick_cmd": "./check %s quick" % pid,
            "thorough_cmd": "./check %s thorough" % pid,
            "evidence_file": "/verif/evidence/%s.json" % pid,
            "replay_cmd_template": "cat {path}; ./check %s quick" % pid,
            "engine": "fireflycheck",
            "level_claimed": {"category": "other", "text": e["text"] + (" Also evaluates, because this property rests on them, rules of neighbouring properties: " + IMPORTS[pid] + " (a second complete analysis; DESIGN.md sections 0 and 10)." if pid in IMPORTS else ""), "design_ref": e["ref"]},
            "level_note": COMMON_NOTE + (" " + e["note_extra"] if e.get("note_extra") else ""),
            "technique": e["technique"],
        })
    m = {
        "version": 1,
        "setup_cmd": "cd /verif/checker && GOFLAGS=-mod=vendor GOPROXY=off GOSUMDB=off GOTOOLCHAIN=local GOWORK=off CGO_ENABLED=0 go build -o /verif/bin/fireflycheck .",
        "hooks": {
            "guard": "verif",
            "enable": "no hooks: the analysis reads /repo's sources as they are; nothing in /repo is instrumented or built with a tag",
            "baseline_off_cmd": "for m in kernel kbuild; do (cd /repo/$m && GOFLAGS=-mod=mod go test -vet=off -count=1 ./...); done",
            "source_commits": [],
            "add_only": True,
        },
        "engines": [{
            "name": "fireflycheck",
            "path": "/verif/checker",
            "serves_properties": [c["property_id"] for c in checks],
            "kind_free_text": "repository-specific static analyser over go/types + go/ssa (path/typestate, dominance cuts, writers-of, linear forms, effect analysis); quick = all rules on the current tree, thorough = quick + positive controls analysed through in-memory overlays",
        }],
        "checks": checks,
        "not_applicable": na,
        "notes": "All checks are static: they load and type-check /repo's working tree on every run and never execute firefly code. "
                 "Genuine defects found by the rules were repaired by fix: commits in /repo and are listed in /verif/known_findings.txt.",
    }
    with open(os.path.join(ROOT, "MANIFEST.json"), "w") as f:
        json.dump(m, f, indent=1)
        f.write("\n")
    print("claimed:", len(checks), "not_applicable:", len(na))

if __name__ == "__main__":
    main()
