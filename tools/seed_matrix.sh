#!/bin/sh
# Re-runs all 20 quick checks against every seeded change and rewrites seeded/MATRIX.md + caught_by in meta.json.
cd "$(dirname "$0")/.."
out=seeded/MATRIX.md
echo "| seed | property | checks that report it |" > $out
echo "|---|---|---|" >> $out
for d in seeded/C*-*; do
  id=$(basename $d)
  fired=$(tools/seedtest.sh $d/patch.diff 2>&1 | grep '^FIRED:' | sed 's/FIRED: *//')
  echo "| $id | ${id%-*} | $fired |" >> $out
  python3 - "$d/meta.json" "$fired" <<'PY'
import json,sys
m=json.load(open(sys.argv[1])); m['caught_by']=sys.argv[2].split(); json.dump(m,open(sys.argv[1],'w'),indent=1)
PY
  echo "$id: $fired"
done
