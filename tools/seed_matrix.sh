#!/bin/sh
# Re-runs all 20 quick checks against every seeded change (in private scratch worktrees of /repo HEAD under /tmp, in
# parallel) and rewrites seeded/MATRIX.md and the caught_by field of every meta.json.
cd "$(dirname "$0")/.."
log=$(mktemp /tmp/seedmatrix.XXXXXX)
# OWN=1: run only the check of the property each change was seeded for (a twentieth of the work)
if [ -n "${OWN:-}" ]; then
  for s in seeded/*/patch.diff; do id=$(basename $(dirname $s)); echo "$s ${id%-*}"; done | xargs -P ${JOBS:-12} -n 2 tools/par_try.sh > $log 2>&1
else
  ls seeded/*/patch.diff | xargs -P ${JOBS:-12} -n 1 tools/par_try.sh > $log 2>&1
fi
out=seeded/MATRIX.md
echo "| seed | property | checks that report it (rule of the first report) |" > $out
echo "|---|---|---|" >> $out
for d in seeded/C*-*; do
  id=$(basename $d)
  line=$(grep "^$id/patch.diff: " $log | head -1)
  fired=$(echo "$line" | sed 's/.*FIRED: *//')
  rule=$(grep -A1 "^$id/patch.diff: " $log | tail -1 | grep -o 'C[0-9][0-9]\.R[0-9]*' | head -1)
  echo "| $id | ${id%-*} | $fired ${rule:+($rule)} |" >> $out
  python3 - "$d/meta.json" "$fired" <<'PY'
import json,sys
m=json.load(open(sys.argv[1])); m['caught_by']=[x for x in sys.argv[2].split() if x!='none']; json.dump(m,open(sys.argv[1],'w'),indent=1)
PY
done
grep -c "FIRED: none" $log | sed 's/^/seeds not reported by any check: /'
awk -F'|' 'NR>2{id=$3; gsub(/ /,"",id); if (index($4,id)==0) n++} END{print "seeds not reported by the check of their own property: " n+0}' $out
rm -f $log
