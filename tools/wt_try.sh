#!/bin/sh
# usage: tools/wt_try.sh <Cxx worktree id> <patch.diff> <property> [extra fireflycheck args]
# Applies the patch in the persistent scratch worktree /tmp/wt/<id> (reset first) and runs one check verbosely.
set -u
wt=/tmp/wt/$1; patch=$(readlink -f "$2"); prop=$3; shift 3
[ -d $wt ] || git -C /repo worktree add -q --detach $wt HEAD
git -C $wt checkout -q -- . && git -C $wt clean -fdq
git -C $wt checkout -q --detach $(git -C /repo rev-parse HEAD) 2>/dev/null
( cd $wt && { git apply "$patch" 2>/dev/null || git apply --3way "$patch" >/dev/null 2>&1; } ) || exit 2
mkdir -p /tmp/vout-$prop; cp /verif/known_findings.txt /tmp/vout-$prop/
FIREFLY_REPO=$wt VERIF_ROOT=/tmp/vout-$prop ${FFC_BIN:-/verif/bin/fireflycheck} -property $prop -tier quick "$@" 2>&1 | grep -v "^C[0-9][0-9]\.R[0-9]*: " | cut -c1-700
git -C $wt checkout -q -- . && git -C $wt clean -fdq
