#!/bin/sh
# usage: tools/seedtest.sh <patch.diff> [property ids...]
# Applies a seeded change to /repo's working tree, runs the quick checks (all 20
# by default), prints which checks report a violation, and reverts the change.
set -u
cd "$(dirname "$0")/.."
patch=$1; shift
props=${*:-$(seq -f 'C%02g' 1 20)}
if ! git -C /repo diff --quiet; then echo "/repo working tree is not clean"; exit 2; fi
git -C /repo apply "$patch" || { echo "patch does not apply"; exit 2; }
fired=""
for p in $props; do
  out=$(./check $p quick 2>&1); rc=$?
  if [ $rc -ne 0 ]; then
    fired="$fired $p"
    echo "== $p exit=$rc"
    echo "$out" | grep -E "^(VIOLATION:|UNDECIDED:|ANCHOR-UNRESOLVED:|fireflycheck:)" | cut -c1-400 | head -6
  fi
done
git -C /repo checkout -- . && git -C /repo clean -fdq
echo "FIRED:${fired:- none}"
